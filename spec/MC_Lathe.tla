------------------------------ MODULE MC_Lathe ------------------------------
(***************************************************************************)
(* The lathe's ring layout as a model: np profile points, each swept into   *)
(* a ring of secs + 1 vertices (the last coinciding with the first for a    *)
(* full turn); quad strips between consecutive rings split as (p, s, q),    *)
(* (p, r, s); optional cap fans over duplicated end rings.  Profile points  *)
(* on the axis collapse their whole ring into one position (poles); a       *)
(* closed profile (torus) makes the last ring coincide with the first.      *)
(* TLC checks, for every sector / point count in range and every shape      *)
(* class, the topological half of C15 on the model: indices valid, the      *)
(* closed shapes watertight with Euler characteristic 2 (torus 0), open     *)
(* ones with boundary only on the expected rings.                           *)
(***************************************************************************)
EXTENDS Mesh

CONSTANTS MaxSecs, MaxPts

VARIABLES secs, np, shape
vars == <<secs, np, shape>>
\* shape classes: sphere-like (both ends on the axis), capped cylinder, torus (closed profile),
\* capped cone with apex on the axis, open cylinder (uncapped), capped with bottom pole
Shapes == {"sphere", "capcyl", "torus", "capcone", "opencyl"}
\* a sphere needs a ring between its poles, a torus a profile of at least a triangle
MinPts(sh) == CASE sh = "sphere" -> 3 [] sh = "torus" -> 4 [] OTHER -> 2
Init == secs \in 3..MaxSecs /\ shape \in Shapes /\ np \in MinPts(shape)..MaxPts
Next == UNCHANGED vars
Spec == Init /\ [][Next]_vars

Ring == secs + 1
Capped == shape \in {"capcyl", "capcone"}
PoleAt(j) == \/ (shape = "sphere" /\ (j = 0 \/ j = np - 1))
             \/ (shape = "capcone" /\ j = np - 1)
NRingVerts == np * Ring
\* vertex index -> position class
ClassOfRing(j, i) ==
  LET jj == IF shape = "torus" /\ j = np - 1 THEN 0 ELSE j      \* closed profile
      ii == IF PoleAt(jj) THEN 0 ELSE IF i = secs THEN 0 ELSE i   \* pole / seam
  IN jj * Ring + ii
NV == NRingVerts + (IF Capped THEN 2 * Ring ELSE 0)
Cls == [v \in 1..NV |->
          LET k == v - 1 IN
          IF k < NRingVerts THEN ClassOfRing(k \div Ring, k % Ring)
          ELSE IF k < NRingVerts + Ring THEN ClassOfRing(0, k - NRingVerts)          \* bottom cap copies ring 0
          ELSE ClassOfRing(np - 1, k - NRingVerts - Ring)]                            \* top cap copies the last ring

StripFaces ==
  LET quads == {<<j, i>> : j \in 1..(np - 1), i \in 1..secs}
      tri(q, w) == LET j == q[1]  i == q[2]
                       p == (j - 1) * Ring + i - 1  qq == (j - 1) * Ring + i
                       r == j * Ring + i - 1  s == j * Ring + i
                   IN IF w = 1 THEN <<p, s, qq>> ELSE <<p, r, s>>
  IN {tri(q, w) : q \in quads, w \in {1, 2}}
CapFaces ==
  IF ~Capped THEN {}
  ELSE LET l == NRingVerts  l2 == NRingVerts + Ring IN
       {<<l, l + i, l + i + 1>> : i \in 1..(secs - 1)} \cup {<<l2, l2 + i + 1, l2 + i>> : i \in 1..(secs - 1)}

SetToSeq(S) == LET RECURSIVE go(_) go(T) == IF T = {} THEN <<>> ELSE LET x == CHOOSE x \in T : TRUE IN <<x>> \o go(T \ {x}) IN go(S)
Model == [nv |-> NV, faces |-> SetToSeq(StripFaces \cup CapFaces), cls |-> Cls]

Topology ==
  /\ IndicesValid(Model)
  /\ shape \in {"sphere", "capcyl", "capcone"} => (Closed(Model) /\ Euler(Model) = 2)
  /\ shape = "torus" => (Closed(Model) /\ Euler(Model) = 0)
  /\ shape = "opencyl" =>
       \* boundary edges (no reverse partner) only on the first and the last ring
       \A e \in DirEdges(Model) :
         <<e[2], e[1]>> \in DirEdges(Model) \/ (e[1] < Ring /\ e[2] < Ring) \/ (e[1] >= (np - 1) * Ring /\ e[2] >= (np - 1) * Ring)
=============================================================================
