------------------------------ MODULE TV_Image ------------------------------
(* Trace validation for C01: every recorded image (env TRACE) must satisfy  *)
(* Pipeline!ImageAllowed.                                                   *)
EXTENDS Pipeline, Json, IOUtils

Rec == ndJsonDeserialize(IOEnv.TRACE)
Bad == {k \in DOMAIN Rec : ~ImageAllowed(Rec[k])}

Sample == {k \in DOMAIN Rec : k % 10 = 1}
SumOver(c) == LET f[k \in 0..Len(Rec)] == IF k = 0 THEN 0 ELSE f[k - 1] + (IF k \in Sample THEN Judged(Rec[k], c) ELSE 0) IN f[Len(Rec)]
\* (class counts on every 10th record: covered, kept, ambiguous)
ASSUME PrintT(<<"TVSTAT", Len(Rec), Len(Rec), SumOver(1), SumOver(2), SumOver(0)>>)
ASSUME \A k \in Bad : PrintT(<<"BAD", k, Rec[k].k, Rec[k].kind, Rec[k].via, Rec[k].panic,
                                IF Rec[k].panic = 0 THEN ToJson(BadPixels(Rec[k])) ELSE "panic">>)
ASSUME PrintT(<<"TVDONE", Cardinality(Bad)>>)
=============================================================================
