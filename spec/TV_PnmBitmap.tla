---------------------------- MODULE TV_PnmBitmap ----------------------------
(* Trace validation of P4 decoding (growth beyond the listed properties;    *)
(* rejections are reported as notes, see py/c13.py).                        *)
EXTENDS PnmBitmap, Json, IOUtils

Rec == ndJsonDeserialize(IOEnv.TRACE)
Bad == {k \in DOMAIN Rec : ~BAllowed(Rec[k])}

ASSUME PrintT(<<"TVSTAT", Len(Rec), Len(Rec)>>)
ASSUME \A k \in Bad : PrintT(<<"BAD", k, Rec[k].k, Why(Rec[k]), ToJson(Rec[k].res)>>)
ASSUME PrintT(<<"TVDONE", Cardinality(Bad)>>)
=============================================================================
