------------------------------- MODULE Stats -------------------------------
(***************************************************************************)
(* Growth beyond the listed properties: render::stats::Stats as an          *)
(* accumulator state machine plus its derived views and renderings.         *)
(*                                                                         *)
(* State s = [calls, frames, us, thr]: calls and frames are whole numbers   *)
(* (the code keeps them in f32), us the accumulated time in microseconds,   *)
(* thr = <<objs, prims, verts, frags>> each <<in, out>>.                    *)
(*                                                                         *)
(*   Add(s, d)        s += d: every counter adds up                         *)
(*   PerFrame(s)      counters divided by max(frames, 1) (integer division  *)
(*                    for the throughputs), time likewise, frames = 1       *)
(*   PerSec(s)        counters divided by the time in seconds (1 if zero)   *)
(*   HumanNum(n, r)   the 5-column rendering of a count                     *)
(*   Percent(i, o, r) the alternate rendering "out as % of in"              *)
(*   HumanTime(us, r) the rendering of a duration                           *)
(* Observations carry calls/frames scaled by 1000 and times in us.          *)
(***************************************************************************)
EXTENDS Integers, Sequences, TLC

Abs(x) == IF x < 0 THEN -x ELSE x
Max(a, b) == IF a >= b THEN a ELSE b

Zero == [calls |-> 0, frames |-> 0, us |-> 0, thr |-> <<<<0, 0>>, <<0, 0>>, <<0, 0>>, <<0, 0>>>>]

Add(s, d) == [calls |-> s.calls + d.calls, frames |-> s.frames + d.frames, us |-> s.us + d.us,
              thr |-> [j \in 1..4 |-> <<s.thr[j][1] + d.thr[j][1], s.thr[j][2] + d.thr[j][2]>>]]

\* the observed accumulator equals the model state exactly
SameState(s, o) == o.calls = 1000 * s.calls /\ o.frames = 1000 * s.frames /\ o.us = s.us /\ o.thr = s.thr

\* |o1000 / 1000 - num / den| <= 0.001 + 1e-5 relative, cross-multiplied
RatioOK(o1000, num, den) == Abs(o1000 * den - 1000 * num) <= den + (num \div 100) + 1

PerFrameOK(s, o) ==
  LET f == Max(s.frames, 1) IN
  /\ o.frames = 1000
  /\ RatioOK(o.calls, s.calls, f)
  /\ Abs(o.us - (s.us \div f)) <= 2 + (s.us \div 1000000)
  /\ \A j \in 1..4 : o.thr[j] = <<s.thr[j][1] \div f, s.thr[j][2] \div f>>

\* time in ms (the generator keeps times whole milliseconds): items per second = n * 1000 / ms
PerSecOK(s, o) ==
  LET ms == s.us \div 1000 IN
  /\ o.us = 1000000
  /\ IF ms = 0
     THEN /\ o.calls = 1000 * s.calls /\ o.frames = 1000 * s.frames
          /\ \A j \in 1..4 : o.thr[j] = s.thr[j]
     ELSE /\ Abs(o.calls * ms - 1000000 * s.calls) <= ms * 2 + (s.calls * 20)
          /\ Abs(o.frames * ms - 1000000 * s.frames) <= ms * 2 + (s.frames * 20)
          \* truncation towards zero of n / secs, computed in f32; floor(1000 n / ms)
          \* without leaving 32 bits
          /\ \A j \in 1..4, c \in 1..2 :
               LET n == s.thr[j][c]  r == o.thr[j][c]
                   q == (n \div ms) * 1000 + ((n % ms) * 1000) \div ms
               IN Abs(r - q) <= 1 + (q \div 200000)

\* r = [len, val10, suf, dec]: the text has len characters, shows the number val10 / 10
\* with (dec = 1) or without a decimal, followed by the suffix
HumanNum(n, r) ==
  CASE n < 1000 -> r.suf = "" /\ r.dec = 0 /\ r.val10 = 10 * n /\ r.len = 5
    [] n < 100000 -> r.suf = "k" /\ r.dec = 1 /\ Abs(r.val10 * 100 - n) <= 51 /\ r.len = 5
    [] n < 1000000 -> r.suf = "k" /\ r.dec = 0 /\ r.val10 = 10 * (n \div 1000) /\ r.len = 5
    [] n < 100000000 -> r.suf = "M" /\ r.dec = 1 /\ Abs(r.val10 * 100000 - n) <= 50100 /\ r.len = 5
    [] n < 1000000000 -> r.suf = "M" /\ r.dec = 0 /\ r.val10 = 10 * (n \div 1000000) /\ r.len = 5
    [] OTHER -> r.suf = "G" /\ r.dec = 1 /\ Abs(r.val10 - (n \div 100000000)) <= 1 /\ r.len = 5

\* r = [dash, pct10]
Percent(i, o, r) ==
  IF i = 0 THEN r.dash = 1
  ELSE r.dash = 0 /\ Abs(r.pct10 * i - 1000 * o) <= i

\* r = [unit, val10, min, sec]
HumanTime(us, r) ==
  CASE us < 1000 -> r.unit = "us" /\ Abs(r.val10 - 10 * us) <= 1
    [] us < 1000000 -> r.unit = "ms" /\ Abs(r.val10 * 100 - us) <= 51
    [] us < 60000000 -> r.unit = "s" /\ Abs(r.val10 * 100000 - us) <= 50100
    [] OTHER -> /\ r.unit = "min" /\ r.sec \in 0..59
                /\ Abs((r.min * 60 + r.sec) - (us \div 1000000)) <= 1
=============================================================================
