------------------------------ MODULE ObjPoly ------------------------------
(***************************************************************************)
(* Growth beyond the listed properties (anchored next to C14): polygonal   *)
(* face lines.  In Wavefront OBJ "f i1 i2 ... in" with n >= 3 index groups *)
(* is ONE polygon.  C14's statement speaks of triangles only, and Obj.tla  *)
(* classifies longer face lines as "other" (judged for totality and index  *)
(* safety).  This module says what a triangle-mesh loader may do with      *)
(* them: refuse the file, or triangulate the polygon as the fan            *)
(*     (i1, i2, i3), (i1, i3, i4), ..., (i1, i(n-1), in)                   *)
(* - n - 2 triangles that together use every listed index.  Keeping the    *)
(* first three groups and dropping the rest silently loses surface: `Why`  *)
(* names that outcome.  Rejections are notes (py/c14.py), never alarms.    *)
(***************************************************************************)
EXTENDS Obj

\* a face line with n >= 3 well-formed index groups: <<"poly", groups>>; every other line as in Obj
PItem(line) ==
  LET tk == Tokens(line) IN
  IF tk # <<>> /\ tk[1] = <<102>> /\ Len(tk) >= 4 /\ \A i \in 2..Len(tk) : Group(tk[i]).ok
  THEN <<"poly", [i \in 1..(Len(tk) - 1) |-> Group(tk[i + 1])]>>
  ELSE Item(line)

Fan(g) == [k \in 1..(Len(g) - 2) |-> <<g[1].pos - 1, g[k + 1].pos - 1, g[k + 2].pos - 1>>]
First3(g) == <<<<g[1].pos - 1, g[2].pos - 1, g[3].pos - 1>>>>

RECURSIVE ConcatFan(_, _), ConcatFirst3(_, _)
ConcatFan(items, ps) == IF ps = <<>> THEN <<>> ELSE Fan(items[Head(ps)][2]) \o ConcatFan(items, Tail(ps))
ConcatFirst3(items, ps) == IF ps = <<>> THEN <<>> ELSE First3(items[Head(ps)][2]) \o ConcatFirst3(items, Tail(ps))

PParsed(bs) ==
  LET ls == Lines(bs)
      it == [i \in 1..Len(ls) |-> PItem(ls[i])]
      ps == Sorted(Sel(it, "poly"))
  IN [items |-> it, polys |-> ps, nv |-> Cardinality(Sel(it, "v")),
      fan |-> ConcatFan(it, ps), first3 |-> ConcatFirst3(it, ps),
      maxn |-> IF ps = <<>> THEN 0 ELSE Len(it[ps[Len(ps)]][2])]

\* every line understood, every index refers to a listed vertex, no texture / normal indices beyond the lists
PolyWellFormed(p) ==
  /\ Sel(p.items, "other") = {}
  /\ \A k \in 1..Len(p.polys) : \A j \in 1..Len(p.items[p.polys[k]][2]) :
       LET g == p.items[p.polys[k]][2][j] IN
       g.pos >= 1 /\ g.pos <= p.nv /\ g.uv = -1 /\ g.n = -1

\* e.res as in Obj: <<"ok", verts, faces, build>> | <<"err", name>> | <<"panic", 0>>
PolyAllowed(e) ==
  LET p == PParsed(e.bytes) IN
  /\ e.res[1] # "panic"
  /\ PolyWellFormed(p) => (e.res[1] = "err" \/ (e.res[1] = "ok" /\ e.res[4] = "ok" /\ e.res[3] = p.fan))

Why(e) ==
  LET p == PParsed(e.bytes) IN
  IF e.res[1] = "panic" THEN "panic"
  ELSE IF e.res[1] = "ok" /\ e.res[3] = p.first3 THEN "polygon cut down to its first three indices"
  ELSE "other faces"
=============================================================================
