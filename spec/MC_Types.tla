------------------------------ MODULE MC_Types ------------------------------
(***************************************************************************)
(* The typing relation explored by TLC over the whole universe: every      *)
(* misuse class of the statement is inhabited, every rejected program has  *)
(* an accepted twin that differs in one argument type, and acceptance is   *)
(* invariant under a consistent renaming of the bases.  Every program is   *)
(* exported for compilation against the real crate.                        *)
(***************************************************************************)
EXTENDS Types, Json

CONSTANT Export
VARIABLES pr, ph
vars == <<pr, ph>>
Init == ph = 0 /\ pr = <<"Sin", <<<<"Angle">>>>>>
Next == ph = 0 /\ ph' = 1 /\ pr' \in Programs
Spec == Init /\ [][Next]_vars

Classes == {"add-points", "mixed-dimension-or-repr", "mixed-space", "projective-as-affine", "apply-outside-source",
            "compose-mismatch", "number-as-angle", "wrong-colour-space", "shader-output"}
Inhabited == ph = 0 => \A c \in Classes : \E q \in Programs : Class(q) = c

\* a twin: same operation, one (ternary programs: up to two) argument types replaced, accepted
HasTwin ==
  (ph = 1 /\ ~WellTyped(pr)) =>
    \E q \in Programs : /\ q[1] = pr[1] /\ Len(q[2]) = Len(pr[2]) /\ WellTyped(q)
                         \* one retagging suffices for unary / binary programs, at most two for ternary ones
                         /\ Cardinality({i \in 1..Len(pr[2]) : q[2][i] # pr[2][i]}) \in (IF Len(pr[2]) = 3 THEN {1, 2} ELSE {1})

\* renaming Model <-> World consistently does not change the verdict
\* (the named maps have no renamed counterpart: a program that mentions one is outside the claim)
Swap(x) == IF x = "Model" THEN "World" ELSE IF x = "World" THEN "Model" ELSE IF x \in Aliases THEN "~" \o x ELSE x
SwapT(t) == [i \in 1..Len(t) |-> Swap(t[i])]
SwapP(q) == <<q[1], [i \in 1..Len(q[2]) |-> SwapT(q[2][i])]>>
\* (a camera's view transform is pinned to World -> View: no renaming there)
RenamingInvariant == (ph = 1 /\ pr[1] # "CamMode") => (SwapP(pr) \in Programs => WellTyped(SwapP(pr)) = WellTyped(pr))

ExportInv == (Export /\ ph = 1) =>
  PrintT(<<"REPLAY", ToJson([op |-> pr[1], args |-> pr[2], verdict |-> IF WellTyped(pr) THEN "accept" ELSE "reject", class |-> Class(pr)])>>)
=============================================================================
