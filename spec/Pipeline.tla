------------------------------ MODULE Pipeline ------------------------------
(***************************************************************************)
(* C01 / C02.  The image a scene of clip-space triangles must produce,     *)
(* defined WITHOUT clipping or scan conversion: per pixel centre, by        *)
(* homogeneous rasterisation.                                              *)
(*                                                                         *)
(* Scene: buffer bw x bh, viewport vp = <<x0, y0, x1, y1>>, triangles with  *)
(* lattice vertices <<x, y, z, w>> (units 1/4) and integer attributes a[i]. *)
(*                                                                         *)
(* For pixel (px, py) the NDC position of its centre is (Nx/W, Ny/H) with   *)
(* Nx = 2px+1-x0-x1, W = x1-x0 (same for y); R = <<Nx*H, Ny*W, W*H>> is it   *)
(* in homogeneous form.  With v_i = (x_i, y_i, w_i):                        *)
(*    D_1 = det(R, v2, v3), D_2 = det(R, v3, v1), D_3 = det(R, v1, v2)      *)
(* the centre sees the triangle's plane inside the triangle iff the D_i     *)
(* share a sign; l_i = D_i / sum D are the perspective-correct barycentrics;*)
(* w_p = sum l_i w_i, z_p = sum l_i z_i; visible iff w_p > 0 and            *)
(* -w_p <= z_p <= w_p; reciprocal depth 1/w_p; attribute sum l_i a_i.       *)
(***************************************************************************)
EXTENDS Integers, Sequences, FiniteSets, TLC

Abs(x) == IF x < 0 THEN -x ELSE x
Sgn(x) == IF x > 0 THEN 1 ELSE IF x < 0 THEN -1 ELSE 0

Det3(r, a, b) == r[1] * (a[2] * b[3] - a[3] * b[2])
               - r[2] * (a[1] * b[3] - a[3] * b[1])
               + r[3] * (a[1] * b[2] - a[2] * b[1])

XYW(v) == <<v[1], v[2], v[4]>>

\* homogeneous NDC position of the centre of pixel (px, py)
RayOf(vp, px, py) ==
  LET W == vp[3] - vp[1]  H == vp[4] - vp[2] IN
  <<(2 * px + 1 - vp[1] - vp[3]) * H, (2 * py + 1 - vp[2] - vp[4]) * W, W * H>>

\* the three homogeneous edge functions of triangle t at ray r
DOf(t, r) == <<Det3(r, XYW(t.v[2]), XYW(t.v[3])), Det3(r, XYW(t.v[3]), XYW(t.v[1])), Det3(r, XYW(t.v[1]), XYW(t.v[2]))>>

\* linear forms of the D's
SumD(d) == d[1] + d[2] + d[3]
WNum(t, d) == d[1] * t.v[1][4] + d[2] * t.v[2][4] + d[3] * t.v[3][4]
NearNum(t, d) == d[1] * (t.v[1][4] + t.v[1][3]) + d[2] * (t.v[2][4] + t.v[2][3]) + d[3] * (t.v[3][4] + t.v[3][3])
FarNum(t, d) == d[1] * (t.v[1][4] - t.v[1][3]) + d[2] * (t.v[2][4] - t.v[2][3]) + d[3] * (t.v[3][4] - t.v[3][3])
ANum(t, d) == d[1] * t.a[1] + d[2] * t.a[2] + d[3] * t.a[3]

\* Is the triangle visible at the pixel?  (strict inequalities; boundaries are ambiguous anyway)
Visible(t, d) ==
  LET s == Sgn(SumD(d)) IN
  /\ s # 0
  /\ s * d[1] > 0 /\ s * d[2] > 0 /\ s * d[3] > 0
  /\ s * WNum(t, d) > 0
  /\ s * NearNum(t, d) > 0 /\ s * FarNum(t, d) > 0

\* Facing.  All pieces of a clipped triangle have w > 0, so the winding of a piece on the
\* screen (the viewport keeps both axes' directions) is the sign of det[x y w] of the
\* unclipped triangle: positive = "back face" (render.rs is_backface: cross > 0).
\* cull: 0 = none, 1 = back faces dropped, 2 = front faces (cross <= 0) dropped
FaceDet(t) == Det3(XYW(t.v[1]), XYW(t.v[2]), XYW(t.v[3]))
Culled(cull, t) == (cull = 1 /\ FaceDet(t) > 0) \/ (cull = 2 /\ FaceDet(t) <= 0)
CullOf(e) == IF "cull" \in DOMAIN e THEN e.cull ELSE 0
Drawn(e) == {k \in 1..Len(e.tris) : ~Culled(CullOf(e), e.tris[k])}
\* Ambiguity stays geometric: centres near an edge (or an internal fan edge) of a CULLED
\* triangle are excluded as well.  A clipped piece of (all but) zero area has no facing -
\* is_backface is false for it - so culling Back keeps it, and it may draw the pixels its
\* collapsed edges pass through (seen on scene i1-29276 of the thorough tier).

\* floor(a * 32^k / d) for a >= 0, d > 0, multiplying only remainders (32-bit safe)
RECURSIVE FracDigits(_, _, _)
FracDigits(r, d, k) == IF k = 0 THEN 0
                       ELSE LET x == r * 32 IN (x \div d) * (32 ^ (k - 1)) + FracDigits(x % d, d, k - 1)
MulPow32Div(a, d, k) == (a \div d) * (32 ^ k) + FracDigits(a % d, d, k)

\* exact values scaled like the observations: attribute * 1024, reciprocal depth * 4096
\* (w in lattice units of 1/4: 1/w_real = 4 * S / WNum)
AttrOf(t, d) == LET s == Sgn(SumD(d)) IN MulPow32Div(s * ANum(t, d), s * SumD(d), 2)
DepthOf(t, d) == LET s == Sgn(SumD(d)) IN MulPow32Div(16 * s * SumD(d), s * WNum(t, d), 2)

\* ---------------------------------------------------------------- ambiguity
\* an affine form L of the pixel position is "near zero" at the centre if the
\* centre is within 0.02 px (L1-widened) of the line L = 0
NearZero(L0, Lx, Ly) == Abs(L0) <= ((Abs(Lx - L0) + Abs(Ly - L0)) \div 50) + 1

AmbigTri(vp, t, px, py) ==
  LET d0 == DOf(t, RayOf(vp, px, py))
      dx == DOf(t, RayOf(vp, px + 1, py))
      dy == DOf(t, RayOf(vp, px, py + 1))
  IN \/ \E i \in 1..3 : NearZero(d0[i], dx[i], dy[i])                       \* a projected edge
     \/ NearZero(SumD(d0), SumD(dx), SumD(dy))
     \/ NearZero(WNum(t, d0), WNum(t, dx), WNum(t, dy))                      \* the eye plane
     \/ NearZero(NearNum(t, d0), NearNum(t, dx), NearNum(t, dy))             \* near / far crossing
     \/ NearZero(FarNum(t, d0), FarNum(t, dx), FarNum(t, dy))

\* internal edges of re-triangulated clipped polygons: segments in 1/256 px
NearSeg(sg, px, py) ==
  LET cx == 256 * px + 128  cy == 256 * py + 128
      e == (sg[3] - sg[1]) * (cy - sg[2]) - (sg[4] - sg[2]) * (cx - sg[1])
      l1 == Abs(sg[3] - sg[1]) + Abs(sg[4] - sg[2])
      lox == IF sg[1] < sg[3] THEN sg[1] ELSE sg[3]  hix == IF sg[1] < sg[3] THEN sg[3] ELSE sg[1]
      loy == IF sg[2] < sg[4] THEN sg[2] ELSE sg[4]  hiy == IF sg[2] < sg[4] THEN sg[4] ELSE sg[2]
  IN /\ cx >= lox - 8 /\ cx <= hix + 8 /\ cy >= loy - 8 /\ cy <= hiy + 8
     /\ Abs(e) <= 8 * l1 + 64

\* ---------------------------------------------------------------- the relation (C01)
\* e.img[py+1][px+1] = <<cls, attr1024, depth4096>>: cls 0 = both sentinels kept,
\* 1 = written, 2 = inconsistent (one plane changed only)
PixelOK(e, px, py) ==
  LET obs == e.img[py + 1][px + 1]
      r == RayOf(e.vp, px, py)
      ds == [k \in 1..Len(e.tris) |-> DOf(e.tris[k], r)]
      vis == {k \in Drawn(e) : Visible(e.tris[k], ds[k])}
      amb == \/ \E k \in 1..Len(e.tris) : AmbigTri(e.vp, e.tris[k], px, py)
             \/ \E j \in 1..Len(e.fan) : NearSeg(e.fan[j], px, py)
  IN amb \/
     IF vis = {} THEN obs[1] = 0
     ELSE LET dep == [k \in vis |-> DepthOf(e.tris[k], ds[k])]
              best == CHOOSE k \in vis : \A j \in vis : dep[j] <= dep[k]
              tie == \E j \in vis : j # best /\ (dep[best] - dep[j]) * 1000 <= dep[best] + 3000
              att == AttrOf(e.tris[best], ds[best])
              t == e.tris[best]
              amax == IF t.a[1] >= t.a[2] /\ t.a[1] >= t.a[3] THEN t.a[1] ELSE IF t.a[2] >= t.a[3] THEN t.a[2] ELSE t.a[3]
              amin == IF t.a[1] <= t.a[2] /\ t.a[1] <= t.a[3] THEN t.a[1] ELSE IF t.a[2] <= t.a[3] THEN t.a[2] ELSE t.a[3]
          IN IF e.kind = "col"
             THEN \* no depth plane: only pixels seen by exactly one triangle are judged
                  Cardinality(vis) > 1 \/
                  (obs[1] # 0 /\ Abs(obs[2] - att) <= ((amax - amin) * 1024) \div 200 + 3)
             ELSE tie \/
                  (/\ obs[1] = 1
                   /\ Abs(obs[2] - att) <= ((amax - amin) * 1024) \div 200 + 3
                   /\ Abs(obs[3] - dep[best]) * 500 <= dep[best] + 1500)

\* pixels outside the viewport rectangle are never touched
OutsideKept(e) ==
  LET xlo == IF e.vp[1] < e.vp[3] THEN e.vp[1] ELSE e.vp[3]  xhi == IF e.vp[1] < e.vp[3] THEN e.vp[3] ELSE e.vp[1]
      ylo == IF e.vp[2] < e.vp[4] THEN e.vp[2] ELSE e.vp[4]  yhi == IF e.vp[2] < e.vp[4] THEN e.vp[4] ELSE e.vp[2]
  IN \A py \in 0..(e.bh - 1), px \in 0..(e.bw - 1) :
       (px < xlo \/ px >= xhi \/ py < ylo \/ py >= yhi) => e.img[py + 1][px + 1][1] = 0

\* pixels of the viewport rectangle (the side planes of the frustum)
VpPixels(e) ==
  LET xlo == IF e.vp[1] < e.vp[3] THEN e.vp[1] ELSE e.vp[3]  xhi == IF e.vp[1] < e.vp[3] THEN e.vp[3] ELSE e.vp[1]
      ylo == IF e.vp[2] < e.vp[4] THEN e.vp[2] ELSE e.vp[4]  yhi == IF e.vp[2] < e.vp[4] THEN e.vp[4] ELSE e.vp[2]
  IN (xlo..(xhi - 1)) \X (ylo..(yhi - 1))

\* statistics: pixels judged as covered / as kept (not ambiguous)
PixelClass(e, px, py) ==
  LET r == RayOf(e.vp, px, py)
      amb == \/ \E k \in 1..Len(e.tris) : AmbigTri(e.vp, e.tris[k], px, py)
             \/ \E j \in 1..Len(e.fan) : NearSeg(e.fan[j], px, py)
  IN IF amb THEN 0 ELSE IF \E k \in Drawn(e) : Visible(e.tris[k], DOf(e.tris[k], r)) THEN 1 ELSE 2
Judged(e, c) == Cardinality({p \in VpPixels(e) : PixelClass(e, p[1], p[2]) = c})

\* e.win: the targets were the buffers themselves (0), windows of larger parent buffers (1) or windows
\* of windows (2); e.outw counts the parent cells outside the window that lost their sentinel: a
\* target is a window onto storage it does not own beyond its bounds
ImageAllowed(e) ==
  /\ e.panic = 0
  /\ e.outw = 0
  /\ OutsideKept(e)
  /\ \A p \in VpPixels(e) : PixelOK(e, p[1], p[2])

BadPixels(e) == {p \in VpPixels(e) : ~PixelOK(e, p[1], p[2])} \cup
                (IF OutsideKept(e) THEN {} ELSE {<<-1, -1>>})

\* ---------------------------------------------------------------- the relation (C02)
\* e.sbox: bounding box <<n, xlo, ylo, xhi, yhi>> of the n non-empty scanlines handed
\* to the target (xhi, yhi exclusive); e.tbox: the same for the pixels that differ
\* from their sentinel afterwards; e.nan: number of NaNs in the depth plane
InRect(vp, bx) ==
  LET xlo == IF vp[1] < vp[3] THEN vp[1] ELSE vp[3]  xhi == IF vp[1] < vp[3] THEN vp[3] ELSE vp[1]
      ylo == IF vp[2] < vp[4] THEN vp[2] ELSE vp[4]  yhi == IF vp[2] < vp[4] THEN vp[4] ELSE vp[2]
  IN bx[1] = 0 \/ (bx[2] >= xlo /\ bx[3] >= ylo /\ bx[4] <= xhi /\ bx[5] <= yhi)

SafeAllowed(e) ==
  /\ e.panic = 0
  /\ e.outw = 0                 \* nothing of the parent buffers outside the target window is touched
  /\ e.nan = 0
  /\ InRect(e.vp, e.sbox)
  /\ InRect(e.vp, e.tbox)
=============================================================================
