------------------------------ MODULE MC_Color ------------------------------
(***************************************************************************)
(* The 8-bit HSL algorithms as transcribed in Color, explored by TLC over  *)
(* every (first, second) channel pair with the third channel quantified    *)
(* inside the invariant (Step = 1: all 2^24 triples).                      *)
(*   RoundTrip8   rgb -> hsl -> rgb errs by at most 8 per channel          *)
(*   Total8       every hsl triple converts to channels within 0..255      *)
(*   Grays8       r = g = b gives zero saturation and keeps the lightness  *)
(***************************************************************************)
EXTENDS Color

CONSTANT Step
Vals == {v \in 0..255 : v % Step = 0} \cup {1, 127, 128, 254, 255}

VARIABLES p, q, ph
vars == <<p, q, ph>>
Init == p \in Vals /\ q = 0 /\ ph = 0
Next == ph = 0 /\ ph' = 1 /\ p' = p /\ q' \in Vals
Spec == Init /\ [][Next]_vars

RoundTrip8 ==
  ph = 1 => \A b \in Vals :
    LET hsl == ToHslInt(p, q, b)  back == ToRgbInt(hsl[1], hsl[2], hsl[3]) IN
    Abs(back[1] - p) <= 8 /\ Abs(back[2] - q) <= 8 /\ Abs(back[3] - b) <= 8
Total8 ==
  ph = 1 => \A l \in Vals :
    LET c == ToRgbInt(p, q, l) IN \A i \in 1..3 : c[i] >= 0 /\ c[i] <= 255
Grays8 ==
  ph = 1 => LET hsl == ToHslInt(p, p, p) IN hsl[2] = 0 /\ hsl[3] = p
=============================================================================
