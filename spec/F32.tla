-------------------------------- MODULE F32 --------------------------------
(***************************************************************************)
(* Exact view of IEEE-754 binary32 values for the specifications.          *)
(* A value is a tuple <<c, s, m, e>>:                                      *)
(*   c  class: 0 zero, 1 finite non-zero, 2 infinite, 3 NaN                *)
(*   s  sign bit (0 / 1)                                                   *)
(*   m  integer significand, 0 < m < 2^24 for finite non-zero              *)
(*   e  exponent: the value is (-1)^s * m * 2^e                            *)
(* The harness decodes bit patterns into this form (normalised or not);    *)
(* everything below is exact integer arithmetic.                           *)
(***************************************************************************)
EXTENDS Integers

Cls(f) == f[1]
Sgn(f) == f[2]
Man(f) == f[3]
Exp(f) == f[4]

IsZero(f) == Cls(f) = 0
IsFin(f) == Cls(f) \in {0, 1}
IsInf(f) == Cls(f) = 2
IsNaN(f) == Cls(f) = 3
IsNeg(f) == Sgn(f) = 1 /\ ~IsNaN(f)

Pow2(k) == 2 ^ k            \* 0 <= k <= 30

\* |f| < 2^31 (finite)
Below31(f) ==
  \/ IsZero(f)
  \/ Cls(f) = 1 /\ (Exp(f) <= 7 \/ (Exp(f) <= 30 /\ Man(f) < Pow2(31 - Exp(f))))

\* floor of a finite value of magnitude < 2^31, as an integer
Floor(f) ==
  IF IsZero(f) THEN 0
  ELSE IF Exp(f) >= 0 THEN (IF Sgn(f) = 1 THEN -1 ELSE 1) * Man(f) * Pow2(Exp(f))
  ELSE LET k == -Exp(f)
           q == IF k >= 24 THEN 0 ELSE Man(f) \div Pow2(k)
           exact == k < 24 /\ Man(f) % Pow2(k) = 0
       IN IF Sgn(f) = 0 THEN q ELSE IF exact THEN -q ELSE -(q + 1)

\* truncation toward zero
Trunc(f) ==
  IF IsZero(f) THEN 0
  ELSE IF Exp(f) >= 0 THEN (IF Sgn(f) = 1 THEN -1 ELSE 1) * Man(f) * Pow2(Exp(f))
  ELSE LET k == -Exp(f)
           q == IF k >= 24 THEN 0 ELSE Man(f) \div Pow2(k)
       IN IF Sgn(f) = 0 THEN q ELSE -q

IsInteger(f) == IsZero(f) \/ (Cls(f) = 1 /\ (Exp(f) >= 0 \/ (-Exp(f) < 24 /\ Man(f) % Pow2(-Exp(f)) = 0)))

\* f >= 0 (including -0.0), f not NaN
NonNeg(f) == ~IsNaN(f) /\ (Sgn(f) = 0 \/ IsZero(f))
=============================================================================
