------------------------------ MODULE TV_Float ------------------------------
(* Trace validation for C20: every call recorded by floatprobe (env TRACE)  *)
(* must satisfy Float!Allowed.                                              *)
EXTENDS Float, Json, IOUtils

Rec == ndJsonDeserialize(IOEnv.TRACE)
Bad == {k \in DOMAIN Rec : ~Allowed(Rec[k])}

ASSUME PrintT(<<"TVSTAT", Len(Rec), Len(Rec)>>)
ASSUME \A k \in Bad : PrintT(<<"BAD", k, Rec[k].be, Rec[k].op, ToJson(Rec[k])>>)
ASSUME PrintT(<<"TVDONE", Cardinality(Bad)>>)
=============================================================================
