-------------------------------- MODULE Clip --------------------------------
(***************************************************************************)
(* C03.  Clipping a triangle against the view frustum, as a relation       *)
(* between a lattice clip-space triangle and the observed output           *)
(* triangles.                                                              *)
(*                                                                         *)
(* Input vertex i: <<x, y, z, w>> in lattice units, attribute components   *)
(* a[i][c] (integers).  Plane distances are linear in the barycentric      *)
(* coordinates of a point of the triangle, so a point is described by its  *)
(* barycentrics <<b1, b2, b3>> scaled by B (sum = B up to rounding):       *)
(*                                                                         *)
(*   inside the frustum  <=>  for each of the six planes p,                *)
(*                            sum_i b_i * Dist(p, v_i) >= 0                *)
(*                            (Dist >= 0 means inside: w+z, w-z, w+x, ...) *)
(*                                                                         *)
(* Output vertex (as recorded): <<b1, b2, b3, res, <<attr * AS ...>>>>     *)
(* where b is the least-squares barycentric solution computed by the       *)
(* harness and res the residual (scaled by B) of that solution.            *)
(***************************************************************************)
EXTENDS Integers, Sequences, FiniteSets, TLC

B == 16384        \* barycentric scale
AS == 1024        \* attribute scale
N == 8            \* sampling grid: barycentrics k/N
Abs(x) == IF x < 0 THEN -x ELSE x

\* near, far, left, right, bottom, top — inside iff value >= 0
Dist(p, v) ==
  CASE p = 1 -> v[4] + v[3] [] p = 2 -> v[4] - v[3]
    [] p = 3 -> v[4] + v[1] [] p = 4 -> v[4] - v[1]
    [] p = 5 -> v[4] + v[2] [] OTHER -> v[4] - v[2]
Planes == 1..6

\* B * (plane distance) at the point with scaled barycentrics b
DistAt(t, p, b) == b[1] * Dist(p, t[1]) + b[2] * Dist(p, t[2]) + b[3] * Dist(p, t[3])
MaxD(t) == LET S == {Abs(Dist(p, t[i])) : p \in Planes, i \in 1..3} IN CHOOSE x \in S : \A y \in S : x >= y

\* classification of the whole triangle
AllInside(t) == \A p \in Planes, i \in 1..3 : Dist(p, t[i]) >= 0
OutsideOne(t) == \E p \in Planes : \A i \in 1..3 : Dist(p, t[i]) < 0

\* tolerance on B-scaled distances: 1e-3 of the largest distance, plus the
\* rounding of the recorded barycentrics
TolD(t) == (B * MaxD(t)) \div 1000 + 3 * MaxD(t) + 1
TolB == (B \div 1000) + 2

Feasible(t, td, b) ==
  /\ \A p \in Planes : DistAt(t, p, b) >= -td
  /\ \A i \in 1..3 : b[i] >= -TolB
  /\ Abs(b[1] + b[2] + b[3] - B) <= 3 * TolB

\* strictly feasible / infeasible with a clear margin (5 tolerances)
ClearlyIn(t, td, b) ==
  /\ \A p \in Planes : DistAt(t, p, b) > 5 * td
  /\ \A i \in 1..3 : b[i] > 5 * TolB
ClearlyOut(t, td, b) ==
  \/ \E p \in Planes : DistAt(t, p, b) < -5 * td
  \/ \E i \in 1..3 : b[i] < -5 * TolB

\* 2D edge function in barycentric coordinates (b1, b2): orientation of an
\* output triangle relative to the input triangle (positive = same winding)
E2(p, q, g) == (q[1] - p[1]) * (g[2] - p[2]) - (q[2] - p[2]) * (g[1] - p[1])
\* keep products within 32 bits: coordinates are divided by 4 first
Q4(b) == <<b[1] \div 4, b[2] \div 4>>
Orient(tri) == E2(Q4(tri[1]), Q4(tri[2]), Q4(tri[3]))
\* g inside output triangle tri, with slack s (in units of the edge function)
InTri(tri, g, s) ==
  LET a == Q4(tri[1]) b == Q4(tri[2]) c == Q4(tri[3]) h == Q4(g) IN
  /\ E2(a, b, h) >= -s /\ E2(b, c, h) >= -s /\ E2(c, a, h) >= -s
StrictlyInTri(tri, g, s) ==
  LET a == Q4(tri[1]) b == Q4(tri[2]) c == Q4(tri[3]) h == Q4(g) IN
  /\ E2(a, b, h) > s /\ E2(b, c, h) > s /\ E2(c, a, h) > s

GridPts == {<<i * (B \div N), j * (B \div N), (N - i - j) * (B \div N)>> : <<i, j>> \in {ij \in (0..N) \X (0..N) : ij[1] + ij[2] <= N}}

\* finer grid, used only when nothing at all was output
N2 == 48
FinePts == {<<i * (B \div N2), j * (B \div N2), B - (i + j) * (B \div N2)>> : <<i, j>> \in {ij \in (1..N2) \X (1..N2) : ij[1] + ij[2] < N2}}

Slack == 40000       \* ~ one tolerance of barycentric error times an edge length, in E2 units

\* ---------------------------------------------------------------- relation
\* e.t: input triangle (three lattice vertices), e.a: attributes a[i][c],
\* e.out: sequence of output triangles, each a sequence of three recorded vertices
\* e.same = 1 iff the output is exactly (bit for bit) the single input triangle
\* e.batch = 1 iff clipping it inside a batch gave bit-identical results
\* e.sc: the call was made with all homogeneous coordinates multiplied by 2^sc.  The
\* frustum is a cone (every plane passes through the origin of clip space), so the
\* inside part of a triangle, in barycentric terms, does not depend on sc: the relation
\* below deliberately never mentions it.
\* e.po: 0 = view_frustum::clip; k > 0 = the public Clip::clip with the six planes in another order.
\* An intersection of half-spaces does not depend on the order either.
Tight(t, td, P, Q) ==
  \* both ends on the same constraint boundary: an input edge or a clip plane
  \/ \E i \in 1..3 : Abs(P[i]) <= 4 * TolB /\ Abs(Q[i]) <= 4 * TolB
  \/ \E p \in Planes : Abs(DistAt(t, p, P)) <= 4 * td /\ Abs(DistAt(t, p, Q)) <= 4 * td

SameVtx(P, Q) == P[1] = Q[1] /\ P[2] = Q[2] /\ P[3] = Q[3]
EdgesOf(out) == {<<k, i>> : k \in 1..Len(out), i \in 1..3}
From(out, ed) == out[ed[1]][ed[2]]
To(out, ed) == out[ed[1]][(ed[2] % 3) + 1]
\* an edge is internal if another output triangle has the reverse edge
Internal(out, ed) ==
  \E f \in EdgesOf(out) : f[1] # ed[1] /\ SameVtx(From(out, f), To(out, ed)) /\ SameVtx(To(out, f), From(out, ed))
DegenerateEdge(out, ed) == SameVtx(From(out, ed), To(out, ed))

Allowed(e) ==
  LET t == e.t  out == e.out  td == TolD(e.t)  edges == EdgesOf(e.out) IN
  /\ e.panic = 0
  \* a triangle wholly inside is emitted unchanged; wholly outside one plane: nothing
  /\ AllInside(t) => e.same = 1
  /\ OutsideOne(t) => Len(out) = 0
  \* independent of the other triangles clipped in the same call
  /\ e.batch = 1
  \* every output vertex: a point of the input triangle, inside the frustum, attribute on the linear field
  /\ \A k \in 1..Len(out), i \in 1..3 :
       LET P == out[k][i] IN
       /\ P[4] <= TolB                                           \* residual of the barycentric solve
       /\ Feasible(t, td, P)
       /\ \A c \in 1..Len(P[5]) :
            LET lin == P[1] * e.a[1][c] + P[2] * e.a[2][c] + P[3] * e.a[3][c]     \* B * attribute
                amax == LET S == {Abs(e.a[j][c]) : j \in 1..3} IN CHOOSE x \in S : \A y \in S : x >= y
            IN Abs(P[5][c] * (B \div AS) - lin) <= (B \div AS) + 3 * amax + (B * amax) \div 5000
  \* every output keeps the input's winding (or is degenerate)
  /\ \A k \in 1..Len(out) : Orient(out[k]) >= -Slack
  \* the boundary of the union of the outputs lies on constraint boundaries:
  \* together with feasibility this makes the union the whole inside part
  /\ \A ed \in edges :
       DegenerateEdge(out, ed) \/ Tight(t, td, From(out, ed), To(out, ed)) \/ Internal(out, ed)
  \* sampled membership: clearly-inside points are covered, clearly-outside points are not,
  \* and no point lies strictly inside two outputs
  /\ \A g \in GridPts :
       /\ ClearlyIn(t, td, g) => \E k \in 1..Len(out) : InTri(out[k], g, Slack)
       /\ ClearlyOut(t, td, g) => \A k \in 1..Len(out) : ~StrictlyInTri(out[k], g, Slack)
       /\ Cardinality({k \in 1..Len(out) : StrictlyInTri(out[k], g, Slack)}) <= 1
  \* nothing output at all: then no sampled point may be clearly inside
  /\ Len(out) = 0 => \A g \in FinePts : ~ClearlyIn(t, td, g)
=============================================================================
