-------------------------------- MODULE Mesh --------------------------------
(***************************************************************************)
(* C15.  Predicates on a triangle mesh given as                            *)
(*   nv     number of vertices                                             *)
(*   faces  sequence of index triples (0-based)                            *)
(*   cls    position class of every vertex (coincident vertices share one) *)
(*   fdeg   per face: 1 if geometrically degenerate (zero area)            *)
(*   fsign  per face: +1 / -1, the side of the face normal relative to the *)
(*          outward reference direction (0 for degenerate faces)           *)
(*   fnok   per face: 1 if the vertex normals of its three corners lie on  *)
(*          the side of its geometric normal                               *)
(*   vnlen  per vertex: 1 if its normal has unit length (1e-3)             *)
(*   vsurf  per vertex: 1 if it lies on the intended surface               *)
(***************************************************************************)
EXTENDS Integers, Sequences, FiniteSets, TLC

NF(m) == Len(m.faces)
ClsOf(m, f, i) == m.cls[m.faces[f][i] + 1]

IndicesValid(m) == \A f \in 1..NF(m), i \in 1..3 : m.faces[f][i] >= 0 /\ m.faces[f][i] < m.nv

\* faces with three distinct position classes (pole triangles and the like are dropped)
Proper(m) == {f \in 1..NF(m) : ClsOf(m, f, 1) # ClsOf(m, f, 2) /\ ClsOf(m, f, 2) # ClsOf(m, f, 3) /\ ClsOf(m, f, 1) # ClsOf(m, f, 3)}
DirEdges(m) == UNION {{<<ClsOf(m, f, 1), ClsOf(m, f, 2)>>, <<ClsOf(m, f, 2), ClsOf(m, f, 3)>>, <<ClsOf(m, f, 3), ClsOf(m, f, 1)>>} : f \in Proper(m)}

\* watertight: every directed edge occurs exactly once, and so does its reverse
Closed(m) ==
  LET E == DirEdges(m) IN
  /\ Cardinality(E) = 3 * Cardinality(Proper(m))          \* no directed edge twice
  /\ \A e \in E : <<e[2], e[1]>> \in E                      \* each edge shared in the opposite direction

Euler(m) ==
  LET E == DirEdges(m)
      V == {e[1] : e \in E}
  IN Cardinality(V) - (Cardinality(E) \div 2) + Cardinality(Proper(m))

\* a face that is a proper triangle topologically must not be a sliver geometrically, and vice versa
\* only in the direction that matters: a dropped (improper) face has no area
WindingConsistent(m) ==
  \A f \in 1..NF(m), g \in 1..NF(m) : (m.fdeg[f] = 0 /\ m.fdeg[g] = 0) => m.fsign[f] = m.fsign[g]
NormalsOK(m) ==
  /\ \A v \in 1..m.nv : m.vnlen[v] = 1
  /\ \A f \in 1..NF(m) : m.fdeg[f] = 0 => m.fnok[f] = 1
OnSurface(m) == \A v \in 1..m.nv : m.vsurf[v] = 1

\* A solid of unit radius with a very large segment count (e.big): judged on a summary - every index valid, the
\* whole extent along the axis reached (the cylinder from -1 to 1, the sphere from pole to pole), every vertex
\* at unit distance from the axis (sphere: at most; from the centre: exactly), unit normals.  Scale 1024.
BigAllowed(e) ==
  /\ e.panic = 0 /\ e.idxok = 1 /\ e.nbadn = 0
  /\ e.nf >= 2 * e.segs /\ e.nv >= e.segs              \* (at least one strip of quads along the axis)
  /\ e.ymin >= -1026 /\ e.ymin <= -1022 /\ e.ymax >= 1022 /\ e.ymax <= 1026
  /\ e.rhi >= 1022 /\ e.rhi <= 1026 /\ (e.solid = "cylinder" => e.rlo >= 1022) /\ (e.solid = "sphere" => e.rlo >= 1022)

\* e.closed = 1 for the solids the statement lists as watertight; e.euler their Euler characteristic
Allowed(e) ==
  /\ e.panic = 0
  /\ IndicesValid(e)
  /\ NormalsOK(e)
  /\ WindingConsistent(e)
  /\ OnSurface(e)
  /\ e.closed = 1 => (Closed(e) /\ Euler(e) = e.euler
                      /\ \A f \in Proper(e) : e.fdeg[f] = 0)      \* no zero-area face among the proper ones
=============================================================================
