------------------------------ MODULE TV_MeshB ------------------------------
(* Trace validation of the mesh builder (growth; rejections are notes, see  *)
(* py/c15.py): each record is one history, folded through MeshB!Apply.      *)
EXTENDS MeshB, Json, IOUtils, SequencesExt

Rec == ndJsonDeserialize(IOEnv.TRACE)
Step(acc, e) ==
  IF acc.bad # 0 \/ acc.over THEN acc
  ELSE IF Allowed(acc.s, e)
       THEN [s |-> Apply(acc.s, e), i |-> acc.i + 1, bad |-> 0, over |-> e.panic = 1 \/ e.op = "build"]
       ELSE [s |-> acc.s, i |-> acc.i + 1, bad |-> acc.i + 1, over |-> TRUE]
Run(h) == FoldLeft(Step, [s |-> Init0, i |-> 0, bad |-> 0, over |-> FALSE], h)
Verdicts == [k \in DOMAIN Rec |-> Run(Rec[k].evs)]
Bad == {k \in DOMAIN Rec : Verdicts[k].bad # 0}
NEv == FoldLeft(LAMBDA a, r : a + Len(r.evs), 0, Rec)
ASSUME PrintT(<<"TVSTAT", Len(Rec), NEv>>)
ASSUME \A k \in Bad : PrintT(<<"BAD", k, Rec[k].k, Verdicts[k].bad, ToJson(Rec[k].evs[Verdicts[k].bad])>>)
ASSUME PrintT(<<"TVDONE", Cardinality(Bad)>>)
=============================================================================
