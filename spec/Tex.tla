-------------------------------- MODULE Tex --------------------------------
(***************************************************************************)
(* C12.  Texture samplers as a relation between a texture size, an f32     *)
(* coordinate pair and the texel addressed.  Texels are identified by      *)
(* their (x, y) position inside the texture's own window; a read outside   *)
(* the window (possible for a sub-region texture) shows as (-1, -1).       *)
(***************************************************************************)
EXTENDS F32, Integers, Sequences, FiniteSets, TLC

\* admissible texel indices along one axis of extent n for coordinate c
RepeatIdx(c, n) == IF IsFin(c) /\ Below31(c) THEN {Floor(c) % n} ELSE 0..(n - 1)

ClampIdx(c, n) ==
  IF IsNaN(c) THEN 0..(n - 1)
  ELSE IF IsNeg(c) \/ IsZero(c) THEN {0}
  ELSE IF IsInf(c) \/ ~Below31(c) THEN {n - 1}
  ELSE LET f == Floor(c) IN {IF f >= n - 1 THEN n - 1 ELSE f}

InRange(c, n) == IsFin(c) /\ NonNeg(c) /\ Below31(c) /\ Floor(c) < n
OnceIdx(c, n) == IF InRange(c, n) THEN {Floor(c)} ELSE 0..(n - 1)

\* res = <<"texel", x, y>> | <<"panic", 0, 0>>
AbsAllowed(smp, w, h, u, v, res) ==
  CASE smp = "repeat" -> res[1] = "texel" /\ res[2] \in RepeatIdx(u, w) /\ res[3] \in RepeatIdx(v, h)
    [] smp = "clamp"  -> res[1] = "texel" /\ res[2] \in ClampIdx(u, w) /\ res[3] \in ClampIdx(v, h)
    [] smp = "once"   -> IF InRange(u, w) /\ InRange(v, h)
                         THEN res = <<"texel", Floor(u), Floor(v)>>
                         ELSE TRUE           \* unspecified outside the texture
    [] OTHER -> FALSE

\* e.op = "abs": sample_abs(uv(u, v));  e.op = "rel": sample(uv(tu, tv)) where
\* (u, v) is the f32 product (w * tu, h * tv) formed by the harness
Allowed(e) == AbsAllowed(e.smp, e.w, e.h, e.u, e.v, e.res)

\* In range the three samplers address the same texel
AgreeInRange(w, h, u, v) ==
  (InRange(u, w) /\ InRange(v, h)) =>
     /\ RepeatIdx(u, w) = OnceIdx(u, w) /\ ClampIdx(u, w) = OnceIdx(u, w)
     /\ RepeatIdx(v, h) = OnceIdx(v, h) /\ ClampIdx(v, h) = OnceIdx(v, h)

\* every admissible answer is a texel of the texture
Inside(w, h, u, v) ==
  /\ RepeatIdx(u, w) \cup ClampIdx(u, w) \cup OnceIdx(u, w) \subseteq 0..(w - 1)
  /\ RepeatIdx(v, h) \cup ClampIdx(v, h) \cup OnceIdx(v, h) \subseteq 0..(h - 1)
=============================================================================
