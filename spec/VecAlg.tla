------------------------------- MODULE VecAlg -------------------------------
(***************************************************************************)
(* Growth beyond the listed properties (DESIGN §8): the vector / point     *)
(* algebra of core/src/math/vec.rs, point.rs and approx.rs on lattice      *)
(* vectors, where every operation is exact.                                *)
(*                                                                         *)
(* A record is one call: e.op, e.ty ("v2" "v3" Vec2/Vec3 of f32, "v3i"     *)
(* Vec3i, "p2" "p3" points), operands e.a e.b e.c (integer sequences; the  *)
(* real components are these times 2^-e.s, exact in f32), a small integer  *)
(* e.n, and the observed e.res scaled back to integers by the recorder     *)
(* (linear results by 2^s, products by 2^2s, quotients and lerp see        *)
(* below).  Expected(e) is the same thing computed on the integers.        *)
(***************************************************************************)
EXTENDS Integers, Sequences, FiniteSets, TLC

Abs(x) == IF x < 0 THEN -x ELSE x
Max2(a, b) == IF a >= b THEN a ELSE b
Min2(a, b) == IF a <= b THEN a ELSE b
Pow2(n) == 2 ^ n
N(a) == Len(a)
VAdd(a, b) == [i \in 1..N(a) |-> a[i] + b[i]]
VSub(a, b) == [i \in 1..N(a) |-> a[i] - b[i]]
VNeg(a) == [i \in 1..N(a) |-> -a[i]]
VMul(a, k) == [i \in 1..N(a) |-> a[i] * k]
RECURSIVE DotFrom(_, _, _)
DotFrom(a, b, i) == IF i > N(a) THEN 0 ELSE a[i] * b[i] + DotFrom(a, b, i + 1)
Dot(a, b) == DotFrom(a, b, 1)
Cross(a, b) == <<a[2] * b[3] - a[3] * b[2], a[3] * b[1] - a[1] * b[3], a[1] * b[2] - a[2] * b[1]>>
Clamp(a, lo, hi) == [i \in 1..N(a) |-> IF a[i] < lo[i] THEN lo[i] ELSE IF a[i] > hi[i] THEN hi[i] ELSE a[i]]
\* a.lerp(b, k/2), doubled
Lerp2(a, b, k) == [i \in 1..N(a) |-> 2 * a[i] + k * (b[i] - a[i])]
\* approx_eq_eps with eps = 2^-j on components x * 2^-s:  |a - b| <= eps * max(|a|, 1)  (the FIRST operand sets the scale)
ApproxC(x, y, j, s) == Abs(x - y) * Pow2(j) <= Max2(Abs(x), Pow2(s))
Approx(a, b, j, s) == \A i \in 1..N(a) : ApproxC(a[i], b[i], j, s)
B2I(p) == IF p THEN 1 ELSE 0

Expected(e) ==
  CASE e.op \in {"add", "addassign", "ptadd", "affadd"} -> VAdd(e.a, e.b)
    [] e.op \in {"sub", "subassign", "ptsub", "ptdiff", "affsub"} -> VSub(e.a, e.b)
    [] e.op = "neg" -> VNeg(e.a)
    [] e.op \in {"muls", "mulassign", "smul"} -> VMul(e.a, e.n)
    \* division by +-2^j (e.n = +-1 carries the sign; the recorder scales back by 2^(s + j))
    [] e.op \in {"divs", "divassign"} -> VMul(e.a, e.n)
    [] e.op = "dot" -> <<Dot(e.a, e.b)>>
    [] e.op = "lensq" -> <<Dot(e.a, e.a)>>
    [] e.op = "distsq" -> <<Dot(VSub(e.a, e.b), VSub(e.a, e.b))>>
    [] e.op = "cross" -> Cross(e.a, e.b)
    [] e.op = "clamp" -> Clamp(e.a, e.b, e.c)
    [] e.op = "sum3" -> VAdd(VAdd(e.a, e.b), e.c)
    [] e.op = "index" -> <<e.a[e.n + 1]>>
    [] e.op \in {"xyz", "toptvec", "tovecpt", "retag", "fromarr"} -> e.a
    [] e.op = "splat" -> [i \in 1..N(e.a) |-> e.n]
    [] e.op = "lerp" -> Lerp2(e.a, e.b, e.n)
    [] e.op = "approx" -> <<B2I(Approx(e.a, e.b, e.n, e.s))>>
    [] e.op = "eq" -> <<B2I(e.a = e.b)>>
    [] OTHER -> <<>>

Known(e) == e.op \in {"add", "addassign", "ptadd", "affadd", "sub", "subassign", "ptsub", "ptdiff", "affsub", "neg", "muls",
                      "mulassign", "smul", "divs", "divassign", "dot", "lensq", "distsq", "cross", "clamp", "sum3", "index",
                      "xyz", "toptvec", "tovecpt", "retag", "fromarr", "splat", "lerp", "approx", "eq"}
Allowed(e) == Known(e) /\ e.panic = 0 /\ e.res = Expected(e)
=============================================================================
