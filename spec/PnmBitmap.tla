----------------------------- MODULE PnmBitmap -----------------------------
(***************************************************************************)
(* Growth beyond the listed properties (anchored next to C13): binary PBM  *)
(* ("P4") decoding.  C13's statement only asks P4 input to be decoded       *)
(* totally; this module says WHICH image a P4 file denotes, following the  *)
(* Netpbm definition: a header of magic, width and height (no maxval), one *)
(* whitespace byte, then height rows of ceil(width / 8) bytes each, most   *)
(* significant bit first, the unused low bits of a row's last byte being    *)
(* padding; bit 1 is black (0), bit 0 is white (255).                      *)
(*   PixStd(bs, hd)     the image of the definition (padded rows)          *)
(*   PixPacked(bs, hd)  the image read if rows are NOT padded (what a      *)
(*                      decoder that streams bits produces); equal to      *)
(*                      PixStd exactly when the width is a multiple of 8   *)
(*                      or there is a single row                           *)
(*   BBAllowed(e)        relation on one observed parse call                *)
(* Rejections are reported as notes by py/c13.py, never as alarms.         *)
(***************************************************************************)
EXTENDS Pnm

Header4(bs) ==
  LET fw == Field(bs, 3)
      fh == Field(bs, fw.next)
  IN [ok |-> Len(bs) >= 2 /\ bs[1] = 80 /\ bs[2] = 52 /\ fw.ok /\ fh.ok,
      w |-> fw.val, h |-> fh.val, next |-> fh.next]

RowBytes(w) == (w + 7) \div 8
Pow2(i) == CASE i = 0 -> 1 [] i = 1 -> 2 [] i = 2 -> 4 [] i = 3 -> 8 [] i = 4 -> 16 [] i = 5 -> 32 [] i = 6 -> 64 [] OTHER -> 128
BitOf(byte, i) == (byte \div Pow2(i)) % 2          \* bit i, 0 = least significant
Sample(bit) == (1 - bit) * 255

\* sample of pixel (x, y), 0-based, rows padded to whole bytes; p = position of the byte before the data
StdBit(bs, p, w, x, y) == BitOf(bs[p + 1 + y * RowBytes(w) + (x \div 8)], 7 - (x % 8))
PackedBit(bs, p, w, x, y) == LET k == y * w + x IN BitOf(bs[p + 1 + (k \div 8)], 7 - (k % 8))

PixStd(bs, hd) ==
  [i \in 1..(3 * hd.w * hd.h) |->
     LET k == (i - 1) \div 3 IN Sample(StdBit(bs, hd.next, hd.w, k % hd.w, k \div hd.w))]
PixPacked(bs, hd) ==
  [i \in 1..(3 * hd.w * hd.h) |->
     LET k == (i - 1) \div 3 IN Sample(PackedBit(bs, hd.next, hd.w, k % hd.w, k \div hd.w))]

Small4(hd) == hd.w >= 1 /\ hd.h >= 1 /\ hd.w <= 64 /\ hd.h <= 64
Complete4(bs, hd) == hd.next <= Len(bs) /\ Len(bs) - hd.next >= RowBytes(hd.w) * hd.h
Aligned(hd) == hd.w % 8 = 0 \/ hd.h = 1

\* e.res as in Pnm: <<"ok", w, h, npix, pix>> | <<"err", name>> | <<"panic", 0>>
\* e.cls names which clause failed first (for the note): computed by Why below
BAllowed(e) ==
  LET hd == Header4(e.bytes) IN
  /\ e.res[1] # "panic"
  /\ e.res[1] = "ok" => e.res[4] = e.res[2] * e.res[3]
  /\ (hd.ok /\ Small4(hd) /\ Complete4(e.bytes, hd)) =>
       /\ e.res[1] = "ok" /\ e.res[2] = hd.w /\ e.res[3] = hd.h
       /\ e.res[5] = PixStd(e.bytes, hd)
  \* a file that ends before the last row cannot be an image of the stated size
  /\ (hd.ok /\ Small4(hd) /\ (hd.next > Len(e.bytes) \/ 8 * (Len(e.bytes) - hd.next) < hd.w * hd.h)) => e.res[1] = "err"

Why(e) ==
  LET hd == Header4(e.bytes) IN
  IF e.res[1] = "panic" THEN "panic"
  ELSE IF e.res[1] = "ok" /\ e.res[4] # e.res[2] * e.res[3] THEN "count"
  ELSE IF ~(hd.ok /\ Small4(hd)) THEN "other"
  ELSE IF ~Complete4(e.bytes, hd) THEN "short file accepted"
  ELSE IF e.res[1] # "ok" THEN "complete file refused"
  ELSE IF e.res[2] # hd.w \/ e.res[3] # hd.h THEN "dims"
  ELSE IF Aligned(hd) THEN "pixels (aligned rows)"
  ELSE IF e.res[5] = PixPacked(e.bytes, hd) THEN "rows read without padding"
  ELSE "pixels (padded rows)"
=============================================================================
