------------------------------ MODULE TV_BatchB ------------------------------
(* Trace validation for the batch builder (growth, reported under C07):    *)
(* every recorded history (env TRACE) must satisfy BatchB!Allowed.          *)
EXTENDS BatchB, Json, IOUtils

Rec == ndJsonDeserialize(IOEnv.TRACE)
\* a record with a field "compiled" is a program handed to the compiler on its own: it compiles iff every
\* call in it is offered by the typestate
IsProg(e) == "compiled" \in DOMAIN e
ProgAllowed(e) == e.compiled = (IF Run(e.ops, 1, B0, W0, <<>>).ok THEN 1 ELSE 0)
Bad == {k \in DOMAIN Rec : IF IsProg(Rec[k]) THEN ~ProgAllowed(Rec[k]) ELSE ~Allowed(Rec[k])}
NOps == LET RECURSIVE S(_) S(k) == IF k > Len(Rec) THEN 0 ELSE Len(Rec[k].ops) + S(k + 1) IN S(1)
Why(e) == LET r == Run(e.ops, 1, B0, W0, <<>>) IN
  IF IsProg(e) THEN "typestate" ELSE IF ~r.ok THEN "not-offered" ELSE IF e.panics # r.pan THEN "panics" ELSE IF e.ref # r.w.draws THEN "reference"
  ELSE IF e.same # <<1, 1>> THEN "picture" ELSE "statistics"

ASSUME PrintT(<<"TVSTAT", Len(Rec), NOps>>)
ASSUME \A k \in Bad : PrintT(<<"BAD", k, Rec[k].k, Why(Rec[k]), ToJson(Rec[k])>>)
ASSUME PrintT(<<"TVDONE", Cardinality(Bad)>>)
=============================================================================
