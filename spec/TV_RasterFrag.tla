---------------------------- MODULE TV_RasterFrag ----------------------------
(* Trace validation for C05: every fragment of every recorded tri_fill call  *)
(* on the small lattices (c05 = 1) must satisfy Raster!FragAllowed.          *)
EXTENDS Raster, Json, IOUtils

Rec == ndJsonDeserialize(IOEnv.TRACE)
Judged == {k \in DOMAIN Rec : Rec[k].c05 \in {1, 2}}
Bad == {k \in Judged : IF Rec[k].c05 = 1 THEN ~FragAllowed(Rec[k]) ELSE ~FragPosAllowed(Rec[k])}
NFrag == LET f[k \in 0..Len(Rec)] ==
               IF k = 0 THEN 0
               ELSE f[k - 1] + (IF k \in Judged
                                THEN LET r == Rec[k].rows
                                         g[i \in 0..Len(r)] == IF i = 0 THEN 0 ELSE g[i - 1] + r[i][4]
                                     IN g[Len(r)]
                                ELSE 0)
         IN f[Len(Rec)]

ASSUME PrintT(<<"TVSTAT", Cardinality(Judged), NFrag>>)
ASSUME \A k \in Bad : PrintT(<<"BAD", k, Rec[k].k, Rec[k].s, ToJson(Rec[k].v), ToJson(Rec[k].Z), Rec[k].ty>>)
ASSUME PrintT(<<"TVDONE", Cardinality(Bad)>>)
=============================================================================
