------------------------------- MODULE MeshB -------------------------------
(***************************************************************************)
(* Growth beyond the listed properties: the triangle-mesh builder          *)
(* (core/src/geom/mesh.rs) as a state machine.                             *)
(*                                                                         *)
(* State s = [faces, verts, nrm]: faces a sequence of index triples        *)
(* (0-based, possibly referring to vertices not added yet), verts a        *)
(* sequence of integer positions, nrm TRUE once with_vertex_normals has    *)
(* turned the attribute into a normal.                                     *)
(*                                                                         *)
(*   push_face / push_faces / push_vert / push_verts   append              *)
(*   transform    eager: moves the vertices present now (translation t,    *)
(*                then per-axis integer scaling k)                         *)
(*   normals      eager: per vertex the normalised sum of the cross        *)
(*                products of the faces listing it (once per listing);     *)
(*                needs every index valid NOW                              *)
(*   build        succeeds iff every face index is valid                   *)
(* An operation that panics consumes the builder: the history ends.        *)
(***************************************************************************)
EXTENDS Integers, Sequences, FiniteSets, TLC

Abs(x) == IF x < 0 THEN -x ELSE x
Init0 == [faces |-> <<>>, verts |-> <<>>, nrm |-> FALSE]

ValidFace(s, f) == \A i \in 1..3 : f[i] >= 0 /\ f[i] < Len(s.verts)
Valid(s) == \A j \in 1..Len(s.faces) : ValidFace(s, s.faces[j])

Sub3(a, b) == <<a[1] - b[1], a[2] - b[2], a[3] - b[3]>>
Add3(a, b) == <<a[1] + b[1], a[2] + b[2], a[3] + b[3]>>
Cross(u, v) == <<u[2] * v[3] - u[3] * v[2], u[3] * v[1] - u[1] * v[3], u[1] * v[2] - u[2] * v[1]>>
Dot(u, v) == u[1] * v[1] + u[2] * v[2] + u[3] * v[3]

FaceNormal(s, f) == LET a == s.verts[f[1] + 1]  b == s.verts[f[2] + 1]  c == s.verts[f[3] + 1]
                    IN Cross(Sub3(b, a), Sub3(c, a))
\* the (unnormalised) normal of vertex v (0-based): one contribution per listing in a face
RECURSIVE NSum(_, _, _)
NSum(s, v, j) ==
  IF j > Len(s.faces) THEN <<0, 0, 0>>
  ELSE LET f == s.faces[j]
           k == Cardinality({i \in 1..3 : f[i] = v})
           n == FaceNormal(s, f)
       IN Add3(<<k * n[1], k * n[2], k * n[3]>>, NSum(s, v, j + 1))
VertexNormal(s, v) == NSum(s, v, 1)

Moved(p, e) == <<(p[1] + e.t[1]) * e.kx[1], (p[2] + e.t[2]) * e.kx[2], (p[3] + e.t[3]) * e.kx[3]>>

Apply(s, e) ==
  CASE e.op = "push_face"  -> [s EXCEPT !.faces = Append(@, e.f)]
    [] e.op = "push_faces" -> [s EXCEPT !.faces = @ \o e.fs]
    [] e.op = "push_vert"  -> [s EXCEPT !.verts = Append(@, e.p)]
    [] e.op = "push_verts" -> [s EXCEPT !.verts = @ \o e.ps]
    [] e.op = "transform"  -> [s EXCEPT !.verts = [i \in 1..Len(s.verts) |-> Moved(s.verts[i], e)]]
    [] e.op = "normals"    -> [s EXCEPT !.nrm = TRUE]
    [] OTHER -> s

\* which operations a builder in state s offers (transform / normals only before the attribute changed)
Enabled(s, e) == e.op \in {"transform", "normals"} => ~s.nrm

\* must / may the operation panic?
MustPanic(s, e) == (e.op = "normals" /\ ~Valid(s)) \/ (e.op = "build" /\ ~Valid(s))
MayPanic(s, e) == MustPanic(s, e)
                  \* a vertex whose faces (if any) have no area has no normal: dev builds assert
                  \/ (e.op = "normals" /\ \E v \in 0..(Len(s.verts) - 1) : VertexNormal(s, v) = <<0, 0, 0>>)

NS == 256    \* observed normals are scaled by NS
\* o: observed unit normal * NS; n: integer normal sum
NormalOK(o, n) ==
  LET n2 == Dot(n, n) IN
  IF n2 = 0 THEN TRUE
  ELSE \A c \in 1..3 :
         /\ Abs(o[c] * o[c] * n2 - NS * NS * n[c] * n[c]) <= (2 * NS + 1) * n2
         /\ (n[c] * n[c] * 16 > n2) => (o[c] > 0) = (n[c] > 0)

\* e: the call plus the observation after it: e.panic, e.faces, e.verts (positions, integers exactly
\* representable), e.normals (only when the attribute is a normal)
Allowed(s, e) ==
  LET s2 == Apply(s, e) IN
  /\ Enabled(s, e)
  /\ IF e.panic = 1 THEN MayPanic(s, e)
     ELSE /\ ~MustPanic(s, e)
          /\ e.faces = s2.faces /\ e.verts = s2.verts
          /\ e.op = "normals" => \A v \in 1..Len(s2.verts) : NormalOK(e.normals[v], VertexNormal(s, v - 1))
=============================================================================
