------------------------------ MODULE MC_Tex ------------------------------
(***************************************************************************)
(* Enumerates texture sizes x a coordinate lattice (quarters, integers,    *)
(* +-0, the 2^31 boundary, huge, infinite, NaN), checks on the Tex         *)
(* relation that the three samplers agree in range and never leave the     *)
(* texture, and exports every point for replay on the real samplers.       *)
(***************************************************************************)
EXTENDS Tex, Json

CONSTANTS MaxK, Export

VARIABLES w, h, u, v
vars == <<w, h, u, v>>

Quarter(k) == IF k = 0 THEN <<0, 0, 0, 0>> ELSE <<1, IF k < 0 THEN 1 ELSE 0, IF k < 0 THEN -k ELSE k, -2>>
Specials == {<<0, 1, 0, 0>>,                       \* -0.0
             <<1, 0, 1, 31>>, <<1, 1, 1, 31>>,     \* +-2^31
             <<1, 0, 16777215, 7>>, <<1, 1, 16777215, 7>>,   \* +-(2^31 - 128)
             <<1, 0, 1, 100>>, <<1, 1, 1, 100>>,   \* +-2^100
             <<1, 0, 1, -149>>, <<1, 1, 1, -149>>, \* smallest subnormals
             <<1, 0, 8388609, -23>>, <<1, 1, 8388609, -23>>, \* +-(1 + ulp)
             <<1, 1, 16777215, -24>>,              \* -(1 - ulp/2)
             <<2, 0, 0, 0>>, <<2, 1, 0, 0>>, <<3, 0, 0, 0>>}
Coords == {Quarter(k) : k \in (-MaxK)..MaxK} \cup Specials
Sizes == {1, 2, 4, 8}

Init == w \in Sizes /\ h \in {1, 2, 4} /\ u \in Coords /\ v \in Coords
Next == UNCHANGED vars
Spec == Init /\ [][Next]_vars

Inv == AgreeInRange(w, h, u, v) /\ Inside(w, h, u, v)

\* non-vacuity: in-range points exist for every size (checked via coverage of Init)
ExportInv == Export => PrintT(<<"REPLAY", ToJson([w |-> w, h |-> h, u |-> u, v |-> v])>>)
=============================================================================
