------------------------------ MODULE ScanImpl ------------------------------
(***************************************************************************)
(* Implementation-shaped model of raster::tri_fill / scan / ScanlineIter:  *)
(* the vertex sort, the split at the middle vertex, the choice of the left *)
(* and right edge, the row range  floor(y + 1/2)  of each half and the     *)
(* span  floor(x_left + 1/2) .. floor(x_right + 1/2)  of each row - in     *)
(* EXACT rational arithmetic (the edge positions as fractions N / 2D of    *)
(* the half-pixel lattice).  TLC checks for every ordered vertex triple on *)
(* the half-pixel lattice of a GxG pixel grid that this algorithm REFINES  *)
(* the property-level Raster relation: it covers every pixel whose centre  *)
(* is strictly inside (outside the 0.001 px band) and none whose centre is *)
(* outside.  This is the design-level argument that the half-pixel         *)
(* rounding rule is right; the real code is bound to Raster by             *)
(* TV_RasterCov / TV_RasterFrag.                                           *)
(***************************************************************************)
EXTENDS Raster

CONSTANTS G, Variant       \* Variant "ok": the algorithm as written; "nohalf": rounding without the half-pixel
                            \* offset (floor(x) for floor(x + 1/2)) - a negative control

\* floor of a fraction with positive denominator (TLA+ \div floors)
FloorDiv(n, d) == n \div d

\* vertices sorted by y (stable, like slice::sort_by on the y coordinate)
SortY(v) ==
  LET le(a, b) == a[2] <= b[2]
      s1 == IF le(v[1], v[2]) THEN <<v[1], v[2]>> ELSE <<v[2], v[1]>>
      \* insert v[3]
  IN IF le(s1[2], v[3]) THEN <<s1[1], s1[2], v[3]>>
     ELSE IF le(s1[1], v[3]) THEN <<s1[1], v[3], s1[2]>>
     ELSE <<v[3], s1[1], s1[2]>>

\* first row (pixel index) of a half starting at lattice y: round_up_to_half(y) as a pixel index
RowStart(Y) == FloorDiv(Y + 1, 2)

\* x position (as a fraction N / (2 D), in pixels) of the edge a -> b at the centre of row j; D = b.y - a.y > 0
EdgeN(a, b, j) == a[1] * (b[2] - a[2]) + (b[1] - a[1]) * (2 * j + 1 - a[2])
EdgeD(a, b) == b[2] - a[2]
\* pixel index floor(x + 1/2) of that position
EdgeIdx(a, b, j) == FloorDiv(EdgeN(a, b, j) + (IF Variant = "ok" THEN EdgeD(a, b) ELSE 0), 2 * EdgeD(a, b))

Max0(x) == IF x < 0 THEN 0 ELSE x

\* is pixel (i, j) produced?
ImplCovered(v, i, j) ==
  LET s == SortY(v)  top == s[1]  mid == s[2]  bot == s[3] IN
  IF top[2] = bot[2] THEN FALSE                          \* no rows at all
  ELSE
  LET \* the middle vertex against the long edge at its own height: mid0.x < mid1.x ?
      \* mid1.x = top.x + (bot.x - top.x) (mid.y - top.y) / (bot.y - top.y)
      midLeft == mid[1] * (bot[2] - top[2]) < top[1] * (bot[2] - top[2]) + (bot[1] - top[1]) * (mid[2] - top[2])
      jt == Max0(RowStart(top[2]))  jm == Max0(RowStart(mid[2]))  jb == RowStart(bot[2])
      upper == j >= jt /\ j < RowStart(mid[2]) /\ mid[2] > top[2]
      lower == j >= jm /\ j < jb /\ bot[2] > mid[2]
      \* the short edge of the half the row lies in, and the long edge
      shortIdx == IF upper THEN EdgeIdx(top, mid, j) ELSE EdgeIdx(mid, bot, j)
      longIdx == EdgeIdx(top, bot, j)
      x0 == Max0(IF midLeft THEN shortIdx ELSE longIdx)
      x1 == IF midLeft THEN longIdx ELSE shortIdx
  IN (upper \/ lower) /\ i >= x0 /\ i < x1

\* ---------------------------------------------------------------- model
Pts == (0..(2 * G)) \X (0..(2 * G))
VARIABLES a, b, c, ph
vars == <<a, b, c, ph>>
Init == a \in Pts /\ b = a /\ c = a /\ ph = 0
Next == ph = 0 /\ ph' = 1 /\ a' = a /\ b' \in Pts /\ c' \in Pts
Spec == Init /\ [][Next]_vars

RefinesRaster ==
  ph = 1 =>
    LET v == <<a, b, c>> IN
    \A i \in 0..(G - 1), j \in 0..(G - 1) :
      /\ MustCover(1, v, i, j) => ImplCovered(v, i, j)
      /\ MustNotCover(1, v, i, j) => ~ImplCovered(v, i, j)
=============================================================================
