------------------------------ MODULE TV_Clip ------------------------------
(* Trace validation for C03: every recorded clip call (env TRACE) must     *)
(* satisfy Clip!Allowed.                                                   *)
EXTENDS Clip, Json, IOUtils

Rec == ndJsonDeserialize(IOEnv.TRACE)
Judged == {k \in DOMAIN Rec : Rec[k].panic = 1 \/ Rec[k].solvable = 1}
Bad == {k \in Judged : ~Allowed(Rec[k])}
NClipped == Cardinality({k \in Judged : ~AllInside(Rec[k].t) /\ Len(Rec[k].out) > 0})

ASSUME PrintT(<<"TVSTAT", Cardinality(Judged), Len(Rec), NClipped>>)
ASSUME \A k \in Bad : PrintT(<<"BAD", k, Rec[k].k, ToJson(Rec[k].t), Len(Rec[k].out), Rec[k].same, Rec[k].batch>>)
ASSUME PrintT(<<"TVDONE", Cardinality(Bad)>>)
=============================================================================
