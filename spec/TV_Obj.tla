------------------------------ MODULE TV_Obj ------------------------------
(***************************************************************************)
(* Trace validation for C14: every call recorded from the real OBJ parser  *)
(* (env TRACE, one call per line) must satisfy Obj!Allowed.                *)
(***************************************************************************)
EXTENDS Obj, Json, IOUtils

Rec == ndJsonDeserialize(IOEnv.TRACE)
Bad == {k \in DOMAIN Rec : ~Allowed(Rec[k])}
NWf == Cardinality({k \in DOMAIN Rec : WellFormedP(Parsed(Rec[k].bytes))})

ASSUME PrintT(<<"TVSTAT", Len(Rec), Len(Rec), NWf>>)
ASSUME \A k \in Bad : PrintT(<<"BAD", k, Rec[k].k, ToJson(Rec[k].res)>>)
ASSUME PrintT(<<"TVDONE", Cardinality(Bad)>>)
=============================================================================
