------------------------------ MODULE TV_Vary ------------------------------
(* Trace validation of the Vary iterators (growth beyond the listed        *)
(* properties; rejections are reported as notes, see py/c05.py).           *)
EXTENDS Vary, Json, IOUtils

Rec == ndJsonDeserialize(IOEnv.TRACE)
Bad == {k \in DOMAIN Rec : ~Allowed(Rec[k])}

ASSUME PrintT(<<"TVSTAT", Len(Rec), Len(Rec)>>)
ASSUME \A k \in Bad : PrintT(<<"BAD", k, Rec[k].k, Rec[k].op, Rec[k].ty>>)
ASSUME PrintT(<<"TVDONE", Cardinality(Bad)>>)
=============================================================================
