----------------------------- MODULE MC_ObjPoly -----------------------------
(***************************************************************************)
(* Files of five vertices and one or two face lines with 3..5 distinct     *)
(* indices each.  TLC checks the fan on every file: n - 2 triangles per    *)
(* polygon, every triangle starts at the polygon's first index, every      *)
(* listed index is used, consecutive triangles share an edge; for plain    *)
(* triangles the fan is what Obj.tla demands (the two specifications agree *)
(* where both apply); cutting a polygon down to three indices is rejected  *)
(* exactly when some line has more than three.  Every file is exported.    *)
(***************************************************************************)
EXTENDS ObjPoly, Json

CONSTANTS Export, Wide
NV == 5
Idxs == 1..NV
Second == IF Wide THEN {<<>>, <<1, 2, 3>>, <<2, 3, 4, 5>>, <<5, 4, 3, 2, 1>>} ELSE {<<>>, <<2, 3, 4, 5>>}

VARIABLES f1, f2
vars == <<f1, f2>>
Init == f1 = <<>> /\ f2 \in Second
Next == /\ Len(f1) < 5 /\ f2' = f2
        /\ \E i \in Idxs : i \notin {f1[j] : j \in 1..Len(f1)} /\ f1' = Append(f1, i)
Spec == Init /\ [][Next]_vars

VLine(i) == <<118, 32, 48 + i, 32, 48, 32, 48, 10>>                  \* "v i 0 0\n"
RECURSIVE FLine(_)
FLine(s) == IF s = <<>> THEN <<10>> ELSE <<32, 48 + Head(s)>> \o FLine(Tail(s))
Face(s) == IF s = <<>> THEN <<>> ELSE <<102>> \o FLine(s)             \* "f a b c ...\n"
File == VLine(0) \o VLine(1) \o VLine(2) \o VLine(3) \o VLine(4) \o Face(f1) \o Face(f2)

Tris(s) == [k \in 1..(Len(s) - 2) |-> <<s[1] - 1, s[k + 1] - 1, s[k + 2] - 1>>]
Complete == Len(f1) >= 3

Laws ==
  Complete =>
    LET p == PParsed(File)
        want == Tris(f1) \o (IF f2 = <<>> THEN <<>> ELSE Tris(f2))
        okres == <<"ok", <<>>, want, "ok">>
    IN /\ PolyWellFormed(p) /\ p.nv = NV
       /\ p.fan = want /\ Len(Tris(f1)) = Len(f1) - 2
       /\ \A k \in 1..Len(Tris(f1)) : Tris(f1)[k][1] = f1[1] - 1
       /\ {Tris(f1)[k][j] + 1 : k \in 1..Len(Tris(f1)), j \in 1..3} = {f1[j] : j \in 1..Len(f1)}
       /\ \A k \in 1..(Len(Tris(f1)) - 1) : Tris(f1)[k][3] = Tris(f1)[k + 1][2]
       /\ PolyAllowed([bytes |-> File, res |-> okres])
       /\ PolyAllowed([bytes |-> File, res |-> <<"err", "x">>])
       /\ ~PolyAllowed([bytes |-> File, res |-> <<"panic", 0>>])
       \* triangles only: Obj.tla applies too, and asks for the same faces
       /\ (Len(f1) = 3 /\ Len(f2) \in {0, 3}) =>
            (WellFormedP(Parsed(File)) /\ Len(Parsed(File).faces) = Len(want))
       \* the cut-down reading is refused exactly when it loses something
       /\ PolyAllowed([bytes |-> File, res |-> <<"ok", <<>>, p.first3, "ok">>]) <=> (Len(f1) = 3 /\ Len(f2) \in {0, 3})

ExportInv == (Complete /\ Export) => PrintT(<<"REPLAY", ToJson([bytes |-> File])>>)
=============================================================================
