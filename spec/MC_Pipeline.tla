---------------------------- MODULE MC_Pipeline ----------------------------
(***************************************************************************)
(* Two independent routes to the same image, compared by TLC:              *)
(*   Pipeline - homogeneous rasterisation in clip space (no clipping, no    *)
(*              scan conversion, perspective-correct barycentrics), and     *)
(*   Raster   - screen-space edge functions with reciprocal depths and      *)
(*              pre-divided attributes, as the rasteriser sees them after   *)
(*              perspective division and the viewport transform.            *)
(* For triangles wholly in front of the eye whose vertices project onto the *)
(* half-pixel lattice of a 4x4 viewport, with w in {1, 2, 4}:               *)
(*   - D_i * w_i is proportional to the screen-space edge function E_i,     *)
(*   - visibility  <=>  the pixel centre is strictly inside the projected   *)
(*     triangle,                                                            *)
(*   - reciprocal depth and attribute agree exactly (cross-multiplied),     *)
(*   - the facing used for culling (sign of det[x y w]) is the winding of   *)
(*     the projected triangle.                                              *)
(***************************************************************************)
EXTENDS Pipeline, Integers

R == INSTANCE Raster

Coords == {0, 2, 3, 5, 8}
Pts == Coords \X Coords
WTriples == {<<4, 4, 4>>, <<4, 8, 16>>, <<8, 8, 4>>, <<16, 4, 8>>}
VP == <<0, 0, 4, 4>>

VARIABLES p1, p2, p3, ws, ph
vars == <<p1, p2, p3, ws, ph>>
Init == p1 \in Pts /\ p2 = p1 /\ p3 = p1 /\ ws = <<4, 4, 4>> /\ ph = 0
Next == ph = 0 /\ ph' = 1 /\ p1' = p1 /\ p2' \in Pts /\ p3' \in Pts /\ ws' \in WTriples
Spec == Init /\ [][Next]_vars

\* clip-space lattice vertex projecting to screen lattice point p with depth w
ClipV(p, w) == <<((p[1] - 4) * w) \div 4, ((p[2] - 4) * w) \div 4, 0, w>>
Tri == [v |-> <<ClipV(p1, ws[1]), ClipV(p2, ws[2]), ClipV(p3, ws[3])>>, a |-> <<3, 17, 8>>]
Scr == <<p1, p2, p3>>
ZOf(w) == (20 * 4) \div w

\* the code's is_backface on the projected triangle: (s2 - s1) x (s3 - s1) > 0
ScrCross == (p2[1] - p1[1]) * (p3[2] - p1[2]) - (p2[2] - p1[2]) * (p3[1] - p1[1])

Agree ==
  ph = 1 =>
  \* facing from the clip-space determinant = winding of the projected triangle
  /\ Sgn(FaceDet(Tri)) = Sgn(ScrCross)
  /\ Culled(1, Tri) = (ScrCross > 0) /\ Culled(2, Tri) = ~(ScrCross > 0)
  /\ \A px \in 0..3, py \in 0..3 :
    LET d == DOf(Tri, RayOf(VP, px, py))
        q == R!Centre(1, px, py)
        E == <<R!Edge(Scr[2], Scr[3], q), R!Edge(Scr[3], Scr[1], q), R!Edge(Scr[1], Scr[2], q)>>
        Z == <<ZOf(ws[1]), ZOf(ws[2]), ZOf(ws[3])>>
        DZ == E[1] * Z[1] + E[2] * Z[2] + E[3] * Z[3]
        NA == E[1] * Tri.a[1] * Z[1] + E[2] * Tri.a[2] * Z[2] + E[3] * Tri.a[3] * Z[3]
        ES == E[1] + E[2] + E[3]
    IN /\ \A i \in 1..3, j \in 1..3 : d[i] * ws[i] * E[j] = d[j] * ws[j] * E[i]
       /\ (R!Area2(Scr) # 0 /\ \A i \in 1..3 : E[i] # 0) =>
            (Visible(Tri, d) <=> R!StrictlyInside(Scr, q))
       \* reciprocal depth: DZ / (20 * ES) = 4 * SumD / WNum
       /\ DZ * WNum(Tri, d) = 4 * SumD(d) * 20 * ES
       \* attribute: NA / DZ = ANum / SumD
       /\ NA * SumD(d) = ANum(Tri, d) * DZ
=============================================================================
