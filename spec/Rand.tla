-------------------------------- MODULE Rand --------------------------------
(***************************************************************************)
(* C19.  The xorshift64 generator as a linear map over GF(2), and the      *)
(* range relations of the distributions.                                   *)
(*                                                                         *)
(* A 64-bit word is the set of its one-bit positions (0 = least            *)
(* significant).  XOR is symmetric difference, shifts move positions.      *)
(* A linear map is the sequence of the images of the 64 basis vectors.     *)
(***************************************************************************)
EXTENDS Integers, Sequences, FiniteSets, TLC, Bitwise, SequencesExt

W == 64
Bits == 0..(W - 1)
XorS(a, b) == (a \ b) \cup (b \ a)
Shl(a, k) == {i + k : i \in {j \in a : j + k < W}}
Shr(a, k) == {i - k : i \in {j \in a : j >= k}}

\* the generator's step:  x ^= x << 13;  x ^= x >> 7;  x ^= x << 17
Step(x) == LET a == XorS(x, Shl(x, 13))  b == XorS(a, Shr(a, 7)) IN XorS(b, Shl(b, 17))

\* ---------------------------------------------------------------- GF(2) matrices
\* For the matrix products a word is four 16-bit limbs (least significant
\* first) and XOR is the Bitwise module's ^^ on each limb.
LimbsOf(x) == [k \in 1..4 |-> LET S == {i \in 0..15 : (16 * (k - 1) + i) \in x}
                               IN IF S = {} THEN 0 ELSE LET RECURSIVE sum(_)
                                                            sum(R) == IF R = {} THEN 0 ELSE LET i == CHOOSE i \in R : TRUE IN 2 ^ i + sum(R \ {i})
                                                        IN sum(S)]
XorL(p, q) == <<p[1] ^^ q[1], p[2] ^^ q[2], p[3] ^^ q[3], p[4] ^^ q[4]>>
BitL(p, i) == (p[(i \div 16) + 1] \div (2 ^ (i % 16))) % 2
Zero == <<0, 0, 0, 0>>

\* column j (1-based: bit j-1) holds the image of basis vector e_(j-1)
ApplyL(M, p) == FoldLeft(LAMBDA acc, i : IF BitL(p, i) = 1 THEN XorL(acc, M[i + 1]) ELSE acc, Zero, [i \in 1..W |-> i - 1])
Mul(M, K) == TLCEval([j \in 1..W |-> ApplyL(M, K[j])])       \* M after K
Id == TLCEval([j \in 1..W |-> LimbsOf({j - 1})])
T == TLCEval([j \in 1..W |-> LimbsOf(Step({j - 1}))])

\* Squares[k+1] = T^(2^k), k = 0..64, by repeated squaring
Squares == TLCEval(LET RECURSIVE build(_, _)
                       build(k, acc) == IF k > W THEN acc
                                        ELSE build(k + 1, Append(acc, Mul(acc[Len(acc)], acc[Len(acc)])))
                   IN build(1, <<T>>))

\* T^e for e given as 8 little-endian byte limbs
BitOf(limbs, i) == (limbs[(i \div 8) + 1] \div (2 ^ (i % 8))) % 2
PowLimbs(sq, limbs) ==       \* sq = Squares, passed in so that it is computed once
  LET RECURSIVE go(_, _)
      go(i, acc) == IF i = W THEN acc
                    ELSE go(i + 1, IF BitOf(limbs, i) = 1 THEN Mul(sq[i + 1], acc) ELSE acc)
  IN go(0, Id)

\* the step is invertible: each of its three stages x ^= x << k (resp. >>) is undone by
\* x ^ (x << k) ^ (x << 2k) ^ ...
RECURSIVE UnShl(_, _, _)
UnShl(x, k, m) == IF m >= W THEN x ELSE XorS(x, UnShl(Shl(x, k), k, m + k))
RECURSIVE UnShr(_, _, _)
UnShr(x, k, m) == IF m >= W THEN x ELSE XorS(x, UnShr(Shr(x, k), k, m + k))
InvStep(y) == LET b == UnShl(y, 17, 17)  a == UnShr(b, 7, 7) IN UnShl(a, 13, 13)

\* limbs * p = 2^64 - 1 ?   (byte-limb multiplication with carry)
TimesIsAllOnes(limbs, p) ==
  LET RECURSIVE go(_, _)
      go(i, carry) == IF i > 8 THEN carry = 0
                      ELSE LET v == limbs[i] * p + carry IN v % 256 = 255 /\ go(i + 1, v \div 256)
  IN go(1, 0)

IsPrime(p) == p > 1 /\ \A d \in 2..3000 : d * d > p \/ p % d # 0

\* the prime factors of 2^64 - 1 with the cofactors (2^64-1)/p as byte limbs
Factors == << <<3, <<85, 85, 85, 85, 85, 85, 85, 85>> >>,
              <<5, <<51, 51, 51, 51, 51, 51, 51, 51>> >>,
              <<17, <<15, 15, 15, 15, 15, 15, 15, 15>> >>,
              <<257, <<255, 0, 255, 0, 255, 0, 255, 0>> >>,
              <<641, <<127, 194, 153, 255, 128, 61, 102, 0>> >>,
              <<65537, <<255, 255, 0, 0, 255, 255, 0, 0>> >>,
              <<6700417, <<127, 253, 255, 255, 128, 2, 0, 0>> >> >>

\* ---------------------------------------------------------------- theorems
\* (1) the cofactor table is right: p prime, cofactor * p = 2^64 - 1
FactorTableOK == \A i \in 1..Len(Factors) : IsPrime(Factors[i][1]) /\ TimesIsAllOnes(Factors[i][2], Factors[i][1])
\* (2) T^(2^64) = T, i.e. T^(2^64 - 1) = I once T is invertible; (3) no proper divisor works
OrderDivides(sq) == sq[W + 1] = T
Invertible == \A j \in Bits : InvStep(Step({j})) = {j} /\ Step(InvStep({j})) = {j}
OrderExact(sq) == \A i \in 1..Len(Factors) : PowLimbs(sq, Factors[i][2]) # Id
\* negative control: the method does distinguish (T^(2^32) is not T)
Control(sq) == sq[33] # T

\* ---------------------------------------------------------------- conformance relation
\* words cross the boundary as four 16-bit limbs, least significant first
WordOf(l) == UNION {{16 * (k - 1) + i : i \in {b \in 0..15 : (l[k] \div (2 ^ b)) % 2 = 1}} : k \in 1..4}

\* e.op = "step":   e.s, e.out limbs            out = Step(s), and s' = out
\* e.op = "range":  keys lo <= min, max < hi    (ordered integer keys of f32 / plain i32)
\* e.op = "bern":   e.p01 in {0, 1}: Bernoulli(p <= 0) / (p >= 1);  e.res
\* e.op = "norm":   e.n2 = |v|^2 * 2^20 rounded;  e.kind "in" (<= 1) or "on" (= 1); e.inside = 1 iff len_sqr() <= 1.0 exactly
\* e.op = "seq":    e.a, e.b: two observation sequences that must be equal
Allowed(e) ==
  CASE e.op = "step"  -> Step(WordOf(e.s)) = WordOf(e.out) /\ e.after = e.out /\ WordOf(e.out) # {}
    [] e.op = "range" -> e.n > 0 /\ e.lo <= e.min /\ e.max < e.hi /\ e.panic = 0
    [] e.op = "bern"  -> e.res = e.p01
    \* inside: len_sqr() <= 1 as the library measures it (exact f32 comparison); unit length is judged at 1e-3
    [] e.op = "norm"  -> IF e.kind = "in" THEN e.inside = 1 /\ e.n2 <= 1048576 + 1100
                         ELSE (e.n2 >= 1048576 - 1100 /\ e.n2 <= 1048576 + 1100)
    \* unit circle / sphere samples under another float backend (e.be; "libm+mm" = both features on, where libm
    \* has precedence): unit length at 1e-3 - at 2.5 % for the approximating backends (mm alone, none)
    [] e.op = "normb" -> /\ e.panic = 0
                         /\ LET tol == IF e.be \in {"mm", "none"} THEN 26214 ELSE 1100 IN
                            e.n2 >= 1048576 - tol /\ e.n2 <= 1048576 + tol
    [] e.op = "seq"   -> e.a = e.b
    [] OTHER -> FALSE
=============================================================================
