------------------------------ MODULE TV_Spline ------------------------------
(* Trace validation for C17: every recorded call (env TRACE) must satisfy    *)
(* Spline!Allowed.                                                           *)
EXTENDS Spline, Json, IOUtils

Rec == ndJsonDeserialize(IOEnv.TRACE)
Bad == {k \in DOMAIN Rec : ~Allowed(Rec[k])}
NFlat == Cardinality({k \in DOMAIN Rec : Rec[k].op = "flat"})

ASSUME PrintT(<<"TVSTAT", Len(Rec), Len(Rec), NFlat>>)
ASSUME \A k \in Bad : PrintT(<<"BAD", k, Rec[k].k, Rec[k].op, Rec[k].ty>>)
ASSUME PrintT(<<"TVDONE", Cardinality(Bad)>>)
=============================================================================
