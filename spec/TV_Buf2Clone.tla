---------------------------- MODULE TV_Buf2Clone ----------------------------
(* Trace validation for C11, copies: every recorded clone / clone_from (env   *)
(* TRACE) must satisfy Buf2!CloneAllowed.                                     *)
EXTENDS Buf2, Json, IOUtils

Rec == ndJsonDeserialize(IOEnv.TRACE)
Bad == {k \in DOMAIN Rec : ~CloneAllowed(Rec[k])}

ASSUME PrintT(<<"TVSTAT", Len(Rec), Len(Rec)>>)
ASSUME \A k \in Bad : PrintT(<<"BAD", k, Rec[k].k, ToJson(Rec[k])>>)
ASSUME PrintT(<<"TVDONE", Cardinality(Bad)>>)
=============================================================================
