-------------------------------- MODULE Obj --------------------------------
(***************************************************************************)
(* C14.  Wavefront OBJ text as a relation between byte strings and         *)
(* (vertex positions, triangles).                                          *)
(*                                                                         *)
(* Text is a sequence of bytes; it is cut into lines at LF, lines into     *)
(* tokens at ASCII whitespace.  The well-formed language of the statement: *)
(* blank lines, comment lines (first token starts with '#'), `v x y z`,    *)
(* `vt u v`, `vn x y z` with decimal / exponent literals, and `f a b c`    *)
(* with index forms i, i/t, i//n, i/t/n, all indices referring to items    *)
(* that exist somewhere in the file (faces may precede vertices).          *)
(*                                                                         *)
(* Coordinates are compared exactly: a literal is in the judged class when *)
(* it has at most 6 mantissa digits and a one-digit exponent, and its      *)
(* value times 1024 is an integer below 2^24 (exactly an f32).             *)
(***************************************************************************)
EXTENDS Integers, Sequences, FiniteSets, TLC, SequencesExt

WS == {9, 10, 12, 13, 32}
IsDigit(b) == b >= 48 /\ b <= 57

\* ---------------------------------------------------------------- splitting
\* pieces of bs separated by bytes in seps (empty pieces kept iff keepEmpty);
\* by separator positions, so that long lines cost linear, not quadratic, time
Pieces(bs, seps, keepEmpty) ==
  LET ps == SetToSortSeq({i \in 1..Len(bs) : bs[i] \in seps}, <)
      lo(j) == IF j = 1 THEN 1 ELSE ps[j - 1] + 1
      hi(j) == IF j = Len(ps) + 1 THEN Len(bs) ELSE ps[j] - 1
      raw == [j \in 1..(Len(ps) + 1) |-> SubSeq(bs, lo(j), hi(j))]
  IN IF keepEmpty THEN raw ELSE SelectSeq(raw, LAMBDA q : q # <<>>)

Lines(bs) == Pieces(bs, {10}, TRUE)
Tokens(line) == Pieces(line, WS, FALSE)

\* ---------------------------------------------------------------- numbers
AllDigits(t) == t # <<>> /\ \A i \in 1..Len(t) : IsDigit(t[i])
RECURSIVE DigVal(_, _)
DigVal(t, acc) == IF t = <<>> THEN acc ELSE DigVal(Tail(t), acc * 10 + (Head(t) - 48))

\* index token: 1..6 digits
IdxOk(t) == AllDigits(t) /\ Len(t) <= 6
Idx(t) == DigVal(t, 0)

Pow10(k) == CASE k = 0 -> 1 [] k = 1 -> 10 [] k = 2 -> 100 [] k = 3 -> 1000 [] k = 4 -> 10000
              [] k = 5 -> 100000 [] k = 6 -> 1000000 [] OTHER -> 10000000

\* a float literal  [+-] digits [. digits] [eE [+-] digit]  as
\* [ok, neg, mant, frac, exp]: value = (-1)^neg * mant * 10^(exp - frac)
Lit(t) ==
  LET signed == t # <<>> /\ t[1] \in {43, 45}
      body == IF signed THEN Tail(t) ELSE t
      epos == {i \in 1..Len(body) : body[i] \in {69, 101}}
      e == IF epos = {} THEN Len(body) + 1 ELSE CHOOSE i \in epos : \A j \in epos : i <= j
      mpart == SubSeq(body, 1, e - 1)
      epart == IF e <= Len(body) THEN SubSeq(body, e + 1, Len(body)) ELSE <<48>>
      esigned == epart # <<>> /\ epart[1] \in {43, 45}
      edig == IF esigned THEN Tail(epart) ELSE epart
      dots == {i \in 1..Len(mpart) : mpart[i] = 46}
      d == IF dots = {} THEN Len(mpart) + 1 ELSE CHOOSE i \in dots : TRUE
      ip == SubSeq(mpart, 1, d - 1)
      fp == IF d <= Len(mpart) THEN SubSeq(mpart, d + 1, Len(mpart)) ELSE <<>>
      ok == /\ Cardinality(dots) <= 1
            /\ AllDigits(ip) /\ (fp = <<>> \/ AllDigits(fp))
            /\ Len(ip) + Len(fp) <= 6
            /\ AllDigits(edig) /\ Len(edig) = 1
  IN IF ~ok THEN [ok |-> FALSE, neg |-> FALSE, mant |-> 0, frac |-> 0, exp |-> 0]
     ELSE [ok |-> TRUE, neg |-> signed /\ t[1] = 45, mant |-> DigVal(ip \o fp, 0), frac |-> Len(fp),
           exp |-> (IF esigned /\ epart[1] = 45 THEN -1 ELSE 1) * DigVal(edig, 0)]

\* value * 1024 when that is an integer of magnitude < 2^24, else "no"
Scaled(l) ==
  LET k == l.exp - l.frac IN
  IF k >= 0
  THEN IF k > 6 \/ l.mant * Pow10(k) >= 16384 THEN <<"no", 0>>
       ELSE <<"yes", (IF l.neg THEN -1 ELSE 1) * l.mant * Pow10(k) * 1024>>
  ELSE IF -k > 6 \/ l.mant >= 2000000 THEN <<"no", 0>>
       ELSE LET n == l.mant * 1024  p == Pow10(-k) IN
            IF n % p # 0 \/ n \div p >= 16777216 THEN <<"no", 0>>
            ELSE <<"yes", (IF l.neg THEN -1 ELSE 1) * (n \div p)>>

\* Long decimals a hair above / below the midpoint between two neighbouring f32 values (25-28
\* significant digits): the written coordinate is the NEAREST f32, which a conversion through f64
\* gets wrong (it lands on the midpoint and then ties to even).  A table, generated with exact
\* rational arithmetic (DESIGN, C14): <<literal, expected f32 as <<class, sign, significand, exponent>>>>
HardLits == <<
  <<<<49, 46, 48, 48, 48, 48, 48, 48, 48, 53, 57, 54, 48, 52, 54, 52, 52, 55, 55, 53, 51, 57, 48, 54, 50, 53, 49>>, <<1, 0, 8388609, -23>>>>,
  <<<<49, 46, 48, 48, 48, 48, 48, 48, 48, 53, 57, 54, 48, 52, 54, 52, 52, 55, 55, 53, 51, 57, 48, 54, 50, 52, 57>>, <<1, 0, 8388608, -23>>>>,
  <<<<49, 46, 48, 48, 48, 48, 48, 48, 49, 55, 56, 56, 49, 51, 57, 51, 52, 51, 50, 54, 49, 55, 49, 56, 55, 53, 49>>, <<1, 0, 8388610, -23>>>>,
  <<<<49, 46, 48, 48, 48, 48, 48, 48, 49, 55, 56, 56, 49, 51, 57, 51, 52, 51, 50, 54, 49, 55, 49, 56, 55, 52, 57>>, <<1, 0, 8388609, -23>>>>,
  <<<<50, 46, 53, 48, 48, 48, 48, 48, 49, 49, 57, 50, 48, 57, 50, 56, 57, 53, 53, 48, 55, 56, 49, 50, 53, 49>>, <<1, 0, 10485761, -22>>>>,
  <<<<50, 46, 53, 48, 48, 48, 48, 48, 49, 49, 57, 50, 48, 57, 50, 56, 57, 53, 53, 48, 55, 56, 49, 50, 52, 57>>, <<1, 0, 10485760, -22>>>>,
  <<<<48, 46, 49, 53, 54, 50, 53, 48, 48, 48, 55, 52, 53, 48, 53, 56, 48, 53, 57, 54, 57, 50, 51, 56, 50, 56, 49, 50, 53, 49>>, <<1, 0, 10485761, -26>>>>,
  <<<<48, 46, 49, 53, 54, 50, 53, 48, 48, 48, 55, 52, 53, 48, 53, 56, 48, 53, 57, 54, 57, 50, 51, 56, 50, 56, 49, 50, 52, 57>>, <<1, 0, 10485760, -26>>>>,
  <<<<49, 48, 48, 48, 46, 48, 48, 48, 48, 51, 48, 53, 49, 55, 53, 55, 56, 49, 50, 53, 49>>, <<1, 0, 16384001, -14>>>>,
  <<<<49, 48, 48, 48, 46, 48, 48, 48, 48, 51, 48, 53, 49, 55, 53, 55, 56, 49, 50, 52, 57>>, <<1, 0, 16384000, -14>>>>,
  <<<<50, 46, 57, 57, 57, 57, 57, 57, 56, 56, 48, 55, 57, 48, 55, 49, 48, 52, 52, 57, 50, 49, 56, 55, 53, 49>>, <<1, 0, 12582912, -22>>>>,
  <<<<50, 46, 57, 57, 57, 57, 57, 57, 56, 56, 48, 55, 57, 48, 55, 49, 48, 52, 52, 57, 50, 49, 56, 55, 52, 57>>, <<1, 0, 12582911, -22>>>>,
  <<<<45, 49, 46, 48, 48, 48, 48, 48, 48, 48, 53, 57, 54, 48, 52, 54, 52, 52, 55, 55, 53, 51, 57, 48, 54, 50, 53, 49>>, <<1, 1, 8388609, -23>>>>,
  <<<<45, 49, 46, 48, 48, 48, 48, 48, 48, 48, 53, 57, 54, 48, 52, 54, 52, 52, 55, 55, 53, 51, 57, 48, 54, 50, 52, 57>>, <<1, 1, 8388608, -23>>>>,
  <<<<45, 49, 46, 48, 48, 48, 48, 48, 48, 49, 55, 56, 56, 49, 51, 57, 51, 52, 51, 50, 54, 49, 55, 49, 56, 55, 53, 49>>, <<1, 1, 8388610, -23>>>>,
  <<<<45, 49, 46, 48, 48, 48, 48, 48, 48, 49, 55, 56, 56, 49, 51, 57, 51, 52, 51, 50, 54, 49, 55, 49, 56, 55, 52, 57>>, <<1, 1, 8388609, -23>>>>,
  <<<<48, 46, 49, 56, 55, 53, 48, 48, 48, 50, 50, 51, 53, 49, 55, 52, 49, 55, 57, 48, 55, 55, 49, 52, 56, 52, 51, 55, 53, 49>>, <<1, 0, 12582914, -26>>>>,
  <<<<48, 46, 49, 56, 55, 53, 48, 48, 48, 50, 50, 51, 53, 49, 55, 52, 49, 55, 57, 48, 55, 55, 49, 52, 56, 52, 51, 55, 52, 57>>, <<1, 0, 12582913, -26>>>>,
  <<<<49, 50, 51, 46, 48, 48, 48, 48, 48, 51, 56, 49, 52, 54, 57, 55, 50, 54, 53, 54, 50, 53, 49>>, <<1, 0, 16121857, -17>>>>,
  <<<<49, 50, 51, 46, 48, 48, 48, 48, 48, 51, 56, 49, 52, 54, 57, 55, 50, 54, 53, 54, 50, 52, 57>>, <<1, 0, 16121856, -17>>>>
>>
HardIdxOf(t) == LET S == {i \in 1..Len(HardLits) : HardLits[i][1] = t} IN IF S = {} THEN 0 ELSE CHOOSE i \in S : TRUE
HardMark == 1000000000          \* a coordinate given by table entry i is carried as -(HardMark + i)

CoordOk(t) == LET l == Lit(t) IN l.ok /\ Scaled(l)[1] = "yes"
Coord(t) == Scaled(Lit(t))[2]

\* ---------------------------------------------------------------- items
\* index group  i | i/t | i//n | i/t/n   ->  [ok, pos, uv, n]  (-1 = absent)
Group(t) ==
  LET parts == Pieces(t, {47}, TRUE) IN
  IF Len(parts) = 1 /\ IdxOk(parts[1]) THEN [ok |-> TRUE, pos |-> Idx(parts[1]), uv |-> -1, n |-> -1]
  ELSE IF Len(parts) = 2 /\ IdxOk(parts[1]) /\ IdxOk(parts[2])
       THEN [ok |-> TRUE, pos |-> Idx(parts[1]), uv |-> Idx(parts[2]), n |-> -1]
  ELSE IF Len(parts) = 3 /\ IdxOk(parts[1]) /\ (parts[2] = <<>> \/ IdxOk(parts[2])) /\ IdxOk(parts[3])
       THEN [ok |-> TRUE, pos |-> Idx(parts[1]), uv |-> IF parts[2] = <<>> THEN -1 ELSE Idx(parts[2]),
             n |-> Idx(parts[3])]
  ELSE [ok |-> FALSE, pos |-> 0, uv |-> 0, n |-> 0]

\* classification of one line: <<kind, payload>>
Item(line) ==
  LET tk == Tokens(line) IN
  IF tk = <<>> THEN <<"blank">>
  ELSE IF tk[1][1] = 35 THEN <<"comment">>
  ELSE IF tk[1] = <<118>> /\ Len(tk) = 4 /\ \A i \in 2..4 : CoordOk(tk[i])
       THEN <<"v", <<Coord(tk[2]), Coord(tk[3]), Coord(tk[4])>>>>
  \* a vertex with table literals: the other coordinates are written "0"
  ELSE IF tk[1] = <<118>> /\ Len(tk) = 4 /\ \A i \in 2..4 : (tk[i] = <<48>> \/ HardIdxOf(tk[i]) # 0)
       THEN <<"v", [i \in 1..3 |-> IF tk[i + 1] = <<48>> THEN 0 ELSE -(HardMark + HardIdxOf(tk[i + 1]))]>>
  ELSE IF tk[1] = <<118, 110>> /\ Len(tk) = 4 /\ \A i \in 2..4 : Lit(tk[i]).ok THEN <<"vn">>
  ELSE IF tk[1] = <<118, 116>> /\ Len(tk) = 3 /\ \A i \in 2..3 : Lit(tk[i]).ok THEN <<"vt">>
  ELSE IF tk[1] = <<102>> /\ Len(tk) = 4 /\ \A i \in 2..4 : Group(tk[i]).ok
       THEN <<"f", <<Group(tk[2]), Group(tk[3]), Group(tk[4])>>>>
  ELSE <<"other">>

Items(bs) == LET ls == Lines(bs) IN [i \in 1..Len(ls) |-> Item(ls[i])]

Sel(items, kind) == {i \in 1..Len(items) : items[i][1] = kind}
\* the k-th smallest element of a finite set of naturals, as a sequence
RECURSIVE Sorted(_)
Sorted(S) == IF S = {} THEN <<>> ELSE LET m == CHOOSE x \in S : \A y \in S : x <= y IN <<m>> \o Sorted(S \ {m})

Parsed(bs) ==
  LET it == Items(bs)
      vs == Sorted(Sel(it, "v"))
      fs == Sorted(Sel(it, "f"))
  IN [items |-> it,
      verts |-> [k \in 1..Len(vs) |-> it[vs[k]][2]],
      faces |-> [k \in 1..Len(fs) |-> it[fs[k]][2]],
      nvt |-> Cardinality(Sel(it, "vt")), nvn |-> Cardinality(Sel(it, "vn"))]

WellFormedP(p) ==
  /\ Sel(p.items, "other") = {}
  /\ \A k \in 1..Len(p.faces) : \A j \in 1..3 :
       LET g == p.faces[k][j] IN
       /\ g.pos >= 1 /\ g.pos <= Len(p.verts)
       /\ g.uv = -1 \/ (g.uv >= 1 /\ g.uv <= p.nvt)
       /\ g.n = -1 \/ (g.n >= 1 /\ g.n <= p.nvn)

\* ---------------------------------------------------------------- large files
\* A file given by its parameters (the recorder writes it: e.nv vertices "v i 0 0", i = 0, 1, ..., and the one
\* face e.f): only a summary is judged.  Vertex counts around 2^8 and 2^16.
BigAllowed(e) ==
  LET inr == \A j \in 1..3 : e.f[j] >= 1 /\ e.f[j] <= e.nv IN
  /\ e.status # "panic"
  /\ inr => /\ e.status = "ok" /\ e.built = "ok" /\ e.nvobs = e.nv /\ e.vlast = <<e.nv - 1, 0, 0>>
            /\ e.faces = <<<<e.f[1] - 1, e.f[2] - 1, e.f[3] - 1>>>>
  \* a face that refers to a missing vertex: an error (or a builder without that face)
  /\ ~inr => (e.status = "err" \/ (e.status = "ok" /\ e.built = "ok" /\ e.faces = <<>>))

\* ---------------------------------------------------------------- relation
\* e.res = <<"ok", verts, faces, build>> | <<"err", name>> | <<"panic", 0>>
\*   verts: sequence of <<exactflag, x, y, z>> (scaled by 1024), faces: <<a,b,c>> zero-based,
\*   build: "ok" | "panic"
Allowed(e) ==
  LET res == e.res IN
  /\ res[1] # "panic"
  /\ res[1] = "ok" =>
       /\ res[4] = "ok"
       /\ \A k \in 1..Len(res[3]) : \A j \in 1..3 : res[3][k][j] >= 0 /\ res[3][k][j] < Len(res[2])
  /\ LET p == Parsed(e.bytes) IN
     WellFormedP(p) =>
       /\ res[1] = "ok"
       /\ Len(res[2]) = Len(p.verts)
       /\ \A k \in 1..Len(p.verts) :
            IF \A c \in 1..3 : p.verts[k][c] > -HardMark
            THEN res[2][k] = <<1, p.verts[k][1], p.verts[k][2], p.verts[k][3]>>
            ELSE \* table literals: the coordinate is bit for bit the expected f32 (e.vb: f32 records)
                 \A c \in 1..3 :
                   IF p.verts[k][c] > -HardMark THEN e.vb[k][c] = <<0, 0, 0, 0>>
                   ELSE e.vb[k][c] = HardLits[-p.verts[k][c] - HardMark][2]
       /\ Len(res[3]) = Len(p.faces)
       /\ \A k \in 1..Len(p.faces) :
            res[3][k] = <<p.faces[k][1].pos - 1, p.faces[k][2].pos - 1, p.faces[k][3].pos - 1>>
=============================================================================
