------------------------------ MODULE MC_MeshB ------------------------------
(* Small-scope exploration of the mesh builder: every sequence of up to     *)
(* MaxOps operations over a few positions and index triples.  Checked on    *)
(* the machine itself: forward references are harmless until normals/build; *)
(* transform is eager (later vertices are not moved); the vertex normal is  *)
(* independent of the order of the faces and flips with the winding.        *)
(* Every behaviour is exported for replay on the real builder.              *)
EXTENDS MeshB, Json

CONSTANTS MaxOps, Export

Pos == {<<0, 0, 0>>, <<1, 0, 0>>, <<0, 1, 0>>, <<0, 0, 2>>, <<1, 1, 1>>}
Faces == {<<0, 1, 2>>, <<0, 2, 1>>, <<0, 1, 3>>, <<2, 1, 3>>, <<0, 0, 1>>, <<0, 1, 4>>}
Moves == {[t |-> <<1, -1, 0>>, kx |-> <<1, 1, 1>>], [t |-> <<0, 0, 0>>, kx |-> <<-1, 1, 1>>], [t |-> <<0, 1, 0>>, kx |-> <<2, 2, 2>>]}

Calls ==
  {[op |-> "push_face", f |-> f] : f \in Faces}
  \cup {[op |-> "push_verts", ps |-> <<p, q>>] : p \in {<<0, 0, 0>>, <<1, 1, 1>>}, q \in {<<1, 0, 0>>, <<0, 0, 2>>}}
  \cup {[op |-> "push_vert", p |-> p] : p \in Pos}
  \cup {[op |-> "push_faces", fs |-> <<<<0, 1, 2>>, <<0, 2, 3>>>>]}
  \cup {[op |-> "transform", t |-> m.t, kx |-> m.kx] : m \in Moves}
  \cup {[op |-> "normals"], [op |-> "build"]}

VARIABLES s, hist, done
vars == <<s, hist, done>>
Init == s = Init0 /\ hist = <<>> /\ done = FALSE
Next ==
  /\ ~done /\ Len(hist) < MaxOps
  /\ \E c \in Calls :
       /\ Enabled(s, c)
       /\ hist' = Append(hist, c)
       /\ IF MustPanic(s, c) \/ c.op = "build" THEN done' = TRUE /\ s' = s
          ELSE done' = FALSE /\ s' = Apply(s, c)
Spec == Init /\ [][Next]_vars
View == <<s, done, Len(hist)>>

Laws ==
  /\ Len(s.faces) + Len(s.verts) <= 2 * MaxOps + 2
  \* the normal of a vertex does not depend on the order in which the faces were pushed
  /\ (Valid(s) /\ Len(s.faces) >= 2) =>
       LET r == [s EXCEPT !.faces = [j \in 1..Len(s.faces) |-> s.faces[Len(s.faces) + 1 - j]]] IN
       \A v \in 0..(Len(s.verts) - 1) : VertexNormal(r, v) = VertexNormal(s, v)
  \* ... and flips when every face is wound the other way
  /\ Valid(s) =>
       LET w == [s EXCEPT !.faces = [j \in 1..Len(s.faces) |-> <<s.faces[j][1], s.faces[j][3], s.faces[j][2]>>]] IN
       \A v \in 0..(Len(s.verts) - 1) : VertexNormal(w, v) = <<-VertexNormal(s, v)[1], -VertexNormal(s, v)[2], -VertexNormal(s, v)[3]>>

ExportInv == (Export /\ (done \/ Len(hist) = MaxOps)) => PrintT(<<"REPLAY", ToJson(hist)>>)
=============================================================================
