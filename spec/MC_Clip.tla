------------------------------ MODULE MC_Clip ------------------------------
(***************************************************************************)
(* The Clip relation checked against an exact reference clipper.           *)
(*                                                                         *)
(* SH(t) is Sutherland-Hodgman over the six planes in exact rational       *)
(* barycentric coordinates <<n1, n2, n3, den>> (integers, gcd-reduced).    *)
(* For every triangle with vertices from a set of representative lattice   *)
(* points (inside, on each plane, outside each plane, behind the eye) TLC   *)
(* checks that                                                             *)
(*   - every vertex of SH(t) satisfies all plane inequalities exactly,     *)
(*   - the relation Clip!Allowed ACCEPTS the ideal output (the fan of the  *)
(*     exact polygon, rounded as the harness rounds): no false alarm by    *)
(*     construction,                                                       *)
(*   - the relation REJECTS the same output with its last fan triangle     *)
(*     dropped or with a triangle's winding reversed, whenever that        *)
(*     triangle is not tiny: the relation is sharp.                        *)
(***************************************************************************)
EXTENDS Clip

RECURSIVE Gcd(_, _)
Gcd(x, y) == IF y = 0 THEN x ELSE Gcd(y, x % y)
Norm(v) ==
  LET s == IF v[4] < 0 THEN -1 ELSE 1
      g0 == Gcd(Gcd(Abs(v[1]), Abs(v[2])), Gcd(Abs(v[3]), Abs(v[4])))
      g == IF g0 = 0 THEN 1 ELSE g0
  IN <<(s * v[1]) \div g, (s * v[2]) \div g, (s * v[3]) \div g, (s * v[4]) \div g>>

\* den * distance of rational point P from plane p (den > 0, so the sign is that of the distance)
DNum(t, p, P) == P[1] * Dist(p, t[1]) + P[2] * Dist(p, t[2]) + P[3] * Dist(p, t[3])

Cross(t, p, P, Q) ==
  LET dp == DNum(t, p, P)  dq == DNum(t, p, Q) IN
  Norm(<<dp * Q[1] - dq * P[1], dp * Q[2] - dq * P[2], dp * Q[3] - dq * P[3], dp * Q[4] - dq * P[4]>>)

\* one plane: polygon (sequence of rational points) -> polygon
ClipPlane(t, p, poly) ==
  LET n == Len(poly)
      piece(i) ==
        LET P == poly[i]  Q == poly[(i % n) + 1]
            dp == DNum(t, p, P)  dq == DNum(t, p, Q)
            keep == IF dp >= 0 THEN <<P>> ELSE <<>>
            cut == IF (dp > 0 /\ dq < 0) \/ (dp < 0 /\ dq > 0) THEN <<Cross(t, p, P, Q)>> ELSE <<>>
        IN keep \o cut
      RECURSIVE cat(_)
      cat(i) == IF i > n THEN <<>> ELSE piece(i) \o cat(i + 1)
  IN IF n = 0 THEN <<>> ELSE cat(1)

RECURSIVE SHFrom(_, _, _)
SHFrom(t, p, poly) == IF p > 6 \/ poly = <<>> THEN poly ELSE SHFrom(t, p + 1, ClipPlane(t, p, poly))
SH(t) == SHFrom(t, 1, <<<<1, 0, 0, 1>>, <<0, 1, 0, 1>>, <<0, 0, 1, 1>>>>)

\* the rounding the harness applies: barycentrics scaled by B
Rounded(P) == <<(2 * P[1] * B + P[4]) \div (2 * P[4]), (2 * P[2] * B + P[4]) \div (2 * P[4]),
                (2 * P[3] * B + P[4]) \div (2 * P[4]), 0, <<>>>>
Fan(poly) == [k \in 1..(IF Len(poly) >= 3 THEN Len(poly) - 2 ELSE 0) |->
                <<Rounded(poly[1]), Rounded(poly[k + 1]), Rounded(poly[k + 2])>>]

\* representative lattice points (units of 1/4): x, y, z, w
Points == {<<0, 0, 0, 4>>, <<2, -2, 1, 4>>, <<4, 4, 4, 4>>, <<-4, 0, -4, 4>>,     \* inside / on planes
           <<8, 0, 0, 4>>, <<-8, 2, 0, 4>>, <<0, 8, 0, 4>>, <<1, -8, 2, 4>>,      \* outside one side plane
           <<0, 0, 8, 4>>, <<0, 2, -8, 4>>,                                        \* beyond far / near
           <<8, 8, 0, 2>>, <<-6, 7, 5, 2>>,                                        \* outside two or three
           <<1, 1, -6, -4>>, <<3, -2, 0, -2>>, <<0, 0, 0, 8>>}                     \* behind the eye; deep inside

VARIABLES t, ph
vars == <<t, ph>>
Init == ph = 0 /\ t \in {<<a, a, a>> : a \in Points}
Next == ph = 0 /\ ph' = 1 /\ \E b \in Points, c \in Points : t' = <<t[1], b, c>>
Spec == Init /\ [][Next]_vars

Ideal(tri) ==
  LET poly == SH(tri) IN
  [t |-> tri, a |-> <<<<>>, <<>>, <<>>>>, out |-> Fan(poly), panic |-> 0, batch |-> 1,
   same |-> IF AllInside(tri) THEN 1 ELSE 0]

NonDegenerate(tri) ==
  \* the three 4-vectors span a plane through... (x, y, w) determinant as a cheap proxy
  LET m(i, j) == tri[i][<<1, 2, 4>>[j]] IN
  m(1, 1) * (m(2, 2) * m(3, 3) - m(2, 3) * m(3, 2)) - m(1, 2) * (m(2, 1) * m(3, 3) - m(2, 3) * m(3, 1))
  + m(1, 3) * (m(2, 1) * m(3, 2) - m(2, 2) * m(3, 1)) # 0

ExactInside ==
  ph = 1 => \A i \in 1..Len(SH(t)) : \A p \in Planes : DNum(t, p, SH(t)[i]) >= 0

AcceptsIdeal == (ph = 1 /\ NonDegenerate(t)) => Allowed(Ideal(t))

Big == 400000      \* an output triangle of at least ~1 % of the input's area (E2 units)
RejectsBroken ==
  (ph = 1 /\ NonDegenerate(t)) =>
    LET e == Ideal(t)  n == Len(e.out) IN
    /\ (n >= 2 /\ Orient(e.out[n]) > Big) => ~Allowed([e EXCEPT !.out = SubSeq(e.out, 1, n - 1), !.same = 0])
    /\ (n = 1 /\ \E g \in FinePts : ClearlyIn(t, TolD(t), g)) => ~Allowed([e EXCEPT !.out = <<>>, !.same = 0])
    /\ (n >= 1 /\ Orient(e.out[1]) > Big) =>
         ~Allowed([e EXCEPT !.out[1] = <<e.out[1][1], e.out[1][3], e.out[1][2]>>, !.same = 0])
    /\ (n >= 1 /\ ~AllInside(t)) => ~Allowed([e EXCEPT !.batch = 0])
=============================================================================
