----------------------------- MODULE TV_Buf2 -----------------------------
(***************************************************************************)
(* Trace validation for C11: every history recorded from the real          *)
(* Buf2/Slice2/MutSlice2 (file named by env TRACE, one history per line:   *)
(* [k, ev]) must be a behaviour of the Buf2 relation.  Bulk (fold) form:   *)
(* one rejected history does not hide the others, and the index of the     *)
(* first rejected event of each is reported.                               *)
(***************************************************************************)
EXTENDS Buf2, Json, IOUtils, SequencesExt

Hist == ndJsonDeserialize(IOEnv.TRACE)

\* fold state: [s |-> abstract state, bad |-> 0 or index of first rejected event, i |-> position]
StepAcc(acc, e) ==
  IF acc.bad # 0 THEN acc
  ELSE IF Allowed(acc.s, e)
       THEN [s |-> Apply(acc.s, e), bad |-> 0, i |-> acc.i + 1]
       ELSE [s |-> acc.s, bad |-> acc.i + 1, i |-> acc.i + 1]

Run(h) == FoldLeft(StepAcc, [s |-> Empty, bad |-> 0, i |-> 0], h.ev)

Verdicts == [k \in DOMAIN Hist |-> Run(Hist[k]).bad]
Bad == {k \in DOMAIN Hist : Verdicts[k] # 0}
NEvents == FoldLeft(LAMBDA a, h : a + Len(h.ev), 0, Hist)

ASSUME PrintT(<<"TVSTAT", Len(Hist), NEvents>>)
ASSUME \A k \in DOMAIN Hist :
         Verdicts[k] = 0 \/ PrintT(<<"BAD", k, Hist[k].k, Verdicts[k], ToJson(Hist[k].ev[Verdicts[k]])>>)
ASSUME PrintT(<<"TVDONE", Cardinality(Bad)>>)
=============================================================================
