---------------------------- MODULE TV_FloatCons ----------------------------
(***************************************************************************)
(* C20, last sentence: pixel rounding, texture addressing, normalisation   *)
(* and angle wrapping behave the same whichever float backend the crate is *)
(* built with.  Each record (env TRACE) joins the observations of the same *)
(* call made by the four builds of floatprobe: v = <<none, libm, mm, std>> *)
(* (a build that lacks the operation contributes <<>>).                    *)
(***************************************************************************)
EXTENDS Integers, Sequences, FiniteSets, TLC, Json, IOUtils

AbsI(x) == IF x < 0 THEN -x ELSE x
Rec == ndJsonDeserialize(IOEnv.TRACE)

\* scaled by 2^20 (angles additionally divided by 16)
NormTol == 5243 + 8          \* 5e-3: the fallback / mm reciprocal square roots
WrapTol == 66 + 8            \* 1e-3 degrees / 16

Present(r) == {i \in 1..4 : r.v[i] # <<>>}

Allowed(r) ==
  LET std == r.v[4] IN
  CASE r.op = "cons" -> \A i \in Present(r) : r.v[i] = std              \* ok flag, count, digests: identical
    [] r.op = "norm" ->
         \A i \in Present(r) :
           /\ r.v[i][1] = 1
           /\ \A c \in 1..3 : AbsI(r.v[i][2][c] - std[2][c]) <= NormTol
    [] r.op = "wrap" ->
         \A i \in Present(r) :
           /\ r.v[i][1] = 1
           /\ LET d == AbsI(r.v[i][2] - std[2])  per == r.hi - r.lo IN
              d <= WrapTol \/ AbsI(d - per) <= WrapTol
    [] OTHER -> FALSE

Bad == {k \in DOMAIN Rec : ~Allowed(Rec[k])}
ASSUME PrintT(<<"TVSTAT", Len(Rec), Len(Rec)>>)
ASSUME \A k \in Bad : PrintT(<<"BAD", k, Rec[k].k, Rec[k].op, ToJson(Rec[k])>>)
ASSUME PrintT(<<"TVDONE", Cardinality(Bad)>>)
=============================================================================
