------------------------------- MODULE Raster -------------------------------
(***************************************************************************)
(* C04 / C05.  Scan conversion of a screen-space triangle as a relation    *)
(* between lattice triangles and observed scanlines / fragments.           *)
(*                                                                         *)
(* Vertices lie on the lattice of 1/2^s px (s >= 1): a vertex is <<X, Y>>  *)
(* in lattice units.  The centre of pixel (i, j) is                        *)
(* <<(2i+1) * 2^(s-1), (2j+1) * 2^(s-1)>> in the same units, so every edge *)
(* function is an exact integer.                                           *)
(*                                                                         *)
(* Per-vertex data for C05: reciprocal depth Z[i]/ZDEN and pre-divided     *)
(* attribute components A[i][c] * Z[i] / ZDEN (what the renderer hands to  *)
(* the rasteriser); the fragment must carry depth  sum(l_i Z_i)/ZDEN  and  *)
(* attribute  sum(l_i A_i Z_i) / sum(l_i Z_i)  with l_i the screen-space   *)
(* barycentrics E_i / E.  Both are homogeneous in the reciprocal depths:   *)
(* multiplying every Z[i] by 2^zsc (record field zsc, the surface seen at   *)
(* another absolute distance) multiplies the depth by 2^zsc and leaves the  *)
(* attribute unchanged, so the recorder divides the observed depth by       *)
(* 2^zsc (exactly) and the relation never mentions zsc.                     *)
(***************************************************************************)
EXTENDS Integers, Sequences, FiniteSets, TLC

Abs(x) == IF x < 0 THEN -x ELSE x
Sign(x) == IF x > 0 THEN 1 ELSE IF x < 0 THEN -1 ELSE 0
\* (s >= 100 names a lattice that is not a power of two: s - 100 units per pixel, an even number)
Half(s) == IF s >= 100 THEN (s - 100) \div 2 ELSE 2 ^ (s - 1)
Unit(s) == IF s >= 100 THEN s - 100 ELSE 2 ^ s

\* edge function of edge a->b at point q (twice the signed area of a, b, q)
Edge(a, b, q) == (b[1] - a[1]) * (q[2] - a[2]) - (b[2] - a[2]) * (q[1] - a[1])
Area2(v) == Edge(v[1], v[2], v[3])

Centre(s, i, j) == <<(2 * i + 1) * Half(s), (2 * j + 1) * Half(s)>>

\* the three edge functions at q, oriented so that inside means positive
EdgeFns(v, q) ==
  LET o == Sign(Area2(v)) IN
  <<o * Edge(v[2], v[3], q), o * Edge(v[3], v[1], q), o * Edge(v[1], v[2], q)>>

\* q within 0.001 px of the line through a, b (L1-widened: never narrower)
NearEdge(s, a, b, q) ==
  LET e == Abs(Edge(a, b, q)) IN
  \* (the guard keeps e * 1000 within 32 bits; beyond it q is far from the line)
  e < 2000000 /\ e * 1000 <= (Abs(b[1] - a[1]) + Abs(b[2] - a[2])) * Unit(s)

InBand(s, v, q) ==
  NearEdge(s, v[2], v[3], q) \/ NearEdge(s, v[3], v[1], q) \/ NearEdge(s, v[1], v[2], q)

StrictlyInside(v, q) == LET e == EdgeFns(v, q) IN Area2(v) # 0 /\ e[1] > 0 /\ e[2] > 0 /\ e[3] > 0
Outside(v, q) == LET e == EdgeFns(v, q) IN Area2(v) = 0 \/ e[1] < 0 \/ e[2] < 0 \/ e[3] < 0

MustCover(s, v, i, j) == LET q == Centre(s, i, j) IN StrictlyInside(v, q) /\ ~InBand(s, v, q)
MustNotCover(s, v, i, j) == LET q == Centre(s, i, j) IN Outside(v, q) /\ ~InBand(s, v, q)

\* pixel columns / rows that can hold a covered centre
MinC(v, k) == LET S == {v[1][k], v[2][k], v[3][k]} IN CHOOSE x \in S : \A y \in S : x <= y
MaxC(v, k) == LET S == {v[1][k], v[2][k], v[3][k]} IN CHOOSE x \in S : \A y \in S : x >= y
\* pixel indices whose centre lies in [lo, hi] (lattice units), widened by one
PixRange(s, lo, hi) == ((lo \div Unit(s)) - 1)..((hi \div Unit(s)) + 1)

\* ---------------------------------------------------------------- C04
\* e.rows: sequence of <<y, x0, x1, nfrags, frags>>, in the order produced
Covered(rows, i, j) == \E r \in 1..Len(rows) : rows[r][1] = j /\ rows[r][2] <= i /\ i < rows[r][3]
TimesCovered(rows, i, j) == Cardinality({r \in 1..Len(rows) : rows[r][1] = j /\ rows[r][2] <= i /\ i < rows[r][3]})

CovAllowed(e) ==
  LET s == e.s  v == e.v  rows == e.rows IN
  /\ e.panic = 0
  \* rows arrive in strictly increasing y: no row twice
  /\ \A r \in 1..(Len(rows) - 1) : rows[r][1] < rows[r + 1][1]
  \* the reported x-range has the length of the fragment sequence
  /\ \A r \in 1..Len(rows) :
       rows[r][4] = (IF rows[r][3] > rows[r][2] THEN rows[r][3] - rows[r][2] ELSE 0)
  \* exactly the pixels whose centres are inside, up to the band; off-grid
  \* pixels (negative indices) cannot be reported and are not required
  /\ \A i \in PixRange(s, MinC(v, 1), MaxC(v, 1)), j \in PixRange(s, MinC(v, 2), MaxC(v, 2)) :
       /\ (i >= 0 /\ j >= 0 /\ MustCover(s, v, i, j)) => Covered(rows, i, j)
       /\ MustNotCover(s, v, i, j) => ~Covered(rows, i, j)
  \* nothing outside the bounding box at all
  /\ \A r \in 1..Len(rows) :
       rows[r][3] > rows[r][2] =>
         /\ rows[r][1] \in PixRange(s, MinC(v, 2), MaxC(v, 2))
         /\ rows[r][2] \in PixRange(s, MinC(v, 1), MaxC(v, 1))
         /\ (rows[r][3] - 1) \in PixRange(s, MinC(v, 1), MaxC(v, 1))

\* ---------------------------------------------------------------- C05
ZDEN == 20
\* observations are scaled integers: position * 1024, depth * 65536, attribute * 1024
PosScale == 1024
ZScale == 65536
AScale == 1024

MinOf(S) == CHOOSE x \in S : \A y \in S : x <= y
MaxOf(S) == CHOOSE x \in S : \A y \in S : x >= y

\* fragment f = <<fin, px, py, pz, <<attr components>>>> at pixel (i, j)
FragOK(e, i, j, f) ==
  LET s == e.s  v == e.v
      q == Centre(s, i, j)
      o == Sign(Area2(v))
      E1 == o * Edge(v[2], v[3], q)  E2 == o * Edge(v[3], v[1], q)  E3 == o * Edge(v[1], v[2], q)
      E == E1 + E2 + E3                                   \* = |Area2(v)|
      DZ == E1 * e.Z[1] + E2 * e.Z[2] + E3 * e.Z[3]       \* depth = DZ / (ZDEN * E)
      zr == MaxOf({e.Z[1], e.Z[2], e.Z[3]}) - MinOf({e.Z[1], e.Z[2], e.Z[3]})
  IN
  /\ f[1] = 1                                             \* every component finite
  \* the fragment sits at its pixel centre (1e-3 px)
  /\ Abs(f[2] - (2 * i + 1) * (PosScale \div 2)) <= 2
  /\ Abs(f[3] - (2 * j + 1) * (PosScale \div 2)) <= 2
  \* depth: |pz/ZScale - DZ/(ZDEN*E)| <= 0.005 * zr/ZDEN + 1e-5 (+ one unit of scaling)
  /\ Abs(f[4] * ZDEN * E - DZ * ZScale) <= ((zr * ZScale * E) \div 200) + 2 * ZDEN * E + 1
  \* attributes: |a/AScale - N/DZ| <= 0.005 * range + 1e-5 * max (+ one unit)
  /\ \A c \in 1..Len(f[5]) :
       LET N == E1 * e.A[1][c] * e.Z[1] + E2 * e.A[2][c] * e.Z[2] + E3 * e.A[3][c] * e.Z[3]
           as == {e.A[1][c], e.A[2][c], e.A[3][c]}
           ar == MaxOf(as) - MinOf(as)
       IN Abs(f[5][c] * DZ - N * AScale) <= ((ar * AScale * DZ) \div 200) + 2 * DZ + 1

\* The public scan() iterator consumed through an adaptor that skips rows (e.how: "step_by" kn, "skip" kn,
\* "nth" kn and then on): e.rows2 must be the rows of the plain run e.rows at the positions the adaptor
\* selects - each with its own y, x-range and fragments.
ScanAdaptAllowed(e) ==
  LET n == Len(e.rows)
      idx == IF e.how = "step_by"
             THEN [j \in 1..((n + e.kn - 1) \div e.kn) |-> (j - 1) * e.kn + 1]
             ELSE [j \in 1..(IF n > e.kn THEN n - e.kn ELSE 0) |-> j + e.kn]
  IN /\ e.panic = 0
     /\ Len(e.rows2) = Len(idx)
     /\ \A j \in 1..Len(idx) : e.rows2[j] = e.rows[idx[j]]

\* long spans and tall triangles (hundreds of pixels: e.c05 = 2): every fragment is finite and sits at the
\* centre of ITS pixel (the arithmetic of the value clauses would not fit 32 bits here)
FragPosAllowed(e) ==
  /\ e.panic = 0
  /\ \A r \in 1..Len(e.rows) :
       LET row == e.rows[r] IN
       /\ row[4] = row[3] - row[2]
       /\ \A k \in 1..Len(row[5]) :
            LET f == row[5][k] IN
            /\ f[1] = 1
            /\ Abs(f[2] - (2 * (row[2] + k - 1) + 1) * (PosScale \div 2)) <= 2
            /\ Abs(f[3] - (2 * row[1] + 1) * (PosScale \div 2)) <= 2

\* every fragment of every scanline (C05 judges what is there; C04 judges which are there)
FragAllowed(e) ==
  /\ e.panic = 0
  /\ Abs(Area2(e.v)) * 1000000 > (Unit(e.s) * Unit(e.s)) =>      \* area > 1e-6 px^2 (twice-area form, widened)
       \A r \in 1..Len(e.rows) :
         LET row == e.rows[r] IN
         \A k \in 1..Len(row[5]) : FragOK(e, row[2] + k - 1, row[1], row[5][k])
=============================================================================
