-------------------------------- MODULE Angle --------------------------------
(***************************************************************************)
(* C18.  Angles: unit conversions, wrapping, arithmetic, polar and         *)
(* spherical coordinates - as RELATIONS between observed values (pi being  *)
(* irrational, the specification never computes a trigonometric value;     *)
(* exactness comes from Pythagorean directions, whose sines and cosines    *)
(* are rational).  All observations are scaled integers.                   *)
(***************************************************************************)
EXTENDS Integers, Sequences, FiniteSets, TLC

Abs(x) == IF x < 0 THEN -x ELSE x
Sgn(x) == IF x > 0 THEN 1 ELSE IF x < 0 THEN -1 ELSE 0
Near(a, b, tol) == Abs(a - b) <= tol

\* ---------------------------------------------------------------- wrap
\* r = wrap(a, lo, hi): lo <= r <= hi and (a - r) a whole number of periods (within 1e-3 of one)
WrapOK(a, lo, hi, r, slack) ==
  LET p == hi - lo
      k == IF a - r >= 0 THEN (a - r + p \div 2) \div p ELSE -((r - a + p \div 2) \div p)
  IN /\ r >= lo - slack /\ r <= hi + slack
     /\ Abs(a - r - k * p) <= p \div 1000 + slack * (2 + Abs(k))

\* ---------------------------------------------------------------- relation
\* e.op = "conv":  x in unit e.u, read back as vd (degrees), vr (radians), vt (turns); scale 256 (vt: 65536)
\*        "wrap":  a, lo, hi, r in degrees, scale 1024; below = 1 iff r < lo, above = 1 iff r > hi (exact f32 comparisons)
\*        "arith": a, b, kf (scaled 64 / kf plain) and the results of + - * / min max clamp neg
\*        "pyth":  polar(R, angle of (cx, sy)/kd): cart (x, y) must be R*(cx, sy)/k; scale 1024
\*        "vec2":  v (scaled so that its largest component is ~2^13), polar (r, az degrees*64); vf and back
\*                 (the vector and its round trip) scaled a further 1024 times
\*        "vec3":  the same with spherical (r, az, alt)
\*        "pyth3": spherical(R, az of (cx, sz)/kd, alt of (ch, sy)/m) -> cart must be R*(ch*cx/(kd*m), sy/m, ch*sz/(kd*m))
\*        "polbig" / "convx": see below
\*        "trig":  s, c from sin(), cos(); s2, c2 from sin_cos(); scale 16384
Allowed(e) ==
  CASE e.op = "conv" ->
         /\ e.panic = 0
         \* the unit the angle was built in reads back the input
         /\ CASE e.u = "deg" -> Near(e.vd, e.x, 2 + Abs(e.x) \div 20000)
              [] e.u = "rad" -> Near(e.vr, e.x, 2 + Abs(e.x) \div 20000)
              [] OTHER       -> Near(e.vt, e.x * 256, 512 + Abs(e.x) \div 80)
         \* one turn = 360 degrees: vd / 360 = vt
         /\ Near(e.vd * 256, 360 * e.vt, 1500 + Abs(e.vd) \div 40)
         \* 180 degrees = pi radians, with pi ~ 355/113 (8e-8)
         /\ Near(180 * 113 * e.vr, 355 * e.vd, 2 * 180 * 113 + 2 * 355 + Abs(e.vd) \div 30)
    \* below / above: the result compared with the bounds as f32 values, exactly
    \* (the upper end is reached by rounding only: an angle EXACTLY a whole number of lengths from the lower end - e.exact -
    \* wraps to the lower end, not to the upper one - e.athi)
    [] e.op = "wrap" -> e.panic = 0 /\ WrapOK(e.a, e.lo, e.hi, e.r, 2) /\ e.below = 0 /\ e.above = 0 /\ (e.exact = 1 => e.athi = 0)
    [] e.op = "arith" ->
         /\ e.panic = 0
         /\ Near(e.add, e.a + e.b, 3) /\ Near(e.sub, e.a - e.b, 3) /\ Near(e.neg, -e.a, 2)
         /\ Near(e.mul, e.a * e.kf, 3 + Abs(e.kf)) /\ Near(e.div * e.kf, e.a, 3 + Abs(e.kf))
         /\ Near(e.min, IF e.a <= e.b THEN e.a ELSE e.b, 2) /\ Near(e.max, IF e.a >= e.b THEN e.a ELSE e.b, 2)
         /\ LET lo == IF e.a <= e.b THEN e.a ELSE e.b  hi == IF e.a >= e.b THEN e.a ELSE e.b IN
            Near(e.clamp, IF e.c < lo THEN lo ELSE IF e.c > hi THEN hi ELSE e.c, 2)
    \* "arithx": e.ar, e.mulr, e.divr f32 records <<class, sign, significand, exponent>> of the angle in radians,
    \* of a * k and of a / k with k = +-2^j: the same significand, the exponent moved by j, the sign flipped by k's
    [] e.op = "arithx" ->
         LET Scaled(r, d) == r[1] = 1 /\ r[2] = (e.ar[2] + e.neg) % 2 /\ r[3] = e.ar[3] /\ r[4] = e.ar[4] + d IN
         /\ e.panic = 0
         /\ e.ar[1] = 1 => (Scaled(e.mulr, e.j) /\ Scaled(e.divr, -e.j))
    [] e.op = "pyth" ->
         /\ e.panic = 0
         /\ Near(e.x * e.kd, e.R * e.cx * 1024, 3 * e.kd + e.R * 2) /\ Near(e.y * e.kd, e.R * e.sy * 1024, 3 * e.kd + e.R * 2)
    [] e.op = "pyth3" ->
         /\ e.panic = 0
         /\ LET km == e.kd * e.m IN
            /\ Near(e.x * km, e.R * e.ch * e.cx * 1024, 3 * km + e.R * 4)
            /\ Near(e.y * e.m, e.R * e.sy * 1024, 3 * e.m + e.R * 4)
            /\ Near(e.z * km, e.R * e.ch * e.sz * 1024, 3 * km + e.R * 4)
    [] e.op = "vec2" ->
         LET n2 == e.v[1] * e.v[1] + e.v[2] * e.v[2]  big == IF Abs(e.v[1]) >= Abs(e.v[2]) THEN Abs(e.v[1]) ELSE Abs(e.v[2]) IN
         /\ e.panic = 0
         /\ Near(e.r * e.r, n2, n2 \div 400 + 4 * big + 8)                       \* radius = length
         /\ e.az >= -180 * 64 - 1 /\ e.az <= 180 * 64 + 1                         \* azimuth range
         /\ (e.v[2] > 8 => e.az > 0) /\ (e.v[2] < -8 => e.az < 0)                 \* upper / lower half plane
         /\ (e.v[1] > 8 => Abs(e.az) < 90 * 64 + 2) /\ (e.v[1] < -8 => Abs(e.az) > 90 * 64 - 2)
         /\ \A i \in 1..2 : Near(e.back[i], e.vf[i], (big * 1024) \div 20000 + 8) \* polar -> cart undoes cart -> polar (5e-5)
    [] e.op = "vec3" ->
         LET n2 == (e.v[1] \div 2) * (e.v[1] \div 2) + (e.v[2] \div 2) * (e.v[2] \div 2) + (e.v[3] \div 2) * (e.v[3] \div 2)
             S == {Abs(e.v[1]), Abs(e.v[2]), Abs(e.v[3])}  big == CHOOSE x \in S : \A y \in S : x >= y IN
         /\ e.panic = 0
         /\ Near((e.r \div 2) * (e.r \div 2), n2, n2 \div 300 + 4 * big + 8)
         /\ e.az >= -180 * 64 - 1 /\ e.az <= 180 * 64 + 1
         /\ e.alt >= -90 * 64 - 1 /\ e.alt <= 90 * 64 + 1
         /\ (e.v[2] > 8 => e.alt > 0) /\ (e.v[2] < -8 => e.alt < 0)
         /\ (e.v[3] > 8 => e.az > 0) /\ (e.v[3] < -8 => e.az < 0)
         /\ (e.v[1] > 8 => Abs(e.az) < 90 * 64 + 2) /\ (e.v[1] < -8 => Abs(e.az) > 90 * 64 - 2)
         /\ \A i \in 1..3 : Near(e.back[i], e.vf[i], (big * 1024) \div 20000 + 8)
    [] e.op = "polbig" ->
         \* polar(R, a).to_cart() = R (cos a, sin a) with cos, sin those of the SAME angle value (scale 65536);
         \* spherical(R, a, 0) lies in the x-z plane at the same azimuth
         /\ e.panic = 0
         /\ Near(e.x, e.R * e.c, 4 + e.R) /\ Near(e.y, e.R * e.s, 4 + e.R)
         /\ Near(e.sx, e.R * e.c, 4 + e.R) /\ Near(e.sz, e.R * e.s, 4 + e.R)
    [] e.op = "convx" ->
         \* an angle of 2^kx in unit u (e.ed / er / et: floor(log2) of its value in degrees / radians / turns,
         \* 999 = not finite): degrees = turns * 360 (2^8.49), radians = turns * 6.28 (2^2.65); a value is
         \* finite whenever its binade is below 2^127
         LET kt == CASE e.u = "turn" -> e.kx [] e.u = "deg" -> e.kx - 9 [] OTHER -> e.kx - 3     \* binade of the turns (+-1)
             \* (neither overflow nor underflow while the binade is well inside the normal range)
             Fits(k, ob) == (k <= 125 => ob # 999) /\ (k >= -120 => ob # -999) /\ (ob # 999 /\ ob # -999 => ob \in (k - 1)..(k + 1))
         IN /\ e.panic = 0
            /\ Fits(kt, e.et) /\ Fits(kt + 2, e.er - 1 + 1) /\ Fits(kt + 8, e.ed)
    \* "rlen": the radius of to_polar (e.r2) / to_spherical (e.r3) of the vector e.v (scaled so that its largest
    \* component is about 2^13) under float backend e.be: the length, to 1 % for the approximating backends
    \* (their square root is good to 5e-3) and to 0.25 % otherwise
    [] e.op = "rlen" ->
         LET n2 == e.v[1] * e.v[1] + e.v[2] * e.v[2]
             n3 == n2 + e.v[3] * e.v[3]
             den == IF e.be \in {"mm", "none"} THEN 50 ELSE 200
         IN /\ e.panic = 0
            \* (components and radii are rounded to integers: 2 r + 1 of slack per radius)
            /\ (n2 > 4000 => Near(e.r2 * e.r2, n2, n2 \div den + 4 * e.r2 + 64))
            /\ Near(e.r3 * e.r3, n3, n3 \div den + 4 * e.r3 + 64)
    [] e.op = "trig" ->
         /\ e.panic = 0
         /\ e.s2 = e.s /\ e.c2 = e.c
         /\ Near(e.s * e.s + e.c * e.c, 16384 * 16384, 16384 * 40)
    [] OTHER -> FALSE
=============================================================================
