------------------------------ MODULE MC_Angle ------------------------------
(***************************************************************************)
(* The wrap relation on the integer-degree lattice: for every angle over   *)
(* three revolutions either way and every interval of a set, the ideal     *)
(* answer lo + ((a - lo) mod (hi - lo)) is accepted, the neighbouring      *)
(* wrong answers (one period off, off by a degree, outside the interval)   *)
(* are rejected; and the quadrant / octant rules of the polar and          *)
(* spherical relations single out exactly one quadrant / octant.           *)
(***************************************************************************)
EXTENDS Angle

Intervals == {<<-180, 180>>, <<0, 360>>, <<-90, 90>>, <<10, 20>>, <<-720, -700>>, <<350, 370>>}

VARIABLES a, iv
vars == <<a, iv>>
Init == a \in (-1080)..1080 /\ iv \in Intervals
Next == UNCHANGED vars
Spec == Init /\ [][Next]_vars

S == 1024
Ideal == iv[1] + ((a - iv[1]) % (iv[2] - iv[1]))
WrapLaws ==
  LET p == iv[2] - iv[1] IN
  /\ WrapOK(a * S, iv[1] * S, iv[2] * S, Ideal * S, 2)
  /\ ~WrapOK(a * S, iv[1] * S, iv[2] * S, (Ideal + p + 1) * S, 2)
  /\ ~WrapOK(a * S, iv[1] * S, iv[2] * S, (Ideal - 1) * S - 8, 2) \/ p <= 2
  /\ (p > 4 /\ Ideal + 2 < iv[2]) => ~WrapOK(a * S, iv[1] * S, iv[2] * S, (Ideal + 2) * S, 2)
  \* the upper end is admitted only as the rounding of a value just below it
  /\ WrapOK(a * S, iv[1] * S, iv[2] * S, (IF Ideal = iv[1] THEN iv[2] ELSE Ideal) * S, 2)
=============================================================================
