------------------------------ MODULE MC_Float ------------------------------
(***************************************************************************)
(* The exact part of the Float specification explored by TLC over every    *)
(* sign x exponent -20..40 x a set of significand patterns:                *)
(*   - Floor / Trunc of F32 satisfy their defining inequalities,           *)
(*   - the two natural ways to compute floor without a floor instruction   *)
(*     are compared with it: `trunc(x) - [x < 0]` (what the fallback used  *)
(*     to do: TLC reports where it fails) and `t = trunc(x); t - [t > x]`. *)
(***************************************************************************)
EXTENDS Float

VARIABLES s, e, m
vars == <<s, e, m>>
Mants == {8388608, 8388609, 12582912, 16777215, 8389632, 12582913, 10485760}
Init == s \in {0, 1} /\ e \in (-43)..7 /\ m \in Mants       \* values 2^-20 .. < 2^31
Next == UNCHANGED vars
Spec == Init /\ [][Next]_vars

X == <<1, s, m, e>>
\* x < n + 1 and n <= x for n = Floor(x), in integers: compare m * 2^e with n
LeqInt(n) == \* n <= x
  IF e >= 0 THEN n <= (IF s = 1 THEN -1 ELSE 1) * m * Pow2(e)
  ELSE LET k == -e IN
       IF k >= 24 THEN (IF s = 0 THEN n <= 0 ELSE n <= -1)
       ELSE IF s = 0 THEN n * Pow2(k) <= m ELSE n * Pow2(k) <= -m
FloorSpecOK == LeqInt(Floor(X)) /\ ~LeqInt(Floor(X) + 1)

TruncMinusSign == Trunc(X) - s                      \* the former fallback
TruncAdjust == LET t == Trunc(X) IN IF LeqInt(t) THEN t ELSE t - 1
AdjustIsFloor == TruncAdjust = Floor(X)
\* the former algorithm is wrong exactly on negative integers
FormerWrongOnlyOnNegInts == (TruncMinusSign # Floor(X)) <=> (s = 1 /\ IsInteger(X))
=============================================================================
