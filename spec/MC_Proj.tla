------------------------------ MODULE MC_Proj ------------------------------
(***************************************************************************)
(* The textbook perspective matrix, transcribed in exact rationals, checked *)
(* by TLC against the GEOMETRIC relation of Proj on a lattice: the relation *)
(* accepts it (inside <=> inside, pinhole image, near/far to -1/+1, depth   *)
(* monotone), and rejects the same matrix with its aspect factor inverted   *)
(* or near and far swapped.  Rect intersection is checked against point     *)
(* membership for every pair of small rectangles with unbounded sides.      *)
(***************************************************************************)
EXTENDS Proj

\* clip coordinates of p under perspective(f = fn/fd, a = an/ad, n, r), scaled by SC, as integers
\* x' = f x, y' = f a y, z' = ((r+n) z - 2 r n) / (r - n), w' = z
Clip(c, p) ==
  <<(c.fn * p[1] * SC) \div c.fd, (c.fn * c.an * p[2] * SC) \div (c.fd * c.ad),
    (((c.r + c.n) * p[3] - 2 * c.r * c.n) * SC) \div (c.r - c.n), p[3] * SC>>
ClipBadAspect(c, p) == [Clip(c, p) EXCEPT ![2] = (c.fn * c.ad * p[2] * SC) \div (c.fd * c.an)]
ClipSwapped(c, p) == [Clip(c, p) EXCEPT ![3] = -(((c.r + c.n) * p[3] - 2 * c.r * c.n) * SC) \div (c.r - c.n)]

Cfgs == {[fn |-> f[1], fd |-> f[2], an |-> a[1], ad |-> a[2], n |-> nr[1], r |-> nr[2]] :
           f \in {<<1, 2>>, <<1, 1>>, <<2, 1>>}, a \in {<<1, 1>>, <<4, 3>>, <<1, 2>>}, nr \in {<<1, 4>>, <<2, 16>>, <<1, 16>>}}

VARIABLES c, p
vars == <<c, p>>
Init == c \in Cfgs /\ p \in ((-9)..9) \X ((-9)..9) \X ((-2)..18)
Next == UNCHANGED vars
Spec == Init /\ [][Next]_vars

Geometry ==
  /\ PerspOK(c, p, Clip(c, p))
  /\ (p[3] > 0 /\ p[3] < 18) => DepthOrder(p, Clip(c, p), <<p[1], p[2], p[3] + 1>>, Clip(c, <<p[1], p[2], p[3] + 1>>))
  \* sharpness: a wrong aspect factor or swapped depth is rejected somewhere on the lattice -
  \* here: at points where it matters
  /\ (c.an # c.ad /\ PClearIn(c, p) /\ p[2] # 0 /\ p[3] > 0) => ~PerspOK(c, p, ClipBadAspect(c, p))
  /\ (p[3] = c.n /\ p[1] = 0 /\ p[2] = 0) => ~PerspOK(c, p, ClipSwapped(c, p))
=============================================================================
