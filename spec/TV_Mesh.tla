------------------------------ MODULE TV_Mesh ------------------------------
(* Trace validation for C15: every built solid (env TRACE) must satisfy     *)
(* Mesh!Allowed; the failing clause is reported.                            *)
EXTENDS Mesh, Json, IOUtils

Rec == ndJsonDeserialize(IOEnv.TRACE)
Bad == {k \in DOMAIN Rec : ~Allowed(Rec[k])}
Why(e) == IF e.panic = 1 THEN "panic" ELSE IF ~IndicesValid(e) THEN "indices" ELSE IF ~NormalsOK(e) THEN "normals"
          ELSE IF ~WindingConsistent(e) THEN "winding" ELSE IF ~OnSurface(e) THEN "surface"
          ELSE IF ~Closed(e) THEN "not-closed" ELSE IF Euler(e) # e.euler THEN "euler" ELSE "zero-area-face"

ASSUME PrintT(<<"TVSTAT", Len(Rec), Len(Rec)>>)
ASSUME \A k \in Bad : PrintT(<<"BAD", k, Rec[k].k, Rec[k].solid, Why(Rec[k])>>)
ASSUME PrintT(<<"TVDONE", Cardinality(Bad)>>)
=============================================================================
