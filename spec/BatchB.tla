------------------------------- MODULE BatchB -------------------------------
(***************************************************************************)
(* Growth beyond the listed properties (DESIGN §8): the render-batch       *)
(* builder (core/src/render/batch.rs) as a state machine.                  *)
(*                                                                         *)
(* A Batch holds seven slots: faces, vertices, uniform, shader, viewport,  *)
(* target, context.  Every setter replaces exactly its own slot (mesh()    *)
(* replaces faces AND vertices); render() draws what the slots hold NOW    *)
(* into the target they name, charging the context they name, and leaves   *)
(* every slot as it was - a batch can be rendered again, before and after  *)
(* further setters.  The builder is a typestate: which calls are offered   *)
(* depends on which slots have been filled (Enabled); a call that is not   *)
(* offered does not compile.                                               *)
(*                                                                         *)
(* Slot values are small identifiers (0 = the value Batch::new() starts    *)
(* with, 1 / 2 = two alternatives the driver provides):                    *)
(*   f  faces     0 = none, 1 = one triangle (0,1,2), 2 = two triangles    *)
(*                (0,1,2), (0,2,3)                                         *)
(*   v  vertices  0 = unset (type ()), 1 = four vertices, 2 = three        *)
(*   u  uniform   0 = unset (type ()), 1 / 2 = two numbers                 *)
(*   s  shader    0 = unset, 1 / 2 (both take the driver's vertex type and *)
(*                a number as uniform)                                     *)
(*   vp viewport  0 = the identity matrix, 1 / 2 = two viewports           *)
(*   t  target    0 = unset, 1 / 2 = two frame buffers                     *)
(*   c  context   0 = the batch's own default context, 1 / 2 = two         *)
(*                contexts owned by the driver                             *)
(* The world beside the batch: per target the sequence of draws made into  *)
(* it (a draw = the five slots that determine the picture plus the         *)
(* context), per driver context the number of calls and of input           *)
(* primitives its statistics have been charged.                            *)
(***************************************************************************)
EXTENDS Integers, Sequences, FiniteSets, TLC

Ids == 0..2
B0 == [f |-> 0, v |-> 0, u |-> 0, s |-> 0, vp |-> 0, t |-> 0, c |-> 0]
W0 == [draws |-> <<<<>>, <<>>>>, calls |-> <<0, 0>>, prims |-> <<0, 0>>]

NFaces(f) == f                                   \* 0, 1, 2 triangles
MaxIndex(f) == CASE f = 0 -> -1 [] f = 1 -> 2 [] OTHER -> 3
NVerts(v) == CASE v = 1 -> 4 [] v = 2 -> 3 [] OTHER -> 0
\* mesh(i): the faces and vertices of mesh i  (1: two triangles over four vertices, 2: one over three)
MeshF(i) == IF i = 1 THEN 2 ELSE 1
MeshV(i) == i

Setters == {"faces", "vertices", "mesh", "uniform", "shader", "viewport", "target", "context"}
Calls == {[op |-> o, i |-> i] : o \in Setters, i \in 1..2} \cup {[op |-> "render", i |-> 0]}

\* what the typestate offers (with the driver's shader type, which wants the vertex type and a number)
Enabled(b, c) ==
  CASE c.op = "shader" -> b.v # 0 /\ b.u # 0
    [] c.op = "render" -> b.v # 0 /\ b.u # 0 /\ b.s # 0 /\ b.t # 0
    [] OTHER -> TRUE

\* render() with a face index beyond the vertices panics before anything is drawn or counted
MustPanic(b, c) == c.op = "render" /\ MaxIndex(b.f) >= NVerts(b.v)

Draw(b) == [f |-> b.f, v |-> b.v, u |-> b.u, s |-> b.s, vp |-> b.vp, c |-> b.c]

ApplyB(b, c) ==
  CASE c.op = "faces" -> [b EXCEPT !.f = c.i]
    [] c.op = "vertices" -> [b EXCEPT !.v = c.i]
    [] c.op = "mesh" -> [b EXCEPT !.f = MeshF(c.i), !.v = MeshV(c.i)]
    [] c.op = "uniform" -> [b EXCEPT !.u = c.i]
    [] c.op = "shader" -> [b EXCEPT !.s = c.i]
    [] c.op = "viewport" -> [b EXCEPT !.vp = c.i]
    [] c.op = "target" -> [b EXCEPT !.t = c.i]
    [] c.op = "context" -> [b EXCEPT !.c = c.i]
    [] OTHER -> b                                   \* render keeps every slot

ApplyW(b, w, c) ==
  IF c.op # "render" \/ MustPanic(b, c) THEN w
  ELSE [draws |-> [w.draws EXCEPT ![b.t] = Append(@, Draw(b))],
        calls |-> IF b.c = 0 THEN w.calls ELSE [w.calls EXCEPT ![b.c] = @ + 1],
        prims |-> IF b.c = 0 THEN w.prims ELSE [w.prims EXCEPT ![b.c] = @ + NFaces(b.f)]]

\* ---------------------------------------------------------------- relation
\* A history: e.ops = the calls; observed: e.panics (one flag per render call), e.calls / e.prims (the two
\* driver contexts' statistics at the end), e.same (per target: 1 iff its planes equal, cell for cell,
\* those obtained by making the draws of e.ref[t] one after the other with the free function render()),
\* e.ref (the draws the driver replayed).  The history is allowed iff every call was offered, the panics
\* are the predicted ones, the reference draws are the model's, and everything observed equals it.
RECURSIVE Run(_, _, _, _, _)
Run(ops, k, b, w, pan) ==
  IF k > Len(ops) THEN [ok |-> TRUE, w |-> w, pan |-> pan]
  ELSE LET c == ops[k] IN
       IF ~Enabled(b, c) THEN [ok |-> FALSE, w |-> w, pan |-> pan]
       ELSE Run(ops, k + 1, ApplyB(b, c), ApplyW(b, w, c),
                IF c.op = "render" THEN Append(pan, IF MustPanic(b, c) THEN 1 ELSE 0) ELSE pan)

Allowed(e) ==
  LET r == Run(e.ops, 1, B0, W0, <<>>) IN
  /\ r.ok
  /\ e.panics = r.pan
  /\ e.ref = r.w.draws
  /\ e.same = <<1, 1>>
  /\ e.calls = r.w.calls /\ e.prims = r.w.prims
=============================================================================
