------------------------------ MODULE MC_Spline ------------------------------
(***************************************************************************)
(* (Spec)    Algebra of one cubic: for every control polygon in {-2..2}^4  *)
(*           and every t = k/64 the Bernstein form, De Casteljau's exact   *)
(*           lerps and the Horner form agree; the derivative satisfies the *)
(*           exact difference identity; the curve stays in the hull; the   *)
(*           spline's segment selection joins the cubics at control points.*)
(* (SpecF)   The flattening stack machine under EVERY halt oracle to depth *)
(*           MaxDep: each oracle is a sequence of answers; the machine     *)
(*           terminates, emits strictly increasing dyadic parameters from  *)
(*           0, asks about exactly the pieces it splits or emits, and      *)
(*           every emitted piece was either accepted or sits at depth 0.   *)
(***************************************************************************)
EXTENDS Spline

CONSTANT MaxDep

VARIABLES P, ph, answers, done
vars == <<P, ph, answers, done>>
Vals == (-2)..2
Init == ph = 0 /\ P \in {<<a, a, a, a>> : a \in Vals} /\ answers = <<>> /\ done = TRUE
Next == ph = 0 /\ ph' = 1 /\ (\E b \in Vals, c \in Vals, d \in Vals : P' = <<P[1], b, c, d>>) /\ UNCHANGED <<answers, done>>
Spec == Init /\ [][Next]_vars

Algebra ==
  ph = 1 =>
  /\ \A k \in 0..D :
       /\ Bern(P, k) = DeCast(P, k) /\ Bern(P, k) = Horner(P, k)
       /\ Bern(P, k) >= MinP(P) * D * D * D /\ Bern(P, k) <= MaxP(P) * D * D * D
  /\ Bern(P, 0) = P[1] * D * D * D /\ Bern(P, D) = P[4] * D * D * D
  \* derivative: the symmetric difference quotient of a cubic is B'(t) + h^2 B'''/6, B''' constant
  /\ \A k \in 1..(D - 1) :
       LET c3 == (P[4] - P[1]) + 3 * (P[2] - P[3]) IN
       Bern(P, k + 1) - Bern(P, k - 1) = 2 * Deriv(P, k) + 2 * c3
  \* a two-segment spline through P and its mirror image joins at the shared control point
  /\ LET C == <<P[1], P[2], P[3], P[4], 2 * P[4] - P[3], P[2], P[1]>> IN
     /\ SplineNum(C, D \div 2) = P[4] * D * D * D
     /\ \A k \in 0..D : SegOf(C, k) \in {0, 1} /\ LocalK(C, k) \in 0..D
     /\ \A k \in 1..(D \div 2 - 1) : SplineNum(C, k) = Bern(P, 2 * k)

\* ---- flattening under every oracle
varsF == vars
MaxAnswers == 2 ^ (MaxDep + 1)
InitF == answers = <<>> /\ done = FALSE /\ P = <<0, 0, 0, 0>> /\ ph = 0
\* extend the oracle until the machine no longer runs short of answers
NextF == /\ ~done
         /\ IF Flatten(MaxDep, answers).short
            THEN \E x \in {0, 1} : answers' = Append(answers, x) /\ done' = FALSE
            ELSE done' = TRUE /\ answers' = answers
         /\ UNCHANGED <<P, ph>>
SpecF == InitF /\ [][NextF]_varsF

FlattenLaws ==
  LET f == Flatten(MaxDep, answers) IN
  /\ Len(answers) < MaxAnswers                                    \* terminates: bounded number of questions
  /\ ~f.short =>
       /\ f.used = Len(answers)
       /\ Len(f.pts) >= 1 /\ f.pts[1] = 0
       /\ \A i \in 1..(Len(f.pts) - 1) : f.pts[i] < f.pts[i + 1]
       /\ \A i \in 1..Len(f.pts) : f.pts[i] >= 0 /\ f.pts[i] < 2 ^ MaxDep
       \* every emitted piece was accepted by the oracle or sits at the depth bound
       /\ \A i \in 1..Len(f.pts) :
            LET a == f.pts[i]  b == IF i < Len(f.pts) THEN f.pts[i + 1] ELSE 2 ^ MaxDep IN
            \/ b - a = 1                                               \* depth bound (width 2^-MaxDep)
            \/ \E j \in 1..Len(f.asked) : f.asked[j] = <<a, b>> /\ answers[j] = 1
=============================================================================
