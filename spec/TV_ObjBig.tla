----------------------------- MODULE TV_ObjBig -----------------------------
(* Trace validation for C14, large files: every recorded summary (env TRACE)  *)
(* must satisfy Obj!BigAllowed.                                               *)
EXTENDS Obj, Json, IOUtils

Rec == ndJsonDeserialize(IOEnv.TRACE)
Bad == {k \in DOMAIN Rec : ~BigAllowed(Rec[k])}

ASSUME PrintT(<<"TVSTAT", Len(Rec), Len(Rec)>>)
ASSUME \A k \in Bad : PrintT(<<"BAD", k, Rec[k].k, ToJson(Rec[k])>>)
ASSUME PrintT(<<"TVDONE", Cardinality(Bad)>>)
=============================================================================
