------------------------------ MODULE MC_Rand ------------------------------
(***************************************************************************)
(* (a) The period theorems of Rand, evaluated by TLC as assumptions.       *)
(* (b) Validation of the method on a 16-bit analogue: the literal state    *)
(*     machine x -> step16(x) is explored exhaustively and its cycle       *)
(*     structure compared with what the GF(2) order argument predicts.     *)
(***************************************************************************)
EXTENDS Rand

ASSUME LET sq == Squares IN
       /\ PrintT(<<"THEOREM", "FactorTableOK", FactorTableOK>>)
       /\ PrintT(<<"THEOREM", "Invertible", Invertible>>)
       /\ PrintT(<<"THEOREM", "OrderDivides", OrderDivides(sq)>>)
       /\ PrintT(<<"THEOREM", "OrderExact", OrderExact(sq)>>)
       /\ PrintT(<<"THEOREM", "Control", Control(sq)>>)

\* ---- 16-bit analogue: x ^= x << 7; x ^= x >> 9; x ^= x << 8  (a full-period triple)
M16 == 65536
Shl16(x, k) == (x * (2 ^ k)) % M16
Shr16(x, k) == x \div (2 ^ k)
RECURSIVE XorN(_, _, _)
XorN(a, b, k) == IF k = 0 THEN 0 ELSE 2 * XorN(a \div 2, b \div 2, k - 1) + ((a + b) % 2)
X16(a, b) == XorN(a, b, 16)
Step16(x) == LET a == X16(x, Shl16(x, 7))  b == X16(a, Shr16(a, 9)) IN X16(b, Shl16(b, 8))

VARIABLES x, n
Init == x = 1 /\ n = 0
Next == x' = Step16(x) /\ n' = n + 1 /\ (x' # 1 \/ n' = 65535)
Spec == Init /\ [][Next]_<<x, n>>
\* the orbit of 1 never hits 0 and returns to 1 exactly after 2^16 - 1 steps
NeverZero == x # 0
FullCycle == (n > 0 /\ x = 1) => n = 65535
=============================================================================
