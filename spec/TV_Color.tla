------------------------------ MODULE TV_Color ------------------------------
(* Trace validation for C16: every recorded colour observation (env TRACE)  *)
(* must satisfy Color!Allowed.                                              *)
EXTENDS Color, Json, IOUtils

Rec == ndJsonDeserialize(IOEnv.TRACE)
Bad == {k \in DOMAIN Rec : ~Allowed(Rec[k])}

ASSUME PrintT(<<"TVSTAT", Len(Rec), Len(Rec)>>)
ASSUME \A k \in Bad : PrintT(<<"BAD", k, Rec[k].k, Rec[k].op, ToJson(Rec[k])>>)
ASSUME PrintT(<<"TVDONE", Cardinality(Bad)>>)
=============================================================================
