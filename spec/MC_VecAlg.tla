------------------------------ MODULE MC_VecAlg ------------------------------
(* Laws of the VecAlg functions over every pair / triple of a small lattice  *)
(* (the specification's own consistency; the real code is bound by TV_VecAlg). *)
EXTENDS VecAlg

U == -2..2
V3 == {<<x, y, z>> : x \in U, y \in U, z \in U}
VARIABLES a, b
vars == <<a, b>>
Init == a \in V3 /\ b \in V3
Next == UNCHANGED vars
Spec == Init /\ [][Next]_vars

Laws ==
  /\ Dot(a, b) = Dot(b, a)
  /\ Cross(a, b) = VNeg(Cross(b, a))
  /\ Dot(a, Cross(a, b)) = 0 /\ Dot(b, Cross(a, b)) = 0
  /\ Dot(Cross(a, b), Cross(a, b)) = Dot(a, a) * Dot(b, b) - Dot(a, b) * Dot(a, b)          \* Lagrange
  /\ VAdd(VSub(a, b), b) = a
  /\ Lerp2(a, b, 0) = VMul(a, 2) /\ Lerp2(a, b, 2) = VMul(b, 2) /\ Lerp2(a, b, 1) = VAdd(a, b)
  /\ LET lo == [i \in 1..3 |-> Min2(a[i], b[i])]  hi == [i \in 1..3 |-> Max2(a[i], b[i])] IN
     \A c \in {<<-3, 0, 3>>, <<1, 1, 1>>, a, b} :
        LET r == Clamp(c, lo, hi) IN Clamp(r, lo, hi) = r /\ \A i \in 1..3 : lo[i] <= r[i] /\ r[i] <= hi[i]
  \* approximate equality: reflexive, implied by equality, coarser epsilons accept more;
  \* the first operand sets the scale, so it is NOT symmetric (witness below)
  /\ \A j \in 0..3 : Approx(a, a, j, 1) /\ (Approx(a, b, j + 1, 1) => Approx(a, b, j, 1))
Asymmetric == ApproxC(4, 2, 1, 0) /\ ~ApproxC(2, 4, 1, 0)
ASSUME Asymmetric
=============================================================================
