------------------------------ MODULE MC_Pnm ------------------------------
(***************************************************************************)
(* Token-level state machine that writes PNM files lexical item by item    *)
(* (magic, separator, width, separator, height, separator, maxval,         *)
(* terminator, data), covering every header spelling in a small grammar,   *)
(* right and wrong.  TLC checks the Pnm relation's own consistency on      *)
(* every complete file (Decode . Encode = id, text = binary, well-formed   *)
(* and truncated are exclusive) and exports every file for replay on the   *)
(* real decoder.                                                           *)
(***************************************************************************)
EXTENDS Pnm, Json

CONSTANTS Level, Export      \* Level 1 = quick sets, 2 = thorough sets

VARIABLES phase, bs, dims
vars == <<phase, bs, dims>>

Magics == IF Level = 1 THEN {<<80, 50>>, <<80, 51>>, <<80, 53>>, <<80, 54>>, <<80, 52>>}
          ELSE {<<80, 50>>, <<80, 51>>, <<80, 53>>, <<80, 54>>, <<80, 52>>, <<80, 55>>}

\* level 1: " "  "\n"  " #c\n"   level 2: " "  " #c\n"  "\t\r"  ""  "#c\n"
Seps == IF Level = 1 THEN {<<32>>, <<10>>, <<32, 35, 99, 10>>}
        ELSE {<<32>>, <<32, 35, 99, 10>>, <<9, 13>>, <<>>, <<35, 99, 10>>}

\* "1" "2" "3" "0" "65536" "00000000002"  |  "4294967295" "99999999999" "x" "-1" ""
Nums == IF Level = 1 THEN {<<49>>, <<50>>, <<51>>, <<48>>, <<54, 53, 53, 51, 54>>, <<48, 48, 48, 48, 48, 48, 48, 48, 48, 48, 50>>}
        ELSE {<<49>>, <<51>>, <<48>>, <<52, 50, 57, 52, 57, 54, 55, 50, 57, 53>>, <<48, 48, 48, 48, 48, 48, 48, 48, 48, 48, 48, 48, 48, 48, 51>>,
              <<57, 57, 57, 57, 57, 57, 57, 57, 57, 57, 57>>, <<120>>}

\* "255" "1"  |  "65535" "256"
Maxs == IF Level = 1 THEN {<<50, 53, 53>>, <<49>>}
        ELSE {<<50, 53, 53>>, <<54, 53, 53, 51, 53>>, <<50, 53, 54>>}

\* " " "\n" ""  |  "  " "#"
Terms == IF Level = 1 THEN {<<32>>, <<10>>, <<>>}
         ELSE {<<32>>, <<>>, <<32, 32>>, <<35>>}

DataKinds == IF Level = 1 THEN {"exact", "short", "ws", "none"}
             ELSE {"exact", "short", "ws", "surplus", "bad"}

SmallVal(tok) == IF Len(tok) = 1 /\ IsDigit(tok[1]) THEN tok[1] - 48
                 ELSE IF Len(tok) > 10 /\ tok[1] = 48 THEN tok[Len(tok)] - 48 ELSE 1

\* binary data: bytes that look like whitespace, '#', digits, 0xFF
WsPattern == <<32, 35, 10, 48, 255, 13, 9, 57>>
BinData(kind, n) ==
  LET len == CASE kind = "short" -> IF n > 0 THEN n - 1 ELSE 0
               [] kind = "surplus" -> n + 2
               [] kind = "none" -> 0
               [] OTHER -> n
  IN [i \in 1..len |-> IF kind \in {"ws", "surplus"} THEN WsPattern[((i - 1) % 8) + 1]
                       ELSE (i * 37 + 11) % 256]

\* text data: tokens "0" "9" "255" "10" cycling, separated by " " / "\n"
TextTok(i) == <<<<48>>, <<57>>, <<50, 53, 53>>, <<49, 48>>>>[((i - 1) % 4) + 1]
RECURSIVE TextData(_, _, _)
TextData(kind, n, i) ==
  IF i > n THEN IF kind = "surplus" THEN <<10, 55, 32>> ELSE <<>>
  ELSE LET tok == IF kind = "bad" /\ i = n THEN <<50, 53, 54>> ELSE TextTok(i)
           sep == IF i = 1 THEN <<>> ELSE IF kind = "ws" THEN <<10, 35, 99, 10, 32>> ELSE <<32>>
       IN sep \o tok \o TextData(kind, n, i + 1)

DataFor(fmt, kind, n) ==
  LET m == IF fmt \in {3, 6} THEN 3 * n ELSE n
      cnt == CASE kind = "short" -> IF m > 0 THEN m - 1 ELSE 0 [] kind = "none" -> 0 [] OTHER -> m
  IN IF fmt \in {2, 3} THEN TextData(kind, cnt, 1) ELSE BinData(kind, m)

Init == phase = 0 /\ bs = <<>> /\ dims = <<1, 1>>

Next ==
  \/ /\ phase = 0 /\ \E m \in Magics : bs' = m
     /\ phase' = 1 /\ UNCHANGED dims
  \/ /\ phase \in {1, 2} /\ \E s \in Seps, t \in Nums :
          /\ bs' = bs \o s \o t
          /\ dims' = [dims EXCEPT ![phase] = SmallVal(t)]
     /\ phase' = phase + 1
  \/ /\ phase = 3 /\ \E s \in Seps, t \in Maxs : bs' = bs \o s \o t
     /\ phase' = 4 /\ UNCHANGED dims
  \/ /\ phase = 4 /\ \E t \in Terms, k \in DataKinds :
          bs' = bs \o t \o DataFor(IF Len(bs) >= 2 THEN bs[2] - 48 ELSE 0, k, dims[1] * dims[2])
     /\ phase' = 5 /\ UNCHANGED dims

Spec == Init /\ [][Next]_vars

\* ---------------------------------------------------------------- properties
\* of the relation itself, on every complete file
ToBin(img, gray) ==
  IF gray THEN <<80, 53, 32>> \o Dec(img.w) \o <<10>> \o Dec(img.h) \o <<9, 50, 53, 53, 13>>
               \o [i \in 1..(img.w * img.h) |-> img.pix[3 * i]]
  ELSE Encode(img.w, img.h, img.pix)

RECURSIVE DecList(_, _)
DecList(xs, i) == IF i > Len(xs) THEN <<>> ELSE <<32>> \o Dec(xs[i]) \o DecList(xs, i + 1)
ToText(img, gray) ==
  <<80, IF gray THEN 50 ELSE 51, 10>> \o Dec(img.w) \o <<32>> \o Dec(img.h) \o <<32, 50, 53, 53>>
  \o DecList(IF gray THEN [i \in 1..(img.w * img.h) |-> img.pix[3 * i]] ELSE img.pix, 1)

IsGray(img) == \A i \in 1..(img.w * img.h) : img.pix[3 * i - 2] = img.pix[3 * i] /\ img.pix[3 * i - 1] = img.pix[3 * i]

Done == phase = 5

SpecConsistent ==
  Done =>
    /\ ~(WellFormed(bs) /\ Truncated(bs))
    /\ WellFormed(bs) =>
         LET img == Decode(bs) IN
         /\ Len(img.pix) = 3 * img.w * img.h
         /\ \A i \in 1..Len(img.pix) : img.pix[i] \in 0..255
         \* Decode . Encode = id
         /\ WellFormed(Encode(img.w, img.h, img.pix))
         /\ Decode(Encode(img.w, img.h, img.pix)) = img
         \* the text and binary encodings of the same pixels denote the same image
         /\ WellFormed(ToText(img, FALSE)) /\ Decode(ToText(img, FALSE)) = img
         /\ IsGray(img) => /\ WellFormed(ToText(img, TRUE)) /\ Decode(ToText(img, TRUE)) = img
                           /\ WellFormed(ToBin(img, TRUE)) /\ Decode(ToBin(img, TRUE)) = img

ExportInv ==
  (Done /\ Export) =>
    PrintT(<<"REPLAY", ToJson(bs), IF WellFormed(bs) THEN 1 ELSE 0, IF Truncated(bs) THEN 1 ELSE 0>>)
=============================================================================
