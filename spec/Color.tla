-------------------------------- MODULE Color --------------------------------
(***************************************************************************)
(* C16.  Colour conversions: the property-level relation on observations,  *)
(* and (implementation-shaped, for model checking only) a transcription of *)
(* the 8-bit fixed-point HSL algorithms.                                   *)
(***************************************************************************)
EXTENDS Integers, Sequences, FiniteSets, TLC

Abs(x) == IF x < 0 THEN -x ELSE x
Max2(a, b) == IF a >= b THEN a ELSE b
Min2(a, b) == IF a <= b THEN a ELSE b
Clamp(x, lo, hi) == Max2(lo, Min2(x, hi))

\* ---------------------------------------------------------------- relation
ONE == 1048576                \* floats cross the boundary scaled by 2^20
TolF == 105 + 2               \* 1e-4 (+ rounding of the two scaled values)

InUnit(v) == \A i \in 1..Len(v) : v[i] >= 0 /\ v[i] <= ONE

\* e.op:
\*  "row8"   r, g: over all b, maxerr of rgb -> hsl -> rgb, panics, graybad (grays with s # 0 or l # v)
\*  "hslrow" h, s: over all l, panics of hsl -> rgb (range violations panic in checked builds)
\*  "rtf"    rgb (scaled), hsl, back, panic, gray (r = g = b exactly): float round trip of an in-range RGB colour
\*  "hslf"   hsl (scaled), rgb, panic: in-range HSL to RGB
\*  "hue01"  rgb0, rgb1: hsl(0, s, l) and hsl(1, s, l) converted
\*  "pack"   bytes r g b a; words as <<hi16, lo16>>: rgb_u32, rgba_u32, argb_u32; to_rgba / to_rgb channels;
\*           hsla = to_hsla(), hsla_back = to_hsla().to_rgba(), float: fa_same (alpha bits kept), fdiff (max channel error)
\*  "tou8"   x (scaled, clamped to +-2^30), cls (0 finite, 1 nan), res
\*  "satadd" c, d, res
Allowed(e) ==
  CASE e.op = "row8" -> e.maxerr <= 8 /\ e.panics = 0 /\ e.graybad = 0
    [] e.op = "hslrow" -> e.panics = 0
    [] e.op = "rtf" ->
         /\ e.panic = 0 /\ InUnit(e.hsl) /\ InUnit(e.back)
         /\ \A i \in 1..3 : Abs(e.back[i] - e.rgb[i]) <= TolF
         \* grays: zero saturation, lightness kept
         /\ e.gray = 1 => (e.hsl[2] = 0 /\ Abs(e.hsl[3] - e.rgb[1]) <= 2)
    [] e.op = "hslf" -> e.panic = 0 /\ InUnit(e.rgb)
    [] e.op = "hue01" -> e.panic = 0 /\ \A i \in 1..3 : Abs(e.rgb0[i] - e.rgb1[i]) <= TolF
    [] e.op = "pack" ->
         /\ e.rgb_u32 = <<e.r, e.g * 256 + e.b>>                       \* 0x00RRGGBB
         /\ e.rgba_u32 = <<e.r * 256 + e.g, e.b * 256 + e.a>>          \* 0xRRGGBBAA
         /\ e.argb_u32 = <<e.a * 256 + e.r, e.g * 256 + e.b>>          \* 0xAARRGGBB
         /\ e.to_rgba = <<e.r, e.g, e.b, 255>> /\ e.to_rgb = <<e.r, e.g, e.b>>
         \* RGBA <-> HSLA: alpha is kept unchanged both ways, the colour channels convert like the
         \* three-channel colours (hsla3 = 1: bit for bit) and come back within 8/255 (float: 1e-4)
         /\ e.hsla[4] = e.a /\ e.hsla3 = 1
         /\ e.hsla_back[4] = e.a
         /\ \A i \in 1..3 : Abs(e.hsla_back[i] - <<e.r, e.g, e.b>>[i]) <= 8
         /\ e.fa_same = 1 /\ e.fdiff <= TolF
    [] e.op = "tou8" ->
         IF e.cls = 1 THEN e.res \in 0..255
         ELSE IF e.x <= 0 THEN e.res = 0
         ELSE IF e.x >= ONE THEN e.res = 255
         ELSE Abs(e.res * ONE - e.x * 255) <= ONE + 255
    [] e.op = "satadd" -> e.res = Clamp(e.c + e.d, 0, 255)
    [] OTHER -> FALSE

\* ---------------------------------------------------------------- 8-bit algorithms (transcription)
M == 256
\* Rust's / truncates toward zero, % has the sign of the dividend
TDiv(a, b) == IF a >= 0 THEN a \div b ELSE -((-a) \div b)
REuclid(a, b) == a % b             \* TLA+ % is already Euclidean for b > 0

ToHslInt(r, g, b) ==
  LET mx == Max2(r, Max2(g, b))  mn == Min2(r, Min2(g, b))  d == mx - mn
      h0 == IF d = 0 THEN 0
            ELSE IF mx = r THEN REuclid(TDiv((g - b) * M, d), 6 * M)
            ELSE IF mx = g THEN TDiv((b - r) * M, d) + 2 * M
            ELSE TDiv((r - g) * M, d) + 4 * M
      h == TDiv(h0, 6)
      l == (mx + mn + 1) \div 2
      s == IF l = 0 \/ l = 255 THEN 0 ELSE TDiv(d * M, M - Abs(2 * l - M))
  IN <<Clamp(h, 0, 255), Clamp(s, 0, 255), Clamp(l, 0, 255)>>

\* <<r, g, b>> before the final cast (values outside 0..255 are the debug_assert cases)
ToRgbInt(hh, s, l) ==
  LET h == hh * 6
      c0 == (M - Abs(2 * l - M)) * s
      x0 == c0 * (M - Abs((h % (2 * M)) - M))
      m == TDiv(M * l - TDiv(c0, 2), M)
      c == TDiv(c0, M)
      x == TDiv(TDiv(x0, M), M)
      sx == h \div M
      t == CASE sx = 0 -> <<c, x, 0>> [] sx = 1 -> <<x, c, 0>> [] sx = 2 -> <<0, c, x>>
             [] sx = 3 -> <<0, x, c>> [] sx = 4 -> <<x, 0, c>> [] OTHER -> <<c, 0, x>>
  IN <<t[1] + m, t[2] + m, t[3] + m>>
=============================================================================
