------------------------------ MODULE MC_Rect ------------------------------
(***************************************************************************)
(* Every pair of rects whose sides are unbounded or in Sides: the closed    *)
(* forms satisfy the set-based relation, intersection is a meet (commutes,  *)
(* idempotent, is the greatest lower bound w.r.t. inclusion of point sets), *)
(* and emptiness in closed form agrees with the point set.  Every pair is   *)
(* exported for replay on the real Rect.                                    *)
(***************************************************************************)
EXTENDS Rect, Json

CONSTANTS Export, Wide

Sides == IF Wide THEN {NoneV, -2, 0, 1, 3} ELSE {NoneV, 0, 1, 3}
Rects == Sides \X Sides \X Sides \X Sides

VARIABLES a, b, ph
vars == <<a, b, ph>>
Init == a \in Rects /\ b = a /\ ph = 0
Next == ph = 0 /\ ph' = 1 /\ a' = a /\ b' \in Rects
Spec == Init /\ [][Next]_vars

Ev(op, res) == [op |-> op, a |-> a, b |-> b, res |-> res, panic |-> 0]

Laws ==
  ph = 1 =>
    LET m == Meet(a, b) IN
    /\ Allowed(Ev("intersect", m))
    /\ m = Meet(b, a)
    /\ Meet(a, a) = a
    /\ Pts(m) \subseteq Pts(a) /\ Pts(m) \subseteq Pts(b)
    /\ (Pts(a) \subseteq Pts(b)) => Pts(m) = Pts(a)
    /\ EmptyCF(a) <=> (Pts(a) = {})
    /\ EmptyCF(m) <=> (Pts(a) \cap Pts(b) = {})
    /\ Allowed(Ev("is_empty", IF EmptyCF(a) THEN 1 ELSE 0))
    \* a wrong answer is rejected: the relation is sharp
    /\ ~Allowed(Ev("is_empty", IF EmptyCF(a) THEN 0 ELSE 1))
    /\ (Pts(a) # Pts(b) /\ Pts(a) \cap Pts(b) # Pts(a)) => ~Allowed(Ev("intersect", a))

ExportInv == (ph = 1 /\ Export) => PrintT(<<"REPLAY", ToJson([a |-> a, b |-> b])>>)
=============================================================================
