-------------------------------- MODULE Spline --------------------------------
(***************************************************************************)
(* C17.  Cubic Bezier curves, multi-segment splines and their polyline     *)
(* approximation.                                                          *)
(*                                                                         *)
(* Control points are integers (each coordinate separately), parameters    *)
(* are dyadic: t = k / D with D = 64.  Values are kept as exact integer    *)
(* numerators over D^3 (curve) or D^2 (derivative).                        *)
(*                                                                         *)
(* Flattening is a stack machine: Visit(a, b, dep) asks the caller's halt  *)
(* predicate about the piece [a, b] unless dep = 0; on TRUE (or dep = 0)   *)
(* it emits the point at a, otherwise it visits the two halves.  Finally   *)
(* the last control point is emitted.  Parameters are integers in units    *)
(* of 2^-MaxLog.                                                           *)
(***************************************************************************)
EXTENDS Integers, Sequences, FiniteSets, TLC

D == 64
Abs(x) == IF x < 0 THEN -x ELSE x

\* ---------------------------------------------------------------- one cubic, one coordinate
\* P = <<p0, p1, p2, p3>>, t = k/D;  Bern(P, k) = D^3 * B(k/D)
Bern(P, k) == LET u == D - k IN
  P[1] * u * u * u + 3 * P[2] * u * u * k + 3 * P[3] * u * k * k + P[4] * k * k * k
\* De Casteljau with exact lerps: level numerators over D, D^2, D^3
Lerp1(a, b, k) == a * (D - k) + b * k                      \* D * lerp
DeCast(P, k) ==
  LET p01 == Lerp1(P[1], P[2], k)  p12 == Lerp1(P[2], P[3], k)  p23 == Lerp1(P[3], P[4], k)
      q0 == Lerp1(p01, p12, k)  q1 == Lerp1(p12, p23, k)
  IN Lerp1(q0, q1, k)                                       \* D^3 * value
\* Horner form on the three difference coefficients (the library's fast evaluator)
Horner(P, k) ==
  LET c3 == (P[4] - P[1]) + 3 * (P[2] - P[3])
      c2 == -(3 * (P[2] - P[1]) + 3 * (P[2] - P[3]))
      c1 == 3 * (P[2] - P[1])
  IN P[1] * D * D * D + ((c3 * k + c2 * D) * k + c1 * D * D) * k
\* derivative: D^2 * B'(k/D)
Deriv(P, k) == LET u == D - k IN 3 * ((P[2] - P[1]) * u * u + 2 * (P[3] - P[2]) * u * k + (P[4] - P[3]) * k * k)
ClampK(k) == IF k < 0 THEN 0 ELSE IF k > D THEN D ELSE k

MinP(P) == LET S == {P[i] : i \in 1..Len(P)} IN CHOOSE x \in S : \A y \in S : x <= y
MaxP(P) == LET S == {P[i] : i \in 1..Len(P)} IN CHOOSE x \in S : \A y \in S : x >= y
MaxAbsP(P) == LET S == {Abs(P[i]) : i \in 1..Len(P)} IN CHOOSE x \in S : \A y \in S : x >= y

\* ---------------------------------------------------------------- splines
\* control points C (3n+1 of them), parameter t = k/D: segment and local parameter
NSeg(C) == (Len(C) - 1) \div 3
SegOf(C, k) == LET n == NSeg(C) s == (k * n) \div D IN IF s > n - 1 THEN n - 1 ELSE s
LocalK(C, k) == k * NSeg(C) - SegOf(C, k) * D                 \* in 0..D
SegPts(C, s) == <<C[3 * s + 1], C[3 * s + 2], C[3 * s + 3], C[3 * s + 4]>>
SplineNum(C, k) == IF k <= 0 THEN C[1] * D * D * D ELSE IF k >= D THEN C[Len(C)] * D * D * D
                   ELSE Bern(SegPts(C, SegOf(C, k)), LocalK(C, k))
\* control points of the spline through the rays (P[i], V[i]): each ray contributes its origin with a
\* handle V[i] behind and ahead of it (the first ray only ahead, the last only behind)
RaysCtrl(P, V) ==
  LET n == Len(P)
      blk(i) == IF i = 1 THEN <<P[1], P[1] + V[1]>>
                ELSE IF i = n THEN <<P[n] - V[n], P[n]>>
                ELSE <<P[i] - V[i], P[i], P[i] + V[i]>>
      RECURSIVE cat(_)
      cat(i) == IF i > n THEN <<>> ELSE blk(i) \o cat(i + 1)
  IN cat(1)

\* the spline's tangent is the tangent of the cubic of the segment containing t, at the local
\* parameter (not rescaled by the segment count); t is clamped to [0, 1]
SplineDeriv(C, k) == IF k <= 0 THEN Deriv(SegPts(C, 0), 0)
                     ELSE IF k >= D THEN Deriv(SegPts(C, NSeg(C) - 1), D)
                     ELSE Deriv(SegPts(C, SegOf(C, k)), LocalK(C, k))

\* ---------------------------------------------------------------- flattening machine
\* answers: the halt predicate's answers in call order (1 = halt).  Result:
\* [pts |-> emitted parameters (units of 2^-maxdep), used |-> answers consumed, asked |-> pieces asked about]
RECURSIVE Visit(_, _, _, _, _)
Visit(a, b, dep, answers, acc) ==
  IF dep = 0 THEN [acc EXCEPT !.pts = Append(@, a)]
  ELSE IF acc.used >= Len(answers) THEN [acc EXCEPT !.short = TRUE]
  ELSE LET ans == answers[acc.used + 1]
           acc1 == [acc EXCEPT !.used = @ + 1, !.asked = Append(@, <<a, b>>)]
       IN IF ans = 1 THEN [acc1 EXCEPT !.pts = Append(@, a)]
          ELSE LET m == (a + b) \div 2
                   left == Visit(a, m, dep - 1, answers, acc1)
               IN Visit(m, b, dep - 1, answers, left)
Flatten(maxdep, answers) ==
  Visit(0, 2 ^ maxdep, maxdep, answers, [pts |-> <<>>, used |-> 0, asked |-> <<>>, short |-> FALSE])

\* ---------------------------------------------------------------- relation
SC == 1024
Tol(mag) == 2 + (mag * SC) \div 5000
\* obs (scaled by SC) against the exact numerator num over den
CloseTo(obs, num, den, tol) == Abs(obs * (den \div SC) - num) <= tol * (den \div SC)

\* e.op = "cubic":  P (per coordinate: <<p0..p3>>), kk (t = kk/D, possibly < 0 or > D), and per coordinate the
\*                  observed eval, fast_eval (scaled SC), tangent (scaled SC); e.end = 1 if both evaluators
\*                  returned the end control point bit-exactly (judged for k <= 0 or k >= D)
\*        "spline": C (per coordinate), kk, eval per coordinate, end flag, stan = tangent per coordinate
\*        "rays":   P, V (per coordinate: ray origins and directions), kk, eval / tangent of from_rays(..) as for "spline"
\*        "flat":   C (per coordinate), maxdep, answers, errs (the vectors handed to halt, scaled SC, per call),
\*                  n (number of output points), first / last (bit-exact flags), out (points, scaled SC; only
\*                  for pieces at lattice parameters)
Allowed(e) ==
  \* (e.tnan = 1: the parameter is NaN - there is no value to expect, but there is an answer)
  \* (... and the evaluators agree on it: e.nanagree - eval and fast_eval of the cubic component by component,
  \* the spline and the cubic of its segment on which components are numbers)
  CASE e.op \in {"cubic", "spline"} /\ e.tnan = 1 -> e.panic = 0 /\ e.nanagree = 1
    [] e.op = "cubic" ->
         /\ e.panic = 0
         /\ \A c \in 1..Len(e.P) :
              LET P == e.P[c]  tol == Tol(MaxAbsP(P)) IN
              IF e.kk <= 0 \/ e.kk >= D
              THEN /\ e.end = 1                                          \* exactly the end control point
                   /\ CloseTo(e.tan[c], Deriv(P, ClampK(e.kk)), D * D, 3 * tol)
              ELSE /\ CloseTo(e.ev[c], Bern(P, e.kk), D * D * D, tol)
                   /\ CloseTo(e.fev[c], Bern(P, e.kk), D * D * D, tol)
                   /\ e.ev[c] >= MinP(P) * SC - tol /\ e.ev[c] <= MaxP(P) * SC + tol      \* inside the bounding box
                   /\ CloseTo(e.tan[c], Deriv(P, e.kk), D * D, 3 * tol)
    [] e.op = "spline" ->
         /\ e.panic = 0
         /\ \A c \in 1..Len(e.C) :
              LET C == e.C[c]  tol == Tol(MaxAbsP(C)) * NSeg(C) IN
              /\ IF e.kk <= 0 \/ e.kk >= D THEN e.end = 1
                 ELSE CloseTo(e.ev[c], SplineNum(C, e.kk), D * D * D, tol)
              /\ CloseTo(e.stan[c], SplineDeriv(C, e.kk), D * D, 3 * Tol(MaxAbsP(C)))
    [] e.op = "rays" ->
         \* from_rays: fewer than two rays cannot make a curve (panic); otherwise the spline over RaysCtrl
         IF Len(e.P[1]) < 2 THEN e.panic = 1
         ELSE /\ e.panic = 0
              /\ \A c \in 1..Len(e.P) :
                   LET C == RaysCtrl(e.P[c], e.V[c])  tol == Tol(MaxAbsP(C)) * NSeg(C) IN
                   /\ IF e.kk <= 0 \/ e.kk >= D THEN e.end = 1
                      ELSE CloseTo(e.ev[c], SplineNum(C, e.kk), D * D * D, tol)
                   /\ CloseTo(e.stan[c], SplineDeriv(C, e.kk), D * D, 3 * Tol(MaxAbsP(C)))
    [] e.op = "flat" ->
         LET f == Flatten(e.maxdep, e.answers)  unit == 2 ^ (e.maxdep - 6) IN
         /\ e.panic = 0
         /\ ~f.short /\ f.used = Len(e.answers)                       \* the predicate was asked exactly as the machine asks
         /\ e.n = Len(f.pts) + 1                                       \* one point per piece, plus the end point
         /\ e.first = 1 /\ e.last = 1                                  \* starts and ends exactly at the end control points
         /\ \A i \in 1..(Len(f.pts) - 1) : f.pts[i] < f.pts[i + 1]     \* strictly increasing parameters (from 0)
         /\ f.pts[1] = 0
         \* every emitted point that sits at a lattice parameter is the curve point there
         /\ \A i \in 1..Len(f.pts) :
              f.pts[i] % unit = 0 =>
                \A c \in 1..Len(e.C) : CloseTo(e.out[i][c], SplineNum(e.C[c], f.pts[i] \div unit), D * D * D, Tol(MaxAbsP(e.C[c])) * NSeg(e.C[c]))
         \* what the predicate is shown: curve(mid) - (curve(a) + curve(b)) / 2, for lattice pieces
         /\ \A j \in 1..Len(f.asked) :
              LET a == f.asked[j][1]  b == f.asked[j][2]  m == (a + b) \div 2 IN
              (a % unit = 0 /\ b % unit = 0 /\ m % unit = 0) =>
                \A c \in 1..Len(e.C) :
                  LET C == e.C[c]
                      num == 2 * SplineNum(C, m \div unit) - SplineNum(C, a \div unit) - SplineNum(C, b \div unit)
                  IN CloseTo(e.errs[j][c], num, 2 * D * D * D, 2 * Tol(MaxAbsP(C)) * NSeg(C))
    \* a spline of millions of segments, at parameters that f32 names exactly: e.missj joints (of e.njoint) where
    \* the spline is not the control point itself, e.missm segment midpoints where it (or its tangent) is not the
    \* corresponding cubic's, e.ends = 1 iff both ends are the end control points
    [] e.op = "bigspline" -> e.panic = 0 /\ e.njoint > 0 /\ e.missj = 0 /\ e.missm = 0 /\ e.ends = 1
    \* ---- growth beyond the listed property (reported as notes by py/c17.py)
    [] e.op = "smooth" ->
         \* smoothstep(t) = t^2 (3 - 2t), smootherstep(t) = t^3 (10 + t (6t - 15)) on t = kk/16, clamped outside [0, 1]
         LET k == IF e.kk < 0 THEN 0 ELSE IF e.kk > 16 THEN 16 ELSE e.kk
             ss == k * k * (3 * 16 - 2 * k)                                   \* * 16^3
             sss == k * k * k * (10 * 256 + k * (6 * k - 15 * 16))            \* * 16^5
         IN /\ e.panic = 0
            /\ CloseTo(e.ss, ss, 4096, 2) /\ CloseTo(e.sss, sss, 1048576, 2)
    [] OTHER -> FALSE
=============================================================================
