---------------------------- MODULE TV_RasterScan ----------------------------
(* Trace validation for C04: the scan() iterator under row-skipping adaptors  *)
(* (Raster!ScanAdaptAllowed).                                                 *)
EXTENDS Raster, Json, IOUtils

Rec == ndJsonDeserialize(IOEnv.TRACE)
Bad == {k \in DOMAIN Rec : ~ScanAdaptAllowed(Rec[k])}
ASSUME PrintT(<<"TVSTAT", Len(Rec), Len(Rec)>>)
ASSUME \A k \in Bad : PrintT(<<"BAD", k, Rec[k].k, Rec[k].how, Rec[k].kn, Len(Rec[k].rows), Len(Rec[k].rows2)>>)
ASSUME PrintT(<<"TVDONE", Cardinality(Bad)>>)
=============================================================================
