------------------------------ MODULE Envelope ------------------------------
(***************************************************************************)
(* C02, design level.  Why the unchecked span indexing of the render       *)
(* targets is safe: a nondeterministic model of the numeric chain          *)
(*      clip -> perspective divide -> viewport transform -> round          *)
(* along one axis, in fixed point, in which every floating-point step may  *)
(* err by one unit either way.  TLC explores every combination of          *)
(* rounding outcomes for boundary inputs and checks that the pixel index   *)
(* of a span start is never left of the viewport and that of a span end    *)
(* never right of it (rows: the same chain along y).                       *)
(*                                                                         *)
(* Units: NDC in 1/U, screen positions in 1/256 px.  `slop` models the     *)
(* relative error clipping may leave: the NDC coordinate of a clipped      *)
(* vertex lies within slop units of [-1, 1].                               *)
(***************************************************************************)
EXTENDS Integers, TLC

CONSTANTS U, Slop, Rects

\* viewport extents <<x0, x1>> used by the model checking configuration
RectsDef == {<<0, 1>>, <<0, 7>>, <<3, 8>>, <<0, 64>>, <<10, 64>>, <<5, 6>>, <<0, 512>>, <<500, 512>>}

VARIABLES stage, v, side, vp
vars == <<stage, v, side, vp>>

Err == {-1, 0, 1}
FloorDiv(a, b) == a \div b            \* TLA+ \div floors for positive b

\* boundary NDC values: on the plane, and up to Slop units beyond / inside it
NdcSet(s) == IF s = "lo" THEN {-U + k : k \in (-Slop)..Slop} ELSE {U + k : k \in (-Slop)..Slop}

Init == /\ vp \in Rects /\ side \in {"lo", "hi"} /\ v \in NdcSet(side) /\ stage = "ndc"

\* exact screen position (1/256 px) of NDC value n: n/U * (x1-x0)/2 + (x0+x1)/2
ScrNum(n) == n * (vp[2] - vp[1]) * 128
ToScreen ==
  /\ stage = "ndc" /\ stage' = "scr"
  /\ \E d \in Err, up \in {0, 1} :
       v' = FloorDiv(ScrNum(v), U) + up + (vp[1] + vp[2]) * 128 + d
  /\ UNCHANGED <<side, vp>>

\* round_up_to_half followed by the cast to an index: floor(x + 0.5)
ToIndex ==
  /\ stage = "scr" /\ stage' = "idx"
  /\ \E d \in Err : v' = FloorDiv(v + 128 + d, 256)
  /\ UNCHANGED <<side, vp>>

Next == ToScreen \/ ToIndex
Spec == Init /\ [][Next]_vars

\* the start of a span is an index >= x0, its (exclusive) end an index <= x1
IndexInside ==
  stage = "idx" => (IF side = "lo" THEN v >= vp[1] ELSE v <= vp[2])

\* (With U = 16384 and Slop = 2 - a relative clipping error of 1.2e-4, a thousand
\* times what f32 arithmetic leaves - the invariant holds up to 512-pixel viewports;
\* TLC finds the violation when Slop * (x1-x0)/2 / U reaches half a pixel, which is
\* the exact margin the half-pixel rounding rule provides.)
\* and consequently a span [start, end) of a clipped primitive lies in [x0, x1)
=============================================================================
