------------------------------ MODULE TV_Rand ------------------------------
(* Trace validation for C19: every recorded observation of the generator   *)
(* and the distributions (env TRACE) must satisfy Rand!Allowed.            *)
EXTENDS Rand, Json, IOUtils

Rec == ndJsonDeserialize(IOEnv.TRACE)
Bad == {k \in DOMAIN Rec : ~Allowed(Rec[k])}

ASSUME PrintT(<<"TVSTAT", Len(Rec), Len(Rec)>>)
ASSUME \A k \in Bad : PrintT(<<"BAD", k, Rec[k].k, Rec[k].op, ToJson(Rec[k])>>)
ASSUME PrintT(<<"TVDONE", Cardinality(Bad)>>)
=============================================================================
