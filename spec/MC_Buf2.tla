----------------------------- MODULE MC_Buf2 -----------------------------
(***************************************************************************)
(* Exhaustive small-scope exploration of the Buf2 relation (C11) and       *)
(* export of its behaviours for replay on the real code.                   *)
(*                                                                         *)
(* Next picks a call from Calls(st) and a result from a universe ResU that *)
(* contains right and plausible wrong answers; only results admitted by    *)
(* Buf2!Allowed are taken.  `hist` is a history variable hidden by VIEW.   *)
(***************************************************************************)
EXTENDS Buf2, Json

CONSTANTS MaxW, MaxH, MaxDepth, MaxNest, Export

VARIABLES st, n, ev, hist
vars == <<st, n, ev, hist>>
View == <<st, n>>

Dim(m) == 0..m

\* ------------------------------------------------------------------ calls
CtorCalls ==
  {[op |-> "new", w |-> w, h |-> h] : w \in Dim(MaxW), h \in Dim(MaxH)}
  \cup {[op |-> "new_with", w |-> w, h |-> h] : w \in 1..MaxW, h \in 1..MaxH}
  \cup UNION {{[op |-> "new_from", w |-> w, h |-> h, n |-> k] :
                 k \in {x \in {w * h - 1, w * h, w * h + 2} : x >= 0}} :
              w \in Dim(MaxW), h \in Dim(MaxH)}
  \cup UNION {UNION {UNION {
         {[op |-> "raw", w |-> w, h |-> h, stride |-> sd, len |-> ln, mut |-> m] :
            ln \in {x \in {(h - 1) * sd + w - 1, (h - 1) * sd + w,
                           (h - 1) * sd + w + 1, h * sd, h * sd + 1, h * sd + sd} : x >= 0}}
         : sd \in {x \in {w - 1, w, w + 1, w + 2} : x >= 0}}
         : m \in {0, 1}}
         : <<w, h>> \in Dim(MaxW - 1) \X Dim(MaxH - 1)}

Forms == {"rg", "ri", "to", "toi", "from", "full", "ex"}
\* arguments a..b for one axis of extent dim: all in-range pairs plus a few
\* beyond the border
AxisArgs(form, dim) ==
  CASE form \in {"rg", "ex"} -> {<<a, b>> \in (0..(dim + 1)) \X (0..(dim + 1)) : a <= b + 1}
    [] form = "ri"   -> {<<a, b>> \in (0..(dim + 1)) \X (0..dim) : a <= b + 1}
    [] form = "to"   -> {<<0, b>> : b \in 0..(dim + 1)}
    [] form = "toi"  -> {<<0, b>> : b \in 0..dim}
    [] form = "from" -> {<<a, 0>> : a \in 0..(dim + 1)}
    [] OTHER         -> {<<0, 0>>}

\* "pair" rects use the same form on both axes or "rg" on the other; the
\* remaining mixed forms are covered by the random driver.
SliceCalls(v) ==
  LET muts == IF v.mut THEN {0, 1} ELSE {0} IN
  UNION {
    {[op |-> "slice", mut |-> m, rect |-> <<"pair", f, ha[1], ha[2], f, va[1], va[2]>>] :
       ha \in AxisArgs(f, v.w), va \in AxisArgs(f, v.h), m \in muts}
    : f \in Forms}
  \cup {[op |-> "slice", mut |-> m, rect |-> <<"vec", q[1], q[2], q[3], q[4]>>] :
          q \in {p \in (0..v.w) \X (0..v.h) \X (0..(v.w + 1)) \X (0..(v.h + 1)) :
                   p[1] <= p[3] /\ p[2] <= p[4]}, m \in muts}
  \cup {[op |-> "slice", mut |-> m, rect |-> <<"full">>] : m \in muts}
  \cup {[op |-> "reborrow", mut |-> m] : m \in muts}

Coords(v) == (0..v.w) \X (0..v.h)

ReadCalls(v) ==
  {[op |-> "dims"], [op |-> "is_empty"], [op |-> "rows"], [op |-> "iter"]}
  \cup {[op |-> "get", x |-> c[1], y |-> c[2]] : c \in Coords(v)}
  \cup {[op |-> "idx", x |-> c[1], y |-> c[2]] : c \in Coords(v)}
  \cup {[op |-> "row", y |-> y] : y \in 0..v.h}

WriteCalls(v) ==
  IF ~v.mut THEN {} ELSE
  {[op |-> "fill", val |-> 50], [op |-> "fill_with", base |-> 60],
   [op |-> "rows_mut", add |-> 100], [op |-> "iter_mut", add |-> 200]}
  \cup {[op |-> "get_mut", x |-> c[1], y |-> c[2], val |-> 70] : c \in Coords(v)}
  \cup {[op |-> "idx_set", x |-> c[1], y |-> c[2], val |-> 71] : c \in Coords(v)}
  \cup {[op |-> "row_set", x |-> c[1], y |-> c[2], val |-> 72] : c \in Coords(v)}
  \cup {[op |-> "copy_from", sw |-> d[1], sh |-> d[2], sstride |-> d[1] + k, base |-> 300] :
          d \in {<<v.w, v.h>>, <<v.w + 1, v.h>>, <<v.h, v.w>>}, k \in {0, 2}}

Calls(s) ==
  IF s.stack = <<>> THEN CtorCalls
  ELSE LET v == Top(s) IN
       ReadCalls(v) \cup WriteCalls(v)
       \cup (IF Len(s.stack) <= MaxNest THEN SliceCalls(v) ELSE {})
       \cup (IF Len(s.stack) > 1 THEN {[op |-> "pop"]} ELSE {})

\* ------------------------------------------------------------------ results
\* a universe of right and plausibly wrong results for call c in state s
ResU(s, c) ==
  {Ok, Panic, None}
  \cup (IF s.stack = <<>> THEN {} ELSE
        LET v == Top(s) IN
        CASE c.op \in {"get", "idx"} ->
               {Val(s.cells[i]) : i \in 1..Len(s.cells)}
          [] c.op = "dims" -> {<<"dims", <<v.w, v.h, v.stride>>>>, <<"dims", <<v.h, v.w, v.stride>>>>,
                               <<"dims", <<v.w, v.h, v.w>>>>}
          [] c.op = "is_empty" -> {Val(0), Val(1)}
          [] c.op = "row" ->
               {<<"row", RowOf(s, v, y)>> : y \in 0..(v.h - 1)}
               \cup {<<"row", [x \in 1..v.w |-> 0]>>}
          [] c.op \in {"rows", "rows_mut"} ->
               {<<"rows", ViewOf(s, v)>>,
                <<"rows", [y \in 1..(v.h + 1) |-> [x \in 1..v.w |-> 0]]>>,
                <<"rows", [y \in 1..(IF v.h > 0 THEN v.h - 1 ELSE 0) |-> RowOf(s, v, y - 1)]>>}
          [] c.op \in {"iter", "iter_mut"} ->
               {<<"iter", Flat(s, v)>>, <<"iter", [i \in 1..(v.w * v.h + 1) |-> 0]>>}
          [] OTHER -> {})

WithRes(c, r) == [f \in DOMAIN c \cup {"res"} |-> IF f = "res" THEN r ELSE c[f]]

Events(s) == {e \in UNION {{WithRes(c, r) : r \in ResU(s, c)} : c \in Calls(s)} : Allowed(s, e)}

\* ------------------------------------------------------------------ spec
Init == st = Empty /\ n = 0 /\ ev = [op |-> "init"] /\ hist = <<>>

Next ==
  /\ n < MaxDepth
  /\ \E e \in Events(st) :
       /\ st' = Apply(st, e)
       /\ ev' = e
       /\ hist' = Append(hist, e)
  /\ n' = n + 1

Spec == Init /\ [][Next]_vars

\* ------------------------------------------------------------------ properties
Inv ==
  /\ NestedVisible(st)
  /\ WindowsInside(st)
  /\ RowsAgree(st)

\* the relation is total (some result is always admitted: no false alarm by
\* construction) and discriminating (some result is always rejected)
TotalAndSharp ==
  \A c \in Calls(st) :
    /\ \E r \in ResU(st, c) : Allowed(st, WithRes(c, r))
    /\ \E r \in ResU(st, c) : ~Allowed(st, WithRes(c, r))

FrameProp == [][Frame(st, ev', st')]_vars

\* export: one JSON line per transition (the representative path of the
\* source state followed by the event), for replay on the real code
ExportAct == Export => PrintT(<<"REPLAY", ToJson(hist')>>)
=============================================================================
