------------------------------ MODULE TV_Pnm ------------------------------
(***************************************************************************)
(* Trace validation for C13: every call recorded from the real PNM codec   *)
(* (env TRACE, one call per line) must satisfy Pnm!Allowed.                *)
(***************************************************************************)
EXTENDS Pnm, Json, IOUtils

Rec == ndJsonDeserialize(IOEnv.TRACE)
Bad == {k \in DOMAIN Rec : ~Allowed(Rec[k])}
NWf == Cardinality({k \in DOMAIN Rec : Rec[k].op = "rt" \/ WellFormed(Rec[k].bytes)})

ASSUME PrintT(<<"TVSTAT", Len(Rec), Len(Rec), NWf>>)
ASSUME \A k \in Bad : PrintT(<<"BAD", k, Rec[k].k, Rec[k].op, ToJson(Rec[k].res)>>)
ASSUME PrintT(<<"TVDONE", Cardinality(Bad)>>)
=============================================================================
