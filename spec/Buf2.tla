------------------------------- MODULE Buf2 -------------------------------
(***************************************************************************)
(* C11.  Two-dimensional buffers and views (Buf2 / Slice2 / MutSlice2) as  *)
(* windows onto one plain array.                                           *)
(*                                                                         *)
(* Abstract state  s = [cells, stack]:                                     *)
(*   cells : the root backing storage, a sequence of integers (1-based);   *)
(*   stack : the chain of views currently borrowed from one another; the   *)
(*           last element is the view the next operation acts on.  A view  *)
(*           is [off, w, h, stride, mut]: the window                       *)
(*           { off + y*stride + x : x < w, y < h } of the root.            *)
(*                                                                         *)
(* An event  e  is a record with fields op, arguments, res (a tagged tuple *)
(* <<tag, payload>>), view (the top view read back cell by cell after the  *)
(* operation) and optionally root (the whole backing storage).             *)
(*                                                                         *)
(*   Allowed(s, e)  - the property-level relation: may operation e.op with *)
(*                    these arguments, in state s, be observed to give     *)
(*                    e.res / e.view / e.root ?                            *)
(*   Apply(s, e)    - the successor state.                                 *)
(*                                                                         *)
(* MC_Buf2 explores this relation exhaustively in small scope, GEN_Buf2    *)
(* exports its behaviours for replay on the real code, TV_Buf2 validates   *)
(* histories recorded from the real code.                                  *)
(***************************************************************************)
EXTENDS Integers, Sequences, FiniteSets, TLC

\* ---------------------------------------------------------------- views
Addr(v, x, y) == v.off + y * v.stride + x          \* 0-based absolute index
InView(v, x, y) == x >= 0 /\ x < v.w /\ y >= 0 /\ y < v.h
Win(v) == { Addr(v, x, y) : x \in 0..(v.w - 1), y \in 0..(v.h - 1) }
IsEmptyView(v) == v.w = 0 \/ v.h = 0

Top(s) == s.stack[Len(s.stack)]
CellAt(s, a) == s.cells[a + 1]
RowOf(s, v, y) == [x \in 1..v.w |-> CellAt(s, Addr(v, x - 1, y))]
ViewOf(s, v) == [y \in 1..v.h |-> RowOf(s, v, y - 1)]
Flat(s, v) == [i \in 1..(v.w * v.h) |->
                 CellAt(s, Addr(v, (i - 1) % v.w, (i - 1) \div v.w))]

\* cells with the cells of window v overwritten by f(x, y)
WriteWin(s, v, f(_, _)) ==
  [a \in 1..Len(s.cells) |->
     LET d == a - 1 - v.off
         y == IF v.stride = 0 THEN 0 ELSE d \div v.stride
         x == IF v.stride = 0 THEN d ELSE d % v.stride
     IN IF d >= 0 /\ InView(v, x, y) THEN f(x, y) ELSE s.cells[a]]

WriteCell(s, a, val) == [s.cells EXCEPT ![a + 1] = val]

\* ---------------------------------------------------------------- rects
\* Range forms as accepted by  impl From<(H, V)> for Rect  and friends.
\*   "rg" a..b   "ri" a..=b   "to" ..b   "toi" ..=b   "from" a..   "full" ..
\*   "ex" (Excluded(a), Excluded(b)): a pair of explicit bounds whose start is excluded
Lo(form, a)      == IF form \in {"rg", "ri", "from"} THEN a ELSE IF form = "ex" THEN a + 1 ELSE 0
Hi(form, b, dim) == CASE form \in {"rg", "to", "ex"}   -> b
                      [] form \in {"ri", "toi"} -> b + 1
                      [] OTHER                  -> dim

\* rect = <<"pair", hf, ha, hb, vf, va, vb>> | <<"vec", l, t, r, b>> | <<"full">>
RectOf(rect, v) ==
  CASE rect[1] = "pair" ->
         [l |-> Lo(rect[2], rect[3]), r |-> Hi(rect[2], rect[4], v.w),
          t |-> Lo(rect[5], rect[6]), b |-> Hi(rect[5], rect[7], v.h)]
    [] rect[1] = "vec" -> [l |-> rect[2], t |-> rect[3], r |-> rect[4], b |-> rect[5]]
    [] OTHER -> [l |-> 0, t |-> 0, r |-> v.w, b |-> v.h]

RectValid(q, v) == q.l <= q.r /\ q.r <= v.w /\ q.t <= q.b /\ q.b <= v.h

SubView(v, q, m) == [off |-> Addr(v, q.l, q.t), w |-> q.r - q.l, h |-> q.b - q.t,
                     stride |-> v.stride, mut |-> m]

\* ---------------------------------------------------------------- results
Ok    == <<"ok", 0>>
Panic == <<"panic", 0>>
None  == <<"none", 0>>
Val(x) == <<"val", x>>
IsOk(e) == e.res[1] = "ok"
IsPanic(e) == e.res[1] = "panic"

\* fill_with's and copy_from's value patterns (the harness uses the same)
FillWithVal(base, x, y) == base + 10 * y + x
SrcVal(e, x, y) == e.base + y * e.sstride + x

\* ---------------------------------------------------------------- constructors
\* (a view without columns or rows holds nothing: any data will do)
Fits(w, h, stride, len) == stride >= w /\ (w = 0 \/ h = 0 \/ (h - 1) * stride + w <= len)

CtorOps == {"new", "new_from", "new_with", "raw"}
PushOps == {"slice", "reborrow"}

CtorAllowed(e) ==
  CASE e.op = "new" \/ e.op = "new_with" ->
         IF e.w > 0 /\ e.h > 0 THEN IsOk(e) ELSE IsOk(e) \/ IsPanic(e)
    [] e.op = "new_from" ->
         IF e.n < e.w * e.h THEN IsPanic(e)
         ELSE IF e.w > 0 /\ e.h > 0 THEN IsOk(e) ELSE IsOk(e) \/ IsPanic(e)
    [] e.op = "raw" ->
         IF ~Fits(e.w, e.h, e.stride, e.len) THEN IsPanic(e)
         ELSE IF e.w > 0 /\ e.h > 0 THEN IsOk(e) ELSE IsOk(e) \/ IsPanic(e)

CtorCells(e) ==
  CASE e.op = "new"      -> [i \in 1..(e.w * e.h) |-> 0]
    [] e.op = "new_from" -> [i \in 1..(e.w * e.h) |-> i]
    [] e.op = "new_with" -> [i \in 1..(e.w * e.h) |->
                              FillWithVal(0, (i - 1) % e.w, (i - 1) \div e.w)]
    [] e.op = "raw"      -> [i \in 1..e.len |-> i]

CtorView(e) ==
  IF e.op = "raw"
  THEN [off |-> 0, w |-> e.w, h |-> e.h, stride |-> e.stride, mut |-> e.mut = 1]
  ELSE [off |-> 0, w |-> e.w, h |-> e.h, stride |-> e.w, mut |-> TRUE]

Empty == [cells |-> <<>>, stack |-> <<>>]

\* ---------------------------------------------------------------- the relation
ResAllowed(s, e) ==
  LET v == Top(s) IN
  CASE e.op = "dims" -> e.res = <<"dims", <<v.w, v.h, v.stride>>>>
    [] e.op = "is_empty" -> e.res = Val(IF IsEmptyView(v) THEN 1 ELSE 0)
    [] e.op = "get" ->
         IF InView(v, e.x, e.y) THEN e.res = Val(CellAt(s, Addr(v, e.x, e.y)))
                                ELSE e.res = None
    [] e.op = "get_mut" ->
         IF InView(v, e.x, e.y) THEN IsOk(e) ELSE e.res = None
    [] e.op = "idx" ->
         IF InView(v, e.x, e.y) THEN e.res = Val(CellAt(s, Addr(v, e.x, e.y)))
                                ELSE IsPanic(e)
    [] e.op = "idx_set" ->
         IF InView(v, e.x, e.y) THEN IsOk(e) ELSE IsPanic(e)
    [] e.op = "row" ->
         \* a zero-width view has no cell (0, y): indexing its rows may panic
         IF e.y >= 0 /\ e.y < v.h
         THEN e.res = <<"row", RowOf(s, v, e.y)>> \/ (v.w = 0 /\ IsPanic(e))
         ELSE IsPanic(e)
    [] e.op = "row_set" ->
         IF InView(v, e.x, e.y) THEN IsOk(e) ELSE IsPanic(e)
    [] e.op \in {"rows", "rows_mut"} ->
         \* exactly h rows of w elements; for zero width: at most h empty rows
         IF v.w > 0 \/ v.h = 0
         THEN e.res = <<"rows", ViewOf(s, v)>>
         ELSE /\ e.res[1] = "rows"
              /\ Len(e.res[2]) <= v.h
              /\ \A i \in 1..Len(e.res[2]) : Len(e.res[2][i]) = 0
    [] e.op \in {"iter", "iter_mut"} -> e.res = <<"iter", Flat(s, v)>>
    [] e.op \in {"fill", "fill_with"} -> IsOk(e)
    [] e.op = "copy_from" ->
         IF e.sw = v.w /\ e.sh = v.h THEN IsOk(e) ELSE IsPanic(e)
    [] e.op = "slice" ->
         LET q == RectOf(e.rect, v) IN
         IF ~RectValid(q, v) THEN IsPanic(e)
         ELSE IsOk(e)                       \* every rectangle inside the view, empty ones (also on the far borders) too
    [] e.op = "reborrow" -> IsOk(e)
    [] e.op = "pop" -> IsOk(e)
    [] e.op = "end" -> TRUE            \* end of history: only e.root is checked
    [] OTHER -> FALSE

Apply(s, e) ==
  IF e.op \in CtorOps
  THEN IF IsOk(e) THEN [cells |-> CtorCells(e), stack |-> <<CtorView(e)>>] ELSE Empty
  ELSE IF e.op = "end" THEN [s EXCEPT !.stack = <<>>]
  ELSE
  LET v == Top(s) IN
  CASE e.op \in {"get_mut", "idx_set", "row_set"} ->
         IF InView(v, e.x, e.y)
         THEN [s EXCEPT !.cells = WriteCell(s, Addr(v, e.x, e.y), e.val)] ELSE s
    [] e.op = "fill" ->
         LET f(x, y) == e.val IN [s EXCEPT !.cells = WriteWin(s, v, f)]
    [] e.op = "fill_with" ->
         LET f(x, y) == FillWithVal(e.base, x, y) IN [s EXCEPT !.cells = WriteWin(s, v, f)]
    [] e.op \in {"rows_mut", "iter_mut"} ->
         \* the driver adds e.add to every element it is handed
         LET f(x, y) == CellAt(s, Addr(v, x, y)) + e.add
         IN [s EXCEPT !.cells = WriteWin(s, v, f)]
    [] e.op = "copy_from" ->
         IF e.sw = v.w /\ e.sh = v.h
         THEN LET f(x, y) == SrcVal(e, x, y) IN [s EXCEPT !.cells = WriteWin(s, v, f)]
         ELSE s
    [] e.op = "slice" ->
         IF IsOk(e) THEN [s EXCEPT !.stack = Append(@, SubView(v, RectOf(e.rect, v), e.mut = 1))]
                    ELSE s
    [] e.op = "reborrow" ->
         IF IsOk(e) THEN [s EXCEPT !.stack = Append(@, [v EXCEPT !.mut = (e.mut = 1)])] ELSE s
    [] e.op = "pop" -> [s EXCEPT !.stack = SubSeq(@, 1, Len(@) - 1)]
    [] OTHER -> s

\* When a mutating iterator panics part-way the statement does not say what
\* has been written; nothing below depends on the state after such a panic.
Enabled(s, e) ==
  IF e.op \in CtorOps THEN s.stack = <<>>
  ELSE IF e.op = "end" THEN TRUE
  ELSE /\ s.stack # <<>>
       /\ (e.op = "pop" => Len(s.stack) > 1)
       /\ (e.op \in {"get_mut", "idx_set", "row_set", "rows_mut", "iter_mut",
                     "fill", "fill_with", "copy_from"} => Top(s).mut)
       /\ (e.op \in PushOps /\ e.mut = 1 => Top(s).mut)

Allowed(s, e) ==
  /\ Enabled(s, e)
  /\ IF e.op \in CtorOps THEN CtorAllowed(e)
     ELSE IF e.op = "end" THEN TRUE ELSE ResAllowed(s, e)
  /\ LET s2 == Apply(s, e) IN
       /\ ("view" \in DOMAIN e /\ s2.stack # <<>>) => e.view = ViewOf(s2, Top(s2))
       /\ ("root" \in DOMAIN e) => e.root = s2.cells

\* ---------------------------------------------------------------- copies
\* e.src / e.dst: dimensions of a source buffer (cells 1, 2, ... row by row) and of the buffer that is
\* overwritten by dst.clone_from(&src); observed: dimensions and rows of the source (sdims, srows), of the
\* overwritten buffer (ddims, drows), of src.clone() (cdims, crows), and the source's rows after a write
\* to another clone (s2rows)
CloneAllowed(e) ==
  LET w == e.src[1]  h == e.src[2]
      rows == [y \in 1..h |-> [x \in 1..w |-> (y - 1) * w + x]]
  IN /\ e.panic = 0
     /\ e.sdims = <<w, h>> /\ e.srows = rows
     /\ e.ddims = <<w, h>> /\ e.drows = rows
     /\ e.cdims = <<w, h>> /\ e.crows = rows
     /\ e.s2rows = rows

\* ---------------------------------------------------------------- properties
\* of the relation itself, checked by MC_Buf2 on every transition

\* writes change exactly the addressed cells and nothing else
Frame(s, e, s2) ==
  /\ Len(s2.cells) = Len(s.cells) \/ e.op \in CtorOps
  /\ e.op \notin CtorOps =>
       \A a \in 0..(Len(s.cells) - 1) :
          a \notin Win(Top(s)) => CellAt(s2, a) = CellAt(s, a)

\* a cell seen through a child is the cell seen through every ancestor at the
\* translated coordinate
NestedVisible(s) ==
  \A i \in 1..(Len(s.stack) - 1) :
    LET p == s.stack[i]  c == s.stack[i + 1] IN
      /\ c.stride = p.stride
      /\ Win(c) \subseteq Win(p)
      /\ \A x \in 0..(c.w - 1), y \in 0..(c.h - 1) :
           LET d == c.off - p.off IN
           Addr(c, x, y) = Addr(p, x + (d % p.stride), y + (d \div p.stride))

\* every window lies inside the storage
WindowsInside(s) ==
  \A i \in 1..Len(s.stack) : \A a \in Win(s.stack[i]) : a >= 0 /\ a < Len(s.cells)

\* rows() agrees with row indexing
RowsAgree(s) ==
  s.stack # <<>> =>
    LET v == Top(s) IN \A y \in 0..(v.h - 1) : ViewOf(s, v)[y + 1] = RowOf(s, v, y)
=============================================================================
