------------------------------- MODULE Target -------------------------------
(***************************************************************************)
(* C06 / C07.  The depth-buffered render target with its context flags and *)
(* statistics, as a state machine over abstract fragments.                 *)
(*                                                                         *)
(* A scene fixes NP pixels and, per triangle t:                            *)
(*   fp[t]   footprint: sequence over pixels, the reciprocal depth of t's  *)
(*           fragment at that pixel as a non-negative f32 bit pattern      *)
(*           (monotone in the value), or -1 where t has no fragment        *)
(*   col[t]  the colour word t's fragment shader returns                   *)
(*   nfr[t]  number of fragments generated for t (sum of span lengths)     *)
(*   npc[t]  number of clipped pieces of t; ndeg[t] of them have (all but) *)
(*           zero on-screen area, so that their facing is undefined        *)
(*   face[t] on-screen winding: 1 = back-facing, 0 = front-facing          *)
(*   far[t]  <<lo, hi>>: bounds of t's distance from the eye               *)
(*                                                                         *)
(* State: [c, z, st] - colour plane, depth plane, accumulated statistics   *)
(*        <<calls, prims_i, prims_o, verts_i, verts_o, frags_i, frags_o>>. *)
(*                                                                         *)
(* ctx = [cull, sort, test, cw, dw, disc, kind]                            *)
(*   cull 0 none 1 back 2 front; sort 0 none 1 front-to-back 2 back-to-    *)
(*   front; test 0 none 1 Less (new nearer) 2 Equal 3 Greater; kind "fb"   *)
(*   (colour + depth) or "col" (colour only); disc: the shader discards    *)
(*   the fragments at pixels in scene.dpix.                                *)
(***************************************************************************)
EXTENDS Integers, Sequences, FiniteSets, TLC, SequencesExt

Drawn(sc, ctx, t) ==
  CASE ctx.cull = 0 -> TRUE
    [] ctx.cull = 1 -> sc.face[t] = 0
    [] OTHER        -> sc.face[t] = 1

Discarded(sc, ctx, p) == ctx.disc = 1 /\ sc.dpix[p] = 1

Pass(ctx, cur, new) ==
  CASE ctx.test = 0 -> TRUE
    [] ctx.test = 1 -> cur < new
    [] ctx.test = 2 -> cur = new
    [] OTHER        -> cur > new

\* one fragment of triangle t arriving at pixel state px = <<c, z, fo>>
Frag(sc, ctx, px, t, p) ==
  LET new == sc.fp[t][p] IN
  IF new = -1 \/ ~Drawn(sc, ctx, t) THEN px
  ELSE IF ctx.kind = "fb"
       THEN IF Pass(ctx, px[2], new) /\ ~Discarded(sc, ctx, p)
            THEN <<IF ctx.cw = 1 THEN sc.col[t] ELSE px[1],
                   IF ctx.dw = 1 THEN new ELSE px[2],
                   px[3] + ctx.cw>>
            ELSE px
       ELSE IF ~Discarded(sc, ctx, p)
            THEN <<IF ctx.cw = 1 THEN sc.col[t] ELSE px[1], px[2], px[3] + ctx.cw>>
            ELSE px

\* the pixel after the fragments of the triangles of `ord`, in that order
Pixel(sc, ctx, c0, z0, ord, p) ==
  FoldLeft(LAMBDA px, t : Frag(sc, ctx, px, t, p), <<c0, z0, 0>>, ord)

SeqSum(f, s) == FoldLeft(LAMBDA acc, x : acc + f[x], 0, s)

\* one render call submitting the triangles `ord` (processing order)
Render(sc, s, ctx, ord, nv) ==
  LET px == [p \in 1..sc.np |-> Pixel(sc, ctx, s.c[p], s.z[p], ord, p)]
      drawn == SelectSeq(ord, LAMBDA t : Drawn(sc, ctx, t))
      po == SeqSum(sc.npc, drawn)
  IN [c |-> [p \in 1..sc.np |-> px[p][1]],
      z |-> [p \in 1..sc.np |-> px[p][2]],
      st |-> <<s.st[1] + 1, s.st[2] + Len(ord), s.st[3] + po,
               s.st[4] + nv, s.st[5] + 3 * po,
               s.st[6] + SeqSum(sc.nfr, drawn),
               s.st[7] + FoldLeft(LAMBDA a, p : a + px[p][3], 0, [p \in 1..sc.np |-> p])>>]

\* ---------------------------------------------------------------- order
\* Is the outcome of a call independent of the processing order?
OrderFree(ctx) == ctx.kind = "fb" /\ ctx.test \in {1, 3} /\ ctx.dw = 1
\* (the colour and depth planes; the count of colour writes is not)

\* Depth ranges: sc.far[t] = <<lo, hi>> bounds the distance of every point of
\* triangle t from the eye (any monotone unit; larger = farther).
Disjoint(sc, ts) ==
  \A a \in ts, b \in ts : a # b => (sc.far[a][2] < sc.far[b][1] \/ sc.far[b][2] < sc.far[a][1])

\* processing order of a sorted call over triangles with disjoint depth ranges:
\* back to front = decreasing distance
SortedOrd(sc, ctx, ord) ==
  IF ctx.sort = 2 THEN SortSeq(ord, LAMBDA a, b : sc.far[a][1] > sc.far[b][2])
  ELSE SortSeq(ord, LAMBDA a, b : sc.far[a][2] < sc.far[b][1])

\* pixels where two drawn fragments of the call tie exactly in depth
TiePix(sc, ctx, ord) ==
  {p \in 1..sc.np : \E i \in 1..Len(ord), j \in 1..Len(ord) :
      i < j /\ sc.fp[ord[i]][p] # -1 /\ sc.fp[ord[i]][p] = sc.fp[ord[j]][p]}

\* ---------------------------------------------------------------- relation
\* e = [ctx, ord (submission order), nv (vertices submitted), c, z, st]: the observed planes and the
\* accumulated statistics after the call
Allowed(sc, s, e) ==
  LET ctx == e.ctx
      ts == {e.ord[i] : i \in 1..Len(e.ord)}
      exactOrder == ctx.sort = 0 \/ Len(e.ord) <= 1 \/ Disjoint(sc, ts)
      ord == IF ctx.sort = 0 \/ Len(e.ord) <= 1 THEN e.ord
             ELSE IF Disjoint(sc, ts) THEN SortedOrd(sc, ctx, e.ord) ELSE e.ord
      s2 == Render(sc, s, ctx, ord, e.nv)
      ties == IF ctx.kind = "fb" /\ ctx.test # 0 THEN TiePix(sc, ctx, e.ord) ELSE {}
      planes == exactOrder \/ OrderFree(ctx)
  IN \* (e.win: the targets were the planes themselves, windows of larger parent planes, or windows of
     \* windows; e.outw counts the parent cells outside the window that changed)
     /\ e.outw = 0
     /\ planes => \A p \in 1..sc.np : p \in ties \/ (e.c[p] = s2.c[p] /\ e.z[p] = s2.z[p])
     \* pieces of zero on-screen area have no facing: culling may keep or drop them
     /\ LET slackLo == IF ctx.cull = 0 THEN 0 ELSE SeqSum(sc.ndeg, SelectSeq(e.ord, LAMBDA t : Drawn(sc, ctx, t)))
            slackHi == IF ctx.cull = 0 THEN 0 ELSE SeqSum(sc.ndeg, SelectSeq(e.ord, LAMBDA t : ~Drawn(sc, ctx, t)))
        IN /\ \A i \in {1, 2, 4, 6} : e.st[i] = s2.st[i]
           /\ e.st[3] >= s2.st[3] - slackLo /\ e.st[3] <= s2.st[3] + slackHi
           /\ e.st[5] = (e.st[3] - s.st[3]) * 3 + s.st[5]
     /\ (exactOrder /\ ties = {}) => e.st[7] = s2.st[7]
     \* whatever the order: a pixel holds its previous content or that of a fragment covering it
     /\ \A p \in 1..sc.np :
          /\ e.c[p] = s.c[p] \/ \E t \in ts : sc.fp[t][p] # -1 /\ e.c[p] = sc.col[t]
          /\ e.z[p] = s.z[p] \/ \E t \in ts : e.z[p] = sc.fp[t][p]

\* successor state: the observed one (so that one rejected call does not
\* cascade), with the statistics the relation fixed
Apply(sc, s, e) == [c |-> e.c, z |-> e.z, st |-> e.st]

\* ---------------------------------------------------------------- scene
\* The footprints are taken from the implementation (one triangle, depth test off, opaque shader).
\* They must at least be what the statement says about that configuration: every fragment the
\* rasteriser generated for the triangle (sc.cover[t][p] = 1: pixel p lies in one of its scanlines)
\* passed and was written, and nothing else was.
SceneOK(sc) ==
  \A t \in 1..Len(sc.fp) : \A p \in 1..sc.np : (sc.fp[t][p] # -1) <=> (sc.cover[t][p] = 1)

\* ---------------------------------------------------------------- very large calls
\* e.planes = <<a, b, c, d>>, each <<colour plane, depth plane>>: (a) the scene alone, (b)-(d) the scene
\* plus tens of thousands of triangles that cover no pixel centre, in one call, under sort none /
\* front-to-back / back-to-front (depth test Less, writes on).  The padding draws nothing and the sort
\* setting does not matter: all four are equal.
BigCallAllowed(e) ==
  /\ e.panic = 0 /\ \A i \in 2..4 : e.planes[i] = e.planes[1]
  \* e.pp: colour planes of three large triangles at disjoint depths spread over the same very large call (nearest
  \* first, farthest last), <<depth-tested, painter (depth test off, back-to-front sorting)>>: the same image,
  \* and not the background (the triangles do cover pixels)
  /\ e.pp[1] = e.pp[2] /\ \E i \in 1..Len(e.pp[1]) : e.pp[1][i] # e.pp[1][1] \/ Len(e.pp[1]) = 1

\* ---------------------------------------------------------------- theorems
\* checked by MC_Target on the specification itself

\* the nearest fragment covering pixel p among triangles ts, over (c0, z0)
Nearest(sc, c0, z0, ts, p) ==
  LET cov == {t \in ts : sc.fp[t][p] > z0}
  IN IF cov = {} THEN <<c0, z0>>
     ELSE LET t == CHOOSE t \in cov : \A u \in cov : sc.fp[u][p] <= sc.fp[t][p]
          IN <<sc.col[t], sc.fp[t][p]>>

\* the same under a shader that discards the fragments at sc.dpix: a discarded
\* fragment covers nothing, so it neither shows nor occludes
NearestD(sc, ctx, c0, z0, ts, p) ==
  IF Discarded(sc, ctx, p) THEN <<c0, z0>> ELSE Nearest(sc, c0, z0, ts, p)
=============================================================================
