---------------------------- MODULE TV_RasterCov ----------------------------
(* Trace validation for C04: every recorded tri_fill call (env TRACE) must  *)
(* satisfy Raster!CovAllowed.                                               *)
EXTENDS Raster, Json, IOUtils

Rec == ndJsonDeserialize(IOEnv.TRACE)
Bad == {k \in DOMAIN Rec : ~CovAllowed(Rec[k])}
NCov == Cardinality({k \in DOMAIN Rec : Len(Rec[k].rows) > 0})

ASSUME PrintT(<<"TVSTAT", Len(Rec), Len(Rec), NCov>>)
ASSUME \A k \in Bad : PrintT(<<"BAD", k, Rec[k].k, Rec[k].s, ToJson(Rec[k].v)>>)
ASSUME PrintT(<<"TVDONE", Cardinality(Bad)>>)
=============================================================================
