-------------------------------- MODULE Proj --------------------------------
(***************************************************************************)
(* C08.  Projection, viewport and camera as pure geometry over integers    *)
(* and exact rationals, stated WITHOUT the matrix formulas:                *)
(*                                                                         *)
(*  perspective (f = fn/fd, aspect a = an/ad, near n, far r): a view-space *)
(*  point (x, y, z) is in the view volume iff n <= z <= r, |x| f <= z,     *)
(*  |y| f a <= z; its image is ndc = (f x / z, f a y / z); depth is -1 on  *)
(*  the near plane, +1 on the far plane and increases with z.              *)
(*  orthographic: the box maps affinely onto [-1, 1]^3.                    *)
(*  viewport: ndc (-1, -1) |-> (x0, y0), (1, 1) |-> (x1, y1), affinely.    *)
(*  camera: pixel = viewport(pinhole(view(p))), confined to requested      *)
(*  rectangle /\ frame.  first-person: the view transform is rigid, takes  *)
(*  the position to the origin and the target to (0, 0, +d); translation   *)
(*  moves along right / up / horizontal forward.                           *)
(* Observations are scaled by SC.                                          *)
(***************************************************************************)
EXTENDS Integers, Sequences, FiniteSets, TLC

SC == 4096
Abs(x) == IF x < 0 THEN -x ELSE x
Near(a, b, tol) == Abs(a - b) <= tol
Max2(a, b) == IF a >= b THEN a ELSE b
Min2(a, b) == IF a <= b THEN a ELSE b

\* ---------------------------------------------------------------- perspective
\* c = [fn, fd, an, ad, n, r], p = <<x, y, z>> integers
\* margin m/1000: clearly inside / outside the volume
PClearIn(c, p) ==
  /\ p[3] * 1000 >= c.n * 1001 /\ p[3] * 1001 <= c.r * 1000
  /\ Abs(p[1]) * c.fn * 1001 <= p[3] * c.fd * 1000
  /\ Abs(p[2]) * c.fn * c.an * 1001 <= p[3] * c.fd * c.ad * 1000
PClearOut(c, p) ==
  \/ p[3] * 1001 <= c.n * 1000 \/ p[3] * 1000 >= c.r * 1001
  \/ Abs(p[1]) * c.fn * 1000 >= Max2(p[3], 0) * c.fd * 1001 + 1
  \/ Abs(p[2]) * c.fn * c.an * 1000 >= Max2(p[3], 0) * c.fd * c.ad * 1001 + 1
\* observed clip coordinates q = <<x, y, z, w>> (scaled): inside the clip volume?
ClipInside(q) == q[4] > 0 /\ Abs(q[1]) <= q[4] /\ Abs(q[2]) <= q[4] /\ Abs(q[3]) <= q[4]

PerspOK(c, p, q) ==
  /\ PClearIn(c, p) => ClipInside(q)
  /\ PClearOut(c, p) => ~ClipInside(q)
  \* pinhole image: x_clip / w = f x / z  (cross-multiplied; only in front of the eye)
  /\ p[3] > 0 =>
       /\ q[4] > 0
       /\ Near(q[1] * p[3] * c.fd, c.fn * p[1] * q[4], 8 * p[3] * c.fd + (Abs(c.fn * p[1]) * q[4]) \div 2000)
       /\ Near(q[2] * p[3] * c.fd * c.ad, c.fn * c.an * p[2] * q[4], 8 * p[3] * c.fd * c.ad + (Abs(c.fn * c.an * p[2]) * q[4]) \div 2000)
  \* near plane to depth -1, far plane to depth +1
  /\ p[3] = c.n => Near(q[3], -q[4], 8 + q[4] \div 2000)
  /\ p[3] = c.r => Near(q[3], q[4], 8 + q[4] \div 2000)

\* depth order: z1 < z2 (both in front of the eye) => ndc_z1 < ndc_z2
DepthOrder(p1, q1, p2, q2) ==
  (p1[3] > 0 /\ p2[3] > p1[3]) => (q1[4] > 0 /\ q2[4] > 0 /\ q1[3] * (q2[4] \div 64) < q2[3] * (q1[4] \div 64))

\* ---------------------------------------------------------------- orthographic
\* box lo, hi (integers, lo # hi componentwise; an axis with lo > hi is mirrored: lo still goes to -1 and
\* hi to +1), point p: ndc_i = (2 p_i - lo_i - hi_i) / (hi_i - lo_i)
OrthoOK(lo, hi, p, q) ==
  /\ Near(q[4], SC, 4)
  /\ \A i \in 1..3 : Near(q[i] * (hi[i] - lo[i]), (2 * p[i] - lo[i] - hi[i]) * SC, 6 * Abs(hi[i] - lo[i]) + Abs(2 * p[i] - lo[i] - hi[i]))

\* ---------------------------------------------------------------- viewport
\* ndc = <<nx, ny>> / 4 ; rect <<x0, y0, x1, y1>>; s = observed screen point (scaled)
ViewportOK(rc, nd, s) ==
  /\ Near(s[1] * 8, (rc[1] * 8 + (nd[1] + 4) * (rc[3] - rc[1])) * SC, 24 + Abs(rc[3] - rc[1]) * 2)
  /\ Near(s[2] * 8, (rc[2] * 8 + (nd[2] + 4) * (rc[4] - rc[2])) * SC, 24 + Abs(rc[4] - rc[2]) * 2)

\* ---------------------------------------------------------------- rectangles
\* a side is <<0, 0>> (unbounded) or <<1, v>>; rect = <<left, top, right, bottom>>
Side(a, b, pickmax) ==
  IF a[1] = 0 THEN b ELSE IF b[1] = 0 THEN a
  ELSE <<1, IF pickmax THEN Max2(a[2], b[2]) ELSE Min2(a[2], b[2])>>
Intersect(r, s) == <<Side(r[1], s[1], TRUE), Side(r[2], s[2], TRUE), Side(r[3], s[3], FALSE), Side(r[4], s[4], FALSE)>>
\* membership of a point, for the semantic check: a point is in the intersection iff in both
InRect(r, x, y) ==
  /\ (r[1][1] = 0 \/ x >= r[1][2]) /\ (r[3][1] = 0 \/ x < r[3][2])
  /\ (r[2][1] = 0 \/ y >= r[2][2]) /\ (r[4][1] = 0 \/ y < r[4][2])

\* ---------------------------------------------------------------- first person
\* M = observed world-to-view matrix (3 rows x 4, scaled): rigid, position to origin, target to (0, 0, d)
Row(M, i) == M[i]
RigidOK(M) ==
  /\ \A i \in 1..3, j \in 1..3 :
       Near((M[i][1] * M[j][1] + M[i][2] * M[j][2] + M[i][3] * M[j][3]) \div SC, IF i = j THEN SC ELSE 0, 12)
  /\ LET d == (M[1][1] \div 16) * (((M[2][2] \div 16) * (M[3][3] \div 16) - (M[2][3] \div 16) * (M[3][2] \div 16)) \div 256)
            - (M[1][2] \div 16) * (((M[2][1] \div 16) * (M[3][3] \div 16) - (M[2][3] \div 16) * (M[3][1] \div 16)) \div 256)
            + (M[1][3] \div 16) * (((M[2][1] \div 16) * (M[3][2] \div 16) - (M[2][2] \div 16) * (M[3][1] \div 16)) \div 256)
     IN d > 0                                                     \* handedness kept (determinant +1, not -1)

\* ---------------------------------------------------------------- relation
Allowed(e) ==
  CASE e.op = "persp" -> e.panic = 0 /\ PerspOK(e.c, e.p, e.q)
    [] e.op = "persp2" -> e.panic = 0 /\ DepthOrder(e.p1, e.q1, e.p2, e.q2)
    [] e.op = "ortho" -> e.panic = 0 /\ OrthoOK(e.lo, e.hi, e.p, e.q)
    [] e.op = "viewport" -> e.panic = 0 /\ ViewportOK(e.rc, e.nd, e.s)
    [] e.op = "rect" ->
         /\ e.panic = 0
         /\ e.res = Intersect(e.r1, e.r2)
         /\ \A x \in 0..9, y \in 0..9 :                             \* contains exactly the common points (unsigned)
              (e.cont[y + 2][x + 2] = 1) <=> (InRect(e.r1, x, y) /\ InRect(e.r2, x, y))
    [] e.op = "cam" ->
         \* requested rectangle rq (bounded), frame fw x fh: viewport = intersection; aspect from its size
         LET ix0 == Max2(e.rq[1], 0)  iy0 == Max2(e.rq[2], 0)  ix1 == Min2(e.rq[3], e.fw)  iy1 == Min2(e.rq[4], e.fh)
             w == ix1 - ix0  h == iy1 - iy0
         IN /\ e.panic = 0
            /\ e.dims = <<w, h>>
            /\ ViewportOK(<<ix0, iy0, ix1, iy1>>, <<-4, -4>>, e.c00) /\ ViewportOK(<<ix0, iy0, ix1, iy1>>, <<4, 4>>, e.c11)
            \* a world point seen by a camera at the origin looking down +z: pixel predicted by pinhole geometry
            /\ (e.p[3] > 0 /\ w > 0 /\ h > 0) =>
                 /\ Near(e.pix[1] * 2 * e.p[3] * e.fd, ((ix0 + ix1) * e.p[3] * e.fd + e.fn * e.p[1] * w) * SC,
                         (16 * e.p[3] * e.fd) + Abs(e.fn * e.p[1] * w * SC) \div 1000)
                 /\ Near(e.pix[2] * 2 * e.p[3] * e.fd, ((iy0 + iy1) * e.p[3] * e.fd + e.fn * w * e.p[2]) * SC,
                         (16 * e.p[3] * e.fd) + Abs(e.fn * w * e.p[2] * SC) \div 1000)
            \* drawing is confined to the intersection
            /\ e.tbox[1] = 0 \/ (e.tbox[2] >= ix0 /\ e.tbox[3] >= iy0 /\ e.tbox[4] <= ix1 /\ e.tbox[5] <= iy1)
            /\ (w > 1 /\ h > 1) => e.tbox[1] > 0
    [] e.op = "ocam" ->
         \* orthographic camera over the box lo..hi, requested rectangle rq in a frame fw x fh, builder calls
         \* in either order (e.ord): the point p of the box lands where the box maps linearly onto the viewport
         LET ix0 == Max2(e.rq[1], 0)  iy0 == Max2(e.rq[2], 0)  ix1 == Min2(e.rq[3], e.fw)  iy1 == Min2(e.rq[4], e.fh)
             w == ix1 - ix0  h == iy1 - iy0
             bw == e.hi[1] - e.lo[1]  bh == e.hi[2] - e.lo[2]
         IN /\ e.panic = 0
            /\ e.dims = <<w, h>>
            /\ OrthoOK(e.lo, e.hi, e.p, e.q)
            /\ Near(e.pix[1] * bw, (ix0 * bw + (e.p[1] - e.lo[1]) * w) * SC, 8 * bw + (w * SC) \div 2000)
            /\ Near(e.pix[2] * bh, (iy0 * bh + (e.p[2] - e.lo[2]) * h) * SC, 8 * bh + (h * SC) \div 2000)
    [] e.op = "fp" ->
         \* camera at pos * 2^psc looking at a target t * 2^-tsc away (t integer, |t|^2 = d2; observations
         \* scaled back by 2^tsc): rigid, pos -> 0, target -> (0, 0, d).  pm bounds |pos|: the translation
         \* column is rounded at that magnitude (5e-7 relative), which is what tp allows for.
         LET tp == (e.pm * (2 ^ e.tsc)) \div 500 IN
         /\ e.panic = 0
         /\ RigidOK(e.M)
         /\ \A i \in 1..3 : Near(e.ipos[i], 0, 24 + tp)
         /\ Near(e.itgt[1], 0, 12 + e.d \div 64 + tp) /\ Near(e.itgt[2], 0, 12 + e.d \div 64 + tp) /\ e.itgt[3] > 0
         /\ IF "steep" \in DOMAIN e /\ e.steep = 1
            THEN \* target almost straight above / below (t = (dx, +-K, dz), |dx|, |dz| <= 1; e.d = K scaled):
                 \* on the axis to 1e-4 of the distance, at a distance within 2e-3 of K
                 /\ Near(e.itgt[1], 0, 4 + e.d \div 10000) /\ Near(e.itgt[2], 0, 4 + e.d \div 10000)
                 /\ Near(e.itgt[3], e.d, 8 + e.d \div 500)
            ELSE IF e.tsc = 0
            THEN Near((e.itgt[3] \div 64) * (e.itgt[3] \div 64), e.d2 * (SC \div 64) * (SC \div 64), (e.d2 * (SC \div 64) * (SC \div 64)) \div 200 + 64)
            ELSE Near(e.itgt[3], e.d, 12 + e.d \div 64 + tp)
    \* the first-person view transform under another float backend (e.be): rigid as tightly as under std for
    \* libm; the approximating backends (mm, none) are only held to 2 %
    [] e.op = "rigid" ->
         /\ e.panic = 0
         /\ IF e.be \in {"libm", "std"} THEN RigidOK(e.M)
            ELSE \A i \in 1..3, j \in 1..3 :
                   Near((e.M[i][1] * e.M[j][1] + e.M[i][2] * e.M[j][2] + e.M[i][3] * e.M[j][3]) \div SC, IF i = j THEN SC ELSE 0, SC \div 50)
    \* the default first-person camera (as constructed, or moved): rigid, its own position goes to the origin
    [] e.op = "fpd" -> e.panic = 0 /\ RigidOK(e.M) /\ \A i \in 1..3 : Near(e.ipos[i], 0, 24)
    [] e.op = "fpmove" ->
         \* heading azimuth with (cos, sin) = (cx, sz) / kd: forward = (cx, 0, sz) / kd, right = up x forward = (sz, 0, -cx) / kd
         /\ e.panic = 0
         /\ Near(e.dpos[1] * e.kd, (e.dl[1] * e.sz + e.dl[3] * e.cx) * SC, 16 * e.kd)
         /\ Near(e.dpos[2], e.dl[2] * SC, 16)
         /\ Near(e.dpos[3] * e.kd, (-e.dl[1] * e.cx + e.dl[3] * e.sz) * SC, 16 * e.kd)
    [] OTHER -> FALSE
=============================================================================
