---------------------------- MODULE MC_Buf2Ctor ----------------------------
(***************************************************************************)
(* C11, "constructors reject dimensions the data cannot hold": a sweep of  *)
(* every constructor call over a wider range of dimensions, strides and    *)
(* backing lengths than the history exploration of MC_Buf2 can afford      *)
(* (constructors are depth-one behaviours, so the sweep is cheap).         *)
(*                                                                         *)
(* Checked on the relation itself:                                         *)
(*   - Fits (the closed form the relation uses) says exactly that the      *)
(*     window of the new view lies inside the backing data and rows do not *)
(*     overlap:  stride >= w  and every address of Win(view) is < len;     *)
(*   - for non-empty dimensions exactly one of ok / panic is admitted.     *)
(* Every call is exported, followed by reads of the whole view (rows, iter,*)
(* dims), for replay on the real constructors.                             *)
(***************************************************************************)
EXTENDS Buf2, Json

CONSTANTS MaxW, MaxH, Export

VARIABLES call
vars == <<call>>

RawCalls ==
  {[op |-> "raw", w |-> w, h |-> h, stride |-> sd, len |-> ln, mut |-> m] :
     w \in 0..MaxW, h \in 0..MaxH, sd \in 0..(MaxW + 2), ln \in 0..(MaxH * (MaxW + 2) + 2), m \in {0, 1}}
FromCalls ==
  UNION {{[op |-> "new_from", w |-> w, h |-> h, n |-> k] : k \in 0..(w * h + 2)} : <<w, h>> \in (0..MaxW) \X (0..MaxH)}
PlainCalls ==
  {[op |-> o, w |-> w, h |-> h] : o \in {"new", "new_with"}, w \in 0..MaxW, h \in 0..MaxH}

Init == call \in RawCalls \cup FromCalls \cup PlainCalls
Next == UNCHANGED vars
Spec == Init /\ [][Next]_vars

WithRes(c, r) == [f \in DOMAIN c \cup {"res"} |-> IF f = "res" THEN r ELSE c[f]]

\* the closed form agrees with the window model
FitsIsWindowInside ==
  call.op = "raw" /\ call.w > 0 /\ call.h > 0 =>
    LET v == CtorView(WithRes(call, Ok)) IN
    Fits(call.w, call.h, call.stride, call.len)
      <=> (call.stride >= call.w /\ \A a \in Win(v) : a < call.len)

\* non-empty dimensions: the verdict is determined
Sharp ==
  (call.w > 0 /\ call.h > 0) =>
    CtorAllowed(WithRes(call, Ok)) # CtorAllowed(WithRes(call, Panic))

\* some verdict is always admitted
Total == CtorAllowed(WithRes(call, Ok)) \/ CtorAllowed(WithRes(call, Panic))

ExportInv ==
  Export => PrintT(<<"REPLAY", ToJson(<<call, [op |-> "dims"], [op |-> "rows"], [op |-> "iter"]>>)>>)
=============================================================================
