CONSTANTS
  MaxW = 2
  MaxH = 2
  MaxDepth = 3
  MaxNest = 1
  Export = FALSE
SPECIFICATION Spec
VIEW View
INVARIANT Inv TotalAndSharp
PROPERTY FrameProp
CHECK_DEADLOCK FALSE
