------------------------------ MODULE MC_Stats ------------------------------
(* The accumulator is order-free: whatever the order in which the partial   *)
(* statistics of a frame's render calls are added, the totals are the same; *)
(* per-frame throughputs never exceed the totals; HumanNum admits exactly   *)
(* one mantissa (to within its rounding) per count.                         *)
EXTENDS Stats, FiniteSets

Parts == {[calls |-> 1, frames |-> f, us |-> u, thr |-> <<<<1, 1>>, <<p, q>>, <<3 * p, 3 * q>>, <<10 * p, 7 * q>>>>] :
            f \in {0, 1}, u \in {0, 1500}, p \in {0, 2, 5}, q \in {0, 2}}

VARIABLES s, todo, all
vars == <<s, todo, all>>
Init == s = Zero /\ todo \in {P \in SUBSET Parts : Cardinality(P) = 3} /\ all = todo
Next == \E d \in todo : s' = Add(s, d) /\ todo' = todo \ {d} /\ all' = all
Spec == Init /\ [][Next]_vars

RECURSIVE SumOf(_)
SumOf(P) == IF P = {} THEN Zero ELSE LET d == CHOOSE d \in P : TRUE IN Add(SumOf(P \ {d}), d)

\* confluence of accumulation: the state depends only on the set of parts added so far
OrderFree == s = SumOf(all \ todo)
Done == todo = {} =>
  /\ \A j \in 1..4 : s.thr[j][1] \div Max(s.frames, 1) <= s.thr[j][1]
  /\ s.calls = 3
=============================================================================
