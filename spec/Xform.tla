-------------------------------- MODULE Xform --------------------------------
(***************************************************************************)
(* C09.  The transform algebra over exact integer affine matrices.         *)
(*                                                                         *)
(* An affine transform of 3-space is <<r1, r2, r3>>, each row four         *)
(* integers (the fourth the translation); the last row 0 0 0 1 is          *)
(* implicit.  Generators are defined by their GEOMETRIC effect:            *)
(*   Translate(t)        p |-> p + t                                       *)
(*   Scale(s)            p |-> (s1 p1, s2 p2, s3 p3)                        *)
(*   k * Rot_axis(c, s)  rotation by the angle with cosine c/k, sine s/k,  *)
(*                       times the uniform scale k (so that all entries    *)
(*                       are integers: Pythagorean angles 3-4-5, 5-12-13)  *)
(*   FromBasis(i, j, k)  e1 |-> i, e2 |-> j, e3 |-> k                      *)
(*   k * OrientY / OrientZ  the library's basis-from-two-directions rules  *)
(* The library's rotation sense (rotate_z(90 deg) takes +y to +x, etc.) is *)
(* documented by its own tests and adopted here.                           *)
(***************************************************************************)
EXTENDS Integers, Sequences, FiniteSets, TLC

Abs(x) == IF x < 0 THEN -x ELSE x
Id == <<<<1, 0, 0, 0>>, <<0, 1, 0, 0>>, <<0, 0, 1, 0>>>>
Row4(M, i) == IF i <= 3 THEN M[i] ELSE <<0, 0, 0, 1>>
El(M, i, j) == Row4(M, i)[j]

\* (A after B): first B, then A
Mul(A, B) == [i \in 1..3 |-> [j \in 1..4 |-> El(A, i, 1) * El(B, 1, j) + El(A, i, 2) * El(B, 2, j)
                                            + El(A, i, 3) * El(B, 3, j) + El(A, i, 4) * El(B, 4, j)]]
ApplyPt(M, p) == [i \in 1..3 |-> M[i][1] * p[1] + M[i][2] * p[2] + M[i][3] * p[3] + M[i][4]]
ApplyLin(M, v) == [i \in 1..3 |-> M[i][1] * v[1] + M[i][2] * v[2] + M[i][3] * v[3]]

Cross(a, b) == <<a[2] * b[3] - a[3] * b[2], a[3] * b[1] - a[1] * b[3], a[1] * b[2] - a[2] * b[1]>>

Translate(t) == <<<<1, 0, 0, t[1]>>, <<0, 1, 0, t[2]>>, <<0, 0, 1, t[3]>>>>
Scale(s) == <<<<s[1], 0, 0, 0>>, <<0, s[2], 0, 0>>, <<0, 0, s[3], 0>>>>
\* columns are the images of the basis vectors
FromBasis(i, j, k) == <<<<i[1], j[1], k[1], 0>>, <<i[2], j[2], k[2], 0>>, <<i[3], j[3], k[3], 0>>>>
\* k times the rotation about an axis by the angle (cos, sin) = (c/k, s/k), in the library's sense
KRotX(c, s, k) == FromBasis(<<k, 0, 0>>, <<0, c, -s>>, <<0, s, c>>)      \* z |-> (0, s, c): +z towards +y
KRotY(c, s, k) == FromBasis(<<c, 0, s>>, <<0, k, 0>>, <<-s, 0, c>>)      \* x |-> (c, 0, s): +x towards +z
KRotZ(c, s, k) == FromBasis(<<c, -s, 0>>, <<s, c, 0>>, <<0, 0, k>>)      \* y |-> (s, c, 0): +y towards +x
\* orient_y(new_y, x): new_z = x cross new_y, new_x = new_y cross new_z (k * unit vectors given as integers)
KOrientY(ny, x, k) == LET nz == Cross(x, ny)  nx == Cross(ny, nz) IN
                      FromBasis(<<nx[1] \div (k * k), nx[2] \div (k * k), nx[3] \div (k * k)>>, ny, <<nz[1] \div k, nz[2] \div k, nz[3] \div k>>)
\* orient_z(new_z, x): new_y = new_z cross x, new_x = new_y cross new_z
KOrientZ(nz, x, k) == LET ny == Cross(nz, x)  nx == Cross(ny, nz) IN
                      FromBasis(<<nx[1] \div (k * k), nx[2] \div (k * k), nx[3] \div (k * k)>>, <<ny[1] \div k, ny[2] \div k, ny[3] \div k>>, nz)

\* 5 * orient_y((3,4,0)/5, x = (1,0,0)): new_z = unit(x cross new_y) = (0,0,1), new_x = new_y cross new_z
ObliqueY == FromBasis(<<4, -3, 0>>, <<3, 4, 0>>, <<0, 0, 5>>)
\* 5 * orient_z((0,3,4)/5, x = (0,1,0)): new_y = unit(new_z cross x) = (-1,0,0), new_x = new_y cross new_z
ObliqueZ == FromBasis(<<0, 4, -3>>, <<-5, 0, 0>>, <<0, 3, 4>>)

\* the generator table: <<matrix, uniform scale factor k folded into it>>
Gens == <<
  Translate(<<1, -2, 3>>), Translate(<<-3, 0, 2>>),
  Scale(<<2, -1, 3>>), Scale(<<1, 4, -1>>),
  KRotX(0, 1, 1), KRotY(0, 1, 1), KRotZ(0, 1, 1), KRotZ(-1, 0, 1),          \* quarter and half turns
  KRotZ(3, 4, 5), KRotX(12, 5, 13), KRotY(4, -3, 5),                        \* Pythagorean angles (one negative)
  FromBasis(<<1, 0, 0>>, <<1, 1, 0>>, <<0, 2, 1>>),                         \* a shear
  KOrientY(<<3, 4, 0>>, <<0, 0, 5>>, 5), KOrientZ(<<0, 3, 4>>, <<5, 0, 0>>, 5),
  \* the reference direction need not be perpendicular to the new axis: the derived axis is the
  \* UNIT vector along the cross product (given explicitly, checked parallel in MC_Xform)
  ObliqueY, ObliqueZ,
  \* negative and more-than-full multiples of a quarter turn: rotate_x(-270 deg) is the quarter turn,
  \* rotate_y(-180 deg) and rotate_z(-540 deg) are half turns
  KRotX(0, 1, 1), KRotY(-1, 0, 1), KRotZ(-1, 0, 1),
  \* 5 * from_basis(x, y, (0.6, 0, 0.8)): three unit vectors, x perpendicular to y and y to the third,
  \* but the first and the third are not perpendicular - a basis that only LOOKS orthonormal pairwise-adjacent
  FromBasis(<<5, 0, 0>>, <<0, 5, 0>>, <<3, 0, 4>>)
>>
NGen == Len(Gens)
RotGens == {5, 6, 7, 8, 17, 18, 19}            \* pure rotations (k = 1)

Det3(M) == M[1][1] * (M[2][2] * M[3][3] - M[2][3] * M[3][2])
         - M[1][2] * (M[2][1] * M[3][3] - M[2][3] * M[3][1])
         + M[1][3] * (M[2][1] * M[3][2] - M[2][2] * M[3][1])
\* adjugate of the linear part, and det * inverse as an affine matrix
Adj(M) == LET c(i, j) == LET r == {1, 2, 3} \ {i}  s == {1, 2, 3} \ {j}
                             r1 == CHOOSE x \in r : \A y \in r : x <= y  r2 == CHOOSE x \in r : \A y \in r : x >= y
                             s1 == CHOOSE x \in s : \A y \in s : x <= y  s2 == CHOOSE x \in s : \A y \in s : x >= y
                         IN (IF (i + j) % 2 = 0 THEN 1 ELSE -1) * (M[r1][s1] * M[r2][s2] - M[r1][s2] * M[r2][s1])
          IN [i \in 1..3 |-> [j \in 1..3 |-> c(j, i)]]
InvNum(M) == LET a == Adj(M) t == <<M[1][4], M[2][4], M[3][4]>> IN
             [i \in 1..3 |-> <<a[i][1], a[i][2], a[i][3], -(a[i][1] * t[1] + a[i][2] * t[2] + a[i][3] * t[3])>>]

\* the product of a path: sequence of <<generator index, side>>, side "L" = generator applied last
PathMat(path) ==
  LET RECURSIVE go(_, _)
      go(i, M) == IF i > Len(path) THEN M
                  ELSE go(i + 1, IF path[i][2] = "L" THEN Mul(Gens[path[i][1]], M) ELSE Mul(M, Gens[path[i][1]]))
  IN go(1, Id)
MaxAbs(M) == LET S == {Abs(M[i][j]) : i \in 1..3, j \in 1..4} IN CHOOSE x \in S : \A y \in S : x >= y

\* ---------------------------------------------------------------- relation
\* observations are scaled by 1024
SC == 1024
Tol(mag) == 2 + (mag * SC) \div 5000          \* 2e-4 of the magnitude, plus rounding
Probes == <<<<1, 0, 0>>, <<0, 1, 0>>, <<0, 0, 1>>, <<2, -3, 1>>>>

MatClose(obs, M, tol) == \A i \in 1..3, j \in 1..4 : Abs(obs[i][j] - M[i][j] * SC) <= tol

\* classification of the vector images: "lin" linear part (the statement), "aff" translation included
VecClass(e, M, tol) ==
  IF \A k \in 1..Len(Probes) : \A i \in 1..3 : Abs(e.vecs[k][i] - ApplyLin(M, Probes[k])[i] * SC) <= tol THEN "lin"
  ELSE IF \A k \in 1..Len(Probes) : \A i \in 1..3 : Abs(e.vecs[k][i] - ApplyPt(M, Probes[k])[i] * SC) <= tol THEN "aff"
  ELSE "bad"

\* everything but the image of vectors
CoreAllowed(e) ==
  LET M == PathMat(e.path)  tol == Tol(MaxAbs(M) + 4) IN
  /\ e.panic = 0
  /\ MatClose(e.m, M, tol) /\ MatClose(e.m2, M, tol)                 \* compose chain and then chain
  /\ \A k \in 1..Len(Probes) : \A i \in 1..3 : Abs(e.pts[k][i] - ApplyPt(M, Probes[k])[i] * SC) <= tol
  /\ e.hasdet = 1 =>
       LET d == Det3(M)  inv == InvNum(M) IN
       /\ d # 0
       /\ Abs(e.det - d) <= 1 + Abs(d) \div 5000                      \* determinant (unscaled), multiplicative by construction
       /\ \A i \in 1..3, j \in 1..4 :                                  \* inverse = adj / det
            LET ex == IF (inv[i][j] >= 0) = (d > 0) THEN (Abs(inv[i][j]) * SC) \div Abs(d) ELSE -((Abs(inv[i][j]) * SC) \div Abs(d))
            IN Abs(e.inv[i][j] - ex) <= 3 + Abs(ex) \div 2000
       /\ \A i \in 1..3, j \in 1..4 :                                  \* inverse composed with the original, both orders
            /\ Abs(e.invm[i][j] - (IF i = j THEN SC ELSE 0)) <= 3
            /\ Abs(e.minv[i][j] - (IF i = j THEN SC ELSE 0)) <= 3
  /\ e.isrot = 1 =>                                                    \* rotations: transpose = inverse, det 1
       /\ Det3(M) = 1
       /\ \A i \in 1..3, j \in 1..3 : Abs(e.tr[i][j] - M[j][i] * SC) <= 2 /\ Abs(e.tr[i][j] - e.inv[i][j]) <= 3

\* A rotation about a coordinate axis by an angle of thousands of turns.  f32 cannot name such an
\* angle to better than ~5e-4 rad, so WHICH rotation comes out is not judged - that it is one is:
\* e.q = m * transpose(m) (scaled QS), e.det (scaled QS), e.inv and e.tr (scaled QS)
QS == 16384
RotAllowed(e) ==
  /\ e.panic = 0
  /\ \A i \in 1..3, j \in 1..3 : Abs(e.q[i][j] - (IF i = j THEN QS ELSE 0)) <= 2     \* orthonormal rows (1e-4)
  /\ Abs(e.det - QS) <= 2                                                            \* handedness and volume kept
  /\ \A i \in 1..3, j \in 1..3 : Abs(e.inv[i][j] - e.tr[i][j]) <= 3                   \* transpose = inverse
  \* ... and it is the rotation by THAT angle: e.s, e.c are the sine and cosine of the same Angle value
  \* (its own sin_cos; which sign goes where is settled by the quarter-turn generators)
  /\ LET ax == CASE e.axis = "x" -> 1 [] e.axis = "y" -> 2 [] OTHER -> 3
         j == CHOOSE j \in 1..3 \ {ax} : \A k \in 1..3 \ {ax} : j <= k
         k == CHOOSE k \in 1..3 \ {ax} : k # j
     IN /\ Abs(e.m[ax][ax] - QS) <= 2 /\ Abs(e.m[j][j] - e.c) <= 2 /\ Abs(e.m[k][k] - e.c) <= 2
        /\ Abs(Abs(e.m[j][k]) - Abs(e.s)) <= 2 /\ Abs(e.m[j][k] + e.m[k][j]) <= 2

\* orient_y(A, X) / orient_z(A, X) on lattice vectors (A and X given at independent power-of-two scales,
\* undone exactly by the recorder): the given axis is kept as it is (e.main, scale 1024); the derived axis
\* (e.ucol, scale QS) is the UNIT vector along X x A (orient_y: new z) resp. A x X (orient_z: new y); the
\* third (e.tcol, scale 1024) is new_y x new_z, as long as the given axis; nothing is translated.
L1(v) == Abs(v[1]) + Abs(v[2]) + Abs(v[3])
LInf(v) == LET S == {Abs(v[1]), Abs(v[2]), Abs(v[3])} IN CHOOSE x \in S : \A y \in S : x >= y
Dot3(a, b) == a[1] * b[1] + a[2] * b[2] + a[3] * b[3]
\* r points along V (r scaled, V integers)
Along(r, V) == LET c == Cross(r, V) IN LInf(c) <= 3 * L1(V) + (LInf(r) * L1(V)) \div 20000 /\ Dot3(r, V) > 0
OrientAllowed(e) ==
  LET A == e.A  X == e.X
      U == IF e.which = "y" THEN Cross(X, A) ELSE Cross(A, X)
      T == IF e.which = "y" THEN Cross(A, U) ELSE Cross(U, A)
      a2 == Dot3(A, A)
  IN /\ e.panic = 0
     /\ e.main = <<1024 * A[1], 1024 * A[2], 1024 * A[3]>>
     /\ Along(e.ucol, U) /\ Abs(Dot3(e.ucol, e.ucol) - QS * QS) <= QS * 8                      \* unit length (2.5e-4)
     /\ Along(e.tcol, T) /\ Abs(Dot3(e.tcol, e.tcol) - 1048576 * a2) <= (1048576 * a2) \div 2000 + 2048 * LInf(A)
     /\ e.tl = <<0, 0, 0>> /\ e.last = <<0, 0, 0, 1024>>

\* 3x3 matrices: affine maps of the plane, e.M and e.N given by their two upper rows <<a, b, tx>>, <<c, d, ty>>
\* (integers); e.p a lattice point.  Observed (scale SC): e.ap = M applied to the point, e.av = M applied to the
\* VECTOR p (judged only when M has no translation, see the known finding about vectors), e.mn = the rows of
\* M o N (first N), e.nm = those of M then N (first M), e.mnp = (M o N) applied to the point.
M3Pt(M, p) == <<M[1][1] * p[1] + M[1][2] * p[2] + M[1][3], M[2][1] * p[1] + M[2][2] * p[2] + M[2][3]>>
M3Mul(A, B) == <<<<A[1][1] * B[1][1] + A[1][2] * B[2][1], A[1][1] * B[1][2] + A[1][2] * B[2][2], A[1][1] * B[1][3] + A[1][2] * B[2][3] + A[1][3]>>,
                 <<A[2][1] * B[1][1] + A[2][2] * B[2][1], A[2][1] * B[1][2] + A[2][2] * B[2][2], A[2][1] * B[1][3] + A[2][2] * B[2][3] + A[2][3]>>>>
M3Allowed(e) ==
  LET ex(P, o) == \A i \in 1..2 : \A j \in 1..3 : Abs(o[i][j] - P[i][j] * SC) <= 2 + Abs(P[i][j])
      pt(q, o) == \A i \in 1..2 : Abs(o[i] - q[i] * SC) <= 2 + Abs(q[i])
  IN /\ e.panic = 0
     /\ pt(M3Pt(e.M, e.p), e.ap)
     /\ (e.M[1][3] = 0 /\ e.M[2][3] = 0) => pt(M3Pt(e.M, e.p), e.av)
     /\ ex(M3Mul(e.M, e.N), e.mn) /\ e.mn[3] = <<0, 0, SC>>
     /\ ex(M3Mul(e.N, e.M), e.nm) /\ e.nm[3] = <<0, 0, SC>>
     /\ pt(M3Pt(e.M, M3Pt(e.N, e.p)), e.mnp)

Allowed(e) == CoreAllowed(e) /\ VecClass(e, PathMat(e.path), Tol(MaxAbs(PathMat(e.path)) + 4)) = "lin"
=============================================================================
