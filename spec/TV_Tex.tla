------------------------------ MODULE TV_Tex ------------------------------
(* Trace validation for C12: every sampler call recorded from the real    *)
(* code (env TRACE) must satisfy Tex!Allowed.                             *)
EXTENDS Tex, Json, IOUtils

Rec == ndJsonDeserialize(IOEnv.TRACE)
Bad == {k \in DOMAIN Rec : ~Allowed(Rec[k])}
NIn == Cardinality({k \in DOMAIN Rec : InRange(Rec[k].u, Rec[k].w) /\ InRange(Rec[k].v, Rec[k].h)})

ASSUME PrintT(<<"TVSTAT", Len(Rec), Len(Rec), NIn>>)
ASSUME \A k \in Bad : PrintT(<<"BAD", k, Rec[k].k, Rec[k].smp, Rec[k].op, ToJson(Rec[k].res), ToJson(Rec[k].tc)>>)
ASSUME PrintT(<<"TVDONE", Cardinality(Bad)>>)
=============================================================================
