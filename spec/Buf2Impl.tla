------------------------------ MODULE Buf2Impl ------------------------------
(***************************************************************************)
(* Implementation-shaped model of util::buf::Inner: the index arithmetic   *)
(* of the constructor checks, resolve_bounds, rows()/rows_mut() (chunking  *)
(* by stride, bounded by the height), fill()'s contiguous fast path and    *)
(* slicing, transcribed into exact TLA+ and checked by TLC to REFINE the   *)
(* property-level Buf2 model (a view is the window                          *)
(* { off + y*stride + x : x < w, y < h }) for every view up to MaxDim x    *)
(* MaxDim with every stride and amount of surplus backing data, and every  *)
(* sub-rectangle.  This is the design-level argument that the addressing   *)
(* code is right for all small views; the real code is bound to Buf2 (not  *)
(* to this module) by TV_Buf2.                                             *)
(*                                                                         *)
(* A view here is [w, h, stride, len]: len is the length of its own data   *)
(* slice, which starts at the view's first cell.                           *)
(***************************************************************************)
EXTENDS Integers, Sequences, FiniteSets, TLC

CONSTANTS MaxDim, Variant      \* Variant: "fixed" (the current algorithms) or "pinned" (before the two fix commits:
                               \* rows() not bounded by the height, fill() over the whole data slice) - a negative control

Max2(a, b) == IF a >= b THEN a ELSE b
Min2(a, b) == IF a <= b THEN a ELSE b

\* Inner::new's assertions
\* (current tree: a view without columns or rows has nothing to hold; the pinned tree applied the size
\* assertions to such views too)
CtorOK(w, h, stride, len) ==
  /\ w <= stride
  /\ (Variant = "fixed" /\ (w = 0 \/ h = 0)) \/
       /\ (h <= 1 \/ stride <= len)
       /\ h <= len
       /\ (h > 0 => (h - 1) * stride + w <= len)

\* the abstract window, relative to the start of the data slice
Win(v) == {y * v.stride + x : x \in 0..(v.w - 1), y \in 0..(v.h - 1)}

\* ---- indexing
ToIndexChecked(v, x, y) == IF x < v.w /\ y < v.h THEN y * v.stride + x ELSE -1

\* ---- rows(): data.chunks(max(stride, 1)).take(h).map(|row| &row[..w])
\* row i is the address range [i*cs, i*cs + w) provided the chunk has at least w elements
ChunkSize(v) == Max2(v.stride, 1)
NChunks(v) == (v.len + ChunkSize(v) - 1) \div ChunkSize(v)
NRows(v) == IF Variant = "fixed" THEN Min2(NChunks(v), v.h) ELSE NChunks(v)
RowsPanics(v) ==
  \/ (Variant = "pinned" /\ v.stride = 0 /\ TRUE)                    \* chunks(0) panics
  \/ \E i \in 0..(NRows(v) - 1) : Min2((i + 1) * ChunkSize(v), v.len) - i * ChunkSize(v) < v.w
RowsAddrs(v) == [i \in 1..NRows(v) |-> [x \in 1..v.w |-> (i - 1) * ChunkSize(v) + (x - 1)]]

\* ---- fill(): contiguous fast path over the first w*h cells, else row by row
IsContiguous(v) == v.stride = v.w \/ v.h <= 1 \/ v.w = 0
FillAddrs(v) == IF IsContiguous(v) THEN (IF Variant = "fixed" THEN 0..(v.w * v.h - 1) ELSE 0..(v.len - 1))
                ELSE UNION {{RowsAddrs(v)[i][x] : x \in 1..v.w} : i \in 1..Len(RowsAddrs(v))}

\* ---- slice(rect): resolve_bounds then Inner::new on data[start..end]
\* rect = [l, t, r, b]; result [ok, off, view]
Slice(v, q) ==
  IF ~(q.l <= q.r /\ q.t <= q.b /\ q.r <= v.w /\ q.b <= v.h) THEN [ok |-> FALSE, off |-> 0, view |-> v]
  \* (current tree: an empty rectangle covers no elements, wherever it lies: the empty prefix of the data)
  ELSE IF Variant = "fixed" /\ (q.l = q.r \/ q.t = q.b)
  THEN [ok |-> TRUE, off |-> 0, view |-> [w |-> q.r - q.l, h |-> q.b - q.t, stride |-> v.stride, len |-> 0]]
  ELSE LET start == q.t * v.stride + q.l
           end == IF q.b = q.t THEN q.t * v.stride + q.r ELSE (q.b - 1) * v.stride + q.r
           w2 == q.r - q.l  h2 == q.b - q.t
       IN IF start > end \/ end > v.len                        \* &data[start..end] panics
             \/ ~CtorOK(w2, h2, v.stride, end - start)
          THEN [ok |-> FALSE, off |-> 0, view |-> v]
          ELSE [ok |-> TRUE, off |-> start, view |-> [w |-> w2, h |-> h2, stride |-> v.stride, len |-> end - start]]

\* ---------------------------------------------------------------- model
VARIABLES v, ph
vars == <<v, ph>>
Views == {x \in [w : 0..MaxDim, h : 0..MaxDim, stride : 0..(MaxDim + 2), len : 0..(MaxDim * (MaxDim + 2) + MaxDim + 3)] :
            /\ CtorOK(x.w, x.h, x.stride, x.len)
            /\ x.len <= (IF x.h = 0 THEN 0 ELSE (x.h - 1) * x.stride + x.w) + x.stride + 1}      \* bounded surplus
Init == ph = 0 /\ v = [w |-> 0, h |-> 0, stride |-> 0, len |-> 0]
Next == ph = 0 /\ ph' = 1 /\ v' \in Views
Spec == Init /\ [][Next]_vars

Rects == {q \in [l : 0..(MaxDim + 1), t : 0..(MaxDim + 1), r : 0..(MaxDim + 1), b : 0..(MaxDim + 1)] : TRUE}

\* the window lies inside the data
WindowInside == Win(v) \subseteq 0..(v.len - 1)

\* get / index: exactly the window's addresses
IndexRefines ==
  \A x \in 0..(MaxDim + 1), y \in 0..(MaxDim + 1) :
    IF x < v.w /\ y < v.h THEN ToIndexChecked(v, x, y) \in Win(v) /\ ToIndexChecked(v, x, y) = y * v.stride + x
    ELSE ToIndexChecked(v, x, y) = -1

\* rows(): never panics; for w > 0 exactly h rows that are the window's rows; for w = 0 at most h empty rows
RowsRefines ==
  /\ ~RowsPanics(v)
  /\ v.w > 0 => /\ Len(RowsAddrs(v)) = v.h
                /\ \A i \in 1..v.h : \A x \in 1..v.w : RowsAddrs(v)[i][x] = (i - 1) * v.stride + (x - 1)
  /\ v.w = 0 => Len(RowsAddrs(v)) <= v.h

\* fill(): writes exactly the window
FillRefines == FillAddrs(v) = Win(v)

\* slice(): an in-bounds rectangle yields the sub-window (none for an empty one); an out-of-bounds one is rejected;
\* whatever is yielded (also for empty rectangles) is a window inside the parent's window or empty
SliceRefines ==
  \A q \in Rects :
    LET s == Slice(v, q)
        inb == q.l <= q.r /\ q.t <= q.b /\ q.r <= v.w /\ q.b <= v.h
    IN /\ (~inb => ~s.ok)
       /\ (inb => s.ok)                                       \* every in-bounds rectangle, empty ones too
       /\ (inb /\ q.l < q.r /\ q.t < q.b) =>
            /\ s.ok
            /\ {s.off + a : a \in Win(s.view)} = {y * v.stride + x : x \in q.l..(q.r - 1), y \in q.t..(q.b - 1)}
       /\ s.ok => /\ {s.off + a : a \in Win(s.view)} \subseteq Win(v)
                  /\ s.off + s.view.len <= v.len
                  /\ CtorOK(s.view.w, s.view.h, s.view.stride, s.view.len)

Refines == ph = 1 => (WindowInside /\ IndexRefines /\ RowsRefines /\ FillRefines /\ SliceRefines)
=============================================================================
