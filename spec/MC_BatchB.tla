------------------------------ MODULE MC_BatchB ------------------------------
(* Exploration of the batch-builder machine.  Exhaustively (breadth first,  *)
(* histories hidden by the VIEW) over every reachable <<batch, world>> up   *)
(* to MaxOps calls: the laws below; in simulation mode: random long         *)
(* histories, each exported for replay on the real builder (py/c07.py       *)
(* renders every one to a Rust function - the typestate is checked by the   *)
(* compiler, the pictures and statistics by TV_BatchB).                     *)
EXTENDS BatchB, Json

CONSTANTS MaxOps, Export

VARIABLES b, w, hist
vars == <<b, w, hist>>
\* (half of the histories start with the four calls that make render available, and a viewport)
Prefix == <<[op |-> "vertices", i |-> 1], [op |-> "uniform", i |-> 1], [op |-> "shader", i |-> 1], [op |-> "target", i |-> 1],
            [op |-> "viewport", i |-> 2]>>
RECURSIVE After(_, _, _)
After(ops, k, bb) == IF k > Len(ops) THEN bb ELSE After(ops, k + 1, ApplyB(bb, ops[k]))
Init == w = W0 /\ \E p \in {<<>>, Prefix} : hist = p /\ b = After(p, 1, B0)

\* one step: a call, optionally followed at once by a render (so that renders are frequent in simulation)
Step(c, r) ==
  /\ Enabled(b, c)
  /\ LET b1 == ApplyB(b, c)  w1 == ApplyW(b, w, c)  rc == [op |-> "render", i |-> 0] IN
     IF r /\ c.op # "render" /\ Enabled(b1, rc)
     THEN b' = b1 /\ w' = ApplyW(b1, w1, rc) /\ hist' = hist \o <<c, rc>>
     ELSE b' = b1 /\ w' = w1 /\ hist' = Append(hist, c)
Next == Len(hist) < MaxOps /\ \E c \in Calls, r \in BOOLEAN : Step(c, r)
Spec == Init /\ [][Next]_vars
View == <<b, w, Len(hist)>>

Slots(c) == CASE c.op = "faces" -> {"f"} [] c.op = "vertices" -> {"v"} [] c.op = "mesh" -> {"f", "v"}
              [] c.op = "uniform" -> {"u"} [] c.op = "shader" -> {"s"} [] c.op = "viewport" -> {"vp"}
              [] c.op = "target" -> {"t"} [] c.op = "context" -> {"c"} [] OTHER -> {}
SetterCalls == {c \in Calls : c.op # "render"}

Laws ==
  \* setters of different slots commute; the later of two setters of the same slots wins
  /\ \A c1, c2 \in SetterCalls :
       /\ Slots(c1) \cap Slots(c2) = {} => ApplyB(ApplyB(b, c1), c2) = ApplyB(ApplyB(b, c2), c1)
       /\ Slots(c1) = Slots(c2) => ApplyB(ApplyB(b, c1), c2) = ApplyB(b, c2)
  \* what is offered only grows: once render is offered it stays offered (no setter empties a slot)
  /\ Enabled(b, [op |-> "render", i |-> 0]) => \A c \in SetterCalls : Enabled(ApplyB(b, c), [op |-> "render", i |-> 0])
  \* a draw is charged to at most one driver context, and only draws are charged
  /\ w.calls[1] + w.calls[2] <= Len(w.draws[1]) + Len(w.draws[2])
  /\ \A t \in 1..2 : \A k \in 1..Len(w.draws[t]) : LET d == w.draws[t][k] IN d.v # 0 /\ d.u # 0 /\ d.s # 0 /\ MaxIndex(d.f) < NVerts(d.v)

ExportInv == (Export /\ Len(hist) >= MaxOps) => PrintT(<<"REPLAY", ToJson([ops |-> hist, draws |-> w.draws])>>)
=============================================================================
