------------------------------ MODULE TV_Types ------------------------------
(* Trace validation for C10: the compiler's verdict on every program of the *)
(* corpus (env TRACE) must equal the typing relation's.                      *)
EXTENDS Types, Json, IOUtils

Rec == ndJsonDeserialize(IOEnv.TRACE)
Bad == {k \in DOMAIN Rec : ~Allowed(Rec[k])}

ASSUME PrintT(<<"TVSTAT", Len(Rec), Len(Rec)>>)
ASSUME \A k \in Bad : PrintT(<<"BAD", k, Rec[k].k, Rec[k].op, Rec[k].obs, ToJson(Rec[k].args)>>)
ASSUME PrintT(<<"TVDONE", Cardinality(Bad)>>)
=============================================================================
