-------------------------------- MODULE Pnm --------------------------------
(***************************************************************************)
(* C13.  The PNM codec as a relation between byte strings and images.      *)
(*                                                                         *)
(* Bytes are sequences of 0..255.  An image is [w, h, pix] with pix the    *)
(* row-major flat sequence r,g,b,r,g,b,...                                 *)
(*                                                                         *)
(*  Encode(img)        the exact P6 byte string the writer must produce    *)
(*  WellFormed(bs)     bs belongs to the language of the statement: magic  *)
(*                     P2/P3/P5/P6, header fields separated by whitespace  *)
(*                     and whitespace-preceded comments, maxval 255, one   *)
(*                     whitespace byte before binary data, enough data     *)
(*  Decode(bs)         the image a well-formed file denotes                *)
(*  Allowed(e)         the property-level relation on one observed call    *)
(***************************************************************************)
EXTENDS Integers, Sequences, FiniteSets, TLC

\* space, \t, \n, \f, \r   (VT is left unspecified: see Admits)
WS == {9, 10, 12, 13, 32}
Hash == 35
NL == 10
IsDigit(b) == b >= 48 /\ b <= 57

MaxPixels == 4096          \* bound of the "moderate size" images judged exactly

\* ---------------------------------------------------------------- lexing
\* first position >= p that is neither whitespace nor inside a comment
RECURSIVE Skip(_, _, _)
Skip(bs, p, inC) ==
  IF p > Len(bs) THEN p
  ELSE IF inC THEN Skip(bs, p + 1, bs[p] # NL)
  ELSE IF bs[p] = Hash THEN Skip(bs, p + 1, TRUE)
  ELSE IF bs[p] \in WS THEN Skip(bs, p + 1, FALSE)
  ELSE p

\* first position >= p holding whitespace (or Len+1)
RECURSIVE TokEnd(_, _)
TokEnd(bs, p) == IF p > Len(bs) \/ bs[p] \in WS THEN p ELSE TokEnd(bs, p + 1)

\* value of the all-digit token bs[p..q-1]; -1 if empty, non-digit or more than 9 significant digits
RECURSIVE NumVal(_, _, _, _)
NumVal(bs, p, q, acc) ==
  IF p >= q THEN acc
  ELSE IF ~IsDigit(bs[p]) THEN -1
  ELSE NumVal(bs, p + 1, q, acc * 10 + (bs[p] - 48))
\* (leading zeros do not count: "007" and "00000000003" are 7 and 3, "000" is 0)
RECURSIVE StripZeros(_, _, _)
StripZeros(bs, p, q) == IF p < q - 1 /\ bs[p] = 48 THEN StripZeros(bs, p + 1, q) ELSE p
Num(bs, p, q) == IF q <= p THEN -1
                 ELSE LET a == StripZeros(bs, p, q) IN IF q - a > 9 THEN -1 ELSE NumVal(bs, a, q, 0)

\* A field: at least one whitespace byte at p, then whitespace/comments, then
\* an all-digit token terminated by whitespace or end of input.
\* Returns [ok, val, next] with next = position of the terminator.
Field(bs, p) ==
  IF p > Len(bs) \/ bs[p] \notin WS THEN [ok |-> FALSE, val |-> 0, next |-> p]
  ELSE LET a == Skip(bs, p, FALSE)
           b == TokEnd(bs, a)
           v == Num(bs, a, b)
       IN [ok |-> v >= 0, val |-> v, next |-> b]

Magic(bs) == IF Len(bs) >= 2 /\ bs[1] = 80 /\ bs[2] \in {50, 51, 53, 54} THEN bs[2] - 48 ELSE 0

\* the header as the statement's grammar reads it
Header(bs) ==
  LET m == Magic(bs)
      fw == Field(bs, 3)
      fh == Field(bs, fw.next)
      fm == Field(bs, fh.next)
  IN [ok |-> m # 0 /\ fw.ok /\ fh.ok /\ fm.ok, fmt |-> m,
      w |-> fw.val, h |-> fh.val, max |-> fm.val, next |-> fm.next]

\* ---------------------------------------------------------------- data
\* text samples: n whitespace-separated numbers <= 255 starting at p (which
\* must hold whitespace); <<>> of length < n if the data is not of that form
RECURSIVE TextSamples(_, _, _, _)
TextSamples(bs, p, n, acc) ==
  IF n = 0 THEN acc
  ELSE IF p > Len(bs) \/ bs[p] \notin WS THEN acc
  ELSE LET a == Skip(bs, p, FALSE)
           b == TokEnd(bs, a)
           v == Num(bs, a, b)
       IN IF v < 0 \/ v > 255 THEN acc
          ELSE TextSamples(bs, b, n - 1, Append(acc, v))

Triple(g) == [i \in 1..(3 * Len(g)) |-> g[(i + 2) \div 3]]

SmallDims(hd) == hd.w >= 1 /\ hd.h >= 1 /\ hd.w <= MaxPixels /\ hd.h <= MaxPixels
                 /\ hd.w * hd.h <= MaxPixels

\* the data section of a well-formed file, or <<"bad">>
Data(bs, hd) ==
  LET n == hd.w * hd.h
      p == hd.next          \* the single whitespace byte that ends the header
  IN CASE hd.fmt = 6 ->
            IF p <= Len(bs) /\ Len(bs) - p >= 3 * n
            THEN <<"ok", SubSeq(bs, p + 1, p + 3 * n)>> ELSE <<"bad">>
       [] hd.fmt = 5 ->
            IF p <= Len(bs) /\ Len(bs) - p >= n
            THEN <<"ok", Triple(SubSeq(bs, p + 1, p + n))>> ELSE <<"bad">>
       [] hd.fmt = 3 ->
            LET s == TextSamples(bs, p, 3 * n, <<>>) IN
            IF Len(s) = 3 * n THEN <<"ok", s>> ELSE <<"bad">>
       [] hd.fmt = 2 ->
            LET s == TextSamples(bs, p, n, <<>>) IN
            IF Len(s) = n THEN <<"ok", Triple(s)>> ELSE <<"bad">>
       [] OTHER -> <<"bad">>

WellFormed(bs) ==
  LET hd == Header(bs) IN
  hd.ok /\ hd.max = 255 /\ SmallDims(hd) /\ Data(bs, hd)[1] = "ok"

Decode(bs) == LET hd == Header(bs) IN [w |-> hd.w, h |-> hd.h, pix |-> Data(bs, hd)[2]]

\* A well-formed header whose data is binary and too short: the decoder
\* cannot return an image with the promised pixel count, so it must fail.
Truncated(bs) ==
  LET hd == Header(bs) IN
  /\ hd.ok /\ hd.max = 255 /\ SmallDims(hd) /\ hd.fmt \in {5, 6}
  /\ Data(bs, hd)[1] = "bad"

\* ---------------------------------------------------------------- writer
RECURSIVE Dec(_)
Dec(n) == IF n < 10 THEN <<48 + n>> ELSE Dec(n \div 10) \o <<48 + (n % 10)>>

Encode(w, h, pix) ==
  <<80, 54, 32>> \o Dec(w) \o <<32>> \o Dec(h) \o <<32, 50, 53, 53, 10>> \o pix

\* ---------------------------------------------------------------- relation
\* e.res = <<"ok", w, h, npix, pix>> | <<"err", name>> | <<"panic", 0>>
\* (pix is logged only when npix <= MaxPixels, else <<>>)
ParseAllowed(bs, res) ==
  /\ res[1] # "panic"                                   \* total
  /\ res[1] = "ok" => res[4] = res[2] * res[3]          \* count = product of dims
  /\ LET hd == Header(bs) IN
       (res[1] = "ok" /\ hd.ok) => (res[2] = hd.w /\ res[3] = hd.h)
  /\ WellFormed(bs) =>
       LET img == Decode(bs) IN
       res[1] = "ok" /\ res[2] = img.w /\ res[3] = img.h /\ res[5] = img.pix
  /\ Truncated(bs) => res[1] = "err"
  \* larger binary images (up to 2^20 pixels, beyond the size judged pixel by pixel) with all their data
  \* present decode to an image of the stated dimensions
  /\ LET hd == Header(bs)  per == IF hd.fmt = 6 THEN 3 ELSE 1 IN
     (hd.ok /\ hd.max = 255 /\ hd.fmt \in {5, 6} /\ hd.w >= 1 /\ hd.h >= 1 /\ hd.w <= 1048576 /\ hd.h <= 1048576 \div hd.w
        /\ hd.next <= Len(bs) /\ Len(bs) - hd.next >= per * hd.w * hd.h)
       => (res[1] = "ok" /\ res[2] = hd.w /\ res[3] = hd.h)

Allowed(e) ==
  CASE e.op = "parse" -> ParseAllowed(e.bytes, e.res)
    [] e.op = "rt" ->
         \* write a view (pixels e.pix as read cell by cell; borrowed immutably, mutably or as a slice of a slice: e.vk) and read it back
         /\ e.wres = "ok"
         /\ e.bytes = Encode(e.w, e.h, e.pix)
         /\ ParseAllowed(e.bytes, e.res)
         \* (an image without rows is an image too; one without columns cannot have rows)
         /\ (e.w >= 1 /\ e.h >= 0) =>
              (e.res[1] = "ok" /\ e.res[2] = e.w /\ e.res[3] = e.h /\ e.res[5] = e.pix)
    [] e.op = "pair" ->
         \* the same samples as text (e.rt) and as binary (e.rb) under a header with maxval e.max: the same
         \* image - or, where the samples do not fit the header, the same refusal
         /\ e.rt[1] # "panic" /\ e.rb[1] # "panic"
         /\ (e.rt[1] = "ok" /\ e.rb[1] = "ok" /\ e.rt = e.rb) \/ (e.rt[1] = "err" /\ e.rb[1] = "err")
    [] OTHER -> FALSE
=============================================================================
