-------------------------------- MODULE Rect --------------------------------
(***************************************************************************)
(* Growth beyond the listed properties (anchored next to C11/C08):         *)
(* util::rect::Rect as a set of lattice points.                            *)
(*                                                                         *)
(* A rect is [l, t, r, b]; each side is an integer or NoneV (unbounded).   *)
(* Start sides are inclusive, end sides exclusive.  Its meaning is the set *)
(* Pts(r) of points it contains; every operation is specified through that *)
(* set, never through the arithmetic the code uses:                        *)
(*   contains(x, y)   <=>  <<x, y>> \in Pts                                *)
(*   is_empty         <=>  Pts = {}                                        *)
(*   width / height    =   size of the horizontal / vertical extent        *)
(*   intersect(a, b)   :   Pts(res) = Pts(a) \cap Pts(b)                   *)
(*   From<(H, V)>      :   Pts(res) = H \X V  for every range form         *)
(* U is a universe strictly larger than every bound that occurs, so that   *)
(* "unbounded" and "bounded far away" are distinguishable.                 *)
(***************************************************************************)
EXTENDS Integers, FiniteSets, TLC

NoneV == -99
U == (-5)..7

InExt(lo, hi, x) == (lo = NoneV \/ x >= lo) /\ (hi = NoneV \/ x < hi)
In(r, x, y) == InExt(r[1], r[3], x) /\ InExt(r[2], r[4], y)
Pts(r) == {p \in U \X U : In(r, p[1], p[2])}
Ext(lo, hi) == {x \in U : InExt(lo, hi, x)}

\* range forms of core::ops: "rg" a..b  "ri" a..=b  "to" ..b  "toi" ..=b  "from" a..  "full" ..
\* and pairs of explicit bounds with an excluded start: "ex" (Excluded a, Excluded b)  "exi" (Excluded a, Included b)
InForm(f, a, b, x) ==
  CASE f = "rg" -> x >= a /\ x < b
    [] f = "ri" -> x >= a /\ x <= b
    [] f = "to" -> x < b
    [] f = "toi" -> x <= b
    [] f = "from" -> x >= a
    [] f = "ex" -> x > a /\ x < b
    [] f = "exi" -> x > a /\ x <= b
    [] OTHER -> TRUE
HasLo(f) == f \in {"rg", "ri", "from", "ex", "exi"}
HasHi(f) == f \in {"rg", "ri", "to", "toi", "ex", "exi"}

\* e.a, e.b, e.res (rects) are sequences <<l, t, r, b>>
Allowed(e) ==
  /\ e.panic = 0
  /\ CASE e.op = "contains" -> (e.res = 1) <=> In(e.a, e.x, e.y)
       [] e.op = "is_empty" -> (e.res = 1) <=> (Pts(e.a) = {})
       [] e.op = "width" ->
            IF e.a[1] = NoneV \/ e.a[3] = NoneV THEN e.res = NoneV
            ELSE e.res = Cardinality(Ext(e.a[1], e.a[3]))
       [] e.op = "height" ->
            IF e.a[2] = NoneV \/ e.a[4] = NoneV THEN e.res = NoneV
            ELSE e.res = Cardinality(Ext(e.a[2], e.a[4]))
       [] e.op = "intersect" ->
            /\ Pts(e.res) = Pts(e.a) \cap Pts(e.b)
            \* a side is unbounded exactly if it is unbounded in both operands
            /\ \A i \in 1..4 : (e.res[i] = NoneV) <=> (e.a[i] = NoneV /\ e.b[i] = NoneV)
       [] e.op = "from_pair" ->
            /\ \A x \in U, y \in U : (x >= 0 /\ y >= 0) =>
                 (In(e.res, x, y) <=> (InForm(e.hf, e.ha, e.hb, x) /\ InForm(e.vf, e.va, e.vb, y)))
            /\ (e.res[1] # NoneV) <=> HasLo(e.hf)
            /\ (e.res[3] # NoneV) <=> HasHi(e.hf)
            /\ (e.res[2] # NoneV) <=> HasLo(e.vf)
            /\ (e.res[4] # NoneV) <=> HasHi(e.vf)
       [] e.op = "from_vec" -> e.res = e.a
       [] e.op = "full" -> e.res = <<NoneV, NoneV, NoneV, NoneV>>
       [] OTHER -> FALSE

\* ---------------------------------------------------------------- closed forms
\* (what an implementation would compute; MC_Rect shows they satisfy the relation)
MaxO(a, b) == IF a = NoneV THEN b ELSE IF b = NoneV THEN a ELSE IF a >= b THEN a ELSE b
MinO(a, b) == IF a = NoneV THEN b ELSE IF b = NoneV THEN a ELSE IF a <= b THEN a ELSE b
Meet(a, b) == <<MaxO(a[1], b[1]), MaxO(a[2], b[2]), MinO(a[3], b[3]), MinO(a[4], b[4])>>
EmptyCF(r) == (r[1] # NoneV /\ r[3] # NoneV /\ r[1] >= r[3]) \/ (r[2] # NoneV /\ r[4] # NoneV /\ r[2] >= r[4])
=============================================================================
