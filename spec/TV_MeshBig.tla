----------------------------- MODULE TV_MeshBig -----------------------------
(* Trace validation for C15, very large segment counts: every recorded       *)
(* summary (env TRACE) must satisfy Mesh!BigAllowed.                         *)
EXTENDS Mesh, Json, IOUtils

Rec == ndJsonDeserialize(IOEnv.TRACE)
Bad == {k \in DOMAIN Rec : ~BigAllowed(Rec[k])}

ASSUME PrintT(<<"TVSTAT", Len(Rec), Len(Rec)>>)
ASSUME \A k \in Bad : PrintT(<<"BAD", k, Rec[k].k, ToJson(Rec[k])>>)
ASSUME PrintT(<<"TVDONE", Cardinality(Bad)>>)
=============================================================================
