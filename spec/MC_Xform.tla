------------------------------ MODULE MC_Xform ------------------------------
(***************************************************************************)
(* The transform monoid explored by TLC: Init = identity, Next = compose   *)
(* with a generator on either side, to depth MaxDepth.  Checked on the     *)
(* specification: composition acts as "first ... then" on probe points,    *)
(* determinants multiply along the path, det * M^-1 = adj, rotations are   *)
(* orthogonal with determinant 1 (k^2 for the scaled Pythagorean ones),    *)
(* every generator has its defining effect.  Every path is exported for    *)
(* replay on the real code.                                                *)
(***************************************************************************)
EXTENDS Xform, Json

CONSTANTS MaxDepth, Export

VARIABLES path, M
vars == <<path, M>>
Init == path = <<>> /\ M = Id
Next == /\ Len(path) < MaxDepth
        /\ \E g \in 1..NGen, s \in {"L", "R"} :
             /\ path' = Append(path, <<g, s>>)
             /\ M' = IF s = "L" THEN Mul(Gens[g], M) ELSE Mul(M, Gens[g])
Spec == Init /\ [][Next]_vars

DetOf(g) == Det3(Gens[g])
RECURSIVE PathDet(_, _)
PathDet(p, i) == IF i > Len(p) THEN 1 ELSE DetOf(p[i][1]) * PathDet(p, i + 1)

Laws ==
  /\ M = PathMat(path)
  \* applying the composition = applying the parts in order (on the probe points)
  /\ \A g \in 1..NGen, k \in 1..Len(Probes) :
       /\ ApplyPt(Mul(Gens[g], M), Probes[k]) = ApplyPt(Gens[g], ApplyPt(M, Probes[k]))
       /\ ApplyPt(Mul(M, Gens[g]), Probes[k]) = ApplyPt(M, ApplyPt(Gens[g], Probes[k]))
  \* determinant multiplicative; inverse
  /\ Len(path) <= 2 =>
       /\ Det3(M) = PathDet(path, 1)
       \* det * M^-1 = InvNum(M) (its implicit last row is 0 0 0 det): M * InvNum = InvNum * M = det * I
       /\ LET V == InvNum(M)  d == Det3(M) IN
          \A i \in 1..3 :
            /\ \A j \in 1..3 : /\ M[i][1] * V[1][j] + M[i][2] * V[2][j] + M[i][3] * V[3][j] = (IF i = j THEN d ELSE 0)
                               /\ V[i][1] * M[1][j] + V[i][2] * M[2][j] + V[i][3] * M[3][j] = (IF i = j THEN d ELSE 0)
            /\ M[i][1] * V[1][4] + M[i][2] * V[2][4] + M[i][3] * V[3][4] + d * M[i][4] = 0
            /\ V[i][1] * M[1][4] + V[i][2] * M[2][4] + V[i][3] * M[3][4] + V[i][4] = 0

GenLaws ==
  \* defining effects
  /\ ApplyPt(Gens[1], <<0, 0, 0>>) = <<1, -2, 3>> /\ ApplyLin(Gens[1], <<5, 6, 7>>) = <<5, 6, 7>>
  /\ ApplyPt(Gens[3], <<1, 1, 1>>) = <<2, -1, 3>>
  /\ ApplyLin(Gens[7], <<0, 1, 0>>) = <<1, 0, 0>> /\ ApplyLin(Gens[5], <<0, 0, 1>>) = <<0, 1, 0>>
  /\ ApplyLin(Gens[6], <<1, 0, 0>>) = <<0, 0, 1>>
  /\ ApplyLin(Gens[12], <<0, 1, 0>>) = <<1, 1, 0>>
  /\ ApplyLin(Gens[13], <<0, 1, 0>>) = <<3, 4, 0>> /\ ApplyLin(Gens[14], <<0, 0, 1>>) = <<0, 3, 4>>
  \* rotations (times k): R R^T = k^2 I, det = k^3, orientation kept
  \* the oblique orientations: derived axis parallel to (and along) the cross product, images of the axes
  /\ \E l \in 1..100 : Cross(<<1, 0, 0>>, <<3, 4, 0>>) = <<0, 0, l>>
  /\ \E l \in 1..100 : Cross(<<0, 3, 4>>, <<0, 1, 0>>) = <<-l, 0, 0>>
  /\ ApplyLin(Gens[15], <<0, 1, 0>>) = <<3, 4, 0>> /\ ApplyLin(Gens[16], <<0, 0, 1>>) = <<0, 3, 4>>
  /\ \A gk \in {<<5, 1>>, <<6, 1>>, <<7, 1>>, <<8, 1>>, <<9, 5>>, <<10, 13>>, <<11, 5>>, <<13, 5>>, <<14, 5>>, <<15, 5>>, <<16, 5>>} :
       LET R == Gens[gk[1]] k == gk[2] IN
       /\ Det3(R) = k * k * k
       /\ \A i \in 1..3, j \in 1..3 :
            R[i][1] * R[j][1] + R[i][2] * R[j][2] + R[i][3] * R[j][3] = (IF i = j THEN k * k ELSE 0)

ExportInv == (Export /\ Len(path) > 0) => PrintT(<<"REPLAY", ToJson(path)>>)
=============================================================================
