-------------------------------- MODULE Float --------------------------------
(***************************************************************************)
(* C20.  The float helper backends.  Exact functions (floor, abs,          *)
(* rem_euclid) are specified over exactly decoded f32 values (F32.tla);    *)
(* the approximate functions are specified relative to the standard        *)
(* library, as the statement does, with one bound per backend and          *)
(* function.                                                               *)
(***************************************************************************)
EXTENDS F32, Integers, Sequences, FiniteSets, TLC

AbsI(x) == IF x < 0 THEN -x ELSE x

\* value equality of two decoded finite floats (normalised or not; +0 = -0)
SameValue(a, b) ==
  \/ (IsZero(a) /\ IsZero(b))
  \/ (Cls(a) = 1 /\ Cls(b) = 1 /\ Sgn(a) = Sgn(b) /\
      LET e == IF Exp(a) < Exp(b) THEN Exp(a) ELSE Exp(b)
          da == Exp(a) - e  db == Exp(b) - e
      IN da <= 7 /\ db <= 7 /\ Man(a) * Pow2(da) = Man(b) * Pow2(db))

\* y = floor(x) for finite x
FloorOK(x, y) ==
  IF ~IsFin(x) THEN TRUE                                   \* not in the representable range
  ELSE IF Below31(x) THEN IsFin(y) /\ Below31(y) /\ IsInteger(y) /\ Floor(y) = Floor(x)
  ELSE SameValue(x, y)                                     \* |x| >= 2^31: already an integer

AbsOK(x, y) ==
  IF IsNaN(x) THEN IsNaN(y)
  ELSE Cls(y) = Cls(x) /\ Sgn(y) = 0 /\ Man(y) = Man(x) /\ Exp(y) = Exp(x)

\* ---------------------------------------------------------------- bounds
\* scaled values: 2^20.  abs bound a (scaled), relative bound 1/r (0 = none)
Bound(be, f) ==
  CASE be = "std"  -> [ulp |-> 0, abs |-> 0, rel |-> 0]
    [] be = "libm" -> [ulp |-> 4, abs |-> 0, rel |-> 0]
    [] be = "fallback" /\ f = "recip_sqrt" -> [ulp |-> -1, abs |-> 8, rel |-> 200]        \* 5e-3
    [] be = "mm" /\ f \in {"sin", "cos"}   -> [ulp |-> -1, abs |-> 1573, rel |-> 0]       \* 1.5e-3 (measured: 1.09e-3)
    [] be = "mm" /\ f \in {"sqrt", "recip_sqrt"} -> [ulp |-> -1, abs |-> 8, rel |-> 200]  \* 5e-3
    [] be = "mm" /\ f = "tan"              -> [ulp |-> -1, abs |-> 3146, rel |-> 33]      \* 3e-2
    [] be = "mm" /\ f \in {"asin", "acos"} -> [ulp |-> -1, abs |-> 52429, rel |-> 0]      \* 5e-2
    [] be = "mm" /\ f = "atan2"            -> [ulp |-> -1, abs |-> 10486, rel |-> 0]      \* 1e-2
    [] be = "mm" /\ f = "powf"             -> [ulp |-> -1, abs |-> 1049, rel |-> 2]       \* 5e-1 (see DESIGN)
    [] OTHER -> [ulp |-> -1, abs |-> 0, rel |-> 0]

Agree(b, e) ==
  \* outside the function's domain (std answers NaN) an approximation may answer anything;
  \* inside it, it must answer a number
  IF IsNaN(e.ystd) THEN IsNaN(e.y) \/ b.ulp = -1
  ELSE IF IsNaN(e.y) THEN FALSE
  ELSE IF IsInf(e.y) # IsInf(e.ystd) THEN FALSE            \* a finite answer where std overflows, or the reverse
  \* beyond the range of the 2^20 scaling (|value| > ~1900): compare the bit patterns (ordered keys;
  \* one binade = 2^23 keys), i.e. a relative bound
  ELSE IF b.ulp < 0 /\ AbsI(e.sstd) >= 1900000000
       THEN AbsI(e.ky - e.kstd) <= (IF b.rel = 0 THEN 200000 ELSE 33554432 \div b.rel)
  ELSE IF b.ulp >= 0 THEN AbsI(e.ky - e.kstd) <= b.ulp
  ELSE AbsI(e.sy - e.sstd) <= b.abs + (IF b.rel = 0 THEN 0 ELSE AbsI(e.sstd) \div b.rel)

\* ---------------------------------------------------------------- relation
\* e.op = "f1": one-argument call; e.which = "sel" (the crate-selected backend e.be) or "fallback"
\* (with libm AND mm switched on, libm is the backend)
Backend(e) == IF e.which = "fallback" THEN "fallback" ELSE IF e.be = "none" THEN "fallback"
              ELSE IF e.be = "libm+mm" THEN "libm" ELSE e.be

Allowed(e) ==
  CASE e.op = "f1" ->
         LET be == Backend(e) IN
         IF e.fn = "floor" THEN (e.panic = 0 \/ ~IsFin(e.x)) /\ (e.panic = 1 \/ FloorOK(e.x, e.y))
         ELSE IF e.fn = "abs" THEN e.panic = 0 /\ AbsOK(e.x, e.y)
         ELSE e.panic = 0 /\ Agree(Bound(be, e.fn), e)
    [] e.op = "rem" ->
         \* 0 <= r <= m and (x - r) / m an integer up to rounding
         /\ e.panic = 0
         /\ e.k0 <= e.kr /\ e.kr <= e.km
         /\ e.resid <= 16 + (e.kabs \div 4)
    [] OTHER -> TRUE       \* consumer records are compared across backends by TV_FloatCons
=============================================================================
