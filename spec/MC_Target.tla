----------------------------- MODULE MC_Target -----------------------------
(***************************************************************************)
(* Small-scope exploration of the Target state machine.                    *)
(*                                                                         *)
(* Scenes: NT triangles over NP pixels; triangle t covers a subset of the  *)
(* pixels (chosen in Init: all coverage patterns) with fixed, per-pixel    *)
(* distinct depths D[t][p] that interpenetrate (the nearest triangle       *)
(* differs from pixel to pixel).                                           *)
(*                                                                         *)
(* Histories: every sequence of render calls that submits each triangle    *)
(* once - every partition into calls, every order inside a call, every     *)
(* sort setting (a sorted call may process its batch in ANY order: the     *)
(* specification does not know the sort key).                              *)
(*                                                                         *)
(*  Confluence   with test=Less, depth and colour writes on, the final     *)
(*               planes are the per-pixel nearest fragments, whatever the  *)
(*               history (C06, first sentence); also under a fragment      *)
(*               shader that discards at any subset of the pixels          *)
(*  Painter      test off + back-to-front over disjoint depth ranges gives *)
(*               the depth-buffered colours (C06, second sentence)         *)
(*  Flags        masks, test-off, discard, culling, counters (C07)         *)
(***************************************************************************)
EXTENDS Target

CONSTANTS NT, NP

Tris == 1..NT
Pix == 1..NP
\* depth of triangle t at pixel p: distinct per pixel, order varies with p
D(t, p) == 10 * (((t + p) % NT) + 1) + t

C0 == 7
Z0 == 5

VARIABLES sc, s, remaining, mode
vars == <<sc, s, remaining, mode>>

Perms(S) == {q \in [1..Cardinality(S) -> S] : \A i, j \in 1..Cardinality(S) : i # j => q[i] # q[j]}

MkScene(cov, face, dp) ==
  [np |-> NP,
   fp |-> [t \in Tris |-> [p \in Pix |-> IF cov[t][p] = 1 THEN D(t, p) ELSE -1]],
   col |-> [t \in Tris |-> 100 + t],
   nfr |-> [t \in Tris |-> Cardinality({p \in Pix : cov[t][p] = 1})],
   npc |-> [t \in Tris |-> 1 + (t % 2)],
   ndeg |-> [t \in Tris |-> 0],
   face |-> face,
   far |-> [t \in Tris |->
              LET S == {D(t, p) : p \in {q \in Pix : cov[t][q] = 1}} IN
              IF S = {} THEN <<0, 0>>
              ELSE <<-(CHOOSE x \in S : \A y \in S : x >= y), -(CHOOSE x \in S : \A y \in S : x <= y)>>],
   dpix |-> dp]

\* the shader discards at sc.dpix (all-zero dpix = an opaque shader)
ConflCtx == [cull |-> 0, sort |-> 0, test |-> 1, cw |-> 1, dw |-> 1, disc |-> 1, kind |-> "fb"]
S0 == [c |-> [p \in Pix |-> C0], z |-> [p \in Pix |-> Z0], st |-> <<0, 0, 0, 0, 0, 0, 0>>]

Init ==
  /\ \E cov \in [Tris -> [Pix -> {0, 1}]], dp \in [Pix -> {0, 1}] :
       sc = MkScene(cov, [t \in Tris |-> 0], dp)
  /\ s = S0
  /\ remaining = Tris
  /\ mode = "confluence"

\* one render call: a non-empty batch of the remaining triangles, in any
\* submission order, under any sort setting
Next ==
  /\ remaining # {}
  /\ \E B \in (SUBSET remaining) \ {{}} : \E q \in Perms(B), srt \in {0, 1, 2} :
       \* a sorted call may process the batch in any order
       \E proc \in (IF srt = 0 THEN {q} ELSE Perms(B)) :
         /\ s' = Render(sc, s, [ConflCtx EXCEPT !.sort = srt], proc, 3 * Cardinality(B))
         /\ remaining' = remaining \ B
  /\ UNCHANGED <<sc, mode>>

Spec == Init /\ [][Next]_vars

Confluence ==
  remaining = {} =>
    \A p \in Pix : <<s.c[p], s.z[p]>> = NearestD(sc, ConflCtx, C0, Z0, Tris, p)

CountersExact ==
  remaining = {} =>
    /\ s.st[2] = NT /\ s.st[4] = 3 * NT
    /\ s.st[3] = SeqSum(sc.npc, [t \in Tris |-> t]) /\ s.st[5] = 3 * s.st[3]
    /\ s.st[6] = SeqSum(sc.nfr, [t \in Tris |-> t])

\* ---------------------------------------------------------------- flags (C07) and painter
\* evaluated on every scene x every context x every order of one call
AllCtx == [cull : {0, 1, 2}, sort : {0}, test : {0, 1, 2, 3}, cw : {0, 1}, dw : {0, 1},
           disc : {0, 1}, kind : {"fb", "col"}]

InitFlags ==
  /\ \E cov \in [Tris -> [Pix -> {0, 1}]], face \in [Tris -> {0, 1}], dp \in [Pix -> {0, 1}] :
       sc = MkScene(cov, face, dp)
  /\ s = S0
  /\ remaining = Tris
  /\ mode = "flags"
SpecFlags == InitFlags /\ [][UNCHANGED vars]_vars

One(ctx, q) == Render(sc, S0, ctx, q, 3 * NT)

FlagsOK ==
  \A q \in Perms(Tris) : \A ctx \in AllCtx :
    LET r == One(ctx, q) IN
    \* colour writes off: colour plane untouched, depth evolves as with colour writes on
    /\ ctx.cw = 0 => /\ r.c = S0.c /\ r.st[7] = 0
                     /\ r.z = One([ctx EXCEPT !.cw = 1], q).z
    \* depth writes off (or colour-only target): depth plane untouched
    /\ (ctx.dw = 0 \/ ctx.kind = "col") => r.z = S0.z
    \* depth test off: every non-discarded fragment of a drawn triangle is written,
    \* so the pixel shows the last such triangle of the order
    /\ (ctx.test = 0 /\ ctx.cw = 1) =>
         \A p \in Pix :
           LET hit == {i \in 1..NT : sc.fp[q[i]][p] # -1 /\ Drawn(sc, ctx, q[i]) /\ ~Discarded(sc, ctx, p)}
           IN IF hit = {} THEN r.c[p] = C0
              ELSE r.c[p] = sc.col[q[CHOOSE i \in hit : \A j \in hit : j <= i]]
    \* a discarding shader writes nothing at the discarded pixels
    /\ \A p \in Pix : Discarded(sc, ctx, p) => (r.c[p] = C0 /\ r.z[p] = Z0)
    \* culling: each triangle is drawn under exactly one of Back / Front, and under None
    /\ \A t \in Tris : /\ Drawn(sc, [ctx EXCEPT !.cull = 0], t)
                       /\ Drawn(sc, [ctx EXCEPT !.cull = 1], t) # Drawn(sc, [ctx EXCEPT !.cull = 2], t)
    \* counters
    /\ r.st[1] = 1 /\ r.st[2] = NT /\ r.st[4] = 3 * NT /\ r.st[5] = 3 * r.st[3]
    /\ r.st[3] = SeqSum(sc.npc, SelectSeq(q, LAMBDA t : Drawn(sc, ctx, t)))
    /\ r.st[7] <= r.st[6]

PainterOK ==
  Disjoint(sc, Tris) =>
    \A q \in Perms(Tris) :
      LET zb == Render(sc, S0, ConflCtx, q, 3 * NT)
          pa == Render(sc, S0, [ConflCtx EXCEPT !.test = 0, !.sort = 2],
                       SortedOrd(sc, [ConflCtx EXCEPT !.sort = 2], q), 3 * NT)
      IN pa.c = zb.c
=============================================================================
