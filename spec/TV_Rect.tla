------------------------------ MODULE TV_Rect ------------------------------
(* Trace validation of util::rect::Rect (growth beyond the listed          *)
(* properties; rejections are reported as notes, see py/c11.py).           *)
EXTENDS Rect, Json, IOUtils, Sequences

Rec == ndJsonDeserialize(IOEnv.TRACE)
Bad == {k \in DOMAIN Rec : ~Allowed(Rec[k])}

ASSUME PrintT(<<"TVSTAT", Len(Rec), Len(Rec)>>)
ASSUME \A k \in Bad : PrintT(<<"BAD", k, Rec[k].k, Rec[k].op, ToJson(Rec[k].a), ToJson(Rec[k].res)>>)
ASSUME PrintT(<<"TVDONE", Cardinality(Bad)>>)
=============================================================================
