------------------------------ MODULE MC_Vary ------------------------------
(* The stepping iterator as a TLC state machine: bounded iterators stop     *)
(* after exactly `max` items, unbounded ones never stop, and the k-th item  *)
(* is val0 + k * step.                                                      *)
EXTENDS Vary

VARIABLES s, k, v0, m0
vars == <<s, k, v0, m0>>
Init == /\ v0 \in (-3)..3 /\ m0 \in {-1, 0, 1, 2, 5}
        /\ \E st \in (-2)..2 : s = [val |-> v0, step |-> st, left |-> m0]
        /\ k = 0
Next == CanEmit(s) /\ k < 8 /\ s' = Emit(s) /\ k' = k + 1 /\ UNCHANGED <<v0, m0>>
Spec == Init /\ [][Next]_vars

Laws == /\ s.val = v0 + k * s.step
        /\ m0 >= 0 => (k <= m0 /\ s.left = m0 - k /\ (CanEmit(s) <=> k < m0))
        /\ m0 = -1 => (CanEmit(s) /\ s.left = -1)
        /\ Drain([val |-> v0, step |-> s.step, left |-> m0], 8) =
             [i \in 1..(IF m0 = -1 \/ m0 > 8 THEN 8 ELSE m0) |-> v0 + (i - 1) * s.step]
=============================================================================
