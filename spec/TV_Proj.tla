------------------------------ MODULE TV_Proj ------------------------------
(* Trace validation for C08: every recorded observation (env TRACE) must    *)
(* satisfy Proj!Allowed.                                                    *)
EXTENDS Proj, Json, IOUtils

Rec == ndJsonDeserialize(IOEnv.TRACE)
Bad == {k \in DOMAIN Rec : ~Allowed(Rec[k])}

ASSUME PrintT(<<"TVSTAT", Len(Rec), Len(Rec)>>)
ASSUME \A k \in Bad : PrintT(<<"BAD", k, Rec[k].k, Rec[k].op, ToJson(Rec[k])>>)
ASSUME PrintT(<<"TVDONE", Cardinality(Bad)>>)
=============================================================================
