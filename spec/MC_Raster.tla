----------------------------- MODULE MC_Raster -----------------------------
(***************************************************************************)
(* Consistency of the Raster relation itself, checked by TLC for every     *)
(* choice of four points on the half-pixel lattice of a GxG pixel grid:    *)
(*                                                                         *)
(*  OrderFree   MustCover / MustNotCover do not depend on the vertex order *)
(*  SharedEdge  two triangles on opposite sides of a shared edge never     *)
(*              both claim a pixel (no double draw outside the band)       *)
(*  Partition   a triangle cut through a vertex and a lattice point of the *)
(*              opposite edge: every pixel the whole must cover is covered *)
(*              by a part or lies in the band of the cut (no gap), and the *)
(*              parts claim nothing outside the whole                      *)
(*  InterpLaws  (SpecI) the interpolation plane reproduces vertex values   *)
(*              at vertices, and stays within the vertex values' range     *)
(***************************************************************************)
EXTENDS Raster

CONSTANT G

S == 1
Pts == (0..(2 * G)) \X (0..(2 * G))
Pix == (0..(G - 1)) \X (0..(G - 1))

VARIABLES a, b, c, d, ph
vars == <<a, b, c, d, ph>>

\* two phases so that TLC's workers share the enumeration: a first, then b, c, d
Init == a \in Pts /\ b = a /\ c = a /\ d = a /\ ph = 0
Next == /\ ph = 0 /\ ph' = 1 /\ a' = a
        /\ b' \in Pts /\ c' \in Pts /\ d' \in Pts
Spec == Init /\ [][Next]_vars

T(x, y, z) == <<x, y, z>>
Must(v) == {p \in Pix : MustCover(S, v, p[1], p[2])}
MustNot(v) == {p \in Pix : MustNotCover(S, v, p[1], p[2])}

OrderFree ==
  LET m == Must(T(a, b, c))  n == MustNot(T(a, b, c)) IN
  \A v \in {T(a, c, b), T(b, a, c), T(b, c, a), T(c, a, b), T(c, b, a)} : Must(v) = m /\ MustNot(v) = n

Opposite == Sign(Edge(a, c, b)) * Sign(Edge(a, c, d)) = -1
SharedEdge == Opposite => Must(T(a, b, c)) \cap Must(T(a, c, d)) = {}

OnOpenSeg(p, q, m) ==
  /\ Edge(p, q, m) = 0 /\ m # p /\ m # q
  /\ (m[1] - p[1]) * (m[1] - q[1]) <= 0 /\ (m[2] - p[2]) * (m[2] - q[2]) <= 0
Partition ==
  (Area2(T(a, b, c)) # 0 /\ OnOpenSeg(b, c, d)) =>
    LET whole == Must(T(a, b, c))  p1 == Must(T(a, b, d))  p2 == Must(T(a, d, c)) IN
    /\ \A p \in whole : p \in p1 \/ p \in p2 \/ NearEdge(S, a, d, Centre(S, p[1], p[2]))
    /\ p1 \cap p2 = {}
    /\ \A p \in p1 \cup p2 : ~MustNotCover(S, T(a, b, c), p[1], p[2])

\* ---------------------------------------------------------------- interpolation
\* d encodes a choice of reciprocal depths and attributes
ZChoice == <<20, 10, 5, 4, 2>>
InitI == a \in Pts /\ b = a /\ c = a /\ d = <<1, 1>> /\ ph = 0
NextI == /\ ph = 0 /\ ph' = 1 /\ a' = a
         /\ b' \in Pts /\ c' \in Pts /\ d' \in (1..5) \X (1..5)
SpecI == InitI /\ [][NextI]_vars

InterpLaws ==
  LET v == T(a, b, c)
      Z == <<ZChoice[d[1]], ZChoice[d[2]], ZChoice[((d[1] + d[2]) % 5) + 1]>>
      A == <<3 * d[1], 7, 2 * d[2] + 1>>
      o == Sign(Area2(v))
  IN Area2(v) # 0 =>
     \A p \in Pix :
       LET q == Centre(S, p[1], p[2])
           E1 == o * Edge(v[2], v[3], q)  E2 == o * Edge(v[3], v[1], q)  E3 == o * Edge(v[1], v[2], q)
           E == E1 + E2 + E3
           DZ == E1 * Z[1] + E2 * Z[2] + E3 * Z[3]
           N == E1 * A[1] * Z[1] + E2 * A[2] * Z[2] + E3 * A[3] * Z[3]
       IN /\ E = o * Area2(v)                                     \* barycentrics sum to one
          /\ (q = v[1]) => (E1 = E /\ DZ = E * Z[1] /\ N = A[1] * DZ)      \* vertex values reproduced
          /\ (q = v[2]) => (E2 = E /\ DZ = E * Z[2] /\ N = A[2] * DZ)
          /\ (q = v[3]) => (E3 = E /\ DZ = E * Z[3] /\ N = A[3] * DZ)
          /\ (E1 >= 0 /\ E2 >= 0 /\ E3 >= 0) =>                  \* inside: within the vertex range
               /\ DZ >= E * MinOf({Z[1], Z[2], Z[3]}) /\ DZ <= E * MaxOf({Z[1], Z[2], Z[3]})
               /\ N >= DZ * MinOf({A[1], A[2], A[3]}) /\ N <= DZ * MaxOf({A[1], A[2], A[3]})
=============================================================================
