------------------------------ MODULE TV_Safe ------------------------------
(* Trace validation for C02: every recorded render call (env TRACE) must   *)
(* satisfy Pipeline!SafeAllowed.                                           *)
EXTENDS Pipeline, Json, IOUtils

Rec == ndJsonDeserialize(IOEnv.TRACE)
Bad == {k \in DOMAIN Rec : ~SafeAllowed(Rec[k])}
NDrawn == Cardinality({k \in DOMAIN Rec : Rec[k].sbox[1] > 0})

ASSUME PrintT(<<"TVSTAT", Len(Rec), Len(Rec), NDrawn>>)
ASSUME \A k \in Bad : PrintT(<<"BAD", k, Rec[k].k, Rec[k].panic, Rec[k].nan, ToJson(Rec[k].vp), ToJson(Rec[k].sbox), ToJson(Rec[k].tbox)>>)
ASSUME PrintT(<<"TVDONE", Cardinality(Bad)>>)
=============================================================================
