------------------------------ MODULE TV_Stats ------------------------------
(* Trace validation of render::stats (growth beyond the listed properties; *)
(* rejections are reported as notes, see py/c07.py).  One record = one      *)
(* history of += steps and derived views, folded through Stats!Add.         *)
EXTENDS Stats, Json, IOUtils, SequencesExt, FiniteSets

Rec == ndJsonDeserialize(IOEnv.TRACE)

\* acc = [s, bad]: bad = index of the first rejected event (0 = none), tag of its op
Step(acc, e) ==
  IF acc.bad # 0 THEN acc
  ELSE LET s2 == IF e.op = "add" THEN Add(acc.s, e.d) ELSE acc.s
           ok == CASE e.op = "add" -> e.panic = 0 /\ SameState(s2, e.st)
                   [] e.op = "per_frame" -> e.panic = 0 /\ PerFrameOK(acc.s, e.res)
                   [] e.op = "per_sec" -> e.panic = 0 /\ PerSecOK(acc.s, e.res)
                   [] e.op = "num" -> e.panic = 0 /\ HumanNum(e.n, e.r)
                   [] e.op = "pct" -> e.panic = 0 /\ Percent(e.i, e.o, e.r)
                   [] e.op = "time" -> e.panic = 0 /\ HumanTime(e.us, e.r)
                   [] OTHER -> FALSE
       IN [s |-> s2, i |-> acc.i + 1, bad |-> IF ok THEN 0 ELSE acc.i + 1, op |-> IF ok THEN "" ELSE e.op]

Run(h) == FoldLeft(Step, [s |-> Zero, i |-> 0, bad |-> 0, op |-> ""], h)
Verdicts == [k \in DOMAIN Rec |-> Run(Rec[k].evs)]
Bad == {k \in DOMAIN Rec : Verdicts[k].bad # 0}
NEv == FoldLeft(LAMBDA a, r : a + Len(r.evs), 0, Rec)

ASSUME PrintT(<<"TVSTAT", Len(Rec), NEv>>)
ASSUME \A k \in Bad : PrintT(<<"BAD", k, Rec[k].k, Verdicts[k].bad, Verdicts[k].op,
                               ToJson(Rec[k].evs[Verdicts[k].bad])>>)
ASSUME PrintT(<<"TVDONE", Cardinality(Bad)>>)
=============================================================================
