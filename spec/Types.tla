-------------------------------- MODULE Types --------------------------------
(***************************************************************************)
(* C10.  The crate's type-tag discipline as a typing relation over a       *)
(* finite universe of tagged types and operations.  A program is           *)
(* <<op, args>>; WellTyped says whether it must compile.  The rules are    *)
(* those of the statement: operands of affine / linear operations carry    *)
(* identical tags and dimensions; points cannot be added; a transform      *)
(* applies only to its source space; composition needs a shared            *)
(* intermediate space; projective transforms cannot be inverted,           *)
(* transposed or applied as affine ones; a bare number is not an angle;    *)
(* colour conversions exist only from the right space.                     *)
(*                                                                         *)
(* Types (all components strings):                                         *)
(*   <<"Vec", dim, basis>>  <<"Pt", dim, basis>>  <<"Col", repr, space>>    *)
(*   <<"Mat4", src, dst>>  <<"Mat3", src, dst>>  <<"MatP", src>>            *)
(*   <<"Angle">>  <<"F32">>                                                *)
(***************************************************************************)
EXTENDS Integers, Sequences, FiniteSets, TLC

Bases == {"Model", "World", "Unit"}
Dims == {"2", "3"}
VecT == {<<"Vec", d, b>> : d \in Dims, b \in Bases}
PtT == {<<"Pt", d, b>> : d \in Dims, b \in Bases}
ColT == {<<"Col", r, s>> : r \in {"u8", "f32"}, s \in {"Rgb", "Hsl"}}
\* conversions also know linear (not gamma-encoded) float colours
ColF == {c \in ColT : c[2] = "f32"} \cup {<<"Col", "f32", "LinRgb">>}
ColAll == ColT \cup ColF
ConvOps == {"ToHsl", "ToRgb", "ToColor3", "ToLinear", "ToSrgb", "ToRgba"}
Mat4T == {<<"Mat4", s, d>> : s \in Bases, d \in Bases}
Mat3T == {<<"Mat3", s, d>> : s \in {"Model", "World"}, d \in {"Model", "World"}}
MatPT == {<<"MatP", s>> : s \in Bases}
Scal == {<<"Angle">>, <<"F32">>}
\* a user-defined basis tag: a bare marker type without any derived trait (the library's own tags all
\* derive Debug and Default; nothing may depend on that)
MatU == {<<"Mat4", "User", "World">>, <<"Mat4", "World", "User">>, <<"Mat4", "User", "User">>}
VecU == {<<"Vec", "3", "User">>, <<"Vec", "3", "World">>}
PtU == {<<"Pt", "3", "User">>, <<"Pt", "3", "World">>}
\* a square array of the given size tagged as a linear map of a space of the given dimension (Model -> World)
MatRawT == {<<"MatRaw", n, d>> : n \in {"2", "3", "4"}, d \in {"2", "3"}}
Num(x) == CASE x = "2" -> 2 [] x = "3" -> 3 [] OTHER -> 4

\* the library's named maps (render.rs): each is a spelling of one tagged matrix type
AliasB == {"Model", "World", "View"}
Aliases == {"ModelToWorld", "WorldToView", "ModelToView", "ModelToProj", "ViewToProj"}
Denotes(n) == CASE n = "ModelToWorld" -> <<"Mat4", "Model", "World">>
                [] n = "WorldToView" -> <<"Mat4", "World", "View">>
                [] n = "ModelToView" -> <<"Mat4", "Model", "View">>
                [] n = "ModelToProj" -> <<"MatP", "Model">>
                [] OTHER -> <<"MatP", "View">>
AliasT == {<<"Alias", n>> : n \in Aliases}
MatV == {<<"Mat4", s, d>> : s \in AliasB, d \in AliasB} \cup {<<"MatP", s>> : s \in AliasB}
PtV == {<<"Pt", "3", b>> : b \in AliasB}
Res(t) == IF t[1] = "Alias" THEN Denotes(t[2]) ELSE t

FsOutT == {<<"Col4", "u8", "Rgba">>, <<"Col4", "u8", "Hsla">>, <<"Col4", "f32", "Hsla">>, <<"Col", "f32", "Hsl">>,
           <<"Col", "f32", "LinRgb">>, <<"Col", "u8", "Hsl">>}
CurvT == {<<"Polar">>, <<"Spherical">>}
CurvDim(t) == IF t = <<"Polar">> THEN "2" ELSE "3"

Kind(t) == t[1]
P3 == {t \in PtT : t[2] = "3"}
V3 == {t \in VecT : t[2] = "3"}
P2 == {t \in PtT : t[2] = "2" /\ t[3] # "Unit"}
V2 == {t \in VecT : t[2] = "2" /\ t[3] # "Unit"}
MW4 == {t \in Mat4T : t[2] # "Unit" /\ t[3] # "Unit"}

\* the programs of the universe
BinOps == {"Add", "Sub", "Lerp", "Dot"}
Programs ==
  \* vector / point arithmetic
  {<<op, <<a, b>>>> : op \in {"Add", "Sub", "Lerp", "Dot"}, a \in VecT, b \in VecT}
  \cup {<<"Add", <<a, b>>>> : a \in PtT, b \in VecT}
  \cup {<<op, <<a, b>>>> : op \in {"Add", "Sub", "Lerp"}, a \in PtT, b \in PtT}
  \cup {<<"Lerp", <<a, b>>>> : a \in VecT, b \in PtT}
  \* colours
  \cup {<<op, <<a, b>>>> : op \in {"AffAdd", "AffSub", "Lerp"}, a \in ColF, b \in ColF}
  \cup {<<op, <<a>>>> : op \in ConvOps, a \in ColAll}
  \* transforms
  \cup {<<"Apply", <<m, v>>>> : m \in Mat4T, v \in VecT}
  \cup {<<"ApplyPt", <<m, p>>>> : m \in Mat4T, p \in PtT}
  \cup {<<"Apply", <<m, v>>>> : m \in Mat3T, v \in {x \in VecT : x[3] # "Unit"}}
  \cup {<<op, <<m, n>>>> : op \in {"Compose", "Then"}, m \in Mat4T, n \in Mat4T}
  \cup {<<op, <<m, n>>>> : op \in {"Compose", "Then"}, m \in MatPT, n \in Mat4T}
  \cup {<<op, <<m, n>>>> : op \in {"Compose", "Then"}, m \in Mat4T, n \in MatPT}
  \cup {<<op, <<m>>>> : op \in {"Inverse", "Transpose", "Determinant"}, m \in Mat4T \cup MatPT}
  \cup {<<"Apply", <<m, p>>>> : m \in MatPT, p \in {x \in PtT \cup VecT : x[2] = "3"}}
  \cup {<<"ApplyPt", <<m, p>>>> : m \in MatPT, p \in {x \in PtT : x[2] = "3"}}
  \* the same operations over a user-defined tag
  \cup {<<op, <<m>>>> : op \in {"Inverse", "Transpose", "Determinant"}, m \in MatU}
  \cup {<<"Apply", <<m, v>>>> : m \in MatU, v \in VecU}
  \cup {<<"ApplyPt", <<m, p>>>> : m \in MatU, p \in PtU}
  \cup {<<op, <<m, n>>>> : op \in {"Compose", "Then"}, m \in MatU, n \in MatU}
  \cup {<<op, <<a, b>>>> : op \in {"Add", "Sub", "Lerp", "Dot"}, a \in VecU, b \in VecU}
  \* transposing an array too small for the dimension of the map it is tagged with
  \* (rejected when the function is instantiated: seen by a build, not by a type check)
  \cup {<<"TransposeRaw", <<m>>>> : m \in MatRawT}
  \* angles
  \cup {<<op, <<a>>>> : op \in {"RotateX", "Sin", "PolarAz"}, a \in Scal}
  \cup {<<op, <<a, b>>>> : op \in {"Add", "Sub", "Rem"}, a \in Scal, b \in Scal}
  \cup {<<op, <<<<"Angle">>, b>>>> : op \in {"MulScalar", "DivScalar"}, b \in Scal}
  \* two-step programs: a difference taken in one space, added in another
  \cup {<<"SubThenAdd", <<a, b, c>>>> : a \in ColT, b \in ColT, c \in ColT}
  \cup {<<"SubThenAdd", <<a, b, c>>>> : a \in P3, b \in P3, c \in P3}
  \* programs whose RESULT is bound to an annotated type
  \cup {<<"ApplyPtRes", <<m, x, r>>>> : m \in Mat4T, x \in P3, r \in P3}
  \cup {<<"ApplyRes", <<m, x, r>>>> : m \in Mat4T, x \in V3, r \in V3}
  \cup {<<"ApplyPtRes", <<m, x, r>>>> : m \in Mat3T, x \in P2, r \in P2}
  \cup {<<"ApplyRes", <<m, x, r>>>> : m \in Mat3T, x \in V2, r \in V2}
  \cup {<<"ComposeRes", <<m, n, r>>>> : m \in MW4, n \in MW4, r \in MW4}
  \cup {<<"SubRes", <<a, b, r>>>> : a \in P3, b \in P3, r \in V3 \cup P3}
  \* the named maps: what each one is, composed, applied, and handed to a camera as its view transform
  \* (directly: only a world-to-view map will do; through the explicit, unchecked conversion to(): anything)
  \cup {<<"AliasIs", <<a, t>>>> : a \in AliasT, t \in MatV}
  \cup {<<"ThenA", <<a, b>>>> : a \in AliasT \cup MatV, b \in AliasT}
  \cup {<<op, <<a, p>>>> : op \in {"Apply", "ApplyPt"}, a \in AliasT \cup MatV, p \in PtV}
  \cup {<<"CamMode", <<m>>>> : m \in AliasT \cup MatV}
  \cup {<<"CamModeTo", <<m>>>> : m \in AliasT \cup MatV}
  \* polar / spherical vectors are vectors of ANOTHER space: they offset a Cartesian point or vector only
  \* after an explicit conversion (to_cart(), or into() where the target is determined)
  \cup {<<op, <<a, b>>>> : op \in {"Add", "AddCart", "AddInto"}, a \in {x \in PtT \cup VecT : x[3] \in {"Unit", "Model"}}, b \in CurvT}
  \* summing an iterator: of vectors, not of points
  \cup {<<"Sum", <<a>>>> : a \in PtT \cup VecT}
  \* render(): the fragment shader must output the packed sRGB colour (or an Option of it) - not a colour of
  \* another space (float sRGB colours are left open: a conversion for them would mix nothing)
  \cup {<<"RenderFs", <<o>>>> : o \in FsOutT}
  \* render(): the vertex shader must output clip-space (projective) positions
  \cup {<<"Render", <<o>>>> : o \in {<<"ProjVec4">>, <<"Vec", "3", "Model">>, <<"Pt", "3", "Model">>}}

SameTags(a, b) == a = b

WellTyped(pr) ==
  LET op == pr[1]  a == Res(pr[2][1])  b == IF Len(pr[2]) >= 2 THEN Res(pr[2][2]) ELSE <<"none">> IN
  CASE op = "AliasIs" -> a = b
    [] op = "Add" /\ b \in CurvT -> FALSE
    [] op \in {"AddCart", "AddInto"} -> Kind(a) \in {"Pt", "Vec"} /\ a[2] = CurvDim(b) /\ a[3] = "Unit"
    [] op = "Sum" -> Kind(a) = "Vec"
    [] op = "RenderFs" -> a = <<"Col4", "u8", "Rgba">>
    [] op = "ThenA" -> Kind(a) = "Mat4" /\ a[3] = b[2]
    [] op = "CamMode" -> a = <<"Mat4", "World", "View">>
    [] op = "CamModeTo" -> TRUE
    [] op \in {"Add", "Sub"} /\ Kind(a) = "Vec" /\ Kind(b) = "Vec" -> a = b
    [] op = "Dot" -> a = b
    [] op = "Lerp" -> a = b                                             \* same kind, dimension, tag (or colour space)
    [] op = "Add" /\ Kind(a) = "Pt" /\ Kind(b) = "Vec" -> a[2] = b[2] /\ a[3] = b[3]   \* point + displacement
    [] op = "Add" /\ Kind(a) = "Pt" /\ Kind(b) = "Pt" -> FALSE           \* two points cannot be added
    [] op = "Sub" /\ Kind(a) = "Pt" /\ Kind(b) = "Pt" -> a = b           \* their difference is a vector
    [] op \in {"AffAdd", "AffSub"} -> a = b
    \* each conversion exists only from the space (and representation) it converts from
    [] op = "ToHsl" -> a[3] = "Rgb"
    [] op = "ToRgb" -> a[3] = "Hsl"
    [] op = "ToRgba" -> a[3] = "Rgb"
    [] op = "ToColor3" -> a = <<"Col", "f32", "Rgb">>          \* quantising is defined on gamma-encoded RGB only
    [] op = "ToLinear" -> a = <<"Col", "f32", "Rgb">>
    [] op = "ToSrgb" -> a = <<"Col", "f32", "LinRgb">>
    [] op = "Apply" /\ Kind(a) = "Mat4" -> Kind(b) = "Vec" /\ b[2] = "3" /\ b[3] = a[2]
    [] op = "Apply" /\ Kind(a) = "Mat3" -> Kind(b) = "Vec" /\ b[2] = "2" /\ b[3] = a[2]
    [] op = "ApplyPt" /\ Kind(a) = "Mat4" -> Kind(b) = "Pt" /\ b[2] = "3" /\ b[3] = a[2]
    [] op = "Apply" /\ Kind(a) = "MatP" -> Kind(b) = "Pt" /\ b[3] = a[2]         \* projection of a point of the source space
    [] op = "ApplyPt" /\ Kind(a) = "MatP" -> FALSE                        \* not an affine map
    [] op = "Compose" /\ Kind(a) = "Mat4" /\ Kind(b) = "Mat4" -> a[2] = b[3]      \* a after b: b's target is a's source
    [] op = "Then" /\ Kind(a) = "Mat4" /\ Kind(b) = "Mat4" -> a[3] = b[2]
    [] op = "Compose" /\ Kind(a) = "MatP" /\ Kind(b) = "Mat4" -> a[2] = b[3]
    [] op = "Then" /\ Kind(a) = "MatP" -> FALSE                           \* nothing affine can follow a projection
    [] op = "Compose" /\ Kind(a) = "Mat4" /\ Kind(b) = "MatP" -> FALSE
    [] op = "Then" /\ Kind(a) = "Mat4" /\ Kind(b) = "MatP" -> a[3] = b[2]
    [] op \in {"Inverse", "Transpose", "Determinant"} -> Kind(a) = "Mat4"
    [] op = "TransposeRaw" -> Num(a[2]) >= Num(a[3])
    [] op \in {"RotateX", "Sin", "PolarAz"} -> a = <<"Angle">>
    [] op \in {"Add", "Sub", "Rem"} /\ a \in Scal -> a = b          \* angle with angle, number with number
    [] op \in {"MulScalar", "DivScalar"} -> b = <<"F32">>           \* an angle is scaled by a bare number only
    [] op = "SubThenAdd" -> a = b /\ pr[2][3] = a                          \* the difference keeps its space
    [] op = "ApplyPtRes" -> Kind(b) = "Pt" /\ b[3] = a[2] /\ pr[2][3] = <<"Pt", b[2], a[3]>>     \* lands in the destination space
    [] op = "ApplyRes" -> Kind(b) = "Vec" /\ b[3] = a[2] /\ pr[2][3] = <<"Vec", b[2], a[3]>>
    [] op = "ComposeRes" -> a[2] = b[3] /\ pr[2][3] = <<"Mat4", b[2], a[3]>>
    [] op = "SubRes" -> a = b /\ pr[2][3] = <<"Vec", a[2], a[3]>>           \* the difference of two points is a vector
    [] op = "Render" -> a = <<"ProjVec4">>
    [] OTHER -> FALSE

\* the misuse class a rejected program belongs to (for the inhabitedness check)
Class(pr) ==
  LET op == pr[1]  a == pr[2][1]  b == IF Len(pr[2]) >= 2 THEN pr[2][2] ELSE <<"none">> IN
  IF WellTyped(pr) THEN "ok"
  ELSE IF op = "Add" /\ Kind(a) = "Pt" /\ Kind(b) = "Pt" THEN "add-points"
  ELSE IF op \in {"Add", "Sub", "Lerp", "Dot", "AffAdd", "AffSub"} /\ Kind(a) \in {"Vec", "Pt", "Col"} /\ Kind(b) = Kind(a) /\ a[2] # b[2] THEN "mixed-dimension-or-repr"
  ELSE IF op \in {"Add", "Sub", "Lerp", "Dot", "AffAdd", "AffSub"} /\ Kind(a) \in {"Vec", "Pt", "Col"} THEN "mixed-space"
  ELSE IF op \in {"AliasIs", "CamMode", "AddCart", "AddInto"} \/ b \in CurvT THEN "mixed-space"
  ELSE IF op = "Sum" THEN "add-points"
  ELSE IF op = "RenderFs" THEN "wrong-colour-space"
  ELSE IF op = "ThenA" THEN "compose-mismatch"
  ELSE IF op \in {"Apply", "ApplyPt"} /\ Kind(Res(a)) = "MatP" THEN "projective-as-affine"
  ELSE IF op \in {"Apply", "ApplyPt", "ApplyRes", "ApplyPtRes"} THEN "apply-outside-source"
  ELSE IF op \in {"SubThenAdd", "SubRes"} THEN "mixed-space"
  ELSE IF op = "ComposeRes" THEN "compose-mismatch"
  ELSE IF op \in {"Compose", "Then"} THEN "compose-mismatch"
  ELSE IF op \in {"Inverse", "Transpose", "Determinant"} THEN "projective-as-affine"
  ELSE IF op = "TransposeRaw" THEN "mixed-dimension-or-repr"
  ELSE IF op \in {"RotateX", "Sin", "PolarAz"} \/ a \in Scal THEN "number-as-angle"
  ELSE IF op \in ConvOps THEN "wrong-colour-space"
  ELSE "shader-output"

\* ---------------------------------------------------------------- relation
\* e.op, e.args (the program), e.obs: "accept" (compiled) / "reject" (a type error inside the program)
Allowed(e) == e.obs = (IF WellTyped(<<e.op, e.args>>) THEN "accept" ELSE "reject")
=============================================================================
