------------------------------ MODULE TV_Xform ------------------------------
(* Trace validation for C09: every recorded path (env TRACE) must satisfy   *)
(* Xform!Allowed.  The class of the vector images is reported so that the   *)
(* known deviation (apply on vectors includes the translation) can be told  *)
(* from any other rejection.                                                *)
EXTENDS Xform, Json, IOUtils

Rec == ndJsonDeserialize(IOEnv.TRACE)
IsRot(e) == "op" \in DOMAIN e /\ e.op = "bigrot"
IsOri(e) == "op" \in DOMAIN e /\ e.op = "orient"
IsM3(e) == "op" \in DOMAIN e /\ e.op = "m3"
Bad == {k \in DOMAIN Rec : IF IsRot(Rec[k]) THEN ~RotAllowed(Rec[k]) ELSE IF IsOri(Rec[k]) THEN ~OrientAllowed(Rec[k]) ELSE IF IsM3(Rec[k]) THEN ~M3Allowed(Rec[k]) ELSE ~Allowed(Rec[k])}
Why(e) == IF IsRot(e) THEN "bigrot" ELSE IF IsOri(e) THEN "orient" ELSE IF IsM3(e) THEN "m3" ELSE IF ~CoreAllowed(e) THEN "core"
          ELSE "vec_" \o VecClass(e, PathMat(e.path), Tol(MaxAbs(PathMat(e.path)) + 4))

ASSUME PrintT(<<"TVSTAT", Len(Rec), Len(Rec)>>)
ASSUME \A k \in Bad : PrintT(<<"BAD", k, Rec[k].k, Why(Rec[k]), ToJson(Rec[k].path)>>)
ASSUME PrintT(<<"TVDONE", Cardinality(Bad)>>)
=============================================================================
