---------------------------- MODULE MC_PnmBitmap ----------------------------
(***************************************************************************)
(* Every P4 file "P4 w h\n" + data for the shapes below and data bytes     *)
(* from Bytes: the standard image has 3*w*h samples, all 0 or 255; padding *)
(* bits never matter (setting them all leaves the image unchanged); the    *)
(* padded and the packed reading agree exactly on aligned shapes and there *)
(* is a file on which they differ for every unaligned multi-row shape.     *)
(* Every file is exported for replay on the real decoder.                  *)
(***************************************************************************)
EXTENDS PnmBitmap, Json, TLC

CONSTANTS Export, Wide
Shapes == IF Wide THEN {<<1, 1>>, <<1, 3>>, <<3, 2>>, <<7, 2>>, <<8, 1>>, <<8, 2>>, <<9, 1>>, <<9, 2>>, <<12, 2>>, <<16, 2>>, <<5, 4>>}
          ELSE {<<1, 1>>, <<3, 2>>, <<8, 2>>, <<9, 1>>, <<9, 2>>, <<16, 1>>, <<5, 3>>}
Bytes == IF Wide THEN {0, 255, 165, 128, 1} ELSE {0, 255, 165, 90}

VARIABLES sh, data
vars == <<sh, data>>
Need(s) == RowBytes(s[1]) * s[2]
Init == sh \in Shapes /\ data = <<>>
Next == Len(data) < Need(sh) /\ \E b \in Bytes : data' = Append(data, b) /\ sh' = sh
Spec == Init /\ [][Next]_vars

File(s, d) == <<80, 52, 32>> \o Dec(s[1]) \o <<32>> \o Dec(s[2]) \o <<10>> \o d
Full == Len(data) = Need(sh)

\* the same data with every padding bit set
PadMask(w) == IF w % 8 = 0 THEN 0 ELSE Pow2(8 - (w % 8)) - 1
OrLow(b, m) == b - (b % (m + 1)) + m
Padded(s, d) == [i \in 1..Len(d) |-> IF i % RowBytes(s[1]) = 0 THEN OrLow(d[i], PadMask(s[1])) ELSE d[i]]

Laws ==
  Full =>
    LET f == File(sh, data)  hd == Header4(f)  pix == PixStd(f, hd) IN
    /\ hd.ok /\ hd.w = sh[1] /\ hd.h = sh[2] /\ Complete4(f, hd) /\ Small4(hd)
    /\ Len(pix) = 3 * sh[1] * sh[2]
    /\ \A i \in 1..Len(pix) : pix[i] \in {0, 255} /\ pix[i] = pix[3 * ((i - 1) \div 3) + 1]
    /\ PixStd(File(sh, Padded(sh, data)), hd) = pix
    /\ Aligned(hd) => PixPacked(f, hd) = pix
    /\ BAllowed([bytes |-> f, res |-> <<"ok", sh[1], sh[2], sh[1] * sh[2], pix>>])
    /\ ~BAllowed([bytes |-> f, res |-> <<"ok", sh[2], sh[1], sh[1] * sh[2], pix>>]) \/ sh[1] = sh[2]
    /\ ~BAllowed([bytes |-> f, res |-> <<"err", "x">>])

\* the two readings really differ somewhere on every unaligned multi-row shape
Differ == \A s \in Shapes : ~(s[1] % 8 = 0 \/ s[2] = 1) =>
            LET d == [i \in 1..Need(s) |-> 165]  f == File(s, d)  hd == Header4(f) IN PixStd(f, hd) # PixPacked(f, hd)
ASSUME Differ

ExportInv == (Full /\ Export) => PrintT(<<"REPLAY", ToJson([bytes |-> File(sh, data)])>>)
=============================================================================
