----------------------------- MODULE TV_ObjPoly -----------------------------
(* Trace validation of polygonal face lines (growth beyond the listed       *)
(* properties; rejections are reported as notes, see py/c14.py).            *)
EXTENDS ObjPoly, Json, IOUtils

Rec == ndJsonDeserialize(IOEnv.TRACE)
Bad == {k \in DOMAIN Rec : ~PolyAllowed(Rec[k])}

ASSUME PrintT(<<"TVSTAT", Len(Rec), Len(Rec)>>)
ASSUME \A k \in Bad : PrintT(<<"BAD", k, Rec[k].k, Why(Rec[k]), PParsed(Rec[k].bytes).maxn, ToJson(Rec[k].res[3])>>)
ASSUME PrintT(<<"TVDONE", Cardinality(Bad)>>)
=============================================================================
