----------------------------- MODULE TV_Target -----------------------------
(***************************************************************************)
(* Trace validation for C06 / C07.  One record per scene: the footprints   *)
(* of the single triangles (as observed), and a list of histories; each    *)
(* history is a sequence of render calls with the planes and accumulated   *)
(* statistics observed after each call.  Every history must be a behaviour *)
(* of the Target state machine started from cleared planes.                *)
(***************************************************************************)
EXTENDS Target, Json, IOUtils

Rec == ndJsonDeserialize(IOEnv.TRACE)

C0 == 11259375      \* 0x00ABCDEF

Det3(m) == m[1][1] * (m[2][2] * m[3][3] - m[2][3] * m[3][2])
         - m[1][2] * (m[2][1] * m[3][3] - m[2][3] * m[3][1])
         + m[1][3] * (m[2][1] * m[3][2] - m[2][2] * m[3][1])

\* on-screen winding from the exact homogeneous determinant of (x, y, w);
\* back-facing iff the screen-space cross product is positive
SceneOf(r) ==
  LET s == r.scene IN
  [np |-> s.np, fp |-> s.fp, col |-> s.col, nfr |-> s.nfr, npc |-> s.npc, ndeg |-> s.ndeg, dpix |-> s.dpix, cover |-> s.cover,
   face |-> [t \in 1..Len(s.tv) |-> IF Det3(s.tv[t]) * s.vsign > 0 THEN 1 ELSE 0],
   \* distance from the eye: the w of the lattice vertices bounds that of every point
   far |-> [t \in 1..Len(s.tv) |->
              LET W == {s.tv[t][i][3] : i \in 1..3} IN
              <<CHOOSE x \in W : \A y \in W : x <= y, CHOOSE x \in W : \A y \in W : x >= y>>]]

S0(sc) == [c |-> [p \in 1..sc.np |-> C0], z |-> [p \in 1..sc.np |-> 0], st |-> <<0, 0, 0, 0, 0, 0, 0>>]

StepAcc(sc, acc, e) ==
  IF acc.bad # 0 THEN acc
  ELSE IF e.panic = 0 /\ Allowed(sc, acc.s, e)
       THEN [s |-> Apply(sc, acc.s, e), bad |-> 0, i |-> acc.i + 1]
       ELSE [s |-> acc.s, bad |-> acc.i + 1, i |-> acc.i + 1]

RunHist(sc, h) == FoldLeft(LAMBDA a, e : StepAcc(sc, a, e), [s |-> S0(sc), bad |-> 0, i |-> 0], h).bad

\* first rejected <<history, call>> of a record, or <<0, 0>>
Verdict(r) ==
  IF r.ok = 0 THEN <<0, 0>>
  ELSE LET sc == SceneOf(r)
           v == [h \in 1..Len(r.hists) |-> RunHist(sc, r.hists[h])]
           B == {h \in 1..Len(r.hists) : v[h] # 0}
       IN IF ~SceneOK(sc) THEN <<1, 1>>          \* (reported against the first call)
          ELSE IF B = {} THEN <<0, 0>> ELSE LET h == CHOOSE h \in B : \A g \in B : h <= g IN <<h, v[h]>>

Verdicts == [k \in DOMAIN Rec |-> Verdict(Rec[k])]
Bad == {k \in DOMAIN Rec : Verdicts[k][1] # 0}
NHist == FoldLeft(LAMBDA a, r : a + (IF r.ok = 1 THEN Len(r.hists) ELSE 0), 0, Rec)
NSkipped == Cardinality({k \in DOMAIN Rec : Rec[k].ok = 0})

ASSUME PrintT(<<"TVSTAT", Len(Rec), NHist, NSkipped>>)
ASSUME \A k \in Bad :
         PrintT(<<"BAD", k, Rec[k].k, Verdicts[k][1], Verdicts[k][2],
                  ToJson(Rec[k].hists[Verdicts[k][1]][Verdicts[k][2]].ctx),
                  ToJson(Rec[k].hists[Verdicts[k][1]][Verdicts[k][2]].ord),
                  ToJson(Rec[k].hists[Verdicts[k][1]][Verdicts[k][2]].st)>>)
ASSUME PrintT(<<"TVDONE", Cardinality(Bad)>>)
=============================================================================
