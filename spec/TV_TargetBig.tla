---------------------------- MODULE TV_TargetBig ----------------------------
(* Trace validation for C06: one very large render call (Target!BigCallAllowed). *)
EXTENDS Target, Json, IOUtils

Rec == ndJsonDeserialize(IOEnv.TRACE)
Bad == {k \in DOMAIN Rec : ~BigCallAllowed(Rec[k])}
ASSUME PrintT(<<"TVSTAT", Len(Rec), Len(Rec)>>)
ASSUME \A k \in Bad : PrintT(<<"BAD", k, Rec[k].k, Rec[k].npad, Rec[k].panic>>)
ASSUME PrintT(<<"TVDONE", Cardinality(Bad)>>)
=============================================================================
