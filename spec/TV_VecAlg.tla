------------------------------ MODULE TV_VecAlg ------------------------------
(* Trace validation for the vector / point algebra (growth, reported under   *)
(* C09): every recorded call (env TRACE) must satisfy VecAlg!Allowed.        *)
EXTENDS VecAlg, Json, IOUtils

Rec == ndJsonDeserialize(IOEnv.TRACE)
Bad == {k \in DOMAIN Rec : ~Allowed(Rec[k])}

ASSUME PrintT(<<"TVSTAT", Len(Rec), Len(Rec)>>)
ASSUME \A k \in Bad : PrintT(<<"BAD", k, Rec[k].k, Rec[k].op, ToJson(Rec[k])>>)
ASSUME PrintT(<<"TVDONE", Cardinality(Bad)>>)
=============================================================================
