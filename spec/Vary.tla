-------------------------------- MODULE Vary --------------------------------
(***************************************************************************)
(* Growth beyond the listed properties (DESIGN §8): the `Vary` stepping    *)
(* iterators the rasteriser is built on, as a state machine.               *)
(*                                                                         *)
(* State [val, step, left]: left = -1 means unbounded.  Next:              *)
(*   Emit  enabled iff left # 0: yields val, val' = val + step,            *)
(*         left' = left - 1 (if bounded).                                  *)
(* vary_to(other, n) is vary((other - self) / n, n + 1): it yields exactly *)
(* n + 1 values, the k-th being self + k (other - self) / n, the first     *)
(* self and the last other.  Values are integers scaled by the caller.     *)
(***************************************************************************)
EXTENDS Integers, Sequences, FiniteSets, TLC

Abs(x) == IF x < 0 THEN -x ELSE x

\* ---------------------------------------------------------------- machine
Emit(s) == [val |-> s.val + s.step, step |-> s.step, left |-> IF s.left = -1 THEN -1 ELSE s.left - 1]
CanEmit(s) == s.left # 0
\* the sequence yielded when the iterator is drained (bounded), or its first `take` items
RECURSIVE Drain(_, _)
Drain(s, take) == IF ~CanEmit(s) \/ take = 0 THEN <<>> ELSE <<s.val>> \o Drain(Emit(s), take - 1)

\* ---------------------------------------------------------------- relation
\* e.op = "vary":    from (per component, scaled SC), step, max (-1 = None), take; out: the items yielded
\*        "vary_to": from, to, n; out
\*        "skip":    from, step, max, how, kn, take; out (see below)
\*        "dvdt":    from, to, rn (reciprocal dt = rn, an integer); res = (to - from) * rn
SC == 1024
Allowed(e) ==
  CASE e.op = "vary" ->
         /\ e.panic = 0
         /\ Len(e.out) = (IF e.max = -1 THEN e.take ELSE IF e.max < e.take THEN e.max ELSE e.take)
         /\ \A c \in 1..Len(e.from) :
              LET ideal == Drain([val |-> e.from[c] * SC, step |-> e.step[c] * SC, left |-> e.max], e.take) IN
              \A k \in 1..Len(e.out) : Abs(e.out[k][c] - ideal[k]) <= 2 + (k * Abs(e.step[c])) \div 1000
    [] e.op = "vary_to" ->
         /\ e.panic = 0
         /\ Len(e.out) = e.n + 1                                   \* exactly n + 1 items
         /\ \A c \in 1..Len(e.from) :
              \A k \in 1..Len(e.out) :
                \* item k = from + (k-1) (to - from) / n
                Abs(e.out[k][c] * e.n - (e.from[c] * e.n + (k - 1) * (e.to[c] - e.from[c])) * SC) <= (3 + Abs(e.to[c] - e.from[c]) \div 500) * e.n
    [] e.op = "skip" ->
         \* the iterator consumed through an adaptor that skips items (how = "nth" k, "skip" k, "step_by" k):
         \* out = the items that a plain drain yields at the positions the adaptor selects
         /\ e.panic = 0
         /\ \A c \in 1..Len(e.from) :
              LET all == Drain([val |-> e.from[c] * SC, step |-> e.step[c] * SC, left |-> e.max], 64)
                  hi == IF e.kn + e.take < Len(all) THEN e.kn + e.take ELSE Len(all)
                  want == CASE e.how \in {"nth", "skip"} -> SubSeq(all, e.kn + 1, hi)      \* nth(kn), then take - 1 more
                            [] OTHER -> LET idx == {i \in 1..Len(all) : (i - 1) % e.kn = 0} IN
                                        [j \in 1..(IF Cardinality(idx) < e.take THEN Cardinality(idx) ELSE e.take) |-> all[(j - 1) * e.kn + 1]]
              IN /\ Len(e.out) = Len(want)
                 /\ \A j \in 1..Len(want) : Abs(e.out[j][c] - want[j]) <= 2 + (64 * Abs(e.step[c])) \div 1000
    [] e.op = "dvdt" ->
         /\ e.panic = 0
         /\ \A c \in 1..Len(e.from) : Abs(e.res[c] - (e.to[c] - e.from[c]) * e.rn * SC) <= 2 + Abs((e.to[c] - e.from[c]) * e.rn) \div 1000
    [] OTHER -> FALSE
=============================================================================
