//! The values the generated programs plug into the builder's slots, and the recorder.
#![allow(dead_code)]
pub use re::geom::{vertex, Mesh, Tri, Vertex, Vertex3};
pub use re::math::color::{rgba, Color4};
pub use re::math::mat::{viewport, Mat4x4};
pub use re::math::point::{pt2, pt3};
pub use re::math::vec::ProjVec4;
pub use re::render::ctx::Context;
pub use re::render::raster::Frag;
pub use re::render::shader::Shader;
pub use re::render::target::Framebuf;
pub use re::render::{render, Batch, NdcToScreen};
pub use re::util::buf::Buf2;
pub use serde_json::{json, Value};
use std::panic::{catch_unwind, AssertUnwindSafe};

pub type V = Vertex3<f32>;
pub type Out = Vertex<ProjVec4, f32>;
pub type Fb = Framebuf<Buf2<u32>, Buf2<f32>>;
pub type Sh = Shader<fn(V, f32) -> Out, fn(Frag<f32>) -> Option<Color4>>;
pub const W: u32 = 24;
pub const H: u32 = 16;
pub const C0: u32 = 0x00AB_CDEF;

pub fn fb() -> Fb {
    Framebuf { color_buf: Buf2::new_from((W, H), std::iter::repeat(C0)), depth_buf: Buf2::new_from((W, H), std::iter::repeat(0.0f32)) }
}
pub fn faces(i: u8) -> Vec<Tri<usize>> {
    match i {
        0 => vec![],
        1 => vec![Tri([0, 1, 2])],
        _ => vec![Tri([0, 1, 2]), Tri([0, 2, 3])],
    }
}
/// 1: a quad in the left half, 2: a triangle in the right half (clip-space coordinates, w = 1)
pub fn verts(i: u8) -> Vec<V> {
    match i {
        1 => vec![vertex(pt3(-0.9, -0.8, 0.0), 1.0), vertex(pt3(-0.9, 0.8, 0.0), 2.0), vertex(pt3(-0.1, 0.8, 0.0), 3.0), vertex(pt3(-0.1, -0.8, 0.0), 4.0)],
        _ => vec![vertex(pt3(0.1, -0.8, 0.0), 5.0), vertex(pt3(0.5, 0.9, 0.0), 6.0), vertex(pt3(0.9, -0.6, 0.0), 7.0)],
    }
}
pub fn mesh(i: u8) -> Mesh<f32> {
    if i == 1 { Mesh { faces: faces(2), verts: verts(1) } } else { Mesh { faces: faces(1), verts: verts(2) } }
}
pub fn uni(i: u8) -> f32 {
    if i == 1 { 0.0 } else { 0.25 }
}
/// shader 1: as given, near (w = 1), reddish; shader 2: mirrored in y, farther (w = 2), bluish
fn vs1(v: V, u: f32) -> Out {
    vertex([v.pos.x() + u, v.pos.y(), 0.0, 1.0].into(), v.attrib)
}
fn vs2(v: V, u: f32) -> Out {
    vertex([2.0 * (v.pos.x() + u), -2.0 * v.pos.y(), 0.0, 2.0].into(), v.attrib)
}
fn fs1(f: Frag<f32>) -> Option<Color4> {
    Some(rgba((f.var * 30.0) as u8, 0x40, 0x80, 0))
}
fn fs2(f: Frag<f32>) -> Option<Color4> {
    Some(rgba(0x10, (f.var * 30.0) as u8, 0xF0, 0))
}
pub fn shader(i: u8) -> Sh {
    if i == 1 { Shader::new(vs1 as fn(V, f32) -> Out, fs1 as fn(Frag<f32>) -> Option<Color4>) } else { Shader::new(vs2 as fn(V, f32) -> Out, fs2 as fn(Frag<f32>) -> Option<Color4>) }
}
pub fn vp(i: u8) -> Mat4x4<NdcToScreen> {
    match i {
        0 => Mat4x4::default(),
        1 => viewport(pt2(0, 0)..pt2(W, H)),
        _ => viewport(pt2(4, 2)..pt2(W - 4, H - 2)),
    }
}
/// 0 and 1: the default context; 2: no culling, no depth test (later draws overwrite earlier ones)
pub fn ctx(i: u8) -> Context {
    if i == 2 { Context { face_cull: None, depth_test: None, ..Context::default() } } else { Context::default() }
}

/// 1 iff `f` panicked
pub fn run(f: impl FnOnce()) -> u8 {
    catch_unwind(AssertUnwindSafe(f)).is_err() as u8
}

/// One draw of the reference: the slots (f, v, u, s, vp, c).
pub type Draw = (u8, u8, u8, u8, u8, u8);

fn same(a: &Fb, b: &Fb) -> u8 {
    (a.color_buf.data() == b.color_buf.data() && a.depth_buf.data().iter().map(|x| x.to_bits()).eq(b.depth_buf.data().iter().map(|x| x.to_bits()))) as u8
}

#[allow(clippy::too_many_arguments)]
pub fn finish(out: &mut Vec<Value>, k: &str, ops: &str, t1: &Fb, t2: &Fb, c1: &Context, c2: &Context, panics: Vec<u8>, refs: [&[Draw]; 2]) {
    let mut sm = [0u8; 2];
    let mut nonblank = [0usize; 2];
    let mut refj = vec![];
    for (t, obs) in [t1, t2].into_iter().enumerate() {
        let mut r = fb();
        for d in refs[t] {
            // the same draw through the free function (a panic there would show as a difference)
            let _ = run(|| render(faces(d.0), verts(d.1), &shader(d.3), uni(d.2), vp(d.4), &mut r, &ctx(d.5)));
        }
        sm[t] = same(&r, obs);
        nonblank[t] = obs.color_buf.data().iter().filter(|&&c| c != C0).count();
        refj.push(refs[t].iter().map(|d| json!({"f": d.0, "v": d.1, "u": d.2, "s": d.3, "vp": d.4, "c": d.5})).collect::<Vec<_>>());
    }
    let st = |c: &Context| { let s = c.stats.borrow(); (s.calls as i64, s.prims.i as i64) };
    let (s1, s2) = (st(c1), st(c2));
    let opsv: Value = serde_json::from_str(ops).unwrap();
    out.push(json!({"k": k, "ops": opsv, "panics": panics, "ref": refj, "same": sm, "calls": [s1.0, s2.0], "prims": [s1.1, s2.1], "nonblank": nonblank}));
}
