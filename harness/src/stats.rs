//! Growth (DESIGN §8): render::stats::Stats - accumulation by +=, the derived
//! per-frame / per-second views and the human-readable renderings.

use crate::util::*;
use crate::Args;
use re::render::stats::{Stats, Throughput};
use serde_json::{json, Value};
use std::io::Write;
use std::time::Duration;

fn thr(s: &Stats) -> Value {
    json!([[s.objs.i, s.objs.o], [s.prims.i, s.prims.o], [s.verts.i, s.verts.o], [s.frags.i, s.frags.o]])
}
fn obs(s: &Stats) -> Value {
    let k = |x: f32| (x as f64 * 1000.0).round() as i64;
    json!({"calls": k(s.calls), "frames": k(s.frames), "us": s.time.as_micros() as i64, "thr": thr(s)})
}
fn mk(d: &Value) -> Stats {
    let mut s = Stats::new();
    s.calls = gi(d, "calls") as f32;
    s.frames = gi(d, "frames") as f32;
    s.time = Duration::from_micros(gi(d, "us") as u64);
    let t = |j: usize| Throughput { i: d["thr"][j][0].as_u64().unwrap() as usize, o: d["thr"][j][1].as_u64().unwrap() as usize };
    (s.objs, s.prims, s.verts, s.frags) = (t(0), t(1), t(2), t(3));
    s
}

/// "  123", " 1.2k", " 123M" -> [len, val10, suf, dec]
fn parse_num(t: &str) -> Value {
    let len = t.chars().count();
    let b = t.trim();
    let suf: String = b.chars().filter(|c| c.is_ascii_alphabetic()).collect();
    let num: String = b.chars().filter(|c| c.is_ascii_digit() || *c == '.').collect();
    let val10 = num.parse::<f64>().map(|v| (v * 10.0).round() as i64).unwrap_or(-1);
    json!({"len": len, "val10": val10, "suf": suf, "dec": num.contains('.') as u8})
}
fn parse_time(t: &str) -> Value {
    let b = t.trim();
    if let Some((m, s)) = b.split_once("min ") {
        return json!({"unit": "min", "val10": 0, "min": m.parse::<i64>().unwrap_or(-1), "sec": s.trim_end_matches('s').parse::<i64>().unwrap_or(-1)});
    }
    let (unit, num) = if let Some(n) = b.strip_suffix("μs") {
        ("us", n)
    } else if let Some(n) = b.strip_suffix("ms") {
        ("ms", n)
    } else {
        ("s", b.trim_end_matches('s'))
    };
    json!({"unit": unit, "val10": num.trim().parse::<f64>().map(|v| (v * 10.0).round() as i64).unwrap_or(-1), "min": 0, "sec": 0})
}

pub fn exec(case: &Value) -> Value {
    let mut s = Stats::new();
    let mut evs = vec![];
    for c in case["ops"].as_array().unwrap() {
        let mut e = c.clone();
        let o = e.as_object_mut().unwrap();
        let mut panic = 0;
        match gs(c, "op") {
            "add" => {
                let d = mk(&c["d"]);
                let mut s2 = s.clone();
                match guard(move || { s2 += d; s2 }) {
                    Some(r) => s = r,
                    None => panic = 1,
                }
                o.insert("st".into(), obs(&s));
            }
            "per_frame" => match guard(|| s.per_frame()) {
                Some(r) => { o.insert("res".into(), obs(&r)); }
                None => { panic = 1; o.insert("res".into(), obs(&s)); }
            },
            "per_sec" => match guard(|| s.per_sec()) {
                Some(r) => { o.insert("res".into(), obs(&r)); }
                None => { panic = 1; o.insert("res".into(), obs(&s)); }
            },
            "num" => {
                let n = gi(c, "n") as usize;
                let txt = guard(|| format!("{}", Throughput { i: n, o: 0 }));
                match txt {
                    // "<in> / <out>", right-aligned in 10 columns
                    Some(t) => { o.insert("r".into(), parse_num(t.split(" / ").next().unwrap_or(""))); }
                    None => { panic = 1; o.insert("r".into(), parse_num("")); }
                }
            }
            "pct" => {
                let (i, ou) = (gi(c, "i") as usize, gi(c, "o") as usize);
                match guard(|| format!("{:#}", Throughput { i, o: ou })) {
                    Some(t) => {
                        let b = t.trim();
                        let dash = (b == "--") as u8;
                        let pct10 = b.trim_end_matches('%').parse::<f64>().map(|v| (v * 10.0).round() as i64).unwrap_or(-1);
                        o.insert("r".into(), json!({"dash": dash, "pct10": pct10}));
                    }
                    None => { panic = 1; o.insert("r".into(), json!({"dash": 0, "pct10": -1})); }
                }
            }
            _ => {
                // "time": the first data row of the table shows the total time
                let mut t = Stats::new();
                t.time = Duration::from_micros(gi(c, "us") as u64);
                match guard(|| format!("{t}")) {
                    Some(txt) => {
                        let row = txt.lines().nth(2).unwrap_or("");
                        let cell = row.trim_start().strip_prefix("time").unwrap_or("").split('│').next().unwrap_or("");
                        o.insert("r".into(), parse_time(cell));
                    }
                    None => { panic = 1; o.insert("r".into(), parse_time("0s")); }
                }
            }
        }
        o.insert("panic".into(), json!(panic));
        evs.push(e);
    }
    json!({"k": case["k"], "evs": evs})
}

pub fn gen(args: &Args, out: &mut dyn Write) {
    let n = args.n.unwrap_or(if args.tier == "thorough" { 20_000 } else { 2_000 });
    let mut rng = Rng::new(args.seed ^ 0x57A7);
    for i in 0..n {
        let mut ops = vec![];
        let big = i % 5 == 4;
        for _ in 0..rng.range(2, 8) {
            match rng.below(10) {
                0..=4 => {
                    let lim = if big { 20_000 } else { 3_000 };
                    let prims = rng.range(0, lim);
                    let d = json!({"calls": rng.range(0, 3), "frames": rng.below(2), "us": 250_000 * rng.range(0, if big { 160 } else { 4 }),
                        "thr": [[rng.range(0, 5), rng.range(0, 5)], [prims, rng.range(0, prims)], [3 * prims, 3 * rng.range(0, prims)],
                                [rng.range(0, 50 * lim), rng.range(0, 20 * lim)]]});
                    ops.push(json!({"op": "add", "d": d}));
                }
                5 => ops.push(json!({"op": "per_frame"})),
                6 => ops.push(json!({"op": "per_sec"})),
                7 => {
                    // counts around every change of format
                    let base = *rng.pick(&[0i64, 999, 1000, 9_949, 99_949, 100_000, 999_999, 1_000_000, 99_949_999, 100_000_000,
                                           999_999_999, 1_000_000_000, 1_900_000_000]);
                    let n = if rng.chance(1, 2) { (base + rng.range(-60, 60)).max(0) } else { rng.range(0, 2_000_000_000) };
                    ops.push(json!({"op": "num", "n": n.min(2_000_000_000)}));
                }
                8 => {
                    let i = rng.range(0, 1_000_000);
                    ops.push(json!({"op": "pct", "i": i, "o": rng.range(0, i.max(1))}));
                }
                _ => {
                    let us = match rng.below(5) {
                        0 => rng.range(0, 999),
                        1 => rng.range(1000, 999_999),
                        2 => rng.range(1_000_000, 59_999_999),
                        3 => rng.range(60_000_000, 2_000_000_000),
                        _ => *rng.pick(&[999i64, 1000, 999_949, 999_951, 59_949_000, 59_960_000, 60_000_000, 119_700_000, 90_000_000]),
                    };
                    ops.push(json!({"op": "time", "us": us}));
                }
            }
        }
        writeln!(out, "{}", json!({"k": format!("st{}-{}", args.seed, i), "ops": ops})).unwrap();
    }
}
