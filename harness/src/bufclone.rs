//! C11: copies of buffers - `clone()` and `clone_from()` - are buffers of the same shape with the same cells,
//! whatever the shape of the buffer that is overwritten.

use crate::util::*;
use crate::Args;
use re::util::buf::{AsSlice2, Buf2};
use serde_json::{json, Value};
use std::io::Write;

fn obs(b: &Buf2<i32>) -> (Value, Value) {
    let s = b.as_slice2();
    let rows: Vec<Vec<i32>> = s.rows().map(|r| r.to_vec()).collect();
    (json!([b.width(), b.height()]), json!(rows))
}

pub fn exec(case: &Value) -> Value {
    let mut e = case.clone();
    let d = |k: &str, i: usize| case[k][i].as_u64().unwrap() as u32;
    let r = guard(|| {
        let src = Buf2::new_from((d("src", 0), d("src", 1)), 1..);
        let mut dst = Buf2::new_from((d("dst", 0), d("dst", 1)), 1000..);
        dst.clone_from(&src);
        let cl = src.clone();
        // the copy is a buffer of its own: writing to it leaves the source alone
        let mut cl2 = src.clone();
        if cl2.width() > 0 && cl2.height() > 0 {
            cl2[[0, 0]] = -7;
        }
        (obs(&src), obs(&dst), obs(&cl), obs(&src))
    });
    let o = e.as_object_mut().unwrap();
    match r {
        Some((s, dd, c, s2)) => {
            o.insert("sdims".into(), s.0); o.insert("srows".into(), s.1);
            o.insert("ddims".into(), dd.0); o.insert("drows".into(), dd.1);
            o.insert("cdims".into(), c.0); o.insert("crows".into(), c.1);
            o.insert("s2rows".into(), s2.1);
            o.insert("panic".into(), json!(0));
        }
        None => {
            for k in ["sdims", "ddims", "cdims"] { o.insert(k.into(), json!([0, 0])); }
            for k in ["srows", "drows", "crows", "s2rows"] { o.insert(k.into(), json!([])); }
            o.insert("panic".into(), json!(1));
        }
    }
    e
}

pub fn gen(_args: &Args, out: &mut dyn Write) {
    let mut k = 0;
    for sw in 0..=4u32 { for sh in 0..=3u32 { for dw in 0..=4u32 { for dh in 0..=3u32 {
        // (constructors may reject a zero dimension paired with a non-zero one: skipped)
        if (sw == 0) != (sh == 0) || (dw == 0) != (dh == 0) { continue; }
        writeln!(out, "{}", json!({"k": format!("cf{k}"), "src": [sw, sh], "dst": [dw, dh]})).unwrap();
        k += 1;
    }}}}
}
