//! C09 driver: rebuilds each path of the transform monoid with the real
//! constructors and compose / then, and records the matrix, probe images,
//! determinant, inverse and transpose (scaled by 1024).

use crate::util::*;
use crate::Args;
use re::math::angle::{degs, rads};
use re::math::mat::{orient_y, orient_z, rotate_x, rotate_y, rotate_z, scale, translate, Mat4x4, RealToReal};
use re::math::point::pt3;
use re::math::vec::{splat, vec3};
use serde_json::{json, Value};
use std::io::Write;

type M4 = Mat4x4<RealToReal<3>>;
const SC: f64 = 1024.0;

fn gen_mat(g: i64) -> M4 {
    let k = |s: f32, m: M4| -> M4 { scale(splat(s)).compose(&m) };
    match g {
        1 => translate(vec3(1.0, -2.0, 3.0)),
        2 => translate(vec3(-3.0, 0.0, 2.0)),
        3 => scale(vec3(2.0, -1.0, 3.0)),
        4 => scale(vec3(1.0, 4.0, -1.0)),
        5 => rotate_x(degs(90.0)),
        6 => rotate_y(degs(90.0)),
        7 => rotate_z(degs(90.0)),
        8 => rotate_z(degs(180.0)),
        9 => k(5.0, rotate_z(rads(4.0f32.atan2(3.0)))),
        10 => k(13.0, rotate_x(rads(5.0f32.atan2(12.0)))),
        11 => k(5.0, rotate_y(rads((-3.0f32).atan2(4.0)))),
        12 => M4::from_basis(vec3(1.0, 0.0, 0.0), vec3(1.0, 1.0, 0.0), vec3(0.0, 2.0, 1.0)),
        13 => k(5.0, orient_y(vec3(0.6, 0.8, 0.0), vec3(0.0, 0.0, 1.0))),
        14 => k(5.0, orient_z(vec3(0.0, 0.6, 0.8), vec3(1.0, 0.0, 0.0))),
        // reference directions that are not perpendicular to the new axis
        15 => k(5.0, orient_y(vec3(0.6, 0.8, 0.0), vec3(1.0, 0.0, 0.0))),
        16 => k(5.0, orient_z(vec3(0.0, 0.6, 0.8), vec3(0.0, 1.0, 0.0))),
        // negative and more-than-full multiples of a quarter turn
        17 => rotate_x(degs(-270.0)),
        18 => rotate_y(degs(-180.0)),
        19 => rotate_z(degs(-540.0)),
        _ => k(5.0, M4::from_basis(vec3(1.0, 0.0, 0.0), vec3(0.0, 1.0, 0.0), vec3(0.6, 0.0, 0.8))),
    }
}

fn s(x: f32) -> i64 {
    let v = (x as f64 * SC).round();
    if v.is_finite() { v.clamp(-2e9, 2e9) as i64 } else { 2_000_000_000 }
}
fn rows(m: &M4) -> Vec<Vec<i64>> {
    (0..3).map(|i| (0..4).map(|j| s(m.0[i][j])).collect()).collect()
}

fn exec_bigrot(case: &Value) -> Value {
    const QS: f64 = 16384.0;
    let q = |x: f32| -> i64 { let v = (x as f64 * QS).round(); if v.is_finite() { v.clamp(-2e9, 2e9) as i64 } else { 2_000_000_000 } };
    let mut e = case.clone();
    let r = guard(|| {
        // (the angle in degrees, or - "rad": 1 - in radians)
        let a = if case.get("rad").and_then(|v| v.as_i64()).unwrap_or(0) == 1 { re::math::angle::rads(gi(case, "deg") as f32) } else { degs(gi(case, "deg") as f32) };
        let m: M4 = match gs(case, "axis") { "x" => rotate_x(a), "y" => rotate_y(a), _ => rotate_z(a) };
        // sine and cosine of the very same Angle value
        let (sn, cs) = a.sin_cos();
        let tr = m.transpose();
        let prod = m.compose(&tr.to());
        let inv = m.inverse();
        let m3 = |m: &M4| -> Vec<Vec<i64>> { (0..3).map(|i| (0..3).map(|j| q(m.0[i][j])).collect()).collect() };
        json!({"m": m3(&m), "s": q(sn), "c": q(cs), "q": m3(&prod), "det": q(m.determinant()), "inv": m3(&inv.to()), "tr": (0..3).map(|i| (0..3).map(|j| q(tr.0[i][j])).collect::<Vec<_>>()).collect::<Vec<_>>()})
    });
    let o = e.as_object_mut().unwrap();
    match r {
        Some(v) => {
            for (k, x) in v.as_object().unwrap() {
                o.insert(k.clone(), x.clone());
            }
            o.insert("panic".into(), json!(0));
        }
        None => {
            let z = json!([[0, 0, 0], [0, 0, 0], [0, 0, 0]]);
            o.insert("s".into(), json!(0));
            o.insert("c".into(), json!(0));
            for k in ["m", "q", "inv", "tr"] {
                o.insert(k.into(), z.clone());
            }
            o.insert("det".into(), json!(0));
            o.insert("panic".into(), json!(1));
        }
    }
    e
}

/// orient_y / orient_z on lattice vectors at independent power-of-two scales: the axis A * 2^-g,
/// the reference direction X * 2^-h (X possibly all but parallel to A: 1000 A + d).
fn exec_orient(case: &Value) -> Value {
    const QS: f64 = 16384.0;
    let mut e = case.clone();
    let iv = |k: &str| -> Vec<f32> { case[k].as_array().unwrap().iter().map(|x| x.as_i64().unwrap() as f32).collect() };
    let (a, x) = (iv("A"), iv("X"));
    let (g, h) = (gi(case, "g") as i32, gi(case, "h") as i32);
    let (ka, kx) = (2f32.powi(-g), 2f32.powi(-h));
    let r = guard(|| {
        let av = vec3(a[0] * ka, a[1] * ka, a[2] * ka);
        let xv = vec3(x[0] * kx, x[1] * kx, x[2] * kx);
        let m: M4 = if gs(case, "which") == "y" { orient_y(av, xv) } else { orient_z(av, xv) };
        let col = |c: usize, k: f64| -> Vec<i64> { (0..3).map(|r| { let v = (m.0[r][c] as f64 * k).round(); if v.is_finite() { v.clamp(-2e9, 2e9) as i64 } else { 2_000_000_000 } }).collect() };
        let back = 2f64.powi(g) * 1024.0;
        // main: the column of the given axis; ucol: the derived unit axis; tcol: the third one (new_x)
        let (main, ucol) = if gs(case, "which") == "y" { (col(1, back), col(2, QS)) } else { (col(2, back), col(1, QS)) };
        json!({"main": main, "ucol": ucol, "tcol": col(0, back), "last": (0..4).map(|j| (m.0[3][j] as f64 * 1024.0).round() as i64).collect::<Vec<_>>(),
               "tl": (0..3).map(|r| (m.0[r][3] as f64 * 1024.0).round() as i64).collect::<Vec<_>>()})
    });
    let o = e.as_object_mut().unwrap();
    match r {
        Some(v) => {
            for (k, x) in v.as_object().unwrap() {
                o.insert(k.clone(), x.clone());
            }
            o.insert("panic".into(), json!(0));
        }
        None => {
            for k in ["main", "ucol", "tcol", "tl"] {
                o.insert(k.into(), json!([0, 0, 0]));
            }
            o.insert("last".into(), json!([0, 0, 0, 0]));
            o.insert("panic".into(), json!(1));
        }
    }
    e
}

/// 3x3 matrices (affine maps of the plane) with small integer entries: images of a point and - for the
/// matrices without translation - of a vector, and both compositions with a second matrix.
fn exec_m3(case: &Value) -> Value {
    use re::math::mat::Mat3x3;
    use re::math::point::pt2;
    use re::math::vec::vec2;
    type M3 = Mat3x3<RealToReal<2>>;
    let mut e = case.clone();
    let mk = |v: &Value| -> M3 {
        let g = |i: usize, j: usize| v[i][j].as_i64().unwrap() as f32;
        Mat3x3::new([[g(0, 0), g(0, 1), g(0, 2)], [g(1, 0), g(1, 1), g(1, 2)], [0.0, 0.0, 1.0]])
    };
    let p = (case["p"][0].as_i64().unwrap() as f32, case["p"][1].as_i64().unwrap() as f32);
    let r = guard(|| {
        let (m, n) = (mk(&case["M"]), mk(&case["N"]));
        let ap = m.apply_pt(&pt2(p.0, p.1));
        let av = m.apply(&vec2(p.0, p.1));
        let mn = m.compose(&n);
        let nm = m.then(&n);
        let rows = |x: &M3| -> Vec<Vec<i64>> { (0..3).map(|i| (0..3).map(|j| s(x.0[i][j])).collect()).collect() };
        let q = mn.apply_pt(&pt2(p.0, p.1));
        let mnp = [s(q.x()), s(q.y())];
        json!({"ap": [s(ap.x()), s(ap.y())], "av": [s(av.x()), s(av.y())], "mn": rows(&mn), "nm": rows(&nm), "mnp": mnp})
    });
    let o = e.as_object_mut().unwrap();
    match r {
        Some(v) => {
            for (k, x) in v.as_object().unwrap() {
                o.insert(k.clone(), x.clone());
            }
            o.insert("panic".into(), json!(0));
        }
        None => {
            for k in ["ap", "av", "mnp"] {
                o.insert(k.into(), json!([0, 0]));
            }
            for k in ["mn", "nm"] {
                o.insert(k.into(), json!([[0, 0, 0], [0, 0, 0], [0, 0, 0]]));
            }
            o.insert("panic".into(), json!(1));
        }
    }
    e
}

pub fn exec(case: &Value) -> Value {
    if case.get("op").and_then(|v| v.as_str()) == Some("m3") {
        return exec_m3(case);
    }
    if case.get("op").and_then(|v| v.as_str()) == Some("bigrot") {
        return exec_bigrot(case);
    }
    if case.get("op").and_then(|v| v.as_str()) == Some("orient") {
        return exec_orient(case);
    }
    let path = case["path"].as_array().unwrap();
    let mut e = case.clone();
    let r = guard(|| {
        let mut m = M4::identity();
        let mut m2 = M4::identity();
        for st in path {
            let g = gen_mat(st[0].as_i64().unwrap());
            if st[1].as_str().unwrap() == "L" {
                m = g.compose(&m); // first m, then g
                m2 = m2.then(&g);
            } else {
                m = m.compose(&g); // first g, then m
                m2 = g.then(&m2);
            }
        }
        // a uniform change of unit: everything shrunk by 2^-gs (exact), so that the determinant
        // gets small although the transform is as well conditioned as before; observations
        // are scaled back (exactly) to the integers of the specification
        let gs = case.get("gs").and_then(|v| v.as_i64()).unwrap_or(0) as i32;
        // gd: a further division by a small integer (5: undoes the hypotenuse folded into the Pythagorean
        // generators, so that the matrix handed to inverse() has unit-length columns again)
        let gd = case.get("gd").and_then(|v| v.as_i64()).unwrap_or(1) as f32;
        let u = 2f32.powi(gs) * gd;
        if gs != 0 || gd != 1.0 {
            let shrink: M4 = scale(splat(1.0 / u));
            m = shrink.compose(&m);
            m2 = m2.then(&shrink);
        }
        let s = |x: f32| s(x * u);
        let rows = |m: &M4| -> Vec<Vec<i64>> { (0..3).map(|i| (0..4).map(|j| s(m.0[i][j])).collect()).collect() };
        let probes = [[1.0f32, 0.0, 0.0], [0.0, 1.0, 0.0], [0.0, 0.0, 1.0], [2.0, -3.0, 1.0]];
        let pts: Vec<Vec<i64>> = probes.iter().map(|p| { let q = m.apply_pt(&pt3(p[0], p[1], p[2])); vec![s(q.x()), s(q.y()), s(q.z())] }).collect();
        let vecs: Vec<Vec<i64>> = probes.iter().map(|p| { let q = m.apply(&vec3(p[0], p[1], p[2])); vec![s(q.x()), s(q.y()), s(q.z())] }).collect();
        let hasdet = path.len() <= 2;
        let isrot = path.iter().all(|st| { let g = st[0].as_i64().unwrap(); (5..=8).contains(&g) || (17..=19).contains(&g) });
        let mut o = json!({"m": rows(&m), "m2": rows(&m2), "pts": pts, "vecs": vecs, "hasdet": hasdet as u8, "isrot": isrot as u8});
        if hasdet || isrot {
            let inv = m.inverse();
            let det = m.determinant();
            o["det"] = json!((det as f64 * (u as f64).powi(3)).round().clamp(-2e9, 2e9) as i64);
            // inverse of the shrunk map: linear part grown by 2^gs, translation column unchanged
            let s0 = |x: f32| self::s(x);
            o["inv"] = json!((0..3).map(|i| (0..4).map(|j| if j < 3 { s0(inv.0[i][j] / u) } else { s0(inv.0[i][j]) }).collect::<Vec<_>>()).collect::<Vec<_>>());
            let unscaled = |m: &M4| -> Vec<Vec<i64>> { (0..3).map(|i| (0..4).map(|j| s0(m.0[i][j])).collect()).collect() };
            o["invm"] = json!(unscaled(&inv.compose(&m)));
            // (the translation column of m o inv lives in the units of m's target space: scaled back like m's)
            let mi = m.compose(&inv);
            o["minv"] = json!((0..3).map(|i| (0..4).map(|j| if j < 3 { s0(mi.0[i][j]) } else { s0(mi.0[i][j] * u) }).collect::<Vec<_>>()).collect::<Vec<_>>());
            let tr = m.transpose();
            o["tr"] = json!((0..3).map(|i| (0..3).map(|j| s(tr.0[i][j])).collect::<Vec<_>>()).collect::<Vec<_>>());
        }
        o
    });
    let o = e.as_object_mut().unwrap();
    match r {
        Some(v) => {
            for (k, x) in v.as_object().unwrap() {
                o.insert(k.clone(), x.clone());
            }
            o.insert("panic".into(), json!(0));
        }
        None => {
            let z = json!([[0, 0, 0, 0], [0, 0, 0, 0], [0, 0, 0, 0]]);
            for k in ["m", "m2", "inv", "invm", "minv"] {
                o.insert(k.into(), z.clone());
            }
            o.insert("pts".into(), json!([[0, 0, 0], [0, 0, 0], [0, 0, 0], [0, 0, 0]]));
            o.insert("vecs".into(), json!([[0, 0, 0], [0, 0, 0], [0, 0, 0], [0, 0, 0]]));
            o.insert("tr".into(), json!([[0, 0, 0], [0, 0, 0], [0, 0, 0]]));
            o.insert("det".into(), json!(0));
            o.insert("hasdet".into(), json!(0));
            o.insert("isrot".into(), json!(0));
            o.insert("panic".into(), json!(1));
        }
    }
    e
}

pub fn gen(args: &Args, out: &mut dyn Write) {
    // random longer paths (the exhaustive short ones are exported by TLC)
    let n = args.n.unwrap_or(if args.tier == "thorough" { 20000 } else { 2000 });
    let mut rng = Rng::new(args.seed ^ 0xF0A);
    // rotations by thousands of turns (only that they ARE rotations is judged)
    for (j, deg) in [470_000i64, 1_000_000, -2_500_000, 720_090, 16_000_000, -3_000_017, 5_243_000, 9_999_999].iter().enumerate() {
        for axis in ["x", "y", "z"] {
            writeln!(out, "{}", json!({"k": format!("b{}-{}{}", args.seed, j, axis), "op": "bigrot", "axis": axis, "deg": deg, "path": []})).unwrap();
        }
    }
    for (j, rad) in [1000i64, -10_000, 100_000, 31_416, 2_000_000, -777].iter().enumerate() {
        for axis in ["x", "y", "z"] {
            writeln!(out, "{}", json!({"k": format!("br{}-{}{}", args.seed, j, axis), "op": "bigrot", "axis": axis, "deg": rad, "rad": 1, "path": []})).unwrap();
        }
    }
    // 3x3: rotations by quarter turns and Pythagorean angles (times the hypotenuse), shears, scalings, with
    // and without a translation
    for i in 0..(if args.tier == "thorough" { 20_000 } else { 800 }) {
        let mut m3 = |rng: &mut Rng| -> Vec<Vec<i64>> {
            let lin: [[i64; 2]; 2] = match rng.below(6) {
                0 => [[0, -1], [1, 0]],
                1 => [[3, -4], [4, 3]],
                2 => [[1, rng.range(-3, 3)], [0, 1]],
                3 => [[rng.range(-3, 3), 0], [0, rng.range(1, 4)]],
                4 => [[5, 12], [-12, 5]],
                _ => [[rng.range(-4, 4), rng.range(-4, 4)], [rng.range(-4, 4), rng.range(-4, 4)]],
            };
            let t = if rng.chance(1, 3) { [0, 0] } else { [rng.range(-5, 5), rng.range(-5, 5)] };
            vec![vec![lin[0][0], lin[0][1], t[0]], vec![lin[1][0], lin[1][1], t[1]]]
        };
        let (m, n) = (m3(&mut rng), m3(&mut rng));
        writeln!(out, "{}", json!({"k": format!("t{}-{}", args.seed, i), "op": "m3", "M": m, "N": n, "p": [rng.range(-6, 6), rng.range(-6, 6)], "path": []})).unwrap();
    }
    // orient_y / orient_z: every direction of a small lattice as the axis, the reference direction anywhere
    // but along it (also within a fraction of a degree of it), both at scales from 2^-9 to 2^9
    for i in 0..(if args.tier == "thorough" { 40_000 } else { 1_500 }) {
        let a = [rng.range(-9, 9), rng.range(-9, 9), rng.range(-9, 9)];
        let d = [rng.range(-9, 9), rng.range(-9, 9), rng.range(-9, 9)];
        let cr = [d[1] * a[2] - d[2] * a[1], d[2] * a[0] - d[0] * a[2], d[0] * a[1] - d[1] * a[0]];
        if cr == [0, 0, 0] {
            continue;
        }
        let x = if i % 3 == 0 { let k = *rng.pick(&[1000i64, -1000, 300]); [k * a[0] + d[0], k * a[1] + d[1], k * a[2] + d[2]] } else { d };
        writeln!(out, "{}", json!({"k": format!("o{}-{}", args.seed, i), "op": "orient", "which": if i % 2 == 0 { "y" } else { "z" },
                                   "A": a, "X": x, "g": rng.range(-9, 9), "h": rng.range(-9, 9), "path": []})).unwrap();
    }
    for i in 0..n {
        let len = rng.range(1, 3);
        let rot = i % 5 == 0;
        let path: Vec<Value> = (0..len)
            .map(|_| json!([if rot { *rng.pick(&[5i64, 6, 7, 8, 17, 18, 19]) } else { rng.range(1, 20) }, if rng.chance(1, 2) { "L" } else { "R" }]))
            .collect();
        writeln!(out, "{}", json!({"k": format!("m{}-{}", args.seed, i), "path": path, "gs": if i % 3 == 2 { 7 } else if i % 3 == 1 && i % 2 == 0 { -25 } else { 0 }})).unwrap();
    }
}
