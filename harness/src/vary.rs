//! Growth (DESIGN §8): the Vary stepping iterators on lattice values.

use crate::util::*;
use crate::Args;
use re::math::color::{rgb, Color3f};
use re::math::vary::Vary;
use re::math::vec::{vec2, Vec2};
use serde_json::{json, Value};
use std::io::Write;

fn s(x: f32) -> i64 {
    let v = (x as f64 * 1024.0).round();
    if v.is_finite() { v.clamp(-2e9, 2e9) as i64 } else { 2_000_000_000 }
}
trait C: Vary {
    fn make(c: &[f32]) -> Self;
    fn comps(&self) -> Vec<f32>;
    fn dmake(c: &[f32]) -> Self::Diff;
    fn dcomps(d: &Self::Diff) -> Vec<f32>;
}
impl C for f32 {
    fn make(c: &[f32]) -> Self { c[0] }
    fn comps(&self) -> Vec<f32> { vec![*self] }
    fn dmake(c: &[f32]) -> f32 { c[0] }
    fn dcomps(d: &f32) -> Vec<f32> { vec![*d] }
}
impl C for Vec2 {
    fn make(c: &[f32]) -> Self { vec2(c[0], c[1]) }
    fn comps(&self) -> Vec<f32> { vec![self.x(), self.y()] }
    fn dmake(c: &[f32]) -> Vec2 { vec2(c[0], c[1]) }
    fn dcomps(d: &Vec2) -> Vec<f32> { vec![d.x(), d.y()] }
}
impl C for Color3f {
    fn make(c: &[f32]) -> Self { rgb(c[0], c[1], c[2]) }
    fn comps(&self) -> Vec<f32> { vec![self.r(), self.g(), self.b()] }
    fn dmake(c: &[f32]) -> Color3f { rgb(c[0], c[1], c[2]) }
    fn dcomps(d: &Color3f) -> Vec<f32> { vec![d.r(), d.g(), d.b()] }
}
impl C for (f32, Vec2) {
    fn make(c: &[f32]) -> Self { (c[0], vec2(c[1], c[2])) }
    fn comps(&self) -> Vec<f32> { vec![self.0, self.1.x(), self.1.y()] }
    fn dmake(c: &[f32]) -> (f32, Vec2) { (c[0], vec2(c[1], c[2])) }
    fn dcomps(d: &(f32, Vec2)) -> Vec<f32> { vec![d.0, d.1.x(), d.1.y()] }
}

fn fl(v: &Value) -> Vec<f32> {
    v.as_array().unwrap().iter().map(|x| x.as_i64().unwrap() as f32).collect()
}

fn run<T: C>(case: &Value) -> Option<Vec<(&'static str, Value)>> {
    guard(|| {
        let from = T::make(&fl(&case["from"]));
        match gs(case, "op") {
            "vary" => {
                let step = T::dmake(&fl(&case["step"]));
                let max = gi(case, "max");
                let it = from.vary(step, if max < 0 { None } else { Some(max as u32) });
                let out: Vec<Vec<i64>> = it.take(gi(case, "take") as usize).map(|v| v.comps().iter().map(|x| s(*x)).collect()).collect();
                vec![("out", json!(out))]
            }
            "skip" => {
                let step = T::dmake(&fl(&case["step"]));
                let max = gi(case, "max");
                let mut it = from.vary(step, if max < 0 { None } else { Some(max as u32) });
                let (kn, take) = (gi(case, "kn") as usize, gi(case, "take") as usize);
                let conv = |v: T| -> Vec<i64> { v.comps().iter().map(|x| s(*x)).collect() };
                let out: Vec<Vec<i64>> = match gs(case, "how") {
                    "nth" => {
                        // nth(kn), then keep iterating the same iterator
                        let mut o: Vec<Vec<i64>> = it.nth(kn).into_iter().map(conv).collect();
                        if !o.is_empty() {
                            o.extend(it.take(take - 1).map(conv));
                        }
                        o
                    }
                    "skip" => it.skip(kn).take(take).map(conv).collect(),
                    _ => it.step_by(kn).take(take).map(conv).collect(),
                };
                vec![("out", json!(out))]
            }
            "vary_to" => {
                let to = T::make(&fl(&case["to"]));
                let out: Vec<Vec<i64>> = from.vary_to(to, gi(case, "n") as u32).take(10_000).map(|v| v.comps().iter().map(|x| s(*x)).collect()).collect();
                vec![("out", json!(out))]
            }
            _ => {
                let to = T::make(&fl(&case["to"]));
                let d = from.dv_dt(&to, gi(case, "rn") as f32);
                vec![("res", json!(T::dcomps(&d).iter().map(|x| s(*x)).collect::<Vec<_>>()))]
            }
        }
    })
}

pub fn exec(case: &Value) -> Value {
    let r = match gs(case, "ty") {
        "vec2" => run::<Vec2>(case),
        "col3" => run::<Color3f>(case),
        "tup" => run::<(f32, Vec2)>(case),
        _ => run::<f32>(case),
    };
    let mut e = case.clone();
    let o = e.as_object_mut().unwrap();
    match r {
        Some(fields) => {
            for (k, v) in fields {
                o.insert(k.into(), v);
            }
            o.insert("panic".into(), json!(0));
        }
        None => {
            o.insert("out".into(), json!([]));
            o.insert("res".into(), json!([0, 0, 0]));
            o.insert("panic".into(), json!(1));
        }
    }
    e
}

pub fn gen(args: &Args, out: &mut dyn Write) {
    let n = args.n.unwrap_or(if args.tier == "thorough" { 30_000 } else { 3_000 });
    let mut rng = Rng::new(args.seed ^ 0x7A27);
    let tys = [("f32", 1usize), ("vec2", 2), ("col3", 3), ("tup", 3)];
    for i in 0..n {
        let (ty, nc) = tys[i % tys.len()];
        let v = |rng: &mut Rng, lim: i64| -> Vec<i64> { (0..nc).map(|_| rng.range(-lim, lim)).collect() };
        let key = format!("v{}-{}", args.seed, i);
        if i % 7 == 6 {
            let how = ["nth", "skip", "step_by"][(i / 7) % 3];
            writeln!(out, "{}", json!({"k": key, "op": "skip", "ty": ty, "from": v(&mut rng, 50), "step": v(&mut rng, 5),
                                         "max": *rng.pick(&[-1i64, 0, 1, 3, 10, 40]), "how": how,
                                         "kn": rng.range(if how == "step_by" { 1 } else { 0 }, 5), "take": rng.range(1, 8)})).unwrap();
            continue;
        }
        match i % 3 {
            0 => writeln!(out, "{}", json!({"k": key, "op": "vary", "ty": ty, "from": v(&mut rng, 50), "step": v(&mut rng, 5),
                                             "max": *rng.pick(&[-1i64, 0, 1, 3, 10, 40]), "take": rng.range(0, 30)})).unwrap(),
            1 => writeln!(out, "{}", json!({"k": key, "op": "vary_to", "ty": ty, "from": v(&mut rng, 50), "to": v(&mut rng, 50),
                                             "n": *rng.pick(&[1i64, 2, 3, 4, 7, 8, 16, 33])})).unwrap(),
            _ => writeln!(out, "{}", json!({"k": key, "op": "dvdt", "ty": ty, "from": v(&mut rng, 50), "to": v(&mut rng, 50), "rn": rng.range(1, 8)})).unwrap(),
        }
    }
}
