//! C11 driver: replays call histories on the real Buf2 / Slice2 / MutSlice2
//! and records every result.  Nested views are driven recursively so that
//! Rust's borrow rules hold; every call is individually guarded so that a
//! panic is an observation, not a crash.

use crate::util::*;
use crate::Args;
use re::math::vec2;
use re::util::buf::{inner::Inner, Buf2, MutSlice2, Slice2};
use re::util::rect::Rect;
use serde_json::{json, Value};
use std::io::Write;
use std::ops::{Deref, DerefMut};

const BAD: i32 = -999_999;

enum Flow {
    Pop,
    End,
}

struct Ctx<'a> {
    calls: &'a [Value],
    pos: usize,
    out: Vec<Value>,
}

impl<'a> Ctx<'a> {
    fn next(&mut self) -> Option<&'a Value> {
        let c = self.calls.get(self.pos);
        self.pos += 1;
        c
    }
    fn emit(&mut self, call: &Value, res: Value, view: Value) {
        let mut e = call.clone();
        let o = e.as_object_mut().unwrap();
        o.insert("res".into(), res);
        o.insert("view".into(), view);
        self.out.push(e);
    }
}

fn ok() -> Value {
    json!(["ok", 0])
}
fn panic_() -> Value {
    json!(["panic", 0])
}
fn none() -> Value {
    json!(["none", 0])
}

fn view_of<D: Deref<Target = [i32]>>(v: &Inner<i32, D>) -> Value {
    let (w, h) = (v.width(), v.height());
    let rows: Vec<Value> = (0..h)
        .map(|y| {
            let row: Vec<i32> = (0..w)
                .map(|x| guard(|| v.get([x, y]).copied()).flatten().unwrap_or(BAD))
                .collect();
            json!(row)
        })
        .collect();
    json!(rows)
}

fn rect_v<H: std::ops::RangeBounds<u32>>(h: H, vf: &str, a: u32, b: u32) -> Rect {
    match vf {
        "rg" => (h, a..b).into(),
        "ri" => (h, a..=b).into(),
        "to" => (h, ..b).into(),
        "toi" => (h, ..=b).into(),
        "from" => (h, a..).into(),
        // a pair of explicit bounds with an EXCLUDED start: the cells a+1 .. b-1
        "ex" => (h, (std::ops::Bound::Excluded(a), std::ops::Bound::Excluded(b))).into(),
        _ => (h, ..).into(),
    }
}

fn rect_of(r: &Value) -> Rect {
    let a = r.as_array().expect("rect");
    let u = |i: usize| a[i].as_i64().unwrap() as u32;
    match a[0].as_str().unwrap() {
        "pair" => {
            let (hf, ha, hb) = (a[1].as_str().unwrap(), u(2), u(3));
            let (vf, va, vb) = (a[4].as_str().unwrap(), u(5), u(6));
            match hf {
                "rg" => rect_v(ha..hb, vf, va, vb),
                "ri" => rect_v(ha..=hb, vf, va, vb),
                "to" => rect_v(..hb, vf, va, vb),
                "toi" => rect_v(..=hb, vf, va, vb),
                "from" => rect_v(ha.., vf, va, vb),
                "ex" => rect_v((std::ops::Bound::Excluded(ha), std::ops::Bound::Excluded(hb)), vf, va, vb),
                _ => rect_v(.., vf, va, vb),
            }
        }
        "vec" => (vec2(u(1), u(2))..vec2(u(3), u(4))).into(),
        _ => (..).into(),
    }
}

/// Read-only operations; returns None if `op` is not one of them.
fn read_op<D: Deref<Target = [i32]>>(v: &Inner<i32, D>, c: &Value) -> Option<Value> {
    let op = gs(c, "op");
    Some(match op {
        "dims" => {
            let (w, h) = v.dims();
            if (w, h) == (v.width(), v.height()) {
                json!(["dims", [w, h, v.stride()]])
            } else {
                json!(["dims", [-1, -1, -1]])
            }
        }
        "is_empty" => json!(["val", v.is_empty() as i32]),
        "get" => match guard(|| v.get([gu(c, "x"), gu(c, "y")]).copied()) {
            Some(Some(x)) => json!(["val", x]),
            Some(None) => none(),
            None => panic_(),
        },
        "idx" => match guard(|| v[[gu(c, "x"), gu(c, "y")]]) {
            Some(x) => json!(["val", x]),
            None => panic_(),
        },
        "row" => match guard(|| v[gu(c, "y") as usize].to_vec()) {
            Some(r) => json!(["row", r]),
            None => panic_(),
        },
        "rows" => match guard(|| v.rows().map(|r| r.to_vec()).collect::<Vec<_>>()) {
            Some(r) => json!(["rows", r]),
            None => panic_(),
        },
        "iter" => match guard(|| v.iter().copied().collect::<Vec<_>>()) {
            Some(r) => json!(["iter", r]),
            None => panic_(),
        },
        _ => return None,
    })
}

fn drive<D: Deref<Target = [i32]>>(v: &Inner<i32, D>, cx: &mut Ctx, depth: usize) -> Flow {
    while let Some(c) = cx.next() {
        let op = gs(c, "op");
        if let Some(res) = read_op(v, c) {
            cx.emit(c, res, view_of(v));
            continue;
        }
        match op {
            "pop" => {
                if depth > 1 {
                    return Flow::Pop;
                }
            }
            "slice" | "reborrow" if gi(c, "mut") == 0 => {
                let child = if op == "slice" {
                    let rect = rect_of(&c["rect"]);
                    guard(|| v.slice(rect))
                } else {
                    guard(|| v.as_slice2())
                };
                match child {
                    Some(ch) => {
                        cx.emit(c, ok(), view_of(&*ch));
                        match drive(&*ch, cx, depth + 1) {
                            Flow::Pop => cx.emit(&json!({"op": "pop"}), ok(), view_of(v)),
                            Flow::End => return Flow::End,
                        }
                    }
                    None => cx.emit(c, panic_(), view_of(v)),
                }
            }
            // anything else needs a mutable view or a constructor: skipped
            _ => {}
        }
    }
    Flow::End
}

fn drive_mut<D: DerefMut<Target = [i32]>>(
    v: &mut Inner<i32, D>,
    cx: &mut Ctx,
    depth: usize,
) -> Flow {
    while let Some(c) = cx.next() {
        let op = gs(c, "op");
        if let Some(res) = read_op(&*v, c) {
            cx.emit(c, res, view_of(&*v));
            continue;
        }
        let res = match op {
            "pop" => {
                if depth > 1 {
                    return Flow::Pop;
                }
                continue;
            }
            "get_mut" => {
                let (x, y, val) = (gu(c, "x"), gu(c, "y"), gi(c, "val") as i32);
                match guard(|| match v.get_mut([x, y]) {
                    Some(p) => {
                        *p = val;
                        true
                    }
                    None => false,
                }) {
                    Some(true) => ok(),
                    Some(false) => none(),
                    None => panic_(),
                }
            }
            "idx_set" => {
                let (x, y, val) = (gu(c, "x"), gu(c, "y"), gi(c, "val") as i32);
                guard(|| v[[x, y]] = val).map_or(panic_(), |_| ok())
            }
            "row_set" => {
                let (x, y, val) = (gu(c, "x"), gu(c, "y"), gi(c, "val") as i32);
                guard(|| v[y as usize][x as usize] = val).map_or(panic_(), |_| ok())
            }
            "fill" => {
                let val = gi(c, "val") as i32;
                guard(|| v.fill(val)).map_or(panic_(), |_| ok())
            }
            "fill_with" => {
                let base = gi(c, "base") as i32;
                guard(|| v.fill_with(|x, y| base + 10 * y as i32 + x as i32))
                    .map_or(panic_(), |_| ok())
            }
            "rows_mut" => {
                let add = gi(c, "add") as i32;
                match guard(|| {
                    let mut seen = vec![];
                    for row in v.rows_mut() {
                        seen.push(row.to_vec());
                        for cell in row.iter_mut() {
                            *cell += add;
                        }
                    }
                    seen
                }) {
                    Some(r) => json!(["rows", r]),
                    None => panic_(),
                }
            }
            "iter_mut" => {
                let add = gi(c, "add") as i32;
                match guard(|| {
                    let mut seen = vec![];
                    for cell in v.iter_mut() {
                        seen.push(*cell);
                        *cell += add;
                    }
                    seen
                }) {
                    Some(r) => json!(["iter", r]),
                    None => panic_(),
                }
            }
            "copy_from" => {
                let (sw, sh, ss) = (gu(c, "sw"), gu(c, "sh"), gu(c, "sstride"));
                let base = gi(c, "base") as i32;
                let len = ((sh + 1) * (ss + 1) + sw) as usize;
                let data: Vec<i32> = (0..len as i32).map(|i| base + i).collect();
                if ss == sw && sw > 0 && sh > 0 && base % 2 == 0 {
                    // an owned source buffer (by reference)
                    let src = Buf2::new_from((sw, sh), data.iter().copied());
                    guard(|| v.copy_from(&src)).map_or(panic_(), |_| ok())
                } else {
                    let src = Slice2::new((sw, sh), ss, &data);
                    guard(|| v.copy_from(src)).map_or(panic_(), |_| ok())
                }
            }
            "slice" | "reborrow" => {
                let m = gi(c, "mut") == 1;
                if m {
                    let child = if op == "slice" {
                        let rect = rect_of(&c["rect"]);
                        guard(|| v.slice_mut(rect))
                    } else {
                        guard(|| v.as_mut_slice2())
                    };
                    match child {
                        Some(mut ch) => {
                            cx.emit(c, ok(), view_of(&*ch));
                            match drive_mut(&mut *ch, cx, depth + 1) {
                                Flow::Pop => {}
                                Flow::End => return Flow::End,
                            }
                        }
                        None => {
                            cx.emit(c, panic_(), view_of(&*v));
                            continue;
                        }
                    }
                } else {
                    let child = if op == "slice" {
                        let rect = rect_of(&c["rect"]);
                        guard(|| v.slice(rect))
                    } else {
                        guard(|| v.as_slice2())
                    };
                    match child {
                        Some(ch) => {
                            cx.emit(c, ok(), view_of(&*ch));
                            match drive(&*ch, cx, depth + 1) {
                                Flow::Pop => {}
                                Flow::End => return Flow::End,
                            }
                        }
                        None => {
                            cx.emit(c, panic_(), view_of(&*v));
                            continue;
                        }
                    }
                }
                cx.emit(&json!({"op": "pop"}), ok(), view_of(&*v));
                continue;
            }
            _ => continue, // constructors while a buffer exists: skipped
        };
        cx.emit(c, res, view_of(&*v));
    }
    Flow::End
}

pub fn exec(case: &Value) -> Value {
    let calls = case["calls"].as_array().expect("calls");
    let mut cx = Ctx { calls, pos: 0, out: vec![] };
    let mut root: Vec<i32> = vec![];
    while let Some(c) = cx.next() {
        let op = gs(c, "op");
        match op {
            "new" | "new_from" | "new_with" => {
                let (w, h) = (gu(c, "w"), gu(c, "h"));
                let b = match op {
                    "new" => guard(|| Buf2::<i32>::new((w, h))),
                    "new_with" => guard(|| Buf2::new_with((w, h), |x, y| (10 * y + x) as i32)),
                    _ => {
                        let n = gi(c, "n") as i32;
                        guard(|| Buf2::new_from((w, h), 1..=n))
                    }
                };
                match b {
                    Some(mut b) => {
                        cx.emit(c, ok(), view_of(&*b));
                        drive_mut(&mut *b, &mut cx, 1);
                        root = b.data().to_vec();
                    }
                    None => cx.emit(c, panic_(), json!([])),
                }
            }
            "raw" => {
                let (w, h, stride) = (gu(c, "w"), gu(c, "h"), gu(c, "stride"));
                let len = gi(c, "len") as i32;
                let mut data: Vec<i32> = (1..=len).collect();
                if gi(c, "mut") == 1 {
                    let d = &mut data[..];
                    match guard(move || MutSlice2::new((w, h), stride, d)) {
                        Some(mut s) => {
                            cx.emit(c, ok(), view_of(&*s));
                            drive_mut(&mut *s, &mut cx, 1);
                        }
                        None => {
                            cx.emit(c, panic_(), json!([]));
                            continue;
                        }
                    }
                    root = data;
                } else {
                    match guard(|| Slice2::new((w, h), stride, &data)) {
                        Some(s) => {
                            cx.emit(c, ok(), view_of(&*s));
                            drive(&*s, &mut cx, 1);
                        }
                        None => {
                            cx.emit(c, panic_(), json!([]));
                            continue;
                        }
                    }
                    root = data;
                }
            }
            _ => {} // operation without a buffer: skipped
        }
    }
    cx.out.push(json!({"op": "end", "root": root}));
    json!({"k": case["k"], "ev": cx.out})
}

// ---------------------------------------------------------------- generator

fn gen_history(rng: &mut Rng, maxw: i64, maxh: i64, nops: usize) -> Vec<Value> {
    let mut calls = vec![];
    let (w, h) = (rng.range(0, maxw), rng.range(0, maxh));
    // constructor (kept valid most of the time so that the history goes on)
    let ctor = rng.below(10);
    let (mut cw, mut ch);
    match ctor {
        0 | 1 => {
            calls.push(json!({"op": "new", "w": w.max(1), "h": h.max(1)}));
            (cw, ch) = (w.max(1), h.max(1));
        }
        2 => {
            calls.push(json!({"op": "new_with", "w": w.max(1), "h": h.max(1)}));
            (cw, ch) = (w.max(1), h.max(1));
        }
        3 | 4 => {
            let (w, h) = (w.max(1), h.max(1));
            let n = w * h + rng.range(0, 3);
            calls.push(json!({"op": "new_from", "w": w, "h": h, "n": n}));
            (cw, ch) = (w, h);
        }
        _ => {
            let stride = w + rng.range(0, 3);
            let need = if h > 0 { (h - 1) * stride + w } else { 0 };
            // surplus backing data of various kinds: none, a partial row, whole rows
            let surplus = match rng.below(5) {
                0 => 0,
                1 => rng.range(1, stride.max(1)),
                2 => stride - w,
                3 => stride + rng.range(0, stride.max(1)),
                _ => rng.range(0, 2 * stride.max(1) + 2),
            };
            let short = if rng.chance(1, 12) && need > 0 { rng.range(1, need.min(3)) } else { 0 };
            calls.push(json!({"op": "raw", "w": w, "h": h, "stride": stride,
                "len": (need + surplus - short).max(0), "mut": rng.below(4).min(1)}));
            (cw, ch) = (w, h);
        }
    }
    // stack of (w, h) the generator believes in; exec skips what is not enabled
    let mut stack = vec![(cw, ch)];
    let forms = ["rg", "ri", "to", "toi", "from", "full", "ex"];
    for _ in 0..nops {
        (cw, ch) = *stack.last().unwrap();
        // coordinates mostly inside, sometimes on or beyond the border
        let cx = |rng: &mut Rng, dim: i64| -> i64 {
            if dim > 0 && rng.chance(5, 6) { rng.range(0, dim - 1) } else { dim + rng.range(0, 1) }
        };
        let k = rng.below(100);
        let c = match k {
            0..=7 => json!({"op": "get", "x": cx(rng, cw), "y": cx(rng, ch)}),
            8..=13 => json!({"op": "idx", "x": cx(rng, cw), "y": cx(rng, ch)}),
            14..=18 => json!({"op": "row", "y": cx(rng, ch)}),
            19..=23 => json!({"op": "rows"}),
            24..=27 => json!({"op": "iter"}),
            28..=29 => json!({"op": "dims"}),
            30 => json!({"op": "is_empty"}),
            31..=36 => json!({"op": "get_mut", "x": cx(rng, cw), "y": cx(rng, ch), "val": rng.range(1000, 1999)}),
            37..=42 => json!({"op": "idx_set", "x": cx(rng, cw), "y": cx(rng, ch), "val": rng.range(2000, 2999)}),
            43..=47 => json!({"op": "row_set", "x": cx(rng, cw), "y": cx(rng, ch), "val": rng.range(3000, 3999)}),
            48..=52 => json!({"op": "fill", "val": rng.range(4000, 4999)}),
            53..=56 => json!({"op": "fill_with", "base": rng.range(5, 9) * 1000}),
            57..=59 => json!({"op": "rows_mut", "add": rng.range(1, 9) * 10000}),
            60..=62 => json!({"op": "iter_mut", "add": rng.range(1, 9) * 100000}),
            63..=68 => {
                let (sw, sh) = if rng.chance(5, 6) { (cw, ch) } else { (cw + rng.range(0, 1), ch + rng.range(0, 1)) };
                json!({"op": "copy_from", "sw": sw, "sh": sh,
                       "sstride": sw + *rng.pick(&[0, 0, 1, 3]), "base": rng.range(10, 99) * 1000})
            }
            69..=86 if stack.len() < 4 => {
                let m = rng.below(3).min(1);
                let axis = |rng: &mut Rng, dim: i64| -> (String, i64, i64) {
                    let f = *rng.pick(&forms);
                    let bad = rng.chance(1, 10);
                    let a = rng.range(0, dim);
                    let b = if bad { rng.range(0, dim + 2) } else { rng.range(a, dim) };
                    let (a, b) = match f {
                        "ri" | "toi" => (a, if b > 0 { b - 1 } else if bad { b } else { 0 }),
                        _ => (a, b),
                    };
                    (f.to_string(), a, b)
                };
                let rect = match rng.below(8) {
                    0 => json!(["full"]),
                    1 | 2 => {
                        let l = rng.range(0, cw);
                        let t = rng.range(0, ch);
                        let bad = rng.chance(1, 10);
                        let r = if bad { rng.range(0, cw + 2) } else { rng.range(l, cw) };
                        let b = if bad { rng.range(0, ch + 2) } else { rng.range(t, ch) };
                        json!(["vec", l, t, r, b])
                    }
                    _ => {
                        let (hf, ha, hb) = axis(rng, cw);
                        let (vf, va, vb) = axis(rng, ch);
                        json!(["pair", hf, ha, hb, vf, va, vb])
                    }
                };
                // the generator's belief about the child's size (exact when valid)
                let (l, r) = resolve(&rect, 0, cw);
                let (t, b) = resolve(&rect, 1, ch);
                if l <= r && r <= cw && t <= b && b <= ch && r > l && b > t {
                    stack.push((r - l, b - t));
                }
                json!({"op": "slice", "mut": m, "rect": rect})
            }
            87..=89 if stack.len() < 4 => {
                stack.push((cw, ch));
                json!({"op": "reborrow", "mut": rng.below(2)})
            }
            _ => {
                if stack.len() > 1 {
                    stack.pop();
                }
                json!({"op": "pop"})
            }
        };
        calls.push(c);
    }
    calls
}

fn resolve(rect: &Value, axis: usize, dim: i64) -> (i64, i64) {
    let a = rect.as_array().unwrap();
    let i = |k: usize| a[k].as_i64().unwrap();
    match a[0].as_str().unwrap() {
        "full" => (0, dim),
        "vec" => (i(1 + axis), i(3 + axis)),
        _ => {
            let (f, x, y) = (a[1 + 3 * axis].as_str().unwrap(), i(2 + 3 * axis), i(3 + 3 * axis));
            match f {
                "rg" => (x, y),
                "ri" => (x, y + 1),
                "to" => (0, y),
                "toi" => (0, y + 1),
                "from" => (x, dim),
                _ => (0, dim),
            }
        }
    }
}

pub fn gen(args: &Args, out: &mut dyn Write) {
    let thorough = args.tier == "thorough";
    let n = args.n.unwrap_or(if thorough { 2000 } else { 300 });
    let mut rng = Rng::new(args.seed ^ 0xB0F2);
    for i in 0..n {
        let (mw, mh, ops) = match i % 3 {
            0 => (4, 4, 40),
            1 => (7, 5, 80),
            _ => (12, 9, if thorough { 200 } else { 100 }),
        };
        let calls = gen_history(&mut rng, mw, mh, ops);
        writeln!(out, "{}", json!({"k": format!("r{}-{}", args.seed, i), "calls": calls})).unwrap();
    }
}
