//! Small helpers shared by the drivers: a seeded PRNG (independent of the
//! code under test), panic capture, JSON accessors.

use serde_json::Value;
use std::panic::{catch_unwind, AssertUnwindSafe};

/// splitmix64 — deterministic, seedable, not retrofire's own generator.
#[derive(Clone)]
pub struct Rng(pub u64);

impl Rng {
    pub fn new(seed: u64) -> Self {
        Rng(seed.wrapping_mul(0x9E3779B97F4A7C15) ^ 0xD1B54A32D192ED03)
    }
    pub fn next(&mut self) -> u64 {
        self.0 = self.0.wrapping_add(0x9E3779B97F4A7C15);
        let mut z = self.0;
        z = (z ^ (z >> 30)).wrapping_mul(0xBF58476D1CE4E5B9);
        z = (z ^ (z >> 27)).wrapping_mul(0x94D049BB133111EB);
        z ^ (z >> 31)
    }
    /// uniform in 0..n (n > 0)
    pub fn below(&mut self, n: u64) -> u64 {
        self.next() % n
    }
    /// uniform in lo..=hi
    pub fn range(&mut self, lo: i64, hi: i64) -> i64 {
        lo + self.below((hi - lo + 1) as u64) as i64
    }
    pub fn chance(&mut self, num: u64, den: u64) -> bool {
        self.below(den) < num
    }
    pub fn pick<'a, T>(&mut self, xs: &'a [T]) -> &'a T {
        &xs[self.below(xs.len() as u64) as usize]
    }
    pub fn unit_f64(&mut self) -> f64 {
        (self.next() >> 11) as f64 / (1u64 << 53) as f64
    }
}

/// Runs `f`, turning a panic into `None`.
pub fn guard<T>(f: impl FnOnce() -> T) -> Option<T> {
    catch_unwind(AssertUnwindSafe(f)).ok()
}

pub fn gi(v: &Value, k: &str) -> i64 {
    v.get(k)
        .and_then(|x| x.as_i64())
        .unwrap_or_else(|| panic!("missing int field {k} in {v}"))
}
pub fn gu(v: &Value, k: &str) -> u32 {
    gi(v, k) as u32
}
pub fn gs<'a>(v: &'a Value, k: &str) -> &'a str {
    v.get(k)
        .and_then(|x| x.as_str())
        .unwrap_or_else(|| panic!("missing str field {k} in {v}"))
}
pub fn gf(v: &Value, k: &str) -> f64 {
    v.get(k)
        .and_then(|x| x.as_f64())
        .unwrap_or_else(|| panic!("missing num field {k} in {v}"))
}

/// f32 bit pattern as a JSON-safe integer (sign handled separately by users
/// that need < 2^31).
pub fn bits(x: f32) -> u32 {
    x.to_bits()
}

/// Decodes an f32 into the specifications' exact form [c, s, m, e]
/// (see spec/F32.tla): value = (-1)^s * m * 2^e.
pub fn f32_rec(x: f32) -> serde_json::Value {
    let b = x.to_bits();
    let s = b >> 31;
    let ex = ((b >> 23) & 0xFF) as i32;
    let fr = b & 0x7F_FFFF;
    if ex == 255 {
        return if fr == 0 { serde_json::json!([2, s, 0, 0]) } else { serde_json::json!([3, 0, 0, 0]) };
    }
    if ex == 0 && fr == 0 {
        return serde_json::json!([0, s, 0, 0]);
    }
    let (m, e) = if ex == 0 { (fr, -149) } else { (fr | 0x80_0000, ex - 150) };
    serde_json::json!([1, s, m, e])
}

/// Inverse of `f32_rec` (also accepts unnormalised significands).
pub fn f32_from_rec(v: &Value) -> f32 {
    let a = v.as_array().expect("f32 record");
    let g = |i: usize| a[i].as_i64().unwrap();
    let sign = if g(1) == 1 { -1.0f64 } else { 1.0 };
    match g(0) {
        0 => (sign * 0.0) as f32,
        1 => (sign * g(2) as f64 * 2f64.powi(g(3) as i32)) as f32,
        2 => (sign * f64::INFINITY) as f32,
        _ => f32::NAN,
    }
}
