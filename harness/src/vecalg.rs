//! Growth (DESIGN §8): the vector / point algebra on lattice vectors (components = small integers
//! times a power of two, so that every operation is exact in f32).  The recorder scales the results
//! back to integers; TV_VecAlg compares them with the same operation on the integers.

use crate::util::*;
use crate::Args;
use re::math::approx::ApproxEq;
use re::math::point::{pt2, pt3, Point2, Point3};
use re::math::space::{Affine, Linear};
use re::math::vec::{splat, vec2, vec3, Vec2, Vec3, Vec3i};
use re::math::Lerp;
use serde_json::{json, Value};
use std::io::Write;

fn ints(v: &Value) -> Vec<i64> {
    v.as_array().map(|a| a.iter().map(|x| x.as_i64().unwrap()).collect()).unwrap_or_default()
}
/// x * k back to an integer (exactly, or a sentinel)
fn back(x: f32, k: f64) -> i64 {
    let v = x as f64 * k;
    if v.is_finite() && v == v.round() && v.abs() < 2e9 { v as i64 } else { 1_999_999_999 }
}

macro_rules! vec_ops {
    ($mk:expr, $comps:expr, $case:expr, $op:expr, $a:expr, $b:expr, $c:expr, $n:expr, $s:expr) => {{
        let u = 2f32.powi(-$s);
        let (lin, bil) = (2f64.powi($s), 2f64.powi(2 * $s));
        let mk = |v: &[i64]| $mk(v, u);
        let comps = $comps;
        let (a, b, c) = (mk(&$a), mk(&$b), mk(&$c));
        let l = |v| comps(v).iter().map(|x| back(*x, lin)).collect::<Vec<i64>>();
        match $op {
            "add" => l(a + b),
            "addassign" => { let mut t = a; t += b; l(t) }
            "affadd" => l(Affine::add(&a, &b)),
            "sub" => l(a - b),
            "subassign" => { let mut t = a; t -= b; l(t) }
            "affsub" => l(Affine::sub(&a, &b)),
            "neg" => l(-a),
            "muls" => l(a * $n as f32),
            "smul" => l($n as f32 * a),
            "mulassign" => { let mut t = a; t *= $n as f32; l(t) }
            "divs" | "divassign" => {
                let j = gi($case, "j") as i32;
                let d = 2f32.powi(j) * $n as f32;
                let r = if $op == "divs" { a / d } else { let mut t = a; t /= d; t };
                comps(r).iter().map(|x| back(*x, 2f64.powi($s + j))).collect()
            }
            "dot" => vec![back(a.dot(&b), bil)],
            "lensq" => vec![back(a.len_sqr(), bil)],
            "clamp" => l(a.clamp(&b, &c)),
            "sum3" => l([a, b, c].into_iter().sum()),
            "index" => vec![back(a[$n as usize], lin)],
            "toptvec" => l(a.to_pt().to_vec()),
            "lerp" => comps(a.lerp(&b, $n as f32 / 2.0)).iter().map(|x| back(*x, lin * 2.0)).collect(),
            "approx" => vec![a.approx_eq_eps(&b, &2f32.powi(-($n as i32))) as i64],
            "eq" => vec![(a == b) as i64],
            _ => vec![],
        }
    }};
}

macro_rules! pt_ops {
    ($mkp:expr, $mkv:expr, $pc:expr, $vc:expr, $op:expr, $a:expr, $b:expr, $c:expr, $n:expr, $s:expr) => {{
        let u = 2f32.powi(-$s);
        let (lin, bil) = (2f64.powi($s), 2f64.powi(2 * $s));
        let lp = |p| $pc(p).iter().map(|x| back(*x, lin)).collect::<Vec<i64>>();
        let lv = |v| $vc(v).iter().map(|x| back(*x, lin)).collect::<Vec<i64>>();
        let a = $mkp(&$a, u);
        match $op {
            "ptadd" => lp(a + $mkv(&$b, u)),
            "addassign" => { let mut t = a; t += $mkv(&$b, u); lp(t) }
            "ptsub" => lp(a - $mkv(&$b, u)),
            "subassign" => { let mut t = a; t -= $mkv(&$b, u); lp(t) }
            "ptdiff" => lv(a - $mkp(&$b, u)),
            "affsub" => lv(Affine::sub(&a, &$mkp(&$b, u))),
            "affadd" => lp(Affine::add(&a, &$mkv(&$b, u))),
            "distsq" => vec![back(a.distance_sqr(&$mkp(&$b, u)), bil)],
            "clamp" => lp(a.clamp(&$mkp(&$b, u), &$mkp(&$c, u))),
            "tovecpt" => lp(a.to_vec().to_pt()),
            "index" => vec![back(a[$n as usize], lin)],
            "lerp" => $pc(a.lerp(&$mkp(&$b, u), $n as f32 / 2.0)).iter().map(|x| back(*x, lin * 2.0)).collect(),
            "approx" => vec![a.approx_eq_eps(&$mkp(&$b, u), &2f32.powi(-($n as i32))) as i64],
            "eq" => vec![(a == $mkp(&$b, u)) as i64],
            _ => vec![],
        }
    }};
}

pub fn exec(case: &Value) -> Value {
    let mut e = case.clone();
    let (op, ty) = (gs(case, "op").to_string(), gs(case, "ty").to_string());
    let (a, b, c) = (ints(&case["a"]), ints(&case["b"]), ints(&case["c"]));
    let n = gi(case, "n");
    let s = gi(case, "s") as i32;
    let pad = |v: &Vec<i64>, k: usize| -> Vec<i64> { let mut w = v.clone(); w.resize(k, 0); w };
    let r = guard(|| -> Vec<i64> {
        match ty.as_str() {
            "v2" => {
                let (a, b, c) = (pad(&a, 2), pad(&b, 2), pad(&c, 2));
                match op.as_str() {
                    "xyz" => { let v: Vec2 = vec2(a[0] as f32, a[1] as f32); vec![v.x() as i64, v.y() as i64] }
                    "splat" => { let v: Vec2 = splat(n as f32); vec![v.x() as i64, v.y() as i64] }
                    "fromarr" => { let v: Vec2 = [a[0] as f32, a[1] as f32].into(); vec![v.x() as i64, v.y() as i64] }
                    _ => vec_ops!(|v: &[i64], u: f32| -> Vec2 { vec2(v[0] as f32 * u, v[1] as f32 * u) }, |v: Vec2| vec![v.x(), v.y()], case, op.as_str(), a, b, c, n, s),
                }
            }
            "v3" => {
                let (a, b, c) = (pad(&a, 3), pad(&b, 3), pad(&c, 3));
                let mk = |v: &[i64], u: f32| -> Vec3 { vec3(v[0] as f32 * u, v[1] as f32 * u, v[2] as f32 * u) };
                match op.as_str() {
                    "cross" => { let u = 2f32.powi(-s); let r = mk(&a, u).cross(&mk(&b, u)); [r.x(), r.y(), r.z()].iter().map(|x| back(*x, 2f64.powi(2 * s))).collect() }
                    "xyz" => { let v = mk(&a, 1.0); vec![v.x() as i64, v.y() as i64, v.z() as i64] }
                    "splat" => { let v: Vec3 = splat(n as f32); vec![v.x() as i64, v.y() as i64, v.z() as i64] }
                    "fromarr" => { let v: Vec3 = [a[0] as f32, a[1] as f32, a[2] as f32].into(); vec![v.x() as i64, v.y() as i64, v.z() as i64] }
                    _ => vec_ops!(mk, |v: Vec3| vec![v.x(), v.y(), v.z()], case, op.as_str(), a, b, c, n, s),
                }
            }
            "v3i" => {
                let mk = |v: &Vec<i64>| -> Vec3i { let v = pad(v, 3); vec3(v[0] as i32, v[1] as i32, v[2] as i32) };
                let l = |v: Vec3i| vec![v.x() as i64, v.y() as i64, v.z() as i64];
                match op.as_str() {
                    "add" => l(mk(&a) + mk(&b)),
                    "sub" => l(mk(&a) - mk(&b)),
                    "neg" => l(-mk(&a)),
                    "muls" => l(mk(&a) * n as i32),
                    "dot" => vec![mk(&a).dot(&mk(&b)) as i64],
                    "lensq" => vec![mk(&a).len_sqr() as i64],
                    "sum3" => l([mk(&a), mk(&b), mk(&c)].into_iter().sum()),
                    "index" => vec![mk(&a)[n as usize] as i64],
                    "eq" => vec![(mk(&a) == mk(&b)) as i64],
                    "xyz" => l(mk(&a)),
                    _ => vec![],
                }
            }
            "p2" => {
                let (a, b, c) = (pad(&a, 2), pad(&b, 2), pad(&c, 2));
                pt_ops!(|v: &Vec<i64>, u: f32| -> Point2 { pt2(v[0] as f32 * u, v[1] as f32 * u) }, |v: &Vec<i64>, u: f32| -> Vec2 { vec2(v[0] as f32 * u, v[1] as f32 * u) },
                        |p: Point2| vec![p.x(), p.y()], |v: Vec2| vec![v.x(), v.y()], op.as_str(), a, b, c, n, s)
            }
            _ => {
                let (a, b, c) = (pad(&a, 3), pad(&b, 3), pad(&c, 3));
                pt_ops!(|v: &Vec<i64>, u: f32| -> Point3 { pt3(v[0] as f32 * u, v[1] as f32 * u, v[2] as f32 * u) },
                        |v: &Vec<i64>, u: f32| -> Vec3 { vec3(v[0] as f32 * u, v[1] as f32 * u, v[2] as f32 * u) },
                        |p: Point3| vec![p.x(), p.y(), p.z()], |v: Vec3| vec![v.x(), v.y(), v.z()], op.as_str(), a, b, c, n, s)
            }
        }
    });
    let o = e.as_object_mut().unwrap();
    match r {
        Some(v) => { o.insert("res".into(), json!(v)); o.insert("panic".into(), json!(0)); }
        None => { o.insert("res".into(), json!([])); o.insert("panic".into(), json!(1)); }
    }
    e
}

pub fn gen(args: &Args, out: &mut dyn Write) {
    let thorough = args.tier == "thorough";
    let n = args.n.unwrap_or(if thorough { 200_000 } else { 12_000 });
    let mut rng = Rng::new(args.seed ^ 0x7EC);
    let vops = ["add", "addassign", "affadd", "sub", "subassign", "affsub", "neg", "muls", "smul", "mulassign", "divs", "divassign", "dot", "lensq",
                "clamp", "sum3", "index", "toptvec", "lerp", "approx", "eq", "xyz", "splat", "fromarr", "cross"];
    let iops = ["add", "sub", "neg", "muls", "dot", "lensq", "sum3", "index", "eq", "xyz"];
    let pops = ["ptadd", "addassign", "ptsub", "subassign", "ptdiff", "affsub", "affadd", "distsq", "clamp", "tovecpt", "index", "lerp", "approx", "eq"];
    for i in 0..n {
        let ty = ["v2", "v3", "v3i", "p2", "p3"][i % 5];
        let dim = if ty.ends_with('2') { 2 } else { 3 };
        let op = match ty { "v2" | "v3" => *rng.pick(&vops), "v3i" => *rng.pick(&iops), _ => *rng.pick(&pops) };
        if op == "cross" && ty != "v3" {
            continue;
        }
        let mag = *rng.pick(&[2i64, 9, 100, 1000]);
        let mut v = |rng: &mut Rng| -> Vec<i64> { (0..dim).map(|_| rng.range(-mag, mag)).collect() };
        let (a, mut b, mut c) = (v(&mut rng), v(&mut rng), v(&mut rng));
        if op == "clamp" {
            for k in 0..dim { if b[k] > c[k] { std::mem::swap(&mut b[k], &mut c[k]); } }
        }
        if (op == "eq" || op == "approx") && rng.chance(1, 3) {
            b = a.clone();
            if rng.chance(1, 2) { b[0] += rng.range(-1, 1); }
        }
        // scale exponent: products of the integers and the lerp doubling stay exact in f32
        let s = if ty == "v3i" || matches!(op, "xyz" | "splat" | "fromarr") { 0 } else if op == "approx" { rng.range(0, 8) } else { *rng.pick(&[0i64, 3, -5, 20, -20]) };
        let nn = match op { "index" => rng.range(0, dim as i64 - 1), "lerp" => rng.range(-2, 4), "approx" => rng.range(0, 12), "divs" | "divassign" => *rng.pick(&[1i64, -1]), _ => rng.range(-7, 7) };
        writeln!(out, "{}", json!({"k": format!("va{}-{}", args.seed, i), "op": op, "ty": ty, "a": a, "b": b, "c": c, "n": nn, "s": s, "j": rng.range(0, 6)})).unwrap();
    }
}
