//! C08 driver: projection, viewport and camera matrices on lattice points,
//! Rect intersection, Camera viewport confinement, first-person transforms.

use crate::util::*;
use crate::Args;
use re::geom::{vertex, Tri, Vertex};
use re::math::angle::{degs, rads};
use re::math::color::rgba;
use re::math::mat::{orthographic, perspective, viewport, Mat4x4, RealToProj, RealToReal};
use re::math::point::{pt2, pt3};
use re::math::vec::{vec3, ProjVec4};
use re::render::cam::{Camera, FirstPerson, Mode};
use re::render::raster::Frag;
use re::render::shader::Shader;
use re::render::stats::Stats;
use re::render::{World, WorldToView};
use re::util::buf::Buf2;
use re::util::rect::Rect;
use serde_json::{json, Value};
use std::io::Write;

const SC: f64 = 4096.0;
fn s(x: f32) -> i64 {
    let v = (x as f64 * SC).round();
    if v.is_finite() { v.clamp(-2e9, 2e9) as i64 } else { 2_000_000_000 }
}
fn ia(v: &Value) -> Vec<i64> {
    v.as_array().unwrap().iter().map(|x| x.as_i64().unwrap()).collect()
}
fn side(v: &Value) -> Option<u32> {
    if v[0].as_i64().unwrap() == 0 { None } else { Some(v[1].as_u64().unwrap() as u32) }
}
fn side_json(o: Option<u32>) -> Value {
    match o {
        None => json!([0, 0]),
        Some(v) => json!([1, v]),
    }
}
fn rect_of(v: &Value) -> Rect<u32> {
    Rect { left: side(&v[0]), top: side(&v[1]), right: side(&v[2]), bottom: side(&v[3]) }
}

pub fn exec(case: &Value) -> Value {
    let op = gs(case, "op").to_string();
    let r: Option<Vec<(&str, Value)>> = guard(|| match op.as_str() {
        "persp" | "persp2" => {
            let c = &case["c"];
            let m = perspective(gi(c, "fn") as f32 / gi(c, "fd") as f32, gi(c, "an") as f32 / gi(c, "ad") as f32, gi(c, "n") as f32..gi(c, "r") as f32);
            let ap = |p: &Value| {
                let v = ia(p);
                let q = m.apply(&pt3(v[0] as f32, v[1] as f32, v[2] as f32));
                json!(q.0.map(s))
            };
            if op == "persp" { vec![("q", ap(&case["p"]))] } else { vec![("q1", ap(&case["p1"])), ("q2", ap(&case["p2"]))] }
        }
        "ortho" => {
            let (lo, hi, p) = (ia(&case["lo"]), ia(&case["hi"]), ia(&case["p"]));
            let m = orthographic(pt3(lo[0] as f32, lo[1] as f32, lo[2] as f32), pt3(hi[0] as f32, hi[1] as f32, hi[2] as f32));
            vec![("q", json!(m.apply(&pt3(p[0] as f32, p[1] as f32, p[2] as f32)).0.map(s)))]
        }
        "viewport" => {
            let (rc, nd) = (ia(&case["rc"]), ia(&case["nd"]));
            let m = viewport(pt2(rc[0] as u32, rc[1] as u32)..pt2(rc[2] as u32, rc[3] as u32));
            let q = m.apply(&vec3(nd[0] as f32 / 4.0, nd[1] as f32 / 4.0, 0.5));
            vec![("s", json!([s(q.x()), s(q.y())]))]
        }
        "rect" => {
            let (a, b) = (rect_of(&case["r1"]), rect_of(&case["r2"]));
            let i = a.intersect(&b);
            let cont: Vec<Vec<u8>> = (-1i64..=9).map(|y| (-1i64..=9).map(|x| (x >= 0 && y >= 0 && i.contains(x as u32, y as u32)) as u8).collect()).collect();
            vec![("res", json!([side_json(i.left), side_json(i.top), side_json(i.right), side_json(i.bottom)])), ("cont", json!(cont))]
        }
        "cam" => {
            let rq = ia(&case["rq"]);
            let (fw, fh) = (gu(case, "fw"), gu(case, "fh"));
            let f = gi(case, "fn") as f32 / gi(case, "fd") as f32;
            // the same rectangle, optionally written as pairs of explicit bounds with an EXCLUDED start
            use std::ops::Bound::{Excluded, Included};
            let (x0, y0, x1, y1) = (rq[0] as u32, rq[1] as u32, rq[2] as u32, rq[3] as u32);
            let bx = gi(case, "bx") == 1 && x0 >= 1 && y0 >= 1;
            let hb = if bx { (Excluded(x0 - 1), Excluded(x1)) } else { (Included(x0), Excluded(x1)) };
            let vb = if bx { (Excluded(y0 - 1), Included(y1 - 1)) } else { (Included(y0), Excluded(y1)) };
            // "pre": the camera has been given another viewport before (the request lies inside both the
            // frame and the extent of that earlier one, so there is one reading of what it asks for)
            let cam = Camera::new((fw, fh));
            let cam = match case.get("pre") {
                Some(pre) => { let q = ia(pre); cam.viewport((q[0] as u32..q[2] as u32, q[1] as u32..q[3] as u32)) }
                None => cam,
            };
            let cam = cam
                .viewport((hb, vb))
                .perspective(f, 1.0..100.0)
                .mode(Mat4x4::<WorldToView>::identity());
            let vp = cam.viewport;
            let c00 = vp.apply(&vec3(-1.0, -1.0, 0.0));
            let c11 = vp.apply(&vec3(1.0, 1.0, 0.0));
            let p = ia(&case["p"]);
            let clip = cam.world_to_project().apply(&pt3(p[0] as f32, p[1] as f32, p[2] as f32));
            let w = clip.0[3];
            let scr = vp.apply(&vec3(clip.0[0] / w, clip.0[1] / w, clip.0[2] / w));
            // draw a triangle covering the whole view and look at what was touched
            let mut buf: Buf2<u32> = Buf2::new((fw, fh));
            let verts: Vec<Vertex<re::math::point::Point3<World>, f32>> = [(-500.0, -500.0), (500.0, -400.0), (0.0, 600.0)].iter().map(|(x, y)| vertex(pt3(*x as f32, *y as f32, 5.0), 1.0f32)).collect();
            let sh = Shader::new(
                |v: Vertex<re::math::point::Point3<World>, f32>, (tf, _): (&Mat4x4<RealToProj<World>>, ())| vertex(tf.apply(&v.pos), v.attrib),
                |_: Frag<f32>| Some(rgba(1u8, 2, 3, 0)),
            );
            let ctx = crate::target::mk_ctx(&json!({"cull": 0, "sort": 0, "test": 0, "cw": 1, "dw": 0}), Stats::new());
            let to_world = Mat4x4::<RealToReal<3, World, World>>::identity();
            cam.render([Tri([0, 1, 2])], &verts, &to_world, &sh, (), &mut buf, &ctx);
            let mut tb = [0i64; 5];
            for y in 0..fh {
                for x in 0..fw {
                    if buf[[x, y]] != 0 {
                        if tb[0] == 0 { tb = [1, x as i64, y as i64, x as i64 + 1, y as i64 + 1]; } else {
                            tb[0] += 1; tb[1] = tb[1].min(x as i64); tb[2] = tb[2].min(y as i64); tb[3] = tb[3].max(x as i64 + 1); tb[4] = tb[4].max(y as i64 + 1);
                        }
                    }
                }
            }
            vec![("dims", json!([cam.dims.0, cam.dims.1])), ("c00", json!([s(c00.x()), s(c00.y())])), ("c11", json!([s(c11.x()), s(c11.y())])),
                 ("pix", json!([s(scr.x()), s(scr.y())])), ("tbox", json!(tb))]
        }
        "ocam" => {
            // an orthographic camera; the builder calls in either order (ord 0: orthographic, then viewport)
            let rq = ia(&case["rq"]);
            let (fw, fh) = (gu(case, "fw"), gu(case, "fh"));
            let (lo, hi, p) = (ia(&case["lo"]), ia(&case["hi"]), ia(&case["p"]));
            let bx = pt3(lo[0] as f32, lo[1] as f32, lo[2] as f32)..pt3(hi[0] as f32, hi[1] as f32, hi[2] as f32);
            let vpr = (rq[0] as u32..rq[2] as u32, rq[1] as u32..rq[3] as u32);
            let cam = if gi(case, "ord") == 0 {
                Camera::new((fw, fh)).orthographic(bx).viewport(vpr)
            } else {
                Camera::new((fw, fh)).viewport(vpr).orthographic(bx)
            }
            .mode(Mat4x4::<WorldToView>::identity());
            let clip = cam.world_to_project().apply(&pt3(p[0] as f32, p[1] as f32, p[2] as f32));
            let w = clip.0[3];
            let scr = cam.viewport.apply(&vec3(clip.0[0] / w, clip.0[1] / w, clip.0[2] / w));
            vec![("dims", json!([cam.dims.0, cam.dims.1])), ("pix", json!([s(scr.x()), s(scr.y())])),
                 ("q", json!([s(clip.0[0]), s(clip.0[1]), s(clip.0[2]), s(w)]))]
        }
        "fpd" => {
            // FirstPerson::default(): used as constructed (mv = 0) or after a translation (mv = 1)
            let mut fp = FirstPerson::default();
            if gi(case, "mv") == 1 {
                let dl = ia(&case["dl"]);
                fp.translate(vec3(dl[0] as f32, dl[1] as f32, dl[2] as f32));
            }
            let m = fp.world_to_view();
            let ip = m.apply_pt(&fp.pos.to_pt().to());
            let rows: Vec<Vec<i64>> = (0..3).map(|i| (0..4).map(|j| s(m.0[i][j])).collect()).collect();
            vec![("M", json!(rows)), ("ipos", json!([s(ip.x()), s(ip.y()), s(ip.z())]))]
        }
        "fp" => {
            let (pos, t) = (ia(&case["pos"]), ia(&case["t"]));
            // camera at pos * 2^psc, target at an offset t * 2^-tsc from it (all exactly representable):
            // a nearby target seen from far away from the origin; observations are scaled back by 2^tsc
            let psc = 2f64.powi(case.get("psc").and_then(|v| v.as_i64()).unwrap_or(0) as i32);
            let tsc = 2f64.powi(case.get("tsc").and_then(|v| v.as_i64()).unwrap_or(0) as i32);
            let mut fp = FirstPerson::new();
            let p = |i: usize| (pos[i] as f64 * psc) as f32;
            let q = |i: usize| (pos[i] as f64 * psc + t[i] as f64 / tsc) as f32;
            fp.pos = vec3(p(0), p(1), p(2));
            let tgt = vec3(q(0), q(1), q(2));
            fp.look_at(tgt);
            let m = fp.world_to_view();
            let ip = m.apply_pt(&fp.pos.to_pt().to());
            let it = m.apply_pt(&tgt.to_pt().to());
            let rows: Vec<Vec<i64>> = (0..3).map(|i| (0..4).map(|j| s(m.0[i][j])).collect()).collect();
            let st = |x: f32| s((x as f64 * tsc) as f32);
            vec![("M", json!(rows)), ("ipos", json!([st(ip.x()), st(ip.y()), st(ip.z())])), ("itgt", json!([st(it.x()), st(it.y()), st(it.z())]))]
        }
        _ => {
            // heading: azimuth with cos, sin = cx/kd, sz/kd; altitude per mode; then translate(dl)
            let az = rads((gi(case, "sz") as f32).atan2(gi(case, "cx") as f32));
            let mut fp = FirstPerson::new();
            fp.pos = vec3(1.0, 2.0, 3.0);
            match gs(case, "alt") {
                "level" => fp.rotate_to(az, degs(0.0)),
                "up" => fp.rotate_to(az, degs(90.0)),
                "down" => fp.rotate_to(az, degs(-90.0)),
                "over" => fp.rotate_to(az, degs(135.0)), // clamped to straight up
                "tilt" => fp.rotate_to(az, degs(37.0)),
                _ => {
                    // reach the heading by look_at on a target in that direction, possibly straight up
                    let d = vec3(gi(case, "cx") as f32, 0.0, gi(case, "sz") as f32);
                    fp.look_at(fp.pos + d * 3.0 + vec3(0.0, 2.0, 0.0));
                }
            }
            let before = fp.pos;
            let dl = ia(&case["dl"]);
            fp.translate(vec3(dl[0] as f32, dl[1] as f32, dl[2] as f32));
            let d = fp.pos - before;
            vec![("dpos", json!([s(d.x()), s(d.y()), s(d.z())]))]
        }
    });
    let mut e = case.clone();
    let o = e.as_object_mut().unwrap();
    match r {
        Some(fields) => {
            for (k, v) in fields {
                o.insert(k.into(), v);
            }
            o.insert("panic".into(), json!(0));
        }
        None => {
            for k in ["q", "q1", "q2"] { o.insert(k.into(), json!([0, 0, 0, 0])); }
            for k in ["s", "c00", "c11", "pix", "dims"] { o.insert(k.into(), json!([0, 0])); }
            for k in ["ipos", "itgt", "dpos"] { o.insert(k.into(), json!([0, 0, 0])); }
            o.insert("M".into(), json!([[0, 0, 0, 0], [0, 0, 0, 0], [0, 0, 0, 0]]));
            o.insert("res".into(), json!([[0, 0], [0, 0], [0, 0], [0, 0]]));
            o.insert("cont".into(), json!((0..11).map(|_| vec![0; 11]).collect::<Vec<_>>()));
            o.insert("tbox".into(), json!([0, 0, 0, 0, 0]));
            o.insert("panic".into(), json!(1));
        }
    }
    e
}

pub fn gen(args: &Args, out: &mut dyn Write) {
    let thorough = args.tier == "thorough";
    let mut rng = Rng::new(args.seed ^ 0x9807);
    let mut k = 0;
    let mut emit = |out: &mut dyn Write, mut v: Value| {
        v.as_object_mut().unwrap().insert("k".into(), json!(format!("p{}-{}", args.seed, k)));
        k += 1;
        writeln!(out, "{v}").unwrap();
    };
    // perspective: all parameter combinations x a lattice straddling every face of the volume
    let fs: [(i64, i64); 3] = [(1, 2), (1, 1), (2, 1)];
    let asp: [(i64, i64); 3] = [(1, 1), (4, 3), (1, 2)];
    let nrs: [(i64, i64); 5] = [(1, 4), (1, 16), (2, 16), (2, 64), (1, 64)];
    for &(fnn, fd) in &fs {
        for &(an, ad) in &asp {
            for &(n, r) in &nrs {
                let c = json!({"fn": fnn, "fd": fd, "an": an, "ad": ad, "n": n, "r": r});
                let zs = [n - 1, n, n + 1, (n + r) / 2, r - 1, r, r + 1, 0, -n, -r];
                for &z in &zs {
                    // on, just inside and just outside the side planes at this depth, plus a few random points
                    let hx = (z.abs() * fd) / fnn;
                    let hy = (z.abs() * fd * ad) / (fnn * an);
                    let xs = [0, hx, -hx, hx + 1, -(hx + 1), (hx - 1).max(0), hx / 2];
                    let ys = [0, hy, -hy, hy + 1, (hy - 1).max(0), -hy / 2];
                    for &x in &xs {
                        let y = *rng.pick(&ys);
                        emit(out, json!({"op": "persp", "c": c, "p": [x, y, z]}));
                    }
                    for &y in &ys {
                        let x = *rng.pick(&xs);
                        emit(out, json!({"op": "persp", "c": c, "p": [x, y, z]}));
                    }
                }
                for _ in 0..(if thorough { 400 } else { 6 }) {
                    let (z1, z2) = (rng.range(n, r - 1), 0);
                    let z2 = rng.range(z1 + 1, r).max(z2);
                    let (x, y) = (rng.range(-3, 3), rng.range(-3, 3));
                    emit(out, json!({"op": "persp2", "c": c, "p1": [x, y, z1], "p2": [x, y, z2]}));
                }
            }
        }
    }
    // thin view volumes far from the eye (far / near close to 1): the two planes, on the axis
    for &(n, r) in &[(100i64, 101i64), (1000, 1001), (64, 65), (500, 502), (1000, 1010)] {
        for &(fnn, fd) in &fs {
            let c = json!({"fn": fnn, "fd": fd, "an": 1, "ad": 1, "n": n, "r": r});
            for z in [n, r] {
                emit(out, json!({"op": "persp", "c": c, "p": [0, 0, z]}));
            }
        }
    }
    // the default first-person camera, as constructed and after moving it: a rigid view transform
    for i in 0..(if thorough { 200 } else { 20 }) {
        emit(out, json!({"op": "fpd", "dl": [rng.range(-3, 3), rng.range(-3, 3), rng.range(-3, 3)], "mv": i % 2}));
    }
    // orthographic boxes and viewports over small integer ranges
    for _ in 0..(if thorough { 200_000 } else { 2_000 }) {
        let lo: Vec<i64> = (0..3).map(|_| rng.range(-8, 4)).collect();
        let hi: Vec<i64> = lo.iter().map(|l| l + rng.range(1, 12)).collect();
        let p: Vec<i64> = (0..3).map(|i| match rng.below(4) { 0 => lo[i], 1 => hi[i], _ => rng.range(lo[i] - 2, hi[i] + 2) }).collect();
        emit(out, json!({"op": "ortho", "lo": lo, "hi": hi, "p": p}));
        // the same box with some axes mirrored (y-down screens, left-handed depth): lo and hi change places
        if rng.chance(1, 3) {
            let (mut lo2, mut hi2) = (lo.clone(), hi.clone());
            for i in 0..3 {
                if rng.chance(1, 2) { std::mem::swap(&mut lo2[i], &mut hi2[i]); }
            }
            emit(out, json!({"op": "ortho", "lo": lo2, "hi": hi2, "p": p}));
        }
        let (x0, y0) = (rng.range(0, 20), rng.range(0, 20));
        let (x1, y1) = (rng.range(0, 40), rng.range(0, 40)); // empty and mirrored rectangles included
        emit(out, json!({"op": "viewport", "rc": [x0, y0, x1, y1], "nd": [rng.range(-6, 6), rng.range(-6, 6)]}));
        let sd = |rng: &mut Rng| if rng.chance(1, 4) { json!([0, 0]) } else { json!([1, rng.range(0, 9)]) };
        emit(out, json!({"op": "rect", "r1": [sd(&mut rng), sd(&mut rng), sd(&mut rng), sd(&mut rng)], "r2": [sd(&mut rng), sd(&mut rng), sd(&mut rng), sd(&mut rng)]}));
    }
    // cameras: requested viewports inside, partly outside and wholly outside the frame
    for _ in 0..(if thorough { 60_000 } else { 600 }) {
        let (fw, fh) = (rng.range(4, 40), rng.range(4, 30));
        let (x0, y0) = (rng.range(0, fw - 1), rng.range(0, fh - 1)); // the intersection is never empty
        let (x1, y1) = (x0 + rng.range(1, 50), y0 + rng.range(1, 40));
        let (fnn, fd) = *rng.pick(&fs);
        let z = rng.range(2, 40);
        emit(out, json!({"op": "cam", "fw": fw, "fh": fh, "rq": [x0, y0, x1, y1], "fn": fnn, "fd": fd,
                         "p": [rng.range(-z, z), rng.range(-z, z), z], "bx": rng.below(3) / 2}));
    }
    // ... set twice: first an inset viewport, then one at the origin of the same or a smaller size
    for i in 0..(if thorough { 6_000 } else { 300 }) {
        let (fw, fh) = (rng.range(8, 64), rng.range(8, 48));
        let (px0, py0) = (rng.range(1, fw / 2), rng.range(1, fh / 2));
        let (px1, py1) = (rng.range(px0 + 2, fw), rng.range(py0 + 2, fh));
        let (pw, ph) = (px1 - px0, py1 - py0);
        let rq = if i % 2 == 0 { [0, 0, pw, ph] } else { let (a, b) = (rng.range(0, pw - 1), rng.range(0, ph - 1)); [a, b, rng.range(a + 1, pw), rng.range(b + 1, ph)] };
        let (fnn, fd) = *rng.pick(&fs);
        let z = rng.range(2, 40);
        emit(out, json!({"op": "cam", "fw": fw, "fh": fh, "pre": [px0, py0, px1, py1], "rq": rq, "fn": fnn, "fd": fd,
                         "p": [rng.range(-z, z), rng.range(-z, z), z], "bx": 0}));
    }
    // orthographic cameras, builder calls in both orders
    for i in 0..(if thorough { 6_000 } else { 600 }) {
        let (fw, fh) = (rng.range(8, 64), rng.range(8, 48));
        let (x0, y0) = (rng.range(0, fw - 4), rng.range(0, fh - 4));
        let (x1, y1) = (rng.range(x0 + 2, fw + 6), rng.range(y0 + 2, fh + 6));
        let lo: Vec<i64> = (0..3).map(|_| rng.range(-9, 2)).collect();
        let hi: Vec<i64> = (0..3).map(|j| lo[j] + rng.range(1, 12)).collect();
        let p: Vec<i64> = (0..3).map(|j| rng.range(lo[j], hi[j])).collect();
        emit(out, json!({"op": "ocam", "fw": fw, "fh": fh, "rq": [x0, y0, x1, y1], "lo": lo, "hi": hi, "p": p, "ord": i % 2}));
    }
    // first person: Pythagorean look directions (so that distances are integers), all octants, straight up / down
    let dirs: [[i64; 4]; 10] = [[3, 0, 4, 25], [0, 1, 0, 1], [0, -1, 0, 1], [-5, 12, 0, 169], [1, 2, 2, 9], [-2, -1, 2, 9], [2, 3, 6, 49],
                                [-4, 0, -3, 25], [0, 0, 1, 1], [-1, 0, 0, 1]];
    for d in dirs {
        for _ in 0..(if thorough { 400 } else { 6 }) {
            let pos: Vec<i64> = (0..3).map(|_| rng.range(-9, 9)).collect();
            let sc = rng.range(1, 3);
            emit(out, json!({"op": "fp", "pos": pos, "t": [d[0] * sc, d[1] * sc, d[2] * sc], "d2": d[3] * sc * sc,
                             "d": ((d[3] * sc * sc) as f64).sqrt().round() as i64 * 4096, "psc": 0, "tsc": 0, "pm": 9}));
            // the same look direction towards a target a few 1/512 away, seen from thousands of units out
            let far: Vec<i64> = (0..3).map(|_| rng.range(-9, 9)).collect();
            emit(out, json!({"op": "fp", "pos": far, "t": [d[0] * sc, d[1] * sc, d[2] * sc], "d2": d[3] * sc * sc,
                             "d": ((d[3] * sc * sc) as f64).sqrt().round() as i64 * 4096, "psc": 9, "tsc": 9, "pm": 9 * 512}));
        }
    }
    // look_at on targets almost straight above / below the camera (not Pythagorean: judged on the axis only)
    for kq in [50i64, 200, 1000, 3000] {
        for (dx, dz) in [(1i64, 0i64), (0, 1), (-1, 1), (1, -1)] {
            for sg in [1i64, -1] {
                let pos: Vec<i64> = (0..3).map(|_| rng.range(-9, 9)).collect();
                emit(out, json!({"op": "fp", "pos": pos, "t": [dx, sg * kq, dz], "d2": 0, "d": kq * 4096, "psc": 0, "tsc": 0, "pm": 9, "steep": 1}));
            }
        }
    }
    let azs: [(i64, i64, i64); 8] = [(3, 4, 5), (-4, 3, 5), (5, -12, 13), (-8, -15, 17), (1, 0, 1), (0, 1, 1), (-1, 0, 1), (0, -1, 1)];
    for (cx, sz, kd) in azs {
        for alt in ["level", "up", "down", "over", "tilt", "lookat"] {
            for _ in 0..(if thorough { 60 } else { 2 }) {
                emit(out, json!({"op": "fpmove", "cx": cx, "sz": sz, "kd": kd, "alt": alt, "dl": [rng.range(-3, 3), rng.range(-3, 3), rng.range(-3, 3)]}));
            }
        }
    }
}
