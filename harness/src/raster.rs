//! C04 / C05 driver: tri_fill on lattice triangles; records every scanline
//! and every fragment (scaled to integers for exact judgement by TLC).

use crate::util::*;
use crate::Args;
use re::geom::{vertex, Vertex};
use re::math::color::{rgb, Color3f};
use re::math::point::pt3;
use re::math::vec::{vec2, vec3, Vec2, Vec3};
use re::math::Vary;
use re::render::raster::{tri_fill, ScreenPt};
use serde_json::{json, Value};
use std::io::Write;

const ZDEN: f32 = 20.0;

fn sc(x: f32, k: f64) -> Option<i64> {
    let v = (x as f64 * k).round();
    (v.is_finite() && v.abs() < (1u64 << 30) as f64).then_some(v as i64)
}

trait Comps: Vary {
    fn make(a: &[f32], z: f32) -> Self;
    fn comps(&self) -> Vec<f32>;
}
impl Comps for f32 {
    fn make(a: &[f32], z: f32) -> Self {
        a[0] * z
    }
    fn comps(&self) -> Vec<f32> {
        vec![*self]
    }
}
impl Comps for Vec2 {
    fn make(a: &[f32], z: f32) -> Self {
        vec2(a[0] * z, a[1] * z)
    }
    fn comps(&self) -> Vec<f32> {
        vec![self.x(), self.y()]
    }
}
impl Comps for Vec3 {
    fn make(a: &[f32], z: f32) -> Self {
        vec3(a[0] * z, a[1] * z, a[2] * z)
    }
    fn comps(&self) -> Vec<f32> {
        vec![self.x(), self.y(), self.z()]
    }
}
impl Comps for Color3f {
    fn make(a: &[f32], z: f32) -> Self {
        rgb(a[0] * z, a[1] * z, a[2] * z)
    }
    fn comps(&self) -> Vec<f32> {
        vec![self.r(), self.g(), self.b()]
    }
}
impl Comps for re::math::angle::Angle {
    fn make(a: &[f32], z: f32) -> Self {
        re::math::angle::rads(a[0] * z)
    }
    fn comps(&self) -> Vec<f32> {
        vec![self.to_rads()]
    }
}
impl Comps for re::math::color::Color4f {
    fn make(a: &[f32], z: f32) -> Self {
        re::math::color::rgba(a[0] * z, a[1] * z, a[2] * z, a[3] * z)
    }
    fn comps(&self) -> Vec<f32> {
        vec![self.r(), self.g(), self.b(), self.a()]
    }
}
impl Comps for (f32, Vec2) {
    fn make(a: &[f32], z: f32) -> Self {
        (a[0] * z, vec2(a[1] * z, a[2] * z))
    }
    fn comps(&self) -> Vec<f32> {
        vec![self.0, self.1.x(), self.1.y()]
    }
}

fn run<V: Comps>(case: &Value) -> (bool, Vec<Value>) {
    let s = gi(case, "s") as i32;
    // (s >= 100: s - 100 units per pixel - a lattice whose points are not binary fractions)
    let unit = if s >= 100 { (s - 100) as f32 } else { (1u32 << s) as f32 };
    // all reciprocal depths (and with them the pre-divided attributes) times 2^zsc, exactly:
    // the same surface seen at another absolute distance; undone (exactly) when recording
    let zsc = case.get("zsc").and_then(|v| v.as_i64()).unwrap_or(0) as i32;
    let (zmul, zdiv) = (2f32.powi(zsc), 2f64.powi(-zsc));
    // all attribute values times 2^asc, exactly (tiny but normal numbers whose per-pixel differences are
    // subnormal; huge ones); undone (exactly) when recording
    let asc = case.get("asc").and_then(|v| v.as_i64()).unwrap_or(0) as i32;
    let (amul, adiv) = (2f32.powi(asc), 2f64.powi(-asc));
    let vs: Vec<Vertex<ScreenPt, V>> = (0..3)
        .map(|i| {
            let p = &case["v"][i];
            let z = case["Z"][i].as_i64().unwrap() as f32 / ZDEN * zmul;
            let a: Vec<f32> = case["A"][i].as_array().unwrap().iter().map(|c| c.as_i64().unwrap() as f32 * amul).collect();
            vertex(
                pt3(p[0].as_i64().unwrap() as f32 / unit, p[1].as_i64().unwrap() as f32 / unit, z),
                V::make(&a, z),
            )
        })
        .collect();
    let verts: [Vertex<ScreenPt, V>; 3] = [vs[0].clone(), vs[1].clone(), vs[2].clone()];
    let mut rows = vec![];
    let ok = guard(|| {
        let skipping = case.get("skip").and_then(|v| v.as_i64()).unwrap_or(0) == 1;
        tri_fill(verts, |mut sl| {
            // a consumer may skip the first columns of a span through the public stepping iterator
            // (Scanline::vs) before asking for the fragments: what remains are the fragments of the
            // remaining pixels
            let mut skipped = 0usize;
            if skipping {
                let k = 1 + sl.y % 3;
                if k < sl.xs.end.saturating_sub(sl.xs.start) {
                    let _ = sl.vs.nth(k - 1);
                    skipped = k;
                }
            }
            let frags: Vec<Value> = sl
                .fragments()
                .take(100_000)
                .map(|f| {
                    let cs = f.var.comps();
                    let all = [f.pos.x(), f.pos.y(), f.pos.z()];
                    let p: Vec<Option<i64>> = vec![sc(all[0], 1024.0), sc(all[1], 1024.0), sc(all[2], 65536.0 * zdiv)];
                    let a: Vec<Option<i64>> = cs.iter().map(|c| sc(*c, 1024.0 * adiv)).collect();
                    if p.iter().chain(a.iter()).all(|x| x.is_some()) {
                        json!([1, p[0], p[1], p[2], a])
                    } else {
                        json!([0, 0, 0, 0, vec![0; cs.len()]])
                    }
                })
                .collect();
            let cap = |x: usize| x.min(1 << 30);
            rows.push(json!([cap(sl.y), cap(sl.xs.start + skipped), cap(sl.xs.end), frags.len(), frags]));
        })
    })
    .is_some();
    (ok, rows)
}

/// The public scan() iterator over a trapezoid, consumed plainly and through an adaptor that skips rows
/// (step_by / skip / nth): the rows the adaptor delivers are the corresponding rows of the plain run.
fn exec_scan(case: &Value) -> Value {
    use re::render::raster::scan;
    let h = |k: &str| gi(case, k) as f32 / 2.0; // half-pixel lattice
    let (y0, y1) = (h("y0"), h("y1"));
    let corner = |x: f32, y: f32| -> (ScreenPt, f32) { (pt3(x, y, 1.0), 2.0 * x + 3.0 * y) };
    let (l0, l1, r0, r1) = (corner(h("xl0"), y0), corner(h("xl1"), y1), corner(h("xr0"), y0), corner(h("xr1"), y1));
    let rows_of = |it: &mut dyn Iterator<Item = re::render::raster::Scanline<f32>>| -> Vec<Value> {
        it.map(|mut sl| {
            let frags: Vec<Value> = sl.fragments().take(10_000).map(|f| json!([sc(f.pos.x(), 1024.0), sc(f.pos.y(), 1024.0), sc(f.var, 1024.0)])).collect();
            json!([sl.y.min(1 << 30), sl.xs.start.min(1 << 30), sl.xs.end.min(1 << 30), frags])
        })
        .collect()
    };
    let kn = gi(case, "kn") as usize;
    let how = gs(case, "how").to_string();
    let r = guard(|| {
        let plain = rows_of(&mut scan(y0..y1, &l0..&l1, &r0..&r1));
        let it = scan(y0..y1, &l0..&l1, &r0..&r1);
        let adapted = match how.as_str() {
            "step_by" => rows_of(&mut it.step_by(kn.max(1))),
            "skip" => rows_of(&mut it.skip(kn)),
            _ => {
                let mut it = it;
                let first = it.nth(kn);
                rows_of(&mut first.into_iter().chain(it))
            }
        };
        (plain, adapted)
    });
    let mut e = case.clone();
    let o = e.as_object_mut().unwrap();
    let (p, a) = r.clone().unwrap_or((vec![], vec![]));
    o.insert("panic".into(), json!(r.is_none() as u8));
    o.insert("rows".into(), json!(p));
    o.insert("rows2".into(), json!(a));
    e
}

pub fn exec(case: &Value) -> Value {
    if case.get("op").and_then(|v| v.as_str()) == Some("scan") {
        return exec_scan(case);
    }
    let (ok, rows) = match gs(case, "ty") {
        "vec2" => run::<Vec2>(case),
        "vec3" => run::<Vec3>(case),
        "col3" => run::<Color3f>(case),
        "tup" => run::<(f32, Vec2)>(case),
        "ang" => run::<re::math::angle::Angle>(case),
        "col4" => run::<re::math::color::Color4f>(case),
        _ => run::<f32>(case),
    };
    let mut e = case.clone();
    let o = e.as_object_mut().unwrap();
    o.insert("panic".into(), json!(!ok as u8));
    o.insert("rows".into(), json!(rows));
    e
}

// ---------------------------------------------------------------- generator

const ZS: [i64; 6] = [20, 10, 5, 4, 2, 20];
const TYS: [(&str, usize); 7] = [("f32", 1), ("vec2", 2), ("vec3", 3), ("col3", 3), ("tup", 3), ("ang", 1), ("col4", 4)];

fn attrs(rng: &mut Rng, n: usize, hi: i64) -> Vec<Vec<i64>> {
    (0..3).map(|_| (0..n).map(|_| rng.range(0, hi)).collect()).collect()
}

fn emit(out: &mut dyn Write, key: String, s: i64, v: [[i64; 2]; 3], rng: &mut Rng, small: bool, tyi: usize) {
    let (ty, n) = TYS[tyi % TYS.len()];
    // reciprocal depths: equal (affine case) or a w ratio up to 10:1
    let z: Vec<i64> = if rng.chance(1, 4) { vec![20, 20, 20] } else { (0..3).map(|_| *rng.pick(&ZS)).collect() };
    // coverage does not depend on depth: every 5th coverage-only triangle gets NEGATIVE depths
    let z: Vec<i64> = if !small && tyi % 5 == 3 { z.iter().map(|v| -v).collect() } else { z };
    let a = attrs(rng, n, 32);
    let zsc = [0i64, 0, -14, 0, -20, 6][(tyi / TYS.len()) % 6];
    // (attribute scale: only together with ordinary depths; not for angles and colours, whose conversions
    // and clamps have their own ranges)
    let asc = if zsc == 0 && matches!(ty, "f32" | "vec2" | "vec3" | "tup") { [0i64, -126, 0, 100, -120, 0][(tyi / (6 * TYS.len())) % 6] } else { 0 };
    let skip = key.starts_with('S') as u8;
    writeln!(out, "{}", json!({"k": key, "s": s, "v": v, "Z": z, "A": a, "ty": ty, "c05": small as u8, "zsc": zsc, "asc": asc, "skip": skip})).unwrap();
}

pub fn gen(args: &Args, out: &mut dyn Write) {
    let thorough = args.tier == "thorough";
    let mode = args.rest.first().map(|s| s.as_str()).unwrap_or("all").to_string();
    let mut rng = Rng::new(args.seed ^ 0x4A57);
    // 1. every ordered vertex triple of the half-pixel lattice of a GxG pixel grid,
    //    also shifted so that triangles hang over the left / top of the grid
    if mode == "lattice" || mode == "all" {
        let g: i64 = if thorough { 4 } else { 3 };
        let pts: Vec<[i64; 2]> = (0..=2 * g).flat_map(|x| (0..=2 * g).map(move |y| [x, y])).collect();
        let mut idx = 0usize;
        for a in &pts {
            for b in &pts {
                for c in &pts {
                    idx += 1;
                    emit(out, format!("L{g}-{idx}"), 1, [*a, *b, *c], &mut rng, true, idx);
                    if idx % 8 == 3 {
                        let sh = |p: &[i64; 2]| [p[0] - 2, p[1] - 2];
                        emit(out, format!("L{g}n-{idx}"), 1, [sh(a), sh(b), sh(c)], &mut rng, true, idx / 8);
                    }
                }
            }
        }
    }
    // 1c. "scan": trapezoids for the public scan() iterator and its row-skipping adaptors
    if mode == "scan" {
        for i in 0..(if thorough { 20_000 } else { 2_000 }) {
            let y0 = rng.range(-2, 10);
            let y1 = y0 + rng.range(1, 14);
            let (xl0, xl1) = (rng.range(-2, 12), rng.range(-2, 12));
            let (xr0, xr1) = (xl0 + rng.range(0, 12), xl1 + rng.range(0, 12));
            let how = ["step_by", "skip", "nth"][i % 3];
            writeln!(out, "{}", json!({"k": format!("T{}-{}", args.seed, i), "op": "scan", "y0": y0, "y1": y1, "xl0": xl0, "xl1": xl1,
                                         "xr0": xr0, "xr1": xr1, "how": how, "kn": rng.range(if how == "step_by" { 1 } else { 0 }, 4)})).unwrap();
        }
    }
    // 1b. "skip": the lattice triangles again (every 5th), consumed with a few columns skipped per span
    if mode == "skip" {
        let g: i64 = 3;
        let pts: Vec<[i64; 2]> = (0..=2 * g).flat_map(|x| (0..=2 * g).map(move |y| [x, y])).collect();
        let mut idx = 0usize;
        for a in &pts {
            for b in &pts {
                for c in &pts {
                    idx += 1;
                    if idx % 5 == 2 {
                        emit(out, format!("S{g}-{idx}"), 1, [*a, *b, *c], &mut rng, true, idx);
                    }
                }
            }
        }
    }
    // 1d. long spans and tall triangles (more than 256, 512 pixels in one direction), judged on positions
    // 1e. a twelfth-of-a-pixel lattice (its points are no binary fractions) on 3x3 pixels, slivers frequent
    if mode == "random" || mode == "all" {
        for i in 0..(if thorough { 60_000 } else { 4_000 }) {
            let m = 36;
            let mut v = [[rng.range(0, m), rng.range(0, m)], [rng.range(0, m), rng.range(0, m)], [rng.range(0, m), rng.range(0, m)]];
            if i % 2 == 0 {
                // a sliver one to three twelfths wide, a pixel or more long
                let (x, y, h) = (rng.range(1, m - 6), rng.range(0, m - 14), rng.range(12, 30));
                let t = rng.range(1, 3);
                let lean = rng.range(-4, 4);
                v = [[x, y], [x + t, y], [x + lean, (y + h).min(m)]];
                if rng.chance(1, 2) { for p in v.iter_mut() { p.swap(0, 1); } }
                if rng.chance(1, 2) { v.swap(0, 1); }
            }
            let (ty, n) = TYS[i % 5];
            let z: Vec<i64> = if rng.chance(1, 3) { vec![20, 20, 20] } else { (0..3).map(|_| *rng.pick(&ZS)).collect() };
            let a = attrs(&mut rng, n, 12);
            writeln!(out, "{}", json!({"k": format!("D{}-{}", args.seed, i), "s": 112, "v": v, "Z": z, "A": a, "ty": ty, "c05": 1, "zsc": 0, "asc": 0, "skip": 0})).unwrap();
        }
    }
    // 1f. "near": on the twelfth-of-a-pixel lattice (vertices are no binary fractions), an edge of 4..7 px whose
    // line passes a pixel centre at the smallest distance the lattice allows that is still outside the statement's
    // 0.001 px band (edge function = 1 unit^2: 0.0010..0.0019 px), the centre inside or outside; coverage only
    if mode == "random" || mode == "all" {
        let mut r4 = Rng::new(args.seed ^ 0x2E4F);
        let gcd = |mut a: i64, mut b: i64| { while b != 0 { (a, b) = (b, a % b); } a.abs() };
        let mut made = 0;
        let mut tries = 0;
        while made < (if thorough { 6000 } else { 600 }) && tries < 200_000 {
            tries += 1;
            let (dx, dy) = (r4.range(8, 72) * if r4.chance(1, 2) { -1 } else { 1 }, r4.range(8, 72) * if r4.chance(1, 2) { -1 } else { 1 });
            let l1 = dx.abs() + dy.abs();
            // out of the band: 1000 * 1 > L1 * 12; close: L2 >= 45 units
            if gcd(dx, dy) != 1 || l1 > 83 || dx * dx + dy * dy < 45 * 45 {
                continue;
            }
            let c = [12 * r4.range(4, 6) + 6, 12 * r4.range(4, 6) + 6];
            let side = if r4.chance(1, 2) { 1 } else { -1 };
            // P = C - (u, v) with dx * v - dy * u = side, (u, v) close to d / 2
            let mut best: Option<(i64, i64)> = None;
            for u in (dx / 2 - dx.abs())..=(dx / 2 + dx.abs()) {
                let num = side + dy * u;
                if num % dx == 0 {
                    let v = num / dx;
                    if best.map_or(true, |(bu, _)| (u - dx / 2).abs() < (bu - dx / 2).abs()) {
                        best = Some((u, v));
                    }
                }
            }
            let Some((u, v)) = best else { continue };
            let p = [c[0] - u, c[1] - v];
            let q = [p[0] + dx, p[1] + dy];
            // third vertex well away from the line, on either side
            let k = r4.range(1, 3) * if r4.chance(1, 2) { 1 } else { -1 };
            let r = [c[0] - dy * k / 2 + r4.range(-3, 3), c[1] + dx * k / 2 + r4.range(-3, 3)];
            if [p, q, r].iter().any(|w| w[0] < 0 || w[1] < 0 || w[0] > 160 || w[1] > 160) {
                continue;
            }
            let mut vv = [p, q, r];
            if r4.chance(1, 2) { vv.swap(0, 1); }
            if r4.chance(1, 3) { vv.swap(1, 2); }
            writeln!(out, "{}", json!({"k": format!("N{}-{}", args.seed, made), "s": 112, "v": vv, "Z": [20, 20, 20], "A": [[1], [2], [3]], "ty": "f32",
                                         "c05": 0, "zsc": 0, "asc": 0, "skip": 0})).unwrap();
            made += 1;
        }
    }
    if mode == "long" {
        for i in 0..(if thorough { 400 } else { 40 }) {
            let len = rng.range(258, 700);
            let thin = rng.range(2, 5);
            let wide = i % 2 == 0;
            let mut v = [[rng.range(0, 3), rng.range(0, 2)], [len, rng.range(0, thin)], [rng.range(len / 3, len), thin]];
            if !wide {
                for p in v.iter_mut() { p.swap(0, 1); }
            }
            if i % 3 == 0 { v.swap(0, 2); }
            let (ty, n) = TYS[i % TYS.len()];
            let z: Vec<i64> = (0..3).map(|_| *rng.pick(&ZS)).collect();
            let a = attrs(&mut rng, n, 32);
            writeln!(out, "{}", json!({"k": format!("W{}-{}", args.seed, i), "s": 0, "v": v, "Z": z, "A": a, "ty": ty, "c05": 2, "zsc": 0, "asc": 0, "skip": 0})).unwrap();
        }
    }
    // 2. seeded random triangles on finer lattices / larger grids
    if mode == "random" || mode == "all" {
        let n = args.n.unwrap_or(if thorough { 400_000 } else { 30_000 });
        for i in 0..n {
            let (s, grid, small) = match i % 4 {
                0 => (2, 4, true),   // quarter-pixel lattice, 4x4 px
                1 => (1, 8, true),   // half-pixel lattice, 8x8 px
                2 => (3, 16, false), // 1/8-pixel lattice, 16x16 px (coverage only)
                _ => (8, 12, false), // floats snapped to 1/256 px (coverage only)
            };
            let m = grid << s;
            // (partly off-grid to the left / above: also on the lattices whose fragments are judged)
            let lo = if i % 16 == 7 { -(2 << s) } else if i % 16 == 4 || i % 16 == 5 { -(3 << s) } else { 0 };
            let mut v = [[0i64; 2]; 3];
            for p in v.iter_mut() {
                *p = [rng.range(lo, m), rng.range(lo, m)];
            }
            // slivers, flat tops/bottoms and sub-pixel triangles are frequent
            match rng.below(8) {
                0 => v[1][1] = v[0][1],
                1 => v[2][1] = v[1][1],
                2 => v[2] = [v[0][0] + rng.range(-3, 3), v[0][1] + rng.range(-3, 3)],
                3 => v[1] = [v[0][0] + rng.range(0, 2 << s), v[0][1] + rng.range(0, 1 << s)],
                _ => {}
            }
            // a tiny triangle (a few hundredths of a pixel across) around a pixel centre: its only
            // fragment must still be produced
            if s == 8 && i % 16 == 11 {
                let c = [(rng.range(0, grid - 1) << s) + 128, (rng.range(0, grid - 1) << s) + 128];
                let r = *rng.pick(&[2i64, 4, 8, 16]);
                for p in v.iter_mut() {
                    *p = [c[0] + rng.range(-r, r), c[1] + rng.range(-r, r)];
                }
            }
            // fine lattices: one vertex exactly on a row of pixel centres (y = k + 1/2), where the
            // two halves of the triangle meet on a sampling row
            if s >= 3 && i % 8 >= 6 {
                let j = (i / 8) % 3;
                v[j][1] = ((v[j][1] >> s) << s) + (1 << (s - 1));
            }
            emit(out, format!("R{}-{}", args.seed, i), s, v, &mut rng, small, i);
        }
    }
}
