//! C01 / C02 driver: whole-pipeline rendering.
//!
//! "img" cases (C01): lattice clip-space scenes rendered through render(),
//! Batch::render() or Camera::render(); the fragment shader smuggles the
//! interpolated f32 attribute bit-exactly through the colour word; the image
//! (class, attribute * 1024, reciprocal depth * 4096 per pixel) is recorded.
//!
//! "safe" cases (C02): view-space triangle soups over the statement's numeric
//! domain pushed through the library's own projection and viewport matrices
//! under every context flag combination; panics, NaNs in the depth plane and
//! the bounding boxes of the scanlines / touched pixels are recorded.

use crate::target::{mk_ctx, SpanRec};
use crate::util::*;
use crate::Args;
use re::geom::{vertex, Tri, Vertex};
use re::math::color::{rgb, rgba, Color3f, Color4};
use re::math::Vary;
use re::math::mat::{orthographic, perspective, viewport, Mat4x4, RealToProj};
use re::math::point::{pt2, pt3};
use re::math::vec::ProjVec4;
use re::render::cam::Camera;
use re::render::clip::{view_frustum, ClipVert};
use re::render::raster::Frag;
use re::render::shader::Shader;
use re::render::stats::Stats;
use re::render::target::Framebuf;
use re::render::{render, Batch, Target, World, WorldToView};
use re::util::buf::Buf2;
use serde_json::{json, Value};
use std::io::Write;

type Vtx = Vertex<ProjVec4, f32>;

/// Varying types the image scenes are rendered with: the f32 attribute is embedded in the type and
/// read back from it in the fragment shader (each type interpolates through its own Lerp / Vary impl).
trait AttrV: Vary + re::math::Lerp + Clone + 'static {
    fn make(a: f32) -> Self;
    fn first(&self) -> f32;
}
impl AttrV for f32 {
    fn make(a: f32) -> Self { a }
    fn first(&self) -> f32 { *self }
}
impl AttrV for Color3f {
    fn make(a: f32) -> Self { rgb(a, 0.5 * a, 1.0) }
    fn first(&self) -> f32 { self.r() }
}
impl AttrV for (f32, re::math::vec::Vec2) {
    fn make(a: f32) -> Self { (a, re::math::vec::vec2(-a, 3.0)) }
    fn first(&self) -> f32 { self.0 }
}
const SENT: f32 = -7777.0;

fn word(x: f32) -> Color4 {
    // argb word = the f32's bits: a = byte 3, r = byte 2, g = byte 1, b = byte 0
    let b = x.to_bits().to_be_bytes();
    rgba(b[1], b[2], b[3], b[0])
}

fn frag_shader(f: Frag<f32>) -> Option<Color4> {
    Some(word(f.var))
}

fn bbox_add(b: &mut [i64; 5], x0: i64, y0: i64, x1: i64, y1: i64) {
    if b[0] == 0 {
        *b = [1, x0, y0, x1, y1];
    } else {
        b[0] += 1;
        b[1] = b[1].min(x0);
        b[2] = b[2].min(y0);
        b[3] = b[3].max(x1);
        b[4] = b[4].max(y1);
    }
}

fn clampi(x: f64) -> i64 {
    if x.is_finite() {
        x.round().clamp(-1e6, 1e6) as i64
    } else {
        1_000_000
    }
}

fn exec_img(case: &Value) -> Value {
    match case.get("vt").and_then(|v| v.as_str()).unwrap_or("f32") {
        "col3" => exec_img_t::<Color3f>(case),
        "tup" => exec_img_t::<(f32, re::math::vec::Vec2)>(case),
        _ => exec_img_t::<f32>(case),
    }
}

fn exec_img_t<V: AttrV>(case: &Value) -> Value {
    let (bw, bh) = (gu(case, "bw"), gu(case, "bh"));
    let vp: Vec<u32> = case["vp"].as_array().unwrap().iter().map(|v| v.as_u64().unwrap() as u32).collect();
    let to_screen = viewport(pt2(vp[0], vp[1])..pt2(vp[2], vp[3]));
    let tris_in = case["tris"].as_array().unwrap();
    // all clip coordinates are multiplied by 2^sc (exact): the image is the same,
    // reciprocal depths scale by 2^-sc (undone below)
    let scale = 2f32.powi(case.get("sc").and_then(|v| v.as_i64()).unwrap_or(0) as i32);
    let mut verts: Vec<Vertex<ProjVec4, V>> = vec![];
    for t in tris_in {
        for i in 0..3 {
            let v = crate::target::lat_vertex(&t["v"][i], t["a"][i].as_i64().unwrap() as f32);
            verts.push(vertex(v.pos * scale, V::make(v.attrib)));
        }
    }
    let faces: Vec<Tri<usize>> = (0..tris_in.len()).map(|t| Tri([3 * t, 3 * t + 1, 3 * t + 2])).collect();
    let kind = gs(case, "kind");
    let via = gs(case, "via");
    let cull = case.get("cull").and_then(|v| v.as_i64()).unwrap_or(0);
    let ctx = mk_ctx(&json!({"cull": cull, "sort": 0, "test": 1, "cw": 1, "dw": 1}), Stats::new());
    fn go<V: AttrV>(
        via: &str,
        faces: &[Tri<usize>],
        verts: &[Vertex<ProjVec4, V>],
        to_screen: Mat4x4<re::render::NdcToScreen>,
        vp: &[u32],
        dims: (u32, u32),
        target: &mut impl Target,
        ctx: &re::render::Context,
    ) -> bool {
        match via {
            "batch" => {
                let sh = Shader::new(|v: Vertex<ProjVec4, V>, _: ()| v, |f: Frag<V>| Some(word(f.var.first())));
                guard(|| Batch::new().faces(faces).vertices(verts).shader(sh).viewport(to_screen).target(target).context(ctx).render()).is_some()
            }
            "camera" => {
                // identity view transform and projection: the vertex shader passes clip space through
                let sh = Shader::new(|v: Vertex<ProjVec4, V>, _: (&Mat4x4<RealToProj<World>>, ())| v, |f: Frag<V>| Some(word(f.var.first())));
                // a side that coincides with the frame is left open-ended in the request
                let rq: re::util::rect::Rect<u32> = match (vp[2] == dims.0, vp[3] == dims.1) {
                    (true, true) => (vp[0].., vp[1]..).into(),
                    (true, false) => (vp[0].., vp[1]..vp[3]).into(),
                    (false, true) => (vp[0]..vp[2], vp[1]..).into(),
                    _ => (vp[0]..vp[2], vp[1]..vp[3]).into(),
                };
                let cam = Camera::new(dims)
                    .viewport(rq)
                    .mode(Mat4x4::<WorldToView>::identity());
                let to_world = Mat4x4::<re::math::mat::RealToReal<3, World, World>>::identity();
                guard(|| cam.render(faces, verts, &to_world, &sh, (), target, ctx)).is_some()
            }
            _ => {
                let sh = Shader::new(|v: Vertex<ProjVec4, V>, _: ()| v, |f: Frag<V>| Some(word(f.var.first())));
                guard(|| render(faces, verts, &sh, (), to_screen, target, ctx)).is_some()
            }
        }
    }
    // win 0: the targets are the buffers themselves; 1: windows (MutSlice2) of larger parent buffers,
    // row pitch > width; 2: windows of windows.  Afterwards the windows are copied out and the parent
    // cells outside them must still hold their sentinels (outw counts those that do not).
    let win = case.get("win").and_then(|v| v.as_i64()).unwrap_or(0);
    let sentw = word(SENT).to_argb_u32();
    let (pl, pt, pr, pb) = if win == 0 { (0u32, 0u32, 0u32, 0u32) } else { (2, 1, 1, 2) };
    let (pw, ph) = (bw + pl + pr, bh + pt + pb);
    let mut cpar = Buf2::new_from((pw, ph), std::iter::repeat(sentw));
    let mut zpar = Buf2::new_from((pw, ph), std::iter::repeat(0.0f32));
    let ok = match win {
        0 => {
            if kind == "col" {
                go(via, &faces, &verts, to_screen, &vp, (bw, bh), &mut cpar, &ctx)
            } else {
                let mut fb = Framebuf { color_buf: &mut cpar, depth_buf: &mut zpar };
                go(via, &faces, &verts, to_screen, &vp, (bw, bh), &mut fb, &ctx)
            }
        }
        1 => {
            let c = cpar.slice_mut((pl..pl + bw, pt..pt + bh));
            let z = zpar.slice_mut((pl..pl + bw, pt..pt + bh));
            if kind == "col" {
                let mut c = c;
                go(via, &faces, &verts, to_screen, &vp, (bw, bh), &mut c, &ctx)
            } else {
                let mut fb = Framebuf { color_buf: c, depth_buf: z };
                go(via, &faces, &verts, to_screen, &vp, (bw, bh), &mut fb, &ctx)
            }
        }
        _ => {
            // pane: everything but the first column and the last row; the window inside it
            let mut cpane = cpar.slice_mut((1..pw, 0..ph - 1));
            let mut zpane = zpar.slice_mut((1..pw, 0..ph - 1));
            let c = cpane.slice_mut((pl - 1..pl - 1 + bw, pt..pt + bh));
            let z = zpane.slice_mut((pl - 1..pl - 1 + bw, pt..pt + bh));
            if kind == "col" {
                let mut c = c;
                go(via, &faces, &verts, to_screen, &vp, (bw, bh), &mut c, &ctx)
            } else {
                let mut fb = Framebuf { color_buf: c, depth_buf: z };
                go(via, &faces, &verts, to_screen, &vp, (bw, bh), &mut fb, &ctx)
            }
        }
    };
    let mut outw = 0;
    for y in 0..ph {
        for x in 0..pw {
            let inside = x >= pl && x < pl + bw && y >= pt && y < pt + bh;
            if !inside && (cpar[[x, y]] != sentw || zpar[[x, y]].to_bits() != 0) {
                outw += 1;
            }
        }
    }
    struct Img<'a>(&'a Buf2<u32>, &'a Buf2<f32>, u32, u32);
    let fb = Img(&cpar, &zpar, pl, pt);
    // image
    let img: Vec<Value> = (0..bh)
        .map(|y| {
            json!((0..bw)
                .map(|x| {
                    let c = fb.0[[x + fb.2, y + fb.3]];
                    let z = fb.1[[x + fb.2, y + fb.3]];
                    let cch = c != sentw;
                    let zch = z.to_bits() != 0;
                    let cls = if !cch && !zch { 0 } else if kind == "col" || (cch && zch) { 1 } else { 2 };
                    let a = f32::from_bits(c) as f64;
                    json!([cls, clampi(a * 1024.0), clampi(z as f64 * scale as f64 * 4096.0)])
                })
                .collect::<Vec<_>>())
        })
        .collect();
    // internal fan edges of the clipped polygons, in screen space (1/256 px)
    let (dx, dy) = ((vp[2] as f64 - vp[0] as f64) / 2.0, (vp[3] as f64 - vp[1] as f64) / 2.0);
    let (cx, cy) = ((vp[2] as f64 + vp[0] as f64) / 2.0, (vp[3] as f64 + vp[1] as f64) / 2.0);
    let scr = |p: &ProjVec4| -> (i64, i64) {
        let w = p.0[3] as f64;
        (clampi((p.0[0] as f64 / w * dx + cx) * 256.0), clampi((p.0[1] as f64 / w * dy + cy) * 256.0))
    };
    let mut fan = vec![];
    for t in 0..tris_in.len() {
        let tri = Tri([0, 1, 2].map(|i| ClipVert::new(verts[3 * t + i].clone())));
        let mut out = vec![];
        view_frustum::clip(&[tri][..], &mut out);
        if out.len() > 1 {
            // every edge of an output triangle that is shared with another one
            let mut edges: Vec<((i64, i64), (i64, i64))> = vec![];
            for o in &out {
                for i in 0..3 {
                    edges.push((scr(&o.0[i].pos), scr(&o.0[(i + 1) % 3].pos)));
                }
            }
            for (i, e) in edges.iter().enumerate() {
                if edges.iter().enumerate().any(|(j, f)| i != j && f.0 == e.1 && f.1 == e.0) && e.0 < e.1 {
                    fan.push(json!([e.0 .0, e.0 .1, e.1 .0, e.1 .1]));
                }
            }
        }
    }
    let mut e = case.clone();
    let o = e.as_object_mut().unwrap();
    o.insert("panic".into(), json!(!ok as u8));
    o.insert("img".into(), json!(img));
    o.insert("fan".into(), json!(fan));
    o.insert("outw".into(), json!(outw));
    e
}

fn exec_safe(case: &Value) -> Value {
    let (bw, bh) = (gu(case, "bw"), gu(case, "bh"));
    let vp: Vec<u32> = case["vp"].as_array().unwrap().iter().map(|v| v.as_u64().unwrap() as u32).collect();
    let mut to_screen = viewport(pt2(vp[0], vp[1])..pt2(vp[2], vp[3]));
    if let Some(rq) = case.get("rq").and_then(|v| v.as_array()) {
        // the viewport as a Camera of the buffer's size derives it from a request that may reach beyond
        // its frame: what must not be left is the intersection (case.vp)
        let r = |i: usize| rq[i].as_u64().unwrap() as u32;
        match guard(|| Camera::new((bw, bh)).viewport((r(0)..r(2), r(1)..r(3))).mode(Mat4x4::<WorldToView>::identity()).viewport) {
            Some(m) => to_screen = m,
            None => {
                let mut e = case.clone();
                let o = e.as_object_mut().unwrap();
                o.insert("panic".into(), json!(1));
                o.insert("nan".into(), json!(0));
                o.insert("sbox".into(), json!([0, 0, 0, 0, 0]));
                o.insert("tbox".into(), json!([0, 0, 0, 0, 0]));
                o.insert("outw".into(), json!(0));
                return e;
            }
        }
    }
    let pj = &case["proj"];
    let proj = if gs(pj, "ty") == "persp" {
        perspective(gf(pj, "f") as f32, gf(pj, "aspect") as f32, gf(pj, "near") as f32..gf(pj, "far") as f32)
    } else {
        let b = pj["box"].as_array().unwrap();
        let g = |i: usize| b[i].as_f64().unwrap() as f32;
        orthographic(pt3(g(0), g(1), g(2)), pt3(g(3), g(4), g(5)))
    };
    let pts = case["pts"].as_array().unwrap();
    let verts: Vec<Vtx> = pts
        .iter()
        .enumerate()
        .map(|(i, p)| {
            let g = |j: usize| f32::from_bits(u32::from_str_radix(p[j].as_str().unwrap(), 16).unwrap());
            vertex(proj.apply(&pt3(g(0), g(1), g(2))), 1.0 + (i % 7) as f32)
        })
        .collect();
    let faces: Vec<Tri<usize>> = case["faces"]
        .as_array()
        .unwrap()
        .iter()
        .map(|f| Tri([0, 1, 2].map(|i| f[i].as_u64().unwrap() as usize)))
        .collect();
    let ctx = mk_ctx(&case["ctx"], Stats::new());
    let kind = gs(&case["ctx"], "kind");
    let sentw = word(SENT).to_argb_u32();
    let disc = gi(&case["ctx"], "disc") == 1;
    let sh = Shader::new(
        |v: Vtx, _: ()| v,
        move |f: Frag<f32>| if disc && (f.pos.x() as i64 + f.pos.y() as i64) % 2 == 0 { None } else { Some(word(f.var)) },
    );
    let mut sbox = [0i64; 5];
    // targets: the buffers themselves, windows of larger parents, or windows of windows (see exec_img)
    let win = case.get("win").and_then(|v| v.as_i64()).unwrap_or(0);
    let (pl, pt, pr, pb) = if win == 0 { (0u32, 0u32, 0u32, 0u32) } else { (1, 2, 2, 1) };
    let (pw, ph) = (bw + pl + pr, bh + pt + pb);
    let mut cpar = Buf2::new_from((pw, ph), std::iter::repeat(sentw));
    let mut zpar = Buf2::new_from((pw, ph), std::iter::repeat(0.0f32));
    fn run<T: Target>(t: &mut T, f: &dyn Fn(&mut SpanRec<T>) -> bool) -> (bool, Vec<(usize, usize, usize)>) {
        let mut rec = SpanRec { inner: t, spans: vec![] };
        let ok = f(&mut rec);
        (ok, rec.spans)
    }
    macro_rules! draw {
        ($t:expr) => {
            run($t, &|rec| guard(|| render(&faces, &verts, &sh, (), to_screen, rec, &ctx)).is_some())
        };
    }
    let (ok, spans) = match (win, kind == "col") {
        (0, true) => draw!(&mut cpar),
        (0, false) => draw!(&mut Framebuf { color_buf: &mut cpar, depth_buf: &mut zpar }),
        (1, col) => {
            let mut c = cpar.slice_mut((pl..pl + bw, pt..pt + bh));
            let z = zpar.slice_mut((pl..pl + bw, pt..pt + bh));
            if col { draw!(&mut c) } else { draw!(&mut Framebuf { color_buf: c, depth_buf: z }) }
        }
        (_, col) => {
            let mut cpane = cpar.slice_mut((0..pw - 1, 1..ph));
            let mut zpane = zpar.slice_mut((0..pw - 1, 1..ph));
            let mut c = cpane.slice_mut((pl..pl + bw, pt - 1..pt - 1 + bh));
            let z = zpane.slice_mut((pl..pl + bw, pt - 1..pt - 1 + bh));
            if col { draw!(&mut c) } else { draw!(&mut Framebuf { color_buf: c, depth_buf: z }) }
        }
    };
    for (y, x0, x1) in spans {
        if x1 > x0 {
            let c = |v: usize| v.min(1 << 20) as i64;
            bbox_add(&mut sbox, c(x0), c(y), c(x1), c(y) + 1);
        }
    }
    let mut tbox = [0i64; 5];
    let mut nan = 0;
    let mut outw = 0;
    for y in 0..ph {
        for x in 0..pw {
            let z = zpar[[x, y]];
            let touched = cpar[[x, y]] != sentw || z.to_bits() != 0;
            if x >= pl && x < pl + bw && y >= pt && y < pt + bh {
                if z.is_nan() {
                    nan += 1;
                }
                if touched {
                    let (wx, wy) = ((x - pl) as i64, (y - pt) as i64);
                    bbox_add(&mut tbox, wx, wy, wx + 1, wy + 1);
                }
            } else if touched {
                outw += 1;
            }
        }
    }
    let mut e = case.clone();
    let o = e.as_object_mut().unwrap();
    o.insert("panic".into(), json!(!ok as u8));
    o.insert("nan".into(), json!(nan));
    o.insert("sbox".into(), json!(sbox));
    o.insert("tbox".into(), json!(tbox));
    o.insert("outw".into(), json!(outw));
    e
}

pub fn exec(case: &Value) -> Value {
    if gs(case, "op") == "img" {
        exec_img(case)
    } else {
        exec_safe(case)
    }
}

// ---------------------------------------------------------------- generators

fn gen_img(args: &Args, out: &mut dyn Write) {
    let thorough = args.tier == "thorough";
    let n = args.n.unwrap_or(if thorough { 30_000 } else { 1_500 });
    let mut rng = Rng::new(args.seed ^ 0x1A6E);
    for i in 0..n {
        let layered = i % 6 == 5;
        let (bw, bh) = if layered { (rng.range(10, 16), rng.range(8, 12)) } else { (rng.range(4, 16), rng.range(4, 12)) };
        let vp = match rng.below(3) {
            0 => [0, 0, bw, bh],
            _ => {
                let (x0, y0) = (rng.range(0, bw - 3), rng.range(0, bh - 3));
                [x0, y0, rng.range(x0 + 2, bw), rng.range(y0 + 2, bh)]
            }
        };
        let nt = if layered { 4 } else { rng.range(1, 4) };
        let tris: Vec<Value> = (0..nt)
            .map(|ti| {
                if layered {
                    // small near occluders first, one large far triangle last
                    let mut v = [[0i64; 4]; 3];
                    let base = rng.range(0, 40);
                    let a: Vec<i64> = (0..3).map(|_| base + rng.range(0, 24)).collect();
                    if ti == nt - 1 {
                        let w = 16;
                        v = [[-15, -14 + rng.range(0, 3), 0, w], [15, -13 + rng.range(0, 3), 0, w], [rng.range(-6, 6), 15, 0, w]];
                    } else {
                        let w = rng.range(4, 8);
                        let (cx, cy) = (rng.range(-w + 1, w - 1), rng.range(-w + 1, w - 1));
                        for p in v.iter_mut() {
                            *p = [(cx + rng.range(-3, 3)).clamp(-w, w), (cy + rng.range(-3, 3)).clamp(-w, w), 0, w];
                        }
                    }
                    return json!({"v": v, "a": a});
                }
                let kind = rng.below(6);
                let mut v = [[0i64; 4]; 3];
                for p in v.iter_mut() {
                    let w = match kind {
                        0 => rng.range(1, 16),
                        1 => rng.range(-8, 16),
                        _ => rng.range(2, 16),
                    };
                    let lim = if kind == 2 { w.abs() } else { 16 };
                    *p = [rng.range(-lim, lim), rng.range(-lim, lim), rng.range(-16, 16), w];
                }
                let base = rng.range(0, 40);
                let a: Vec<i64> = (0..3).map(|_| base + rng.range(0, 24)).collect();
                json!({"v": v, "a": a})
            })
            .collect();
        let kind = if i % 7 == 3 { "col" } else { "fb" };
        let via = *rng.pick(&["render", "render", "batch", "camera"]);
        // (2^14 and beyond: reciprocal depths far below 1e-6, where an absolute notion of "equal" would bite)
        let sc = *rng.pick(&[0i64, 0, 0, -10, -16, 8, 14, 18, 22]);
        // face culling: none / back faces (the default context) / front faces
        let cull = (i / 2) % 3;
        let win = [0, 1, 0, 2][i % 4];
        let vt = ["f32", "f32", "col3", "f32", "tup"][i % 5];
        writeln!(out, "{}", json!({"k": format!("i{}-{}", args.seed, i), "op": "img", "bw": bw, "bh": bh, "vp": vp,
            "tris": tris, "kind": kind, "via": via, "sc": sc, "cull": cull, "win": win, "vt": vt})).unwrap();
    }
}

fn gen_safe(args: &Args, out: &mut dyn Write) {
    let thorough = args.tier == "thorough";
    let n = args.n.unwrap_or(if thorough { 400_000 } else { 20_000 });
    let mut rng = Rng::new(args.seed ^ 0x5AFE);
    let hexs = |p: &[[f32; 3]]| -> Vec<[String; 3]> { p.iter().map(|p| [0, 1, 2].map(|j| format!("{:08x}", p[j].to_bits()))).collect() };
    // (1) triangles that cross ALL SIX planes of the view volume, so that what remains has nine corners
    // (the most a clipped triangle can have): two known ones and small perturbations of them
    for i in 0..(if thorough { 2_000 } else { 120 }) {
        let ortho = i % 2 == 0;
        let base: [[f32; 3]; 3] = if ortho { [[-8.0, 8.0, 6.0], [0.0, -8.0, 14.0], [8.0, 0.0, -2.0]] } else { [[22.0, -21.0, -6.0], [-10.0, 1.0, 17.0], [-6.0, 6.0, 3.0]] };
        let amp = if i < 2 { 0.0 } else { *rng.pick(&[0.01f64, 0.1, 0.3]) };
        let mut pts: Vec<[f32; 3]> = base.iter().map(|p| [0, 1, 2].map(|j| p[j] + ((rng.unit_f64() * 2.0 - 1.0) * amp) as f32)).collect();
        if i % 3 == 2 { pts.swap(1, 2); }
        let proj = if ortho { json!({"ty": "ortho", "box": [-5.0, -5.0, 1.0, 5.0, 5.0, 11.0]}) } else { json!({"ty": "persp", "f": 1.0, "aspect": 1.0, "near": 1.0, "far": 10.0}) };
        let ctx = json!({"cull": rng.below(3), "sort": rng.below(3), "test": rng.below(4), "cw": 1, "dw": rng.below(2), "disc": 0, "kind": if i % 5 == 4 { "col" } else { "fb" }});
        writeln!(out, "{}", json!({"k": format!("f9-{}-{}", args.seed, i), "op": "safe", "bw": 16, "bh": 16, "vp": [0, 0, 16, 16], "proj": proj,
                                   "pts": hexs(&pts), "faces": [[0, 1, 2]], "ctx": ctx, "win": i % 3})).unwrap();
    }
    // (2) many triangles in one sorted call, at depths a hair apart (chains of nearly equal sort keys)
    for i in 0..(if thorough { 600 } else { 60 }) {
        let nf = rng.range(22, 90) as usize;
        let (near, far) = (1.0f64, *rng.pick(&[10.0f64, 100.0]));
        let z0 = near * (1.5 + rng.unit_f64() * 3.0);
        let dz = *rng.pick(&[1e-2f64, 1e-3, 3e-4, 1e-4, 3e-5, 1e-5, 1e-6]);
        let mut pts: Vec<[f32; 3]> = vec![];
        let mut faces = vec![];
        for j in 0..nf {
            // (not in depth order: shuffled by a stride coprime to nf)
            let jj = (j * 7 + 3) % nf;
            let z = z0 * (1.0 + jj as f64 * dz);
            let (cx, cy) = ((rng.unit_f64() - 0.5) * 0.6 * z, (rng.unit_f64() - 0.5) * 0.6 * z);
            for (dx, dy) in [(-0.3, -0.2), (0.3, -0.1), (0.0, 0.3)] {
                pts.push([(cx + dx * z) as f32, (cy + dy * z) as f32, (z * (1.0 + (rng.unit_f64() - 0.5) * dz * 0.5)) as f32]);
            }
            faces.push([3 * j, 3 * j + 1, 3 * j + 2]);
        }
        let persp = i % 3 != 0;
        let proj = if persp { json!({"ty": "persp", "f": 1.0, "aspect": 1.0, "near": near, "far": far}) } else { json!({"ty": "ortho", "box": [-4.0, -4.0, near, 4.0, 4.0, far]}) };
        let ctx = json!({"cull": rng.below(3), "sort": 1 + rng.below(2), "test": rng.below(4), "cw": 1, "dw": 1, "disc": 0, "kind": "fb"});
        writeln!(out, "{}", json!({"k": format!("fm-{}-{}", args.seed, i), "op": "safe", "bw": 20, "bh": 20, "vp": [0, 0, 20, 20], "proj": proj,
                                   "pts": hexs(&pts), "faces": faces, "ctx": ctx, "win": 0})).unwrap();
    }
    for i in 0..n {
        let (bw, bh) = match rng.below(6) {
            0 => (1, 1),
            1 => (rng.range(1, 3), rng.range(1, 3)),
            2 => (rng.range(64, 160), rng.range(32, 80)),
            // very wide and flat (and tall and narrow): a relative overshoot of 1e-6 of a long edge
            // becomes a whole pixel only on a long axis
            3 if i % 4 == 1 => if rng.chance(1, 2) { (rng.range(700, 1200), rng.range(2, 6)) } else { (rng.range(2, 6), rng.range(700, 1200)) },
            _ => (rng.range(2, 24), rng.range(2, 18)),
        };
        let vp = if rng.chance(1, 2) {
            [0, 0, bw, bh]
        } else {
            let (x0, y0) = (rng.range(0, bw - 1), rng.range(0, bh - 1));
            [x0, y0, rng.range(x0 + 1, bw), rng.range(y0 + 1, bh)]
        };
        // every 6th scene: the viewport is what a camera makes of a request reaching beyond its frame
        let rq = (i % 6 == 5).then(|| [vp[0], vp[1], if vp[2] == bw { bw + [0, 1, 7][(i / 6) % 3] } else { vp[2] },
                                       if vp[3] == bh { bh + [1, 0, 5][(i / 6) % 3] } else { vp[3] }]);
        let near = *rng.pick(&[0.001f64, 0.01, 0.1, 1.0, 10.0]);
        let far = near * *rng.pick(&[2.0f64, 10.0, 100.0, 1000.0]);
        let persp = rng.chance(3, 4);
        let f = *rng.pick(&[0.25f64, 0.5, 1.0, 2.0, 4.0]);
        let aspect = (vp[2] - vp[0]) as f64 / (vp[3] - vp[1]) as f64;
        let ext = near * *rng.pick(&[1.0f64, 10.0, 100.0]);
        let proj = if persp {
            json!({"ty": "persp", "f": f, "aspect": aspect, "near": near, "far": far})
        } else {
            json!({"ty": "ortho", "box": [-ext, -ext * 0.75, near, ext, ext * 0.75, far]})
        };
        // view-space points: adversarial values are frequent
        let np = rng.range(3, 9) as usize;
        let zs = [near, far, 0.0, -near, (near + far) / 2.0, near * 1.0000001, far * 0.9999999, near * 1000.0, -far];
        let mut pts: Vec<[f32; 3]> = vec![];
        for _ in 0..np {
            let z = match rng.below(4) {
                0 => *rng.pick(&zs),
                1 => near + rng.unit_f64() * (far - near),
                2 => (rng.unit_f64() * 2.0 - 1.0) * near * 1000.0,
                _ => near * (1.0 + rng.unit_f64() * 3.0),
            };
            // lateral coordinates: inside the volume, exactly on a side plane, or far outside
            let half = if persp { z.abs().max(near) / f } else { ext };
            let lat = |rng: &mut Rng, half: f64| match rng.below(7) {
                0 => half,
                1 => -half,
                2 => 0.0,
                3 => (rng.unit_f64() * 2.0 - 1.0) * near * 1000.0,
                // barely outside / inside a side plane
                4 => half * (1.0 + (rng.unit_f64() * 2.0 - 1.0) * *rng.pick(&[1e-6, 1e-4, 1e-2, 1e-1])) * if rng.chance(1, 2) { 1.0 } else { -1.0 },
                _ => (rng.unit_f64() * 2.4 - 1.2) * half,
            };
            let x = lat(&mut rng, half);
            let y = lat(&mut rng, if persp { half / aspect } else { half * 0.75 });
            pts.push([x as f32, y as f32, z as f32]);
        }
        if rng.chance(1, 5) {
            let j = rng.below(np as u64) as usize;
            pts[0] = pts[j]; // coincident vertices
        }
        let nf = rng.range(1, 5);
        let faces: Vec<[usize; 3]> = (0..nf)
            .map(|_| {
                let a = rng.below(np as u64) as usize;
                let b = rng.below(np as u64) as usize;
                let c = if rng.chance(1, 8) { a } else { rng.below(np as u64) as usize };
                [a, b, c]
            })
            .collect();
        let ctx = json!({"cull": rng.below(3), "sort": rng.below(3), "test": rng.below(4), "cw": rng.below(2),
            "dw": rng.below(2), "disc": rng.below(2), "kind": if rng.chance(1, 4) { "col" } else { "fb" }});
        let ptsb: Vec<[String; 3]> = pts.iter().map(|p| [0, 1, 2].map(|j| format!("{:08x}", p[j].to_bits()))).collect();
        let mut c = json!({"k": format!("f{}-{}", args.seed, i), "op": "safe", "bw": bw, "bh": bh, "vp": vp,
            "proj": proj, "pts": ptsb, "faces": faces, "ctx": ctx});
        if let Some(rq) = rq {
            c["rq"] = json!(rq);
        }
        c["win"] = json!([0, 0, 1, 2, 0][i % 5]);
        writeln!(out, "{c}").unwrap();
    }
}

pub fn gen(args: &Args, out: &mut dyn Write) {
    match args.rest.first().map(|s| s.as_str()) {
        Some("safe") => gen_safe(args, out),
        _ => gen_img(args, out),
    }
}
