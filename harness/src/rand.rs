//! C19 driver: the xorshift64 step on basis / special / random states, the
//! full mantissa sweep of Uniform<f32> per range (states obtained by
//! inverting the step), and the other distributions.

use crate::util::*;
use crate::Args;
use re::math::point::{pt2, pt3};
use re::math::rand::*;
use re::math::vec::{vec2, vec3};
use serde_json::{json, Value};
use std::io::Write;

fn limbs(x: u64) -> [u64; 4] {
    [x & 0xFFFF, (x >> 16) & 0xFFFF, (x >> 32) & 0xFFFF, x >> 48]
}
fn unlimbs(v: &Value) -> u64 {
    (0..4).map(|i| v[i].as_u64().unwrap() << (16 * i)).sum()
}
/// ordered integer key of an f32 (monotone in the value; NaN -> i32::MAX)
fn key(x: f32) -> i64 {
    if x.is_nan() {
        return i32::MAX as i64;
    }
    let b = x.to_bits();
    if b >> 31 == 0 { b as i64 } else { -((b & 0x7FFF_FFFF) as i64) }
}

/// inverse of the xorshift step (driver only: picks states by their output)
fn inv_step(mut y: u64) -> u64 {
    // undo x ^= x << 17
    let mut t = y;
    let mut s = 17;
    while s < 64 {
        t = y ^ (t << 17);
        s += 17;
    }
    y = t;
    // undo x ^= x >> 7
    t = y;
    s = 7;
    while s < 64 {
        t = y ^ (t >> 7);
        s += 7;
    }
    y = t;
    // undo x ^= x << 13
    t = y;
    s = 13;
    while s < 64 {
        t = y ^ (t << 13);
        s += 13;
    }
    t
}

pub fn exec(case: &Value) -> Value {
    let mut e = case.clone();
    let op = gs(case, "op").to_string();
    let o = e.as_object_mut().unwrap();
    match op.as_str() {
        "step" => {
            let s = unlimbs(&case["s"]);
            let mut g = Xorshift64(s);
            let out = g.next_bits();
            o.insert("out".into(), json!(limbs(out)));
            o.insert("after".into(), json!(limbs(g.0)));
        }
        "range" => {
            // sweep of generator outputs: mantissa m = from + k * stride, k < count
            let (from, stride, count) = (gi(case, "from") as u64, gi(case, "stride") as u64, gi(case, "count") as u64);
            let mut rng = Rng::new(gi(case, "lowseed") as u64);
            let (mut mn, mut mx, mut n, mut panic) = (i64::MAX, i64::MIN, 0u64, 0);
            if gs(case, "ty") == "f32" {
                let lo = f32::from_bits(u32::from_str_radix(gs(case, "lob"), 16).unwrap());
                let hi = f32::from_bits(u32::from_str_radix(gs(case, "hib"), 16).unwrap());
                let d = Uniform(lo..hi);
                for k in 0..count {
                    let m = (from + k * stride) & 0x7F_FFFF;
                    let y = (m << 41) | (rng.next() >> 23);
                    // (the short sweeps at the extreme mantissas: also with the bits below the mantissa all set and
                    // all clear - an implementation may use more of the output than the 23 bits the current one does)
                    let ys = if count <= 4 { vec![y, (m << 41) | ((1 << 41) - 1), m << 41, (m << 41) | (0x1FF << 32), (m << 41) | (0x180 << 32)] } else { vec![y] };
                    for y in ys {
                        let st = inv_step(y);
                        if st == 0 {
                            continue;
                        }
                        match guard(|| d.sample(&mut Xorshift64(st))) {
                            Some(x) => {
                                mn = mn.min(key(x));
                                mx = mx.max(key(x));
                                n += 1;
                            }
                            None => panic = 1,
                        }
                    }
                }
                o.insert("lo".into(), json!(key(lo)));
                o.insert("hi".into(), json!(key(hi)));
            } else {
                let (lo, hi) = (gi(case, "loi") as i32, gi(case, "hii") as i32);
                let d = Uniform(lo..hi);
                for k in 0..count {
                    // low 32 bits of the output decide an i32 sample
                    let y = ((from + k * stride) & 0xFFFF_FFFF) | (rng.next() << 32);
                    let st = inv_step(y);
                    if st == 0 {
                        continue;
                    }
                    match guard(|| d.sample(&mut Xorshift64(st))) {
                        Some(x) => {
                            mn = mn.min(x as i64);
                            mx = mx.max(x as i64);
                            n += 1;
                        }
                        None => panic = 1,
                    }
                }
                o.insert("lo".into(), json!(lo));
                o.insert("hi".into(), json!(hi));
            }
            o.insert("min".into(), json!(if n > 0 { mn } else { 0 }));
            o.insert("max".into(), json!(if n > 0 { mx } else { 0 }));
            o.insert("n".into(), json!(n));
            o.insert("panic".into(), json!(panic));
        }
        "bern" => {
            let st = unlimbs(&case["s"]);
            let p = f32::from_bits(u32::from_str_radix(gs(case, "pb"), 16).unwrap());
            let r = Bernoulli(p).sample(&mut Xorshift64(st));
            o.insert("res".into(), json!(r as u8));
        }
        "norm" => {
            let st = unlimbs(&case["s"]);
            let g = &mut Xorshift64(st);
            let n2 = match gs(case, "dist") {
                "disk" => VectorsOnUnitDisk.sample(g).len_sqr(),
                "ball" => VectorsInUnitBall.sample(g).len_sqr(),
                "pdisk" => PointsOnUnitDisk.sample(g).to_vec().len_sqr(),
                "pball" => PointsInUnitBall.sample(g).to_vec().len_sqr(),
                "circle" => UnitCircle.sample(g).len_sqr(),
                _ => UnitSphere.sample(g).len_sqr(),
            };
            o.insert("n2".into(), json!((n2 as f64 * 1048576.0).round().min(1e9) as i64));
            // "inside" as the library itself measures it (len_sqr() <= 1 in f32): the scaled integer cannot show one ulp
            o.insert("inside".into(), json!((n2 <= 1.0) as u8));
        }
        "seq" => {
            // composite distributions draw their components in order: compare with
            // scalar draws from a generator advanced by hand
            // (a panic of the code under test is an observation: a = <<>>, b = <<0>> never agree)
            let r = guard(|| {
            let st = unlimbs(&case["s"]);
            let (mut g1, mut g2) = (Xorshift64(st), Xorshift64(st));
            let f = Uniform(-2.0f32..3.0);
            let i = Uniform(-50i32..70);
            let mut a: Vec<i64> = vec![];
            let mut b: Vec<i64> = vec![];
            match gs(case, "what") {
                "array" => {
                    let x = Uniform([-2.0f32, 1.0, 10.0]..[3.0, 2.0, 20.0]).sample(&mut g1);
                    a.extend(x.iter().map(|c| key(*c)));
                    b.push(key(Uniform(-2.0f32..3.0).sample(&mut g2)));
                    b.push(key(Uniform(1.0f32..2.0).sample(&mut g2)));
                    b.push(key(Uniform(10.0f32..20.0).sample(&mut g2)));
                }
                "vec" => {
                    let x = Uniform(vec3::<f32, ()>(-2.0, 1.0, 10.0)..vec3(3.0, 2.0, 20.0)).sample(&mut g1);
                    a.extend([x.x(), x.y(), x.z()].iter().map(|c| key(*c)));
                    let y = Uniform(vec2::<f32, ()>(5.0, -1.0)..vec2(6.0, 1.0)).sample(&mut g1);
                    a.extend([y.x(), y.y()].iter().map(|c| key(*c)));
                    for (lo, hi) in [(-2.0f32, 3.0f32), (1.0, 2.0), (10.0, 20.0), (5.0, 6.0), (-1.0, 1.0)] {
                        b.push(key(Uniform(lo..hi).sample(&mut g2)));
                    }
                }
                "point" => {
                    let x = Uniform(pt3::<f32, ()>(-2.0, 1.0, 10.0)..pt3(3.0, 2.0, 20.0)).sample(&mut g1);
                    a.extend([x.x(), x.y(), x.z()].iter().map(|c| key(*c)));
                    let y = Uniform(pt2::<f32, ()>(5.0, -1.0)..pt2(6.0, 1.0)).sample(&mut g1);
                    a.extend([y.x(), y.y()].iter().map(|c| key(*c)));
                    for (lo, hi) in [(-2.0f32, 3.0f32), (1.0, 2.0), (10.0, 20.0), (5.0, 6.0), (-1.0, 1.0)] {
                        b.push(key(Uniform(lo..hi).sample(&mut g2)));
                    }
                }
                "pointfar" | "vecfar" => {
                    // narrow boxes far from zero: start + offset must not round up onto the end
                    let rs = [(100.0f32, 101.0f32), (1000.0, 1001.0), (-1001.0, -1000.0)];
                    if gs(case, "what") == "pointfar" {
                        let x = Uniform(pt3::<f32, ()>(rs[0].0, rs[1].0, rs[2].0)..pt3(rs[0].1, rs[1].1, rs[2].1)).sample(&mut g1);
                        a.extend([x.x(), x.y(), x.z()].iter().map(|c| key(*c)));
                    } else {
                        let x = Uniform(vec3::<f32, ()>(rs[0].0, rs[1].0, rs[2].0)..vec3(rs[0].1, rs[1].1, rs[2].1)).sample(&mut g1);
                        a.extend([x.x(), x.y(), x.z()].iter().map(|c| key(*c)));
                    }
                    for (lo, hi) in rs {
                        b.push(key(Uniform(lo..hi).sample(&mut g2)));
                    }
                }
                "flat" => {
                    // a box with a flat axis (start = end there) is still drawn component by component:
                    // one generator step per axis, so what follows it is drawn from the same state
                    let fl = (st % 3) as usize;
                    let (mut lo, mut hi) = ([0.0f32, -3.0, 10.0], [1.0f32, 5.0, 12.5]);
                    hi[fl] = lo[fl];
                    if st % 7 == 0 {
                        hi[(fl + 1) % 3] = lo[(fl + 1) % 3];
                    }
                    match (st / 3) % 3 {
                        0 => { let x = Uniform(lo..hi).sample(&mut g1); a.extend(x.iter().map(|c| key(*c))); }
                        1 => { let x = Uniform(pt3::<f32, ()>(lo[0], lo[1], lo[2])..pt3(hi[0], hi[1], hi[2])).sample(&mut g1);
                               a.extend([x.x(), x.y(), x.z()].iter().map(|c| key(*c))); }
                        _ => { let x = Uniform(vec3::<f32, ()>(lo[0], lo[1], lo[2])..vec3(hi[0], hi[1], hi[2])).sample(&mut g1);
                               a.extend([x.x(), x.y(), x.z()].iter().map(|c| key(*c))); }
                    }
                    for i in 0..3 {
                        b.push(key(Uniform(lo[i]..hi[i]).sample(&mut g2)));
                    }
                    a.push(key(f.sample(&mut g1)));
                    b.push(key(f.sample(&mut g2)));
                }
                "iterstate" => {
                    // samples() advances the CALLER's generator: what is drawn afterwards continues the sequence
                    let kk = 1 + (st % 4) as usize;
                    let got: Vec<f32> = f.samples(&mut g1).take(kk).collect();
                    a.extend(got.iter().map(|c| key(*c)));
                    a.push(key(f.sample(&mut g1)));
                    let again: Vec<f32> = f.samples(&mut g1).take(2).collect();
                    a.extend(again.iter().map(|c| key(*c)));
                    for _ in 0..kk + 3 {
                        b.push(key(f.sample(&mut g2)));
                    }
                }
                "tuple" => {
                    let (x, (y, z)) = (f.clone(), (i.clone(), Bernoulli(0.5))).sample(&mut g1);
                    a.extend([key(x), y as i64, z as i64]);
                    b.push(key(f.sample(&mut g2)));
                    b.push(i.sample(&mut g2) as i64);
                    b.push(Bernoulli(0.5).sample(&mut g2) as i64);
                }
                "iterskip" => {
                    // samples() is the sequence of sample() calls, also when an adaptor skips items:
                    // the item reached by skip / nth / step_by equals the one reached by plain calls
                    let d3 = Uniform([-2.0f32, 1.0, 10.0]..[3.0, 2.0, 20.0]);
                    let kk = (st % 5) as usize;
                    match st % 3 {
                        0 => {
                            let x = d3.samples(&mut g1).nth(kk).unwrap();
                            a.extend(x.iter().map(|c| key(*c)));
                            for _ in 0..kk {
                                d3.sample(&mut g2);
                            }
                            b.extend(d3.sample(&mut g2).iter().map(|c| key(*c)));
                        }
                        1 => {
                            let xs: Vec<_> = VectorsInUnitBall.samples(&mut g1).skip(kk).take(2).collect();
                            a.extend(xs.iter().flat_map(|v| [key(v.x()), key(v.y()), key(v.z())]));
                            for _ in 0..kk {
                                VectorsInUnitBall.sample(&mut g2);
                            }
                            for _ in 0..2 {
                                let v = VectorsInUnitBall.sample(&mut g2);
                                b.extend([key(v.x()), key(v.y()), key(v.z())]);
                            }
                        }
                        _ => {
                            let t = (f.clone(), (i.clone(), Bernoulli(0.5)));
                            let xs: Vec<_> = t.samples(&mut g1).step_by(kk + 1).take(2).collect();
                            a.extend(xs.iter().flat_map(|(x, (y, z))| [key(*x), *y as i64, *z as i64]));
                            for j in 0..(kk + 2) {
                                let (x, (y, z)) = t.sample(&mut g2);
                                if j == 0 || j == kk + 1 {
                                    b.extend([key(x), y as i64, z as i64]);
                                }
                            }
                        }
                    }
                    // (how far the generator has advanced differs between an exhausted take() and plain
                    // calls only by whole samples; compare the values, not the end state)
                    g1 = Xorshift64(1);
                    g2 = Xorshift64(1);
                }
                "iarray" => {
                    let x = Uniform([0i32, -10]..[10, 15]).sample(&mut g1);
                    a.extend(x.iter().map(|c| *c as i64));
                    b.push(Uniform(0i32..10).sample(&mut g2) as i64);
                    b.push(Uniform(-10i32..15).sample(&mut g2) as i64);
                }
                _ => {
                    // equal seeds give equal sequences
                    for _ in 0..8 {
                        a.push((g1.next_bits() >> 34) as i64);
                        b.push((g2.next_bits() >> 34) as i64);
                    }
                    a.extend(f.samples(&mut g1).take(4).map(key));
                    b.extend(f.samples(&mut g2).take(4).map(key));
                }
            }
            // the generators must also end in the same state
            a.push((g1.0 >> 34) as i64);
            b.push((g2.0 >> 34) as i64);
            (a, b)
            });
            let (a, b) = r.unwrap_or((vec![], vec![0]));
            o.insert("a".into(), json!(a));
            o.insert("b".into(), json!(b));
        }
        _ => panic!("unknown op"),
    }
    e
}

/// Search for states from which a rejection sampler needs unusually many tries
/// ("hard" states): walks the generator's own sequence in several threads for a time
/// budget and prints the states with the longest runs, `rfverif rand gen hard <ms> <threads>`.
/// The driver only picks inputs; whether the samples drawn from them are allowed is TLC's call.
fn hard_search(args: &Args, out: &mut dyn Write) {
    let ms: u64 = args.rest.get(1).and_then(|s| s.parse().ok()).unwrap_or(1000);
    let threads: u64 = args.rest.get(2).and_then(|s| s.parse().ok()).unwrap_or(8);
    let seed = args.seed;
    let hs: Vec<_> = (0..threads)
        .map(|t| {
            std::thread::spawn(move || {
                let mut rng = Rng::new(seed ^ 0xD15C ^ (t << 40));
                let start = std::time::Instant::now();
                // best[d]: (run, state) sorted descending, at most 12 kept
                let mut best: [Vec<(u32, u64)>; 2] = [vec![], vec![]];
                let mut g = Xorshift64(rng.next() | 1);
                let mut n = 0u64;
                loop {
                    for _ in 0..4096 {
                        for (d, per) in [(0usize, 3u32), (1, 2)] {
                            let st = g.0;
                            let mut sh = Xorshift64(st);
                            if d == 0 {
                                VectorsInUnitBall.sample(&mut g);
                            } else {
                                VectorsOnUnitDisk.sample(&mut g);
                            }
                            // steps consumed = distance from st to g.0 along the sequence
                            let mut k = 0u32;
                            while sh.0 != g.0 && k < 100_000 {
                                sh.next_bits();
                                k += 1;
                            }
                            let run = k / per;
                            if best[d].len() < 12 || run > best[d].last().unwrap().0 {
                                best[d].push((run, st));
                                best[d].sort_by(|a, b| b.cmp(a));
                                best[d].truncate(12);
                            }
                        }
                        n += 2;
                    }
                    if start.elapsed().as_millis() as u64 >= ms {
                        break;
                    }
                }
                (best, n)
            })
        })
        .collect();
    let mut all: [Vec<(u32, u64)>; 2] = [vec![], vec![]];
    let mut total = 0;
    for h in hs {
        let (b, n) = h.join().unwrap();
        total += n;
        for d in 0..2 {
            all[d].extend(b[d].iter().copied());
        }
    }
    for (d, name) in ["ball", "disk"].iter().enumerate() {
        all[d].sort_by(|a, b| b.cmp(a));
        all[d].truncate(16);
        for (run, st) in &all[d] {
            writeln!(out, "{}", json!({"dist": name, "s": limbs(*st), "tries": run, "searched": total})).unwrap();
        }
    }
}

pub fn gen(args: &Args, out: &mut dyn Write) {
    if args.rest.first().map(|s| s.as_str()) == Some("hard") {
        return hard_search(args, out);
    }
    let thorough = args.tier == "thorough";
    let mut rng = Rng::new(args.seed ^ 0x4A2D);
    let mut k = 0;
    let mut emit = |out: &mut dyn Write, mut v: Value| {
        v.as_object_mut().unwrap().insert("k".into(), json!(format!("r{}-{}", args.seed, k)));
        k += 1;
        writeln!(out, "{v}").unwrap();
    };
    // the step on the 64 basis states, special states and random states
    let mut states: Vec<u64> = (0..64).map(|i| 1u64 << i).collect();
    states.extend([u64::MAX, 378682147834061, 0x8000_0000_0000_0001, 0xFFFF_FFFF, 0xFFFF_FFFF_0000_0000]);
    for _ in 0..(if thorough { 20000 } else { 2000 }) {
        states.push(rng.next() | 1);
    }
    for s in &states {
        emit(out, json!({"op": "step", "s": limbs(*s)}));
    }
    // Uniform<f32>: every mantissa (thorough) or a strided sweep plus the extremes (quick)
    let ranges: [(f32, f32); 17] = [
        // (ranges whose width overflows: every sample is still a number of the range)
        (f32::MIN, f32::MAX), (-3.0e38, 3.0e38), (-3.0e38, 1.0),
        (0.0, 1.0), (-1.0, 1.0), (-1.23, 4.56), (0.0, 1000.0), (100.0, 101.0), (1000.0, 1001.0),
        (1.0e6, 1.0e6 + 1.0), (0.0, 1e-8), (-1e-3, 1e-3), (-5.0, -2.0), (-1001.0, -1000.0),
        (0.5, 0.5000001), (3.0, 3.0000005), (-1.0e-30, 1.0e-30),
    ];
    for (lo, hi) in ranges {
        let b = |x: f32| format!("{:08x}", x.to_bits());
        if thorough {
            for chunk in 0..8u64 {
                emit(out, json!({"op": "range", "ty": "f32", "lob": b(lo), "hib": b(hi), "from": chunk << 20, "stride": 1,
                                 "count": 1u64 << 20, "lowseed": rng.below(1 << 30)}));
            }
        } else {
            emit(out, json!({"op": "range", "ty": "f32", "lob": b(lo), "hib": b(hi), "from": rng.below(512), "stride": 509,
                             "count": 16480, "lowseed": rng.below(1 << 30)}));
        }
        // the extreme mantissas, always
        for from in [0u64, (1 << 23) - 4] {
            emit(out, json!({"op": "range", "ty": "f32", "lob": b(lo), "hib": b(hi), "from": from, "stride": 1, "count": 4,
                             "lowseed": rng.below(1 << 30)}));
        }
    }
    // Uniform<i32> whenever the width is representable
    for (lo, hi) in [(0i32, 1i32), (-123, 456), (0, 10), (-10, 15), (i32::MIN / 2 + 1, i32::MAX / 2), (1_000_000, 1_000_007), (-7, -6)] {
        emit(out, json!({"op": "range", "ty": "i32", "loi": lo, "hii": hi, "from": rng.below(1 << 20), "stride": 65521,
                         "count": if thorough { 400_000 } else { 40_000 }, "lowseed": rng.below(1 << 30)}));
        for from in [0u64, 0x7FFF_FFFC, 0x8000_0000, 0xFFFF_FFFC] {
            emit(out, json!({"op": "range", "ty": "i32", "loi": lo, "hii": hi, "from": from, "stride": 1, "count": 4,
                             "lowseed": rng.below(1 << 30)}));
        }
    }
    // Bernoulli at and beyond the ends: states whose next output is extreme, and random ones
    let extreme: Vec<u64> = [0u64, 1, u64::MAX, 0xFFFF_FFFF_0000_0000, 0xFFFF_FFFF_FFFF_0000, 0xFFFF_FE00_0000_0000,
                             0x0000_01FF_FFFF_FFFF, 0x8000_0000_0000_0000]
        .iter().map(|y| inv_step(*y)).filter(|s| *s != 0).collect();
    let nb = if thorough { 20000 } else { 2000 };
    for i in 0..nb {
        let s = if i < extreme.len() * 4 { extreme[i % extreme.len()] } else { rng.next() | 1 };
        let ps = [(0.0f32, 0), (-0.5, 0), (-0.0, 0), (f32::NEG_INFINITY, 0), (1.0, 1), (1.5, 1), (f32::INFINITY, 1), (1.0000001, 1)];
        let (p, p01) = *rng.pick(&ps);
        if i < extreme.len() {
            // every extreme state with every probability
            for (p, p01) in ps {
                emit(out, json!({"op": "bern", "s": limbs(extreme[i]), "pb": format!("{:08x}", p.to_bits()), "p01": p01}));
            }
        }
        emit(out, json!({"op": "bern", "s": limbs(s), "pb": format!("{:08x}", p.to_bits()), "p01": p01}));
    }
    // rejection-sampled and normalised distributions
    for i in 0..(if thorough { 120_000 } else { 12_000 }) {
        let (dist, kind) = [("disk", "in"), ("ball", "in"), ("pdisk", "in"), ("pball", "in"), ("circle", "on"), ("sphere", "on")][i % 6];
        emit(out, json!({"op": "norm", "s": limbs(rng.next() | 1), "dist": dist, "kind": kind}));
    }
    // the rejection samplers and the composite distributions on states whose next outputs have
    // extreme mantissas (all zeros: the coordinate -1 exactly; all ones: the largest offset)
    for i in 0..(if thorough { 40_000 } else { 4_000 }) {
        let m: u64 = [0u64, 0x7F_FFFF, 0x7F_FFFE, 1, 0x7F_FF00, 0x40_0000][i % 6];
        let st = inv_step((m << 41) | (rng.next() >> 23));
        if st == 0 {
            continue;
        }
        match i % 4 {
            0 => emit(out, json!({"op": "norm", "s": limbs(st), "dist": "disk", "kind": "in"})),
            1 => emit(out, json!({"op": "norm", "s": limbs(st), "dist": "pdisk", "kind": "in"})),
            2 => emit(out, json!({"op": "seq", "s": limbs(st), "what": "pointfar"})),
            _ => emit(out, json!({"op": "seq", "s": limbs(st), "what": "vecfar"})),
        }
        // ... and with the extreme output second in line (the y coordinate)
        let prev = inv_step(st);
        if prev != 0 && i % 4 < 2 {
            emit(out, json!({"op": "norm", "s": limbs(prev), "dist": if i % 4 == 0 { "disk" } else { "ball" }, "kind": "in"}));
        }
    }
    // unit circle / sphere on states whose two (three) next outputs all sit next to the middle of the
    // mantissa range: a tiny, non-zero candidate that still has to come out with unit length.
    // Found by search over the free low bits of the first output (the driver only picks inputs).
    {
        let near_mid = |y: u64| { let m = (y >> 41) as i64; (m - (1 << 22)).abs() <= 1400 };
        let mut found = [0usize; 2];
        let want = if thorough { [40usize, 3] } else { [12, 1] };
        let mut tries = 0u64;
        while (found[0] < want[0] || found[1] < want[1]) && tries < 60_000_000 {
            tries += 1;
            let d = rng.below(2801) as i64 - 1400;
            let y1 = ((((1i64 << 22) + d) as u64) << 41) | (rng.next() >> 23);
            let st = inv_step(y1);
            if st == 0 {
                continue;
            }
            let mut g = Xorshift64(st);
            g.next_bits();
            if !near_mid(g.next_bits()) {
                continue;
            }
            if found[0] < want[0] {
                found[0] += 1;
                emit(out, json!({"op": "norm", "s": limbs(st), "dist": "circle", "kind": "on"}));
            }
            if found[1] < want[1] && near_mid(g.next_bits()) {
                found[1] += 1;
                emit(out, json!({"op": "norm", "s": limbs(st), "dist": "sphere", "kind": "on"}));
            }
        }
    }
    // composite distributions and reproducibility
    for i in 0..(if thorough { 30_000 } else { 3_000 }) {
        let what = ["array", "vec", "point", "tuple", "iarray", "same", "iterskip", "flat", "iterstate"][i % 9];
        emit(out, json!({"op": "seq", "s": limbs(rng.next() | 1), "what": what}));
    }
}
