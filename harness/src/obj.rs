//! C14 driver: OBJ parsing of arbitrary byte strings; the parsed builder is
//! recorded (positions scaled by 1024 when exact, faces) and built.

use crate::util::*;
use crate::Args;
use geom::io::{parse_obj, read_obj};
use serde_json::{json, Value};
use std::io::Write;

fn scaled(x: f32) -> Option<i64> {
    let s = x as f64 * 1024.0;
    (s.is_finite() && s.fract() == 0.0 && s.abs() < (1u64 << 30) as f64).then_some(s as i64)
}

/// A large file given by its parameters: nv vertices "v <i> 0 0" (i = 0, 1, ..), one face f (1-based
/// indices), the face line first (ff = 1) or last.  Only a summary is recorded.
fn exec_big(case: &Value) -> Value {
    let mut e = case.clone();
    let nv = gi(case, "nv") as usize;
    let f: Vec<i64> = case["f"].as_array().unwrap().iter().map(|x| x.as_i64().unwrap()).collect();
    let fl = format!("f {} {} {}\n", f[0], f[1], f[2]);
    let mut text = String::with_capacity(nv * 12 + 32);
    if gi(case, "ff") == 1 {
        text += &fl;
    }
    for i in 0..nv {
        text += &format!("v {} 0 0\n", i);
    }
    if gi(case, "ff") != 1 {
        text += &fl;
    }
    let bytes = text.into_bytes();
    let r = if gs(case, "via") == "read_obj" { guard(|| read_obj(&bytes[..])) } else { guard(|| parse_obj(bytes.iter().copied())) };
    let o = e.as_object_mut().unwrap();
    let (mut status, mut nvobs, mut vlast, mut faces, mut built) = ("panic", 0usize, vec![0i64; 3], vec![], "none");
    match r {
        None => {}
        Some(Err(_)) => status = "err",
        Some(Ok(b)) => {
            status = "ok";
            nvobs = b.mesh.verts.len();
            if let Some(v) = b.mesh.verts.last() {
                vlast = vec![v.pos.x() as i64, v.pos.y() as i64, v.pos.z() as i64];
            }
            faces = b.mesh.faces.iter().map(|t| json!(t.0.map(|i| i.min(1 << 30)))).collect();
            let nf = faces.len();
            built = match guard(move || b.build()) { Some(m) if m.faces.len() == nf && m.verts.len() == nvobs => "ok", Some(_) => "changed", None => "panic" };
        }
    }
    o.insert("status".into(), json!(status));
    o.insert("nvobs".into(), json!(nvobs));
    o.insert("vlast".into(), json!(vlast));
    o.insert("faces".into(), json!(faces));
    o.insert("built".into(), json!(built));
    e
}

pub fn exec(case: &Value) -> Value {
    if case.get("nv").is_some() {
        return exec_big(case);
    }
    let mut e = case.clone();
    let bytes: Vec<u8> = case["bytes"]
        .as_array()
        .unwrap()
        .iter()
        .map(|b| b.as_u64().unwrap() as u8)
        .collect();
    let via = case.get("via").and_then(|v| v.as_str()).unwrap_or("parse_obj");
    let r = if via == "read_obj" {
        guard(|| read_obj(&bytes[..]))
    } else {
        guard(|| parse_obj(bytes.iter().copied()))
    };
    let mut vbits: Vec<Value> = vec![];
    let res = match r {
        None => json!(["panic", 0]),
        Some(Err(err)) => json!(["err", format!("{err:?}")]),
        Some(Ok(b)) => {
            vbits = b.mesh.verts.iter().map(|v| json!([f32_rec(v.pos.x()), f32_rec(v.pos.y()), f32_rec(v.pos.z())])).collect();
            let verts: Vec<Value> = b
                .mesh
                .verts
                .iter()
                .map(|v| {
                    let p = v.pos;
                    match (scaled(p.x()), scaled(p.y()), scaled(p.z())) {
                        (Some(x), Some(y), Some(z)) => json!([1, x, y, z]),
                        _ => json!([0, 0, 0, 0]),
                    }
                })
                .collect();
            let cap = |i: usize| i.min(1 << 30);
            let faces: Vec<Value> = b
                .mesh
                .faces
                .iter()
                .map(|t| json!([cap(t.0[0]), cap(t.0[1]), cap(t.0[2])]))
                .collect();
            let built = match guard(move || b.build()) {
                Some(m) => {
                    if m.faces.len() == faces.len() && m.verts.len() == verts.len() {
                        "ok"
                    } else {
                        "changed"
                    }
                }
                None => "panic",
            };
            json!(["ok", verts, faces, built])
        }
    };
    // every coordinate as an f32 record (for the long-decimal table literals)
    let vb: Vec<Value> = match &res[0].as_str() {
        Some("ok") => vbits.clone(),
        _ => vec![],
    };
    e.as_object_mut().unwrap().insert("res".into(), res);
    e.as_object_mut().unwrap().insert("vb".into(), json!(vb));
    e
}

// ---------------------------------------------------------------- generator

/// A literal whose value is k/8 for a small k, in a random spelling that
/// stays in the judged class (<= 6 mantissa digits, one-digit exponent).
fn literal(rng: &mut Rng) -> String {
    let k = rng.range(-400, 400);
    let v = k as f64 / 8.0;
    let plain = format!("{}", v);
    let digits = plain.chars().filter(|c| c.is_ascii_digit()).count();
    let mut s = match rng.below(5) {
        0 if digits <= 5 => format!("{}e0", plain),
        1 if digits <= 5 && (v * 10.0).abs() < 1000.0 => {
            // shift the decimal point one place: x = (x*10)e-1
            let t = format!("{}", v * 10.0);
            if t.chars().filter(|c| c.is_ascii_digit()).count() <= 6 { format!("{}E-1", t) } else { plain.clone() }
        }
        2 if v.fract() == 0.0 => format!("{}.0", v as i64),
        3 if v.fract() == 0.0 && (v as i64) % 10 == 0 && v != 0.0 => format!("{}e1", (v as i64) / 10),
        _ => plain.clone(),
    };
    if v > 0.0 && rng.chance(1, 6) {
        s = format!("+{s}");
    }
    if s.chars().filter(|c| c.is_ascii_digit()).count() > 7 {
        s = plain;
    }
    s
}

const HARD: [&str; 20] = ["1.0000000596046447753906251", "1.0000000596046447753906249", "1.0000001788139343261718751", "1.0000001788139343261718749", "2.500000119209289550781251", "2.500000119209289550781249", "0.1562500074505805969238281251", "0.1562500074505805969238281249", "1000.0000305175781251", "1000.0000305175781249", "2.999999880790710449218751", "2.999999880790710449218749", "-1.0000000596046447753906251", "-1.0000000596046447753906249", "-1.0000001788139343261718751", "-1.0000001788139343261718749", "0.1875000223517417907714843751", "0.1875000223517417907714843749", "123.0000038146972656251", "123.0000038146972656249"];

fn ws(rng: &mut Rng) -> &'static str {
    *rng.pick(&[" ", " ", "  ", "\t", " \t"])
}

fn wellformed(rng: &mut Rng, big: bool) -> Vec<u8> {
    let nv = if big { rng.range(8, 24) } else { rng.range(1, 6) } as usize;
    let nf = if big { rng.range(6, 30) } else { rng.range(0, 6) } as usize;
    let nvt = rng.range(0, 3) as usize;
    let nvn = rng.range(0, 3) as usize;
    let mut items: Vec<String> = vec![];
    let mut vlines = vec![];
    for _ in 0..nv {
        vlines.push(format!("v{}{}{}{}{}{}", ws(rng), literal(rng), ws(rng), literal(rng), ws(rng), literal(rng)));
    }
    // a vertex or two written with the long decimals of spec/Obj.tla's HardLits table (value a hair off
    // the midpoint of two f32 neighbours); the other coordinates are "0"
    if rng.chance(1, 6) {
        let hard = HARD[rng.below(HARD.len() as u64) as usize];
        let mut c = ["0", "0", "0"];
        c[rng.below(3) as usize] = hard;
        let k = rng.below(vlines.len() as u64) as usize;
        vlines[k] = format!("v{}{}{}{}{}{}", ws(rng), c[0], ws(rng), c[1], ws(rng), c[2]);
    }
    let mut flines = vec![];
    for _ in 0..nf {
        let form = if nvt > 0 && nvn > 0 { rng.below(4) } else if nvt > 0 { rng.below(2) } else if nvn > 0 { 2 * rng.below(2) } else { 0 };
        let mut l = String::from("f");
        for _ in 0..3 {
            let p = rng.range(1, nv as i64);
            let t = rng.range(1, nvt.max(1) as i64);
            let n = rng.range(1, nvn.max(1) as i64);
            l += ws(rng);
            l += &match form {
                0 => format!("{p}"),
                1 => format!("{p}/{t}"),
                2 => format!("{p}//{n}"),
                _ => format!("{p}/{t}/{n}"),
            };
        }
        flines.push(l);
    }
    let mut others = vec![];
    for _ in 0..nvt {
        others.push(format!("vt{}{}{}{}", ws(rng), literal(rng), ws(rng), literal(rng)));
    }
    for _ in 0..nvn {
        // (normals need not be unit vectors; the zero vector and vanishing ones are legal text too)
        others.push(match rng.below(8) {
            0 => "vn 0 0 0".to_string(),
            1 => format!("vn{}1e-9 0 -1e-9", ws(rng)),
            _ => format!("vn{}{}{}{}{}{}", ws(rng), literal(rng), ws(rng), literal(rng), ws(rng), literal(rng)),
        });
    }
    // layout: vertices first, faces first, or interleaved at random
    match rng.below(3) {
        0 => {
            items.extend(vlines);
            items.extend(others);
            items.extend(flines);
        }
        1 => {
            items.extend(flines);
            items.extend(others);
            items.extend(vlines);
        }
        _ => {
            // random merge preserving the relative order within each kind
            let mut qs = [vlines, flines, others];
            loop {
                let live: Vec<usize> = (0..3).filter(|&i| !qs[i].is_empty()).collect();
                if live.is_empty() {
                    break;
                }
                let i = *rng.pick(&live);
                items.push(qs[i].remove(0));
            }
        }
    }
    let mut out = String::new();
    for it in items {
        while rng.chance(1, 5) {
            out += *rng.pick(&["\n", "# comment v 1 2 3\n", "   \n", "  # f 9 9 9\n", "#\n", "\t\r\n", "# exported from C:\\models\\\n", "#\\\n"]);
        }
        if rng.chance(1, 150) {
            // a very long comment whose text reads like items: nothing of it may be taken for one
            let n = *rng.pick(&[1030usize, 1500, 2050]);
            let mut c = String::from("# ");
            while c.len() < n {
                c += *rng.pick(&["v 9 9 9 ", "f 1 1 1 ", "vn 1 0 0 ", "xyzzy "]);
            }
            out += &c;
            out += "\n";
        }
        if rng.chance(1, 4) {
            out += ws(rng);
        }
        out += &it;
        if rng.chance(1, 5) {
            out += ws(rng);
        }
        out += if rng.chance(1, 6) { "\r\n" } else { "\n" };
    }
    if rng.chance(1, 3) {
        out.pop();
    }
    out.into_bytes()
}

fn mutate(rng: &mut Rng, mut f: Vec<u8>) -> Vec<u8> {
    if f.is_empty() {
        return f;
    }
    let i = rng.below(f.len() as u64) as usize;
    match rng.below(9) {
        0 => {
            f.truncate(i);
        }
        7 => {
            // more corners on a face line (a polygon): in or out of range, tiny or huge
            if let Some(j) = (i..f.len()).find(|&j| f[j] == b'f') {
                let e = (j..f.len()).find(|&e| f[e] == b'\n' || f[e] == b'\r' || f[e] == b'#').unwrap_or(f.len());
                let mut add = vec![];
                for _ in 0..1 + rng.below(3) {
                    add.extend(*rng.pick(&[&b" 1"[..], b" 2", b" 4", b" 7", b" 99", b" 4294967296", b" 18446744073709551615", b" 3/1/1", b" 0"]));
                }
                for (k, b) in add.iter().enumerate() {
                    f.insert(e + k, *b);
                }
            }
        }
        1 => {
            f.remove(i);
        }
        2 => f[i] = rng.below(256) as u8,
        3 => f.insert(i, *rng.pick(b" /0-9x#\n\xFFv\\")),
        8 => {
            // a coordinate that is not a finite number
            if let Some(j) = (i..f.len()).find(|&j| f[j] == b'v' && f.get(j + 1) == Some(&b' ')) {
                let lit = *rng.pick(&[&b" inf"[..], b" -inf", b" nan", b" NaN", b" 1e39", b" -4e38", b" infinity", b" 3.5e38"]);
                for (k, b) in lit.iter().enumerate() {
                    f.insert(j + 1 + k, *b);
                }
            }
        }
        4 => {
            // replace a digit by 0
            if let Some(j) = (i..f.len()).find(|&j| f[j].is_ascii_digit()) {
                f[j] = b'0';
            }
        }
        5 => {
            // blow up an index
            if let Some(j) = (i..f.len()).find(|&j| f[j] == b'f') {
                let big = *rng.pick(&[&b" 18446744073709551615"[..], b" 18446744073709551616", b" 4294967296", b" -1", b" 99",
                                      b" -9223372036854775808", b" -9223372036854775807", b" 9223372036854775807", b" 9223372036854775808",
                                      b" 1/-9223372036854775808", b" 1//-9223372036854775808", b" -2147483648", b" -0"]);
                for (k, b) in big.iter().enumerate() {
                    f.insert(j + 1 + k, *b);
                }
            }
        }
        _ => {
            // drop every vertex line
            let s = String::from_utf8_lossy(&f).to_string();
            f = s.lines().filter(|l| !l.trim_start().starts_with("v ")).collect::<Vec<_>>().join("\n").into_bytes();
        }
    }
    f
}

pub fn gen(args: &Args, out: &mut dyn Write) {
    if args.rest.first().map(|s| s.as_str()) == Some("big") {
        // vertex counts around 2^8 and 2^16, the face at and just beyond the end of the list
        let mut k = 0;
        for nv in [255i64, 256, 257, 65535, 65536, 65537, 70000] {
            for f in [[nv, nv - 1, 1], [1, nv, 2], [nv + 1, 1, 2], [2, 1, nv + 1], [nv - 1, nv - 2, nv], [256, 257, 1], [65536, 65537, 1], [1, 2, 65536]] {
                for ff in [0, 1] {
                    if (k + ff) % 2 == 0 || nv < 1000 {
                        writeln!(out, "{}", json!({"k": format!("big{k}-{ff}"), "nv": nv, "f": f, "ff": ff, "via": if k % 3 == 0 { "read_obj" } else { "parse_obj" }})).unwrap();
                    }
                }
                k += 1;
            }
        }
        return;
    }
    let thorough = args.tier == "thorough";
    let n = args.n.unwrap_or(if thorough { 60000 } else { 5000 });
    let mut rng = Rng::new(args.seed ^ 0x0B1);
    let mut k = 0;
    let mut emit = |out: &mut dyn Write, bytes: &[u8], via: &str| {
        writeln!(out, "{}", json!({"k": format!("o{}-{}", args.seed, k), "via": via, "bytes": bytes})).unwrap();
        k += 1;
    };
    let specials: [&[u8]; 24] = [
        b"v inf 0 0\nv 0 0 0\nv 1 0 0\nf 1 2 3", b"v 1e39 0 0\nv 0 nan 0\nv 1 0 -inf\nf 1 2 3", b"# ends in a backslash \\\nv 0 0 0\nv 1 0 0\nv 0 1 0\n#\\\nf 1 2 3\n",
        b"v 0 0 0\nf -9223372036854775808 1 1", b"v 0 0 0\nvt 0 0\nf 1/-9223372036854775808 1/1 1/1", b"v 0 0 0\nvn 0 0 1\nf 1//1 1//-9223372036854775808 1//1",
        b"v 0 0 0\nv 1 0 0\nv 0 1 0\nf 1 2 3 4", b"v 1 2 3\nf 1 1 1 2", b"v 0 0 0\nv 1 0 0\nv 0 1 0\nv 1 1 0\nf 1 2 3 4 99\n",
        b"v 0 0 0\nv 1 0 0\nv 0 1 0\nv 1 1 0\nf 1 2 3 4",
        b"f 1 2 3", b"f 1 2 3\n", b"f 0 1 2\nv 0 0 0\nv 1 0 0", b"v 0 0 0\nf 0 0 0", b"f 1 1 1\nv 1 2 3",
        b"v 0 0 0\nf 1 1 2", b"f 18446744073709551615 1 1\nv 0 0 0", b"v 0 0 0\nf 1/1 1/1 1/1", b"v 0 0 0\nvt 0 0\nf 1/2 1/1 1/1",
        b"v 0 0 0\nf 1//1 1//1 1//1", b"", b"\n\n", b"v 1 2 3\nv 4 5 6\nv 7 8 9\nf 3 2 1", b"f 1 2 3\nf 1 2 3\n",
    ];
    for s in specials {
        emit(out, s, "parse_obj");
        emit(out, s, "read_obj");
    }
    // every byte value as the whole input, as the only content of a line (bare, between blanks, inside an
    // otherwise valid file, doubled), glued to the front of a statement and as a separator inside one: whatever
    // a byte counts as (blank, comment, keyword, junk) - under any notion of white space - parsing stays total
    for b in 0..=255u8 {
        let ctx: [Vec<u8>; 7] = [
            vec![b],
            vec![b' ', b' ', b, b' ', b, b'\t'],
            [&b"v 0 0 0\nv 1 0 0\nv 0 1 0\n "[..], &[b, b'\r'], &b"\nf 1 2 3\n"[..]].concat(),
            vec![b, b, b'\n', b],
            [&[b][..], &b"v 1 2 3\nf 1 1 1"[..]].concat(),
            [&b"v 1"[..], &[b], &b"2 3\nf 1 1 1"[..]].concat(),
            [&b"v 1 2 3\nf 1 1 1"[..], &[b], &b"\n"[..], &[b], &b"#"[..]].concat(),
        ];
        for (j, c) in ctx.iter().enumerate() {
            emit(out, c, if (b as usize + j) % 2 == 0 { "parse_obj" } else { "read_obj" });
        }
    }
    for i in 0..n {
        let f = wellformed(&mut rng, i % 41 == 7);
        match i % 4 {
            0 | 1 => emit(out, &f, if i % 8 < 4 { "parse_obj" } else { "read_obj" }),
            2 => {
                let mut g = f;
                for _ in 0..1 + rng.below(2) {
                    g = mutate(&mut rng, g);
                }
                emit(out, &g, "parse_obj");
            }
            _ => {
                let len = rng.below(50) as usize;
                let g: Vec<u8> = (0..len)
                    .map(|_| if rng.chance(3, 4) { *rng.pick(b"vf 0123/.-e#\n\ntn") } else { rng.below(256) as u8 })
                    .collect();
                emit(out, &g, "read_obj");
            }
        }
    }
}
