//! C12 driver: texture samplers on owned and sub-region textures whose
//! texels encode their own position inside the texture.

use crate::util::*;
use crate::Args;
use re::render::tex::{uv, SamplerClamp, SamplerOnce, SamplerRepeatPot, Texture};
use re::util::buf::{AsSlice2, Buf2};
use serde_json::{json, Value};
use std::io::Write;

type Texel = (i32, i32);

fn res(r: Option<Texel>) -> Value {
    match r {
        Some((x, y)) => json!(["texel", x, y]),
        None => json!(["panic", 0, 0]),
    }
}

fn sample_all(
    out: &mut Vec<Value>,
    key: &str,
    tex: &Texture<impl AsSlice2<Texel>>,
    w: u32,
    h: u32,
    sub: u32,
    u: f32,
    v: f32,
    rel: bool,
) {
    // for relative coordinates the harness forms the product in f32 itself
    let (au, av) = if rel { (w as f32 * u, h as f32 * v) } else { (u, v) };
    let tc = uv(u, v);
    let mut push = |smp: &str, r: Option<Texel>| {
        out.push(json!({"k": format!("{key}#{}", out.len()), "smp": smp, "op": if rel { "rel" } else { "abs" },
            "w": w, "h": h, "sub": sub, "u": f32_rec(au), "v": f32_rec(av),
            "tc": [format!("{:#x}", u.to_bits()), format!("{:#x}", v.to_bits())], "res": res(r)}));
    };
    if w.is_power_of_two() && h.is_power_of_two() {
        match guard(|| SamplerRepeatPot::new(tex)) {
            Some(s) => push("repeat", guard(|| if rel { s.sample(tex, tc) } else { s.sample_abs(tex, tc) })),
            None => push("repeat", None),
        }
    }
    push("clamp", guard(|| if rel { SamplerClamp.sample(tex, tc) } else { SamplerClamp.sample_abs(tex, tc) }));
    push("once", guard(|| if rel { SamplerOnce.sample(tex, tc) } else { SamplerOnce.sample_abs(tex, tc) }));
}

pub fn exec(case: &Value) -> Value {
    let key = gs(case, "k").to_string();
    let (w, h) = (gu(case, "w"), gu(case, "h"));
    let (u, v) = match case.get("ub") {
        Some(_) => (
            f32::from_bits(gi(case, "ub") as u32),
            f32::from_bits(gi(case, "vb") as u32),
        ),
        None => (f32_from_rec(&case["u"]), f32_from_rec(&case["v"])),
    };
    let mut out = vec![];
    // owned texture
    let owned = Texture::from(Buf2::new_with((w, h), |x, y| (x as i32, y as i32)));
    // sub-region of a larger atlas; cells outside the region read as (-1, -1)
    let (ox, oy) = (1 + w % 3, 1 + h % 2);
    let atlas = Buf2::new_with((w + ox + 2, h + oy + 3), |x, y| {
        if x >= ox && x < ox + w && y >= oy && y < oy + h {
            ((x - ox) as i32, (y - oy) as i32)
        } else {
            (-1, -1)
        }
    });
    let sub = Texture::from(atlas.slice((ox..ox + w, oy..oy + h)));
    // a region of a region: a tile of the atlas one row higher than the texture, then the strip of the
    // tile that spans all of its columns (so that the inner view is as wide as its non-contiguous parent)
    let tile = atlas.slice((ox..ox + w, oy - 1..oy + h));
    let nested = Texture::from(tile.slice((.., 1..h + 1)));
    // the same region requested through pairs of bounds whose START is excluded
    use std::ops::Bound::{Excluded, Included};
    let bsub = Texture::from(atlas.slice(((Excluded(ox - 1), Excluded(ox + w)), (Excluded(oy - 1), Included(oy + h - 1)))));
    // a COPY of the sub-region view (views are Copy / Clone: the copy shows the same cells)
    #[allow(clippy::clone_on_copy)]
    let csub = Texture::from(atlas.slice((ox..ox + w, oy..oy + h)).clone());
    for rel in [false, true] {
        let (cu, cv) = if rel { (u / w as f32, v / h as f32) } else { (u, v) };
        sample_all(&mut out, &key, &bsub, w, h, 3, cu, cv, rel);
        sample_all(&mut out, &key, &csub, w, h, 4, cu, cv, rel);
        sample_all(&mut out, &key, &owned, w, h, 0, cu, cv, rel);
        sample_all(&mut out, &key, &sub, w, h, 1, cu, cv, rel);
        sample_all(&mut out, &key, &nested, w, h, 2, cu, cv, rel);
    }
    Value::Array(out)
}

pub fn gen(args: &Args, out: &mut dyn Write) {
    let thorough = args.tier == "thorough";
    let n = args.n.unwrap_or(if thorough { 150_000 } else { 8_000 });
    let mut rng = Rng::new(args.seed ^ 0x7E8);
    for i in 0..n {
        let pot = rng.chance(1, 2);
        let (w, h) = if pot {
            (1u32 << rng.below(6), 1u32 << rng.below(5))
        } else {
            (rng.range(1, 9) as u32, rng.range(1, 7) as u32)
        };
        // every 16th texture is wide: widths around 2^8 and 2^16
        let (w, h) = if i % 16 == 7 { (*rng.pick(&[256u32, 257, 512, 1024, 65536, 65537, 65535, 131072, 262144]), *rng.pick(&[1u32, 2, 2, 3])) } else { (w, h) };
        let mut coord = |rng: &mut Rng, n: u32| -> f32 {
            match rng.below(12) {
                // halves where the spacing of f32 is exactly one half (2^22 .. 2^23), both signs
                11 => { let v = 4194304.0 + rng.below(4194304) as f32 + 0.5; if rng.chance(1, 2) { v } else { -v } }
                // a hair above / below a texel edge (closer than a 16.16 fixed-point step of the relative coordinate)
                10 => rng.range(0, n as i64) as f32 + *rng.pick(&[2e-6f32, 1e-5, 6e-5, -2e-6, -1e-5]) * n as f32,
                // arbitrary bit patterns: every class of f32
                0 | 1 => f32::from_bits(rng.next() as u32),
                // near the texture
                2..=5 => (rng.unit_f64() * 3.0 - 1.0) as f32 * n as f32,
                // exact integers and halves around the borders
                6 => (rng.range(-2 * n as i64, 2 * n as i64) as f32) / 2.0,
                // the 2^31 boundary and beyond
                7 => *rng.pick(&[2147483648.0f32, -2147483648.0, 2147483520.0, -2147483520.0,
                                 4294967296.0, -4294967296.0, 1e30, -1e30, 16777216.0, -16777217.0]),
                8 => *rng.pick(&[0.0f32, -0.0, f32::INFINITY, f32::NEG_INFINITY, f32::NAN, f32::MIN_POSITIVE,
                                 -f32::MIN_POSITIVE, 1e-45, -1e-45, f32::MAX, f32::MIN]),
                // large but below 2^31: floor must still wrap correctly
                _ => (rng.unit_f64() * 4e9 - 2e9) as f32,
            }
        };
        let (u, v) = (coord(&mut rng, w), coord(&mut rng, h));
        writeln!(out, "{}", json!({"k": format!("t{}-{}", args.seed, i), "w": w, "h": h,
            "ub": u.to_bits(), "vb": v.to_bits()})).unwrap();
    }
}
