//! C06 / C07 driver: scenes of lattice clip-space triangles rendered through
//! render() / Batch::render() into Framebuf and colour-only targets under
//! every context flag combination; footprints of the single triangles, the
//! planes and the statistics after every call are recorded.

use crate::util::*;
use crate::Args;
use re::geom::{vertex, Tri, Vertex};
use re::math::color::{rgba, Color4};
use re::math::mat::{viewport, Mat4x4, RealToProj, RealToReal};
use re::render::{World, WorldToView};
use re::math::point::pt2;
use re::math::vec::ProjVec4;
use re::render::clip::{view_frustum, ClipVert};
use re::render::ctx::{Context, DepthSort, FaceCull};
use re::render::raster::{Frag, Scanline};
use re::render::stats::{Stats, Throughput};
use re::render::target::{Framebuf, Target};
use re::render::{render, Batch, FragmentShader};
use re::util::buf::Buf2;
use serde_json::{json, Value};
use std::cell::RefCell;
use std::cmp::Ordering;
use std::io::Write;

pub const C0: u32 = 0x00AB_CDEF;

/// A Target wrapper that records the scanlines it is handed.
pub struct SpanRec<'a, T: Target> {
    pub inner: &'a mut T,
    pub spans: Vec<(usize, usize, usize)>,
}

impl<T: Target> Target for SpanRec<'_, T> {
    fn rasterize<V, Fs>(&mut self, sl: Scanline<V>, fs: &Fs, ctx: &Context) -> Throughput
    where
        V: re::math::Vary,
        Fs: FragmentShader<V>,
    {
        self.spans.push((sl.y, sl.xs.start, sl.xs.end));
        self.inner.rasterize(sl, fs, ctx)
    }
}

pub type Vtx = Vertex<ProjVec4, f32>;

/// lattice vertex (units of 1/4) -> clip-space vertex carrying `attr`
pub fn lat_vertex(v: &Value, attr: f32) -> Vtx {
    let a = v.as_array().unwrap();
    let c = |i: usize| a[i].as_i64().unwrap() as f32 / 4.0;
    vertex([c(0), c(1), c(2), c(3)].into(), attr)
}

pub fn mk_ctx(c: &Value, stats: Stats) -> Context {
    Context {
        color_clear: None,
        depth_clear: None,
        face_cull: match gi(c, "cull") {
            1 => Some(FaceCull::Back),
            2 => Some(FaceCull::Front),
            _ => None,
        },
        depth_sort: match gi(c, "sort") {
            1 => Some(DepthSort::FrontToBack),
            2 => Some(DepthSort::BackToFront),
            _ => None,
        },
        depth_test: match gi(c, "test") {
            1 => Some(Ordering::Less),
            2 => Some(Ordering::Equal),
            3 => Some(Ordering::Greater),
            _ => None,
        },
        color_write: gi(c, "cw") == 1,
        depth_write: gi(c, "dw") == 1,
        stats: RefCell::new(stats),
    }
}

fn stats_json(s: &Stats) -> Value {
    json!([s.calls as i64, s.prims.i, s.prims.o, s.verts.i, s.verts.o, s.frags.i, s.frags.o])
}

fn shader(disc: bool) -> re::render::shader::Shader<impl Fn(Vtx, ()) -> Vtx, impl Fn(Frag<f32>) -> Option<Color4>> {
    re::render::shader::Shader::new(
        |v: Vtx, _: ()| v,
        move |f: Frag<f32>| {
            let (x, y) = (f.pos.x() as u32, f.pos.y() as u32);
            if disc && (x + y) % 3 == 0 {
                None
            } else {
                Some(rgba(f.var.round() as u8, 0x40, 0x80, 0))
            }
        },
    )
}

/// One very large render call: the scene's real triangles plus `npad` triangles too small to cover any
/// pixel centre (each at its own depth).  The planes after the call must not depend on the padding
/// nor on the depth-sort setting: recorded for (a) the real triangles alone, (b)-(d) everything with
/// sort none / front-to-back / back-to-front.
fn exec_bigcall(case: &Value) -> Value {
    let (bw, bh) = (gu(case, "bw"), gu(case, "bh"));
    let to_screen = viewport(pt2(0, 0)..pt2(bw, bh));
    let tris_in = case["tris"].as_array().unwrap();
    let npad = gi(case, "npad") as usize;
    let mut verts: Vec<Vtx> = vec![];
    for (t, tri) in tris_in.iter().enumerate() {
        for v in tri.as_array().unwrap() {
            verts.push(lat_vertex(v, (t + 1) as f32));
        }
    }
    let nreal = tris_in.len();
    // padding: around the pixel corner (1, 1), a few thousandths of a pixel across, w from 1 to 3
    let (cx, cy) = (2.0 / bw as f32 - 1.0, 2.0 / bh as f32 - 1.0);
    for i in 0..npad {
        let w = 1.0 + 2.0 * i as f32 / npad as f32;
        let d = 0.002 / bw.max(bh) as f32;
        for (dx, dy) in [(0.0, 0.0), (d, 0.0), (0.0, d)] {
            verts.push(vertex([(cx + dx) * w, (cy + dy) * w, 2.0 * w - 3.0, w].into(), 99.0));
        }
    }
    let mut all: Vec<Tri<usize>> = (0..nreal + npad).map(|t| Tri([3 * t, 3 * t + 1, 3 * t + 2])).collect();
    let real: Vec<Tri<usize>> = all[..nreal].to_vec();
    // "last": the real triangles are submitted after the padding (their positions in the call are beyond 2^16)
    if case.get("last").and_then(|v| v.as_i64()).unwrap_or(0) == 1 {
        all.rotate_left(nreal);
    }
    let mut planes = vec![];
    let mut panic = 0;
    for (which, sort) in [(0usize, 0i64), (1, 0), (1, 1), (1, 2)] {
        let mut fb = Framebuf {
            color_buf: Buf2::new_from((bw, bh), std::iter::repeat(C0)),
            depth_buf: Buf2::new_from((bw, bh), std::iter::repeat(0.0f32)),
        };
        let ctx = mk_ctx(&json!({"cull": 0, "sort": sort, "test": 1, "cw": 1, "dw": 1}), Stats::new());
        let faces = if which == 0 { &real[..] } else { &all[..] };
        if guard(|| render(faces, &verts, &shader(false), (), to_screen, &mut fb, &ctx)).is_none() {
            panic = 1;
        }
        let z: Vec<i64> = fb.depth_buf.data().iter().map(|z| z.to_bits() as i64 & 0x7FFF_FFFF).collect();
        planes.push(json!([fb.color_buf.data(), z]));
    }
    // the statement's painter clause on a call of that size: three large triangles at depths apart from each other
    // (and from the padding's), the nearest submitted first, the middle one half-way through the padding, the farthest
    // last.  (e) depth-tested, unsorted; (f) depth test off, sorted back to front: the same colour plane.
    let base = verts.len();
    let shapes: [[(f32, f32); 3]; 3] = [[(-1.0, -1.0), (0.6, -1.0), (-1.0, 0.8)], [(1.0, 1.0), (-0.8, 0.9), (0.7, -0.9)], [(-1.0, -1.0), (1.0, -1.0), (0.0, 1.0)]];
    for (t, sh) in shapes.iter().enumerate() {
        let w = [1.01f32, 1.7, 2.9][t];
        for (x, y) in sh {
            verts.push(vertex([x * w, y * w, 2.0 * w - 3.0, w].into(), (10 * (t + 1)) as f32));
        }
    }
    let pad: Vec<Tri<usize>> = (nreal..nreal + npad).map(|t| Tri([3 * t, 3 * t + 1, 3 * t + 2])).collect();
    let mut spread: Vec<Tri<usize>> = vec![Tri([base, base + 1, base + 2])];
    spread.extend_from_slice(&pad[..npad / 2]);
    spread.push(Tri([base + 3, base + 4, base + 5]));
    spread.extend_from_slice(&pad[npad / 2..]);
    spread.push(Tri([base + 6, base + 7, base + 8]));
    let mut pp = vec![];
    for (test, sort) in [(1i64, 0i64), (0, 2)] {
        let mut fb = Framebuf {
            color_buf: Buf2::new_from((bw, bh), std::iter::repeat(C0)),
            depth_buf: Buf2::new_from((bw, bh), std::iter::repeat(0.0f32)),
        };
        let ctx = mk_ctx(&json!({"cull": 0, "sort": sort, "test": test, "cw": 1, "dw": 1}), Stats::new());
        if guard(|| render(&spread, &verts, &shader(false), (), to_screen, &mut fb, &ctx)).is_none() {
            panic = 1;
        }
        pp.push(json!(fb.color_buf.data()));
    }
    let mut e = case.clone();
    let o = e.as_object_mut().unwrap();
    o.insert("panic".into(), json!(panic));
    o.insert("planes".into(), json!(planes));
    o.insert("pp".into(), json!(pp));
    e
}

pub fn exec(case: &Value) -> Value {
    if case.get("op").and_then(|v| v.as_str()) == Some("bigcall") {
        return exec_bigcall(case);
    }
    let (bw, bh) = (gu(case, "bw"), gu(case, "bh"));
    let vp = case["vp"].as_array().unwrap();
    let vpn = |i: usize| vp[i].as_u64().unwrap() as u32;
    let to_screen = viewport(pt2(vpn(0), vpn(1))..pt2(vpn(2), vpn(3)));
    let tris_in = case["tris"].as_array().unwrap();
    let nt = tris_in.len();
    let np = (bw * bh) as usize;
    let scene_scale = 2f32.powi(case.get("sc").and_then(|v| v.as_i64()).unwrap_or(0) as i32);
    // colour id per triangle (the attribute its vertices carry); by default all different, "cid" lets some coincide
    let cid: Vec<usize> = match case.get("cid").and_then(|v| v.as_array()) {
        Some(a) => a.iter().map(|x| x.as_u64().unwrap() as usize).collect(),
        None => (0..nt).map(|t| t + 1).collect(),
    };
    // vertices: three per triangle, attribute = triangle id (1-based), plus unused extras
    let mut verts: Vec<Vtx> = vec![];
    for (t, tri) in tris_in.iter().enumerate() {
        for v in tri.as_array().unwrap() {
            // the whole scene at a homogeneous scale 2^sc (exact): the same image, reciprocal depths
            // 2^-sc times as large - near-equal depths of a far-away scene when sc is large
            let mut lv = lat_vertex(v, cid[t] as f32);
            lv.pos = lv.pos * scene_scale;
            verts.push(lv);
        }
    }
    for _ in 0..4 {
        verts.push(vertex([9.0, 9.0, 9.0, 1.0].into(), 0.0));
    }
    let face = |t: usize| Tri([3 * t, 3 * t + 1, 3 * t + 2]);

    // ---- footprints of the single triangles
    let mut ok = true;
    let mut fp = vec![];
    let mut nfr = vec![];
    let mut npc = vec![];
    let mut ndeg = vec![];
    let mut covers: Vec<Vec<u8>> = vec![];
    for t in 0..nt {
        let mut fb = Framebuf {
            color_buf: Buf2::new_from((bw, bh), std::iter::repeat(C0)),
            depth_buf: Buf2::new_from((bw, bh), std::iter::repeat(0.0f32)),
        };
        let ctx = mk_ctx(&json!({"cull": 0, "sort": 0, "test": 0, "cw": 1, "dw": 1}), Stats::new());
        let mut rec = SpanRec { inner: &mut fb, spans: vec![] };
        if guard(|| render([face(t)], &verts, &shader(false), (), to_screen, &mut rec, &ctx)).is_none() {
            ok = false;
        }
        let mut cover = vec![0u8; np];
        let mut n = 0;
        for &(y, x0, x1) in &rec.spans {
            for x in x0..x1.max(x0) {
                n += 1;
                if y < bh as usize && x < bw as usize {
                    cover[y * bw as usize + x] += 1;
                }
            }
        }
        if cover.iter().any(|&c| c > 1) {
            ok = false; // a pixel drawn twice by one triangle: C04's business
        }
        let f: Vec<i64> = (0..np)
            .map(|p| {
                let c = fb.color_buf.data()[p];
                let z = fb.depth_buf.data()[p];
                if c == C0 {
                    -1
                } else {
                    if !(z >= 0.0) || c != rgba(cid[t] as u8, 0x40, 0x80, 0).to_argb_u32() {
                        ok = false; // NaN / negative depth or a corrupted attribute: C05's business
                    }
                    z.to_bits() as i64 & 0x7FFF_FFFF
                }
            })
            .collect();
        fp.push(f);
        nfr.push(n);
        covers.push(cover.iter().map(|&c| c.min(2)).collect::<Vec<u8>>());
        // number of clipped pieces through the public clip API
        let tri = Tri([0, 1, 2].map(|i| ClipVert::new(verts[3 * t + i].clone())));
        let mut out = vec![];
        view_frustum::clip(&[tri][..], &mut out);
        npc.push(out.len());
        // pieces whose on-screen area is (all but) zero: their facing is undefined, so whether
        // culling drops them is left open by the relation
        let scr = |p: &ProjVec4| {
            let w = p.0[3] as f64;
            let v = to_screen.apply(&re::math::vec::vec3((p.0[0] as f64 / w) as f32, (p.0[1] as f64 / w) as f32, 0.0));
            (v.x() as f64, v.y() as f64)
        };
        ndeg.push(
            out.iter()
                .filter(|o| {
                    let (a, b, c) = (scr(&o.0[0].pos), scr(&o.0[1].pos), scr(&o.0[2].pos));
                    let cross = (b.0 - a.0) * (c.1 - a.1) - (b.1 - a.1) * (c.0 - a.0);
                    !(cross.abs() > 1e-4)
                })
                .count(),
        );
    }
    let tv: Vec<Value> = tris_in
        .iter()
        .map(|tri| {
            let a = tri.as_array().unwrap();
            json!(a.iter().map(|v| json!([v[0], v[1], v[3]])).collect::<Vec<_>>())
        })
        .collect();
    let vsign = if (vpn(2) > vpn(0)) == (vpn(3) > vpn(1)) { 1 } else { -1 };
    let dpix: Vec<u8> = (0..np).map(|p| (((p as u32 % bw) + (p as u32 / bw)) % 3 == 0) as u8).collect();
    let col: Vec<u32> = (0..nt).map(|t| rgba(cid[t] as u8, 0x40, 0x80, 0).to_argb_u32()).collect();
    let scene = json!({"np": np, "fp": fp, "col": col, "nfr": nfr, "npc": npc, "ndeg": ndeg, "tv": tv, "vsign": vsign, "dpix": dpix, "cover": covers});

    // ---- histories
    let mut hists = vec![];
    for h in case["hists"].as_array().unwrap() {
        let calls = h.as_array().unwrap();
        let kind = gs(&calls[0]["ctx"], "kind").to_string();
        // win 0: the planes are the targets; 1: the targets are windows (MutSlice2, row pitch > width) of
        // larger parent planes, re-borrowed for every call; 2: windows of windows
        let win = (h.get(0).and_then(|c| c.get("win")).and_then(|v| v.as_i64())).unwrap_or(0);
        // 3: the planes are the far corner (from column 2000, row 1000) of much larger buffers handed over whole,
        //    the viewport being shifted there: screen coordinates in the thousands
        let (pl, pt, pr, pb) = if win == 0 { (0u32, 0u32, 0u32, 0u32) } else if win == 3 { (2000, 1000, 2, 2) } else { (1, 1, 2, 1) };
        let to_screen = if win == 3 { viewport(pt2(vpn(0) + pl, vpn(1) + pt)..pt2(vpn(2) + pl, vpn(3) + pt)) } else { to_screen };
        let (pw, ph) = (bw + pl + pr, bh + pt + pb);
        let mut cpar = Buf2::new_from((pw, ph), std::iter::repeat(C0));
        let mut zpar = Buf2::new_from((pw, ph), std::iter::repeat(0.0f32));
        let mut stats = Stats::new();
        let mut evs = vec![];
        for c in calls {
            let ctx = mk_ctx(&c["ctx"], stats.clone());
            // every other call is made with a COPY of the settings (as the front ends do every frame)
            let ctx = if evs.len() % 2 == 1 { ctx.clone() } else { ctx };
            let ord: Vec<usize> = c["ord"].as_array().unwrap().iter().map(|t| t.as_u64().unwrap() as usize - 1).collect();
            let faces: Vec<Tri<usize>> = ord.iter().map(|&t| face(t)).collect();
            // submit only as many vertices as the call says (always enough for the faces used)
            let nv = gi(c, "nv") as usize;
            let vs = &verts[..nv];
            let disc = gi(&c["ctx"], "disc") == 1;
            let via = c.get("via").and_then(|v| v.as_str()).unwrap_or("render").to_string();
            // one render call through the chosen front door into any target
            fn call<T: Target>(
                target: &mut T, via: &str, disc: bool, faces: &[Tri<usize>], vs: &[Vtx],
                to_screen: Mat4x4<re::render::NdcToScreen>, dims: (u32, u32), vp: [u32; 4], ctx: &Context,
            ) -> bool {
                match via {
                    "batch" => guard(|| Batch::new().faces(faces).vertices(vs).shader(shader(disc)).viewport(to_screen).target(target).context(ctx).render()).is_some(),
                    // the Camera front door: identity view and projection, the vertex shader passes the clip-space
                    // positions through; "camm" hands over a MIRRORING model matrix, which that shader ignores -
                    // the picture, and with it every on-screen winding, is the same
                    "cam" | "camm" => {
                        let camsh = re::render::shader::Shader::new(
                            |v: Vtx, _: (&Mat4x4<RealToProj<World>>, ())| v,
                            move |f: Frag<f32>| {
                                let (x, y) = (f.pos.x() as u32, f.pos.y() as u32);
                                if disc && (x + y) % 3 == 0 { None } else { Some(rgba(f.var.round() as u8, 0x40, 0x80, 0)) }
                            },
                        );
                        guard(|| {
                            let (x0, x1) = (vp[0].min(vp[2]), vp[0].max(vp[2]));
                            let (y0, y1) = (vp[1].min(vp[3]), vp[1].max(vp[3]));
                            let mut cam = re::render::cam::Camera::new(dims).viewport((x0..x1, y0..y1)).mode(Mat4x4::<WorldToView>::identity());
                            cam.viewport = to_screen; // (mirrored viewports are not expressible through the builder)
                            let to_world: Mat4x4<RealToReal<3, World, World>> =
                                if via == "camm" { re::math::mat::scale(re::math::vec::vec3(-1.0, 1.0, 1.0)).to() } else { Mat4x4::identity() };
                            cam.render(faces, vs, &to_world, &camsh, (), target, ctx)
                        })
                        .is_some()
                    }
                    _ => guard(|| render(faces, vs, &shader(disc), (), to_screen, target, ctx)).is_some(),
                }
            }
            let vp4 = [vpn(0), vpn(1), vpn(2), vpn(3)];
            macro_rules! go {
                ($t:expr) => {
                    call($t, &via, disc, &faces, vs, to_screen, (bw, bh), vp4, &ctx)
                };
            }
            let okcall = match (win, kind == "fb") {
                (0, true) | (3, true) => go!(&mut Framebuf { color_buf: &mut cpar, depth_buf: &mut zpar }),
                (0, false) | (3, false) => go!(&mut cpar),
                (1, fbk) => {
                    let mut cw = cpar.slice_mut((pl..pl + bw, pt..pt + bh));
                    let zw = zpar.slice_mut((pl..pl + bw, pt..pt + bh));
                    if fbk { go!(&mut Framebuf { color_buf: cw, depth_buf: zw }) } else { go!(&mut cw) }
                }
                (_, fbk) => {
                    let mut cpane = cpar.slice_mut((0..pw - 1, 0..ph));
                    let mut zpane = zpar.slice_mut((0..pw - 1, 0..ph));
                    let mut cw = cpane.slice_mut((pl..pl + bw, pt..pt + bh));
                    let zw = zpane.slice_mut((pl..pl + bw, pt..pt + bh));
                    if fbk { go!(&mut Framebuf { color_buf: cw, depth_buf: zw }) } else { go!(&mut cw) }
                }
            };
            stats = ctx.stats.borrow().clone();
            let mut e = c.clone();
            let o = e.as_object_mut().unwrap();
            o.insert("panic".into(), json!(!okcall as u8));
            let (mut cplane, mut zplane, mut outw) = (vec![], vec![], 0);
            for y in 0..ph {
                for x in 0..pw {
                    let (cv, zv) = (cpar[[x, y]], zpar[[x, y]]);
                    if x >= pl && x < pl + bw && y >= pt && y < pt + bh {
                        cplane.push(cv);
                        zplane.push(zv.to_bits() as i64 & 0x7FFF_FFFF);
                        if !(zv >= 0.0) {
                            ok = false;
                        }
                    } else if cv != C0 || zv.to_bits() != 0 {
                        outw += 1;
                    }
                }
            }
            o.insert("c".into(), json!(cplane));
            o.insert("z".into(), json!(zplane));
            o.insert("outw".into(), json!(outw));
            o.insert("st".into(), stats_json(&stats));
            evs.push(e);
        }
        hists.push(json!(evs));
    }
    json!({"k": case["k"], "ok": ok as u8, "scene": scene, "hists": hists})
}

// ---------------------------------------------------------------- generator

fn det3(t: &[[i64; 4]; 3]) -> i64 {
    let m = |i: usize, j: usize| t[i][[0usize, 1, 3][j]];
    m(0, 0) * (m(1, 1) * m(2, 2) - m(1, 2) * m(2, 1)) - m(0, 1) * (m(1, 0) * m(2, 2) - m(1, 2) * m(2, 0))
        + m(0, 2) * (m(1, 0) * m(2, 1) - m(1, 1) * m(2, 0))
}

/// A random non-degenerate lattice triangle in clip space (units 1/4) with
/// z = 2w - 3 (near plane at w = 1, far plane at w = 3).
pub fn gen_tri(rng: &mut Rng, inside_only: bool, wlo: i64, whi: i64) -> [[i64; 4]; 3] {
    loop {
        let mut t = [[0i64; 4]; 3];
        for v in t.iter_mut() {
            let w = rng.range(wlo, whi);
            let lim = if inside_only { w } else { w * 3 / 2 + 1 };
            *v = [rng.range(-lim, lim), rng.range(-lim, lim), 2 * w - 12, w];
        }
        if det3(&t) != 0 {
            return t;
        }
    }
}

fn compositions(n: usize) -> Vec<Vec<usize>> {
    // all ways to cut a sequence of n items into consecutive non-empty groups
    let mut out = vec![];
    for mask in 0..(1u32 << (n - 1)) {
        let mut groups = vec![];
        let mut cur = 1;
        for i in 0..n - 1 {
            if mask >> i & 1 == 1 {
                groups.push(cur);
                cur = 1;
            } else {
                cur += 1;
            }
        }
        groups.push(cur);
        out.push(groups);
    }
    out
}

fn permutations(n: usize) -> Vec<Vec<usize>> {
    fn rec(cur: &mut Vec<usize>, used: &mut Vec<bool>, n: usize, out: &mut Vec<Vec<usize>>) {
        if cur.len() == n {
            out.push(cur.clone());
            return;
        }
        for i in 0..n {
            if !used[i] {
                used[i] = true;
                cur.push(i + 1);
                rec(cur, used, n, out);
                cur.pop();
                used[i] = false;
            }
        }
    }
    let mut out = vec![];
    rec(&mut vec![], &mut vec![false; n], n, &mut out);
    out
}

pub fn gen(args: &Args, out: &mut dyn Write) {
    let thorough = args.tier == "thorough";
    if args.rest.first().map(|s| s.as_str()) == Some("bigcall") {
        let mut rng = Rng::new(args.seed ^ 0xB16C);
        for i in 0..(if thorough { 16 } else { 4 }) {
            let (bw, bh) = (rng.range(6, 12), rng.range(5, 9));
            let tris: Vec<[[i64; 4]; 3]> = (0..3).map(|_| gen_tri(&mut rng, true, 5, 11)).collect();
            // call sizes around the 16-bit boundary
            let npad = [65_533i64, 65_540, 70_000, 131_080][i % 4];
            writeln!(out, "{}", json!({"k": format!("B{}-{}", args.seed, i), "op": "bigcall", "bw": bw, "bh": bh, "tris": tris, "npad": npad, "last": (i / 2) % 2})).unwrap();
        }
        return;
    }
    let n = args.n.unwrap_or(if thorough { 600 } else { 60 });
    // mode "c06": order-independence histories; "c07": flag histories; default both
    let mode = args.rest.first().map(|s| s.as_str()).unwrap_or("all").to_string();
    let (do06, do07) = (mode != "c07", mode != "c06");
    let mut rng = Rng::new(args.seed ^ 0x7A96);
    for i in 0..n {
        let tinyfar = i % 10 == 3;
        let (bw, bh) = if tinyfar { (16, 16) } else { (rng.range(6, 14), rng.range(5, 10)) };
        let mut vp = if rng.chance(1, 2) {
            [0, 0, bw, bh]
        } else {
            let (x0, y0) = (rng.range(0, 2), rng.range(0, 2));
            [x0, y0, rng.range(x0 + 3, bw), rng.range(y0 + 3, bh)]
        };
        // mirrored viewports (y-up, x-mirrored, both): on-screen winding flips with one axis
        match rng.below(8) {
            0 => vp.swap(1, 3),
            1 => vp.swap(0, 2),
            2 => {
                vp.swap(1, 3);
                vp.swap(0, 2)
            }
            _ => {}
        }
        if tinyfar {
            vp = [0, 0, 16, 16];
        }
        let painter = i % 5 == 4;
        // "gap" scenes: two near pillars left and right, a far wall behind both that shows through the
        // gap between them - spans whose two ends are hidden while their middle is visible
        let gap = i % 5 == 2;
        let nt = if painter || gap { 3 } else if tinyfar { 4 } else { rng.range(2, 4) as usize };
        let pbands: Vec<(i64, i64)> = match rng.below(3) {
            0 => vec![(4, 4), (5, 5), (6, 6)],
            1 => vec![(4, 5), (6, 6), (8, 9)],
            _ => vec![(4, 5), (7, 8), (10, 11)],
        };
        // every tenth scene: triangles a quarter of a pixel across around pixel centres (16 x 16 pixels, w = 64:
        // one lattice unit is an eighth of a pixel), drawn into the far corner of a large buffer
        let mut tris = vec![];
        for t in 0..nt {
            let tri = if tinyfar {
                let (px, py) = (rng.range(1, 14), rng.range(1, 14));
                let (cx, cy) = (8 * px + 4 - 64, 8 * py + 4 - 64);
                let w = 64;
                let mut v = [[cx - 1, cy - 1, 0, w], [cx + 1, cy - 1, 0, w], [cx, cy + 1, 0, w]];
                if (t + i / 10) % 2 == 1 { v.swap(1, 2); }
                v
            } else if gap {
                let j = |rng: &mut Rng| rng.range(-1, 1);
                match t {
                    0 => { let w = 5; [[-w, -w, 2 * w - 12, w], [-1 + j(&mut rng), -w, 2 * w - 12, w], [-w, w + j(&mut rng), 2 * w - 12, w]] }
                    1 => { let w = 6; [[w, -w, 2 * w - 12, w], [w, w + j(&mut rng), 2 * w - 12, w], [1 + j(&mut rng), -w, 2 * w - 12, w]] }
                    _ => { let w = 10; [[-8 + j(&mut rng), -8, 2 * w - 12, w], [8 + j(&mut rng), -8, 2 * w - 12, w], [j(&mut rng), 10, 2 * w - 12, w]] }
                }
            } else if painter && i % 10 == 9 {
                // three large overlapping triangles right behind the near plane (clip-space z negative for the
                // first two): w = 4, 5, 6, each spanning most of the view
                let w = 4 + t as i64;
                let j = |rng: &mut Rng| rng.range(-1, 1);
                [[-w + 1 + j(&mut rng), -w + 1, 2 * w - 12, w], [w - 1, -w + 1 + j(&mut rng), 2 * w - 12, w], [j(&mut rng), w - 1, 2 * w - 12, w]]
            } else if painter {
                // disjoint depth ranges, wholly inside the frustum; often all close to the
                // near plane, where clip-space z is negative
                let (lo, hi) = pbands[t];
                gen_tri(&mut rng, true, lo, hi)
            } else {
                { let inside = rng.chance(1, 3); gen_tri(&mut rng, inside, 2, 14) }
            };
            tris.push(tri);
        }
        // every fourth ordinary scene is a FAN: all its triangles start at the same position (each with its own
        // attribute, as flat-shaded faces meeting at a corner do)
        if !gap && !painter && i % 4 == 3 {
            let apex = tris[0][0];
            for t in tris.iter_mut().skip(1) {
                let mut u = *t;
                u[0] = apex;
                if det3(&u) != 0 {
                    *t = u;
                }
            }
        }
        // the reversed twin of the first triangle (C07: culling selects one vertex order)
        let mut twin = tris[0];
        twin.swap(1, 2);
        tris.push(twin);
        // ... and a triangle that lies wholly beyond a corner of the view volume without being behind any ONE of its
        // planes: it goes through the polygon clipper and nothing of it remains (what follows it in a call must not care)
        if !tinyfar {
            let w = 6;
            let sx = if i % 2 == 0 { 1 } else { -1 };
            tris.push([[sx * (2 * w + 1), 0, 0, w], [0, 2 * w + 1, 0, w], [sx * (2 * w + 2), 2 * w + 2, 0, w]]);
        }
        let ntot = tris.len();
        let all_nv = 3 * ntot;
        let mut hists: Vec<Value> = vec![];
        let confl = json!({"cull": 0, "sort": 0, "test": 1, "cw": 1, "dw": 1, "disc": 0, "kind": "fb"});
        // C06: permutations x partitions x sort settings of the first nt triangles
        let perms = permutations(nt);
        let comps = compositions(nt);
        for (pi, perm) in perms.iter().enumerate() {
            if !do06 {
                break;
            }
            for (ci, comp) in comps.iter().enumerate() {
                if nt == 4 && !rng.chance(1, 6) && !(pi == 0 && ci == 0) {
                    continue;
                }
                let mut calls = vec![];
                let mut at = 0;
                // every third history: a cut-out shader (the same for all calls of the history)
                let disc = ((pi + ci) % 3 == 1) as u8;
                let hwin = [0, 1, 2, 0][(pi + 2 * ci) % 4];
                for &g in comp {
                    let ord = &perm[at..at + g];
                    at += g;
                    let mut ctx = confl.clone();
                    ctx["sort"] = json!(rng.below(3));
                    ctx["disc"] = json!(disc);
                    // every other scene with face culling on (the same for the whole scene): the faces
                    // culled drop out of every history alike
                    if i % 2 == 1 {
                        ctx["cull"] = json!(1 + (i / 2) % 2);
                    }
                    let need = 3 * *ord.iter().max().unwrap();
                    calls.push(json!({"ctx": ctx, "ord": ord, "nv": need.max(all_nv.min(need + 3 * rng.below(2) as usize)),
                                      "via": if rng.chance(1, 4) { "batch" } else { "render" }, "win": if tinyfar { 3 } else { hwin }}));
                }
                hists.push(json!(calls));
            }
        }
        if painter && do06 {
            // one sorted call without depth test, every submission order
            for (pi, perm) in perms.iter().enumerate() {
                let mut ctx = confl.clone();
                ctx["sort"] = json!(2);
                ctx["test"] = json!(0);
                // with and without face culling: culled triangles drop out, the order of the others stays
                ctx["cull"] = json!(pi % 3);
                hists.push(json!([{"ctx": ctx, "ord": perm, "nv": all_nv, "via": "render", "win": (pi / 3) % 3}]));
            }
        }
        // C07: random flag histories on persistent buffers, both target kinds
        for hk in 0..(if !do07 { 0 } else if thorough { 30 } else { 16 }) {
            let kind = if hk % 3 == 2 { "col" } else { "fb" };
            let mut calls = vec![];
            for _ in 0..rng.range(2, 4) {
                let k = rng.range(1, ntot as i64) as usize;
                let mut ord: Vec<usize> = (1..=ntot).collect();
                for j in (1..ord.len()).rev() {
                    ord.swap(j, rng.below(j as u64 + 1) as usize);
                }
                ord.truncate(k);
                // (every fourth history opens with the beyond-the-corner triangle followed by all the others)
                if hk % 4 == 1 && calls.is_empty() && !tinyfar {
                    ord = std::iter::once(ntot).chain(1..ntot).collect();
                }
                let need = 3 * *ord.iter().max().unwrap();
                let ctx = json!({"cull": rng.below(3), "sort": if rng.chance(1, 4) { rng.below(3) } else { 0 },
                    "test": rng.below(4), "cw": rng.below(4).min(1), "dw": rng.below(4).min(1),
                    "disc": rng.below(3) / 2, "kind": kind});
                calls.push(json!({"ctx": ctx, "ord": ord, "nv": need + rng.below(5) as usize,
                                  "via": if tinyfar { *rng.pick(&["render", "batch"]) } else { *rng.pick(&["render", "render", "render", "batch", "cam", "camm"]) },
                                  "win": if tinyfar { 3 } else { hk % 3 }}));
            }
            hists.push(json!(calls));
        }
        let sc = [0i64, 0, 16, -12][i % 4];
        // every third scene: some triangles return the SAME colour (the twin always has its own)
        let cid: Vec<usize> = (0..ntot).map(|t| if i % 3 == 1 && t < nt { 1 + t / 2 } else { t + 1 }).collect();
        writeln!(out, "{}", json!({"k": format!("s{}-{}", args.seed, i), "bw": bw, "bh": bh, "vp": vp,
            "tris": tris, "hists": hists, "sc": sc, "cid": cid})).unwrap();
    }
}
