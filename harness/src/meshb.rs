//! Growth (DESIGN §8): the triangle-mesh builder.  Histories come from TLC
//! (MC_MeshB exports every behaviour it explores) and from a seeded driver;
//! after every call the builder's public state is recorded.

use crate::util::*;
use crate::Args;
use re::geom::mesh::Builder;
use re::geom::Mesh;
use re::math::mat::{scale, translate, Mat4x4, RealToReal};
use re::math::point::pt3;
use re::math::vec::vec3;
use re::math::Linear;
use re::render::Model;
use serde_json::{json, Value};
use std::io::Write;

type N3 = re::geom::Normal3;
enum B {
    Plain(Builder<()>),
    Nrm(Builder<N3>),
    Gone,
}

fn tri(v: &Value) -> [usize; 3] {
    [0, 1, 2].map(|i| v[i].as_u64().unwrap() as usize)
}
fn p3(v: &Value) -> re::math::point::Point3 {
    pt3(v[0].as_i64().unwrap() as f32, v[1].as_i64().unwrap() as f32, v[2].as_i64().unwrap() as f32)
}
fn obs<A>(m: &Mesh<A>) -> (Value, Value) {
    let faces: Vec<Value> = m.faces.iter().map(|t| json!(t.0)).collect();
    // positions are small integers: exact
    let verts: Vec<Value> = m.verts.iter().map(|v| json!([v.pos.x() as i64, v.pos.y() as i64, v.pos.z() as i64])).collect();
    (json!(faces), json!(verts))
}

pub fn exec(case: &Value) -> Value {
    let mut b = B::Plain(Mesh::<()>::builder());
    let mut evs = vec![];
    for c in case["ops"].as_array().unwrap() {
        let op = gs(c, "op");
        let mut e = c.clone();
        let mut panic = 0;
        let mut normals = json!([]);
        let cur = std::mem::replace(&mut b, B::Gone);
        b = match (op, cur) {
            ("push_face", B::Plain(mut x)) => { let f = tri(&c["f"]); x.push_face(f[0], f[1], f[2]); B::Plain(x) }
            ("push_face", B::Nrm(mut x)) => { let f = tri(&c["f"]); x.push_face(f[0], f[1], f[2]); B::Nrm(x) }
            ("push_faces", B::Plain(mut x)) => { x.push_faces(c["fs"].as_array().unwrap().iter().map(tri)); B::Plain(x) }
            ("push_faces", B::Nrm(mut x)) => { x.push_faces(c["fs"].as_array().unwrap().iter().map(tri)); B::Nrm(x) }
            ("push_vert", B::Plain(mut x)) => { x.push_vert(p3(&c["p"]), ()); B::Plain(x) }
            ("push_vert", B::Nrm(mut x)) => { x.push_vert(p3(&c["p"]), N3::zero()); B::Nrm(x) }
            ("push_verts", B::Plain(mut x)) => { x.push_verts(c["ps"].as_array().unwrap().iter().map(|p| (p3(p), ()))); B::Plain(x) }
            ("push_verts", B::Nrm(mut x)) => { x.push_verts(c["ps"].as_array().unwrap().iter().map(|p| (p3(p), N3::zero()))); B::Nrm(x) }
            ("transform", B::Plain(x)) => {
                let (t, k) = (&c["t"], &c["kx"]);
                let g = |v: &Value, i: usize| v[i].as_i64().unwrap() as f32;
                // first the translation, then the scaling
                let tf: Mat4x4<RealToReal<3, Model, Model>> =
                    translate(vec3(g(t, 0), g(t, 1), g(t, 2))).then(&scale(vec3(g(k, 0), g(k, 1), g(k, 2)))).to();
                match guard(move || x.transform(&tf)) {
                    Some(y) => B::Plain(y),
                    None => { panic = 1; B::Gone }
                }
            }
            ("normals", B::Plain(x)) => match guard(move || x.with_vertex_normals()) {
                Some(y) => {
                    normals = json!(y.mesh.verts.iter().map(|v| {
                        let s = |c: f32| { let q = (c as f64 * 256.0).round(); if q.is_finite() { q.clamp(-1e6, 1e6) as i64 } else { 1_000_000 } };
                        [s(v.attrib.x()), s(v.attrib.y()), s(v.attrib.z())]
                    }).collect::<Vec<_>>());
                    B::Nrm(y)
                }
                None => { panic = 1; B::Gone }
            },
            ("build", B::Plain(x)) => { let k = x.clone(); if guard(move || x.build()).is_none() { panic = 1; B::Gone } else { B::Plain(k) } }
            ("build", B::Nrm(x)) => { let k = x.clone(); if guard(move || x.build()).is_none() { panic = 1; B::Gone } else { B::Nrm(k) } }
            (_, other) => other, // not offered in this state (transform / normals after the attribute changed)
        };
        let (faces, verts) = match &b {
            B::Plain(x) => obs(&x.mesh),
            B::Nrm(x) => obs(&x.mesh),
            B::Gone => (json!([]), json!([])),
        };
        let o = e.as_object_mut().unwrap();
        o.insert("panic".into(), json!(panic));
        o.insert("faces".into(), faces);
        o.insert("verts".into(), verts);
        o.insert("normals".into(), normals);
        evs.push(e);
        if matches!(b, B::Gone) {
            break;
        }
    }
    json!({"k": case["k"], "evs": evs})
}

pub fn gen(args: &Args, out: &mut dyn Write) {
    let n = args.n.unwrap_or(if args.tier == "thorough" { 20_000 } else { 1_500 });
    let mut rng = Rng::new(args.seed ^ 0x3E5B);
    for i in 0..n {
        let mut ops = vec![];
        let mut nv = 0i64;
        let mut plain = true;
        for _ in 0..rng.range(3, 12) {
            let idx = |rng: &mut Rng, nv: i64| if rng.chance(1, 8) { nv + rng.range(0, 2) } else { rng.range(0, (nv - 1).max(0)) };
            let pos = |rng: &mut Rng| [rng.range(-2, 2), rng.range(-2, 2), rng.range(-2, 2)];
            match rng.below(12) {
                0..=3 => { ops.push(json!({"op": "push_vert", "p": pos(&mut rng)})); nv += 1; }
                4 => { ops.push(json!({"op": "push_verts", "ps": [pos(&mut rng), pos(&mut rng), pos(&mut rng)]})); nv += 3; }
                5..=7 => ops.push(json!({"op": "push_face", "f": [idx(&mut rng, nv), idx(&mut rng, nv), idx(&mut rng, nv)]})),
                8 => ops.push(json!({"op": "push_faces", "fs": [[idx(&mut rng, nv), idx(&mut rng, nv), idx(&mut rng, nv)], [idx(&mut rng, nv), idx(&mut rng, nv), idx(&mut rng, nv)]]})),
                9 if plain => ops.push(json!({"op": "transform", "t": pos(&mut rng), "kx": *rng.pick(&[[1i64, 1, 1], [-1, 1, 1], [2, 2, 2], [1, -2, 1]])})),
                10 if plain => { ops.push(json!({"op": "normals"})); plain = false; }
                _ => ops.push(json!({"op": "build"})),
            }
        }
        writeln!(out, "{}", json!({"k": format!("mb{}-{}", args.seed, i), "ops": ops})).unwrap();
    }
}
