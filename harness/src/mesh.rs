//! C15 driver: builds the solids, clusters coincident positions into classes
//! and reduces the geometric facts (face degeneracy, side of the outward
//! reference, normal side and length, distance to the intended surface) to
//! discrete flags; topology is judged by TLC on faces and classes.

use crate::util::*;
use crate::Args;
use geom::solids::*;
use re::geom::{Mesh, Normal3};
use re::math::angle::turns;
use re::math::point::pt3;
use serde_json::{json, Value};
use std::io::Write;

type V3 = [f64; 3];
fn sub(a: V3, b: V3) -> V3 { [a[0] - b[0], a[1] - b[1], a[2] - b[2]] }
fn cross(a: V3, b: V3) -> V3 { [a[1] * b[2] - a[2] * b[1], a[2] * b[0] - a[0] * b[2], a[0] * b[1] - a[1] * b[0]] }
fn dot(a: V3, b: V3) -> f64 { a[0] * b[0] + a[1] * b[1] + a[2] * b[2] }
fn len(a: V3) -> f64 { dot(a, a).sqrt() }

enum Surf {
    Sphere(f64),
    Torus(f64, f64),
    /// radius at y = -1 and y = +1 (cylinder: equal), capped or not
    Cone(f64, f64),
    Capsule(f64),
    Box(V3, V3),
    /// vertices on a sphere of some radius about the origin, whatever it is
    Platonic,
    /// a ring about the y axis whose tube is centred on the circle of this radius (outward reference only)
    Ring(f64),
    None,
}

fn build(case: &Value) -> (Mesh<Normal3>, Surf, bool, i64) {
    let g = |k: &str| gi(case, k) as u32;
    let f = |k: &str| gf(case, k) as f32;
    match gs(case, "solid") {
        "tetra" => (Tetrahedron.build(), Surf::Platonic, true, 2),
        "octa" => (Octahedron.build(), Surf::Platonic, true, 2),
        "dodeca" => (Dodecahedron.build(), Surf::Platonic, true, 2),
        "icosa" => (Icosahedron.build(), Surf::Platonic, true, 2),
        "box" => {
            let (a, b) = ([f("x0"), f("y0"), f("z0")], [f("x1"), f("y1"), f("z1")]);
            (Box { left_bot_near: pt3(a[0], a[1], a[2]), right_top_far: pt3(b[0], b[1], b[2]) }.build(),
             Surf::Box(a.map(|x| x as f64), b.map(|x| x as f64)), true, 2)
        }
        "sphere" => (Sphere { sectors: g("secs"), segments: g("segs"), radius: f("r") }.build(), Surf::Sphere(f("r") as f64), true, 2),
        "torus" => (Torus { major_radius: f("R"), minor_radius: f("r"), major_sectors: g("secs"), minor_sectors: g("segs") }.build(),
                    Surf::Torus(f("R") as f64, f("r") as f64), true, 0),
        "cylinder" => {
            let capped = gi(case, "capped") == 1;
            (Cylinder { sectors: g("secs"), segments: g("segs"), capped, radius: f("r") }.build(), Surf::Cone(f("r") as f64, f("r") as f64), capped, 2)
        }
        "cone" => {
            let capped = gi(case, "capped") == 1;
            (Cone { sectors: g("secs"), segments: g("segs"), capped, base_radius: f("r"), apex_radius: f("r2") }.build(),
             Surf::Cone(f("r") as f64, f("r2") as f64), capped, 2)
        }
        "capsule" => (Capsule { sectors: g("secs"), body_segments: g("segs"), cap_segments: g("caps"), radius: f("r") }.build(),
                      Surf::Capsule(f("r") as f64), true, 2),
        "crease" => {
            // a user profile with hard edges: a point listed twice, once with the normal of either
            // adjoining surface (kind 0: a flat double cone with a sharp rim, 1: a flat-shaded cylinder)
            use re::geom::vertex;
            use re::math::{point::pt2, vec::vec2};
            let (r, nl) = (f("r"), f("nl"));
            let kind = gi(case, "kind");
            if kind >= 2 {
                // kind 2: a capped "room" - the side listed from top to bottom with normals facing the axis, so that
                // every face (the caps too) looks inwards; kind 3: a ring with a triangular cross-section whose closed
                // profile starts and ends at its sharpest corner (53 degrees), every side with its own normal
                let (pts, capped) = if kind == 2 {
                    (vec![vertex(pt2(r, r), vec2(-nl, 0.0)), vertex(pt2(r, 0.0), vec2(-nl, 0.0)), vertex(pt2(r, -r), vec2(-nl, 0.0))], true)
                } else {
                    let (a, b, c) = (pt2(2.0 * r, 0.0), pt2(r, 0.5 * r), pt2(r, -0.5 * r));
                    (vec![vertex(a, vec2(0.5 * nl, nl)), vertex(b, vec2(0.5 * nl, nl)), vertex(b, vec2(-nl, 0.0)), vertex(c, vec2(-nl, 0.0)),
                          vertex(c, vec2(0.5 * nl, -nl)), vertex(a, vec2(0.5 * nl, -nl))], false)
                };
                let l = Lathe { points: pts, sectors: g("secs"), capped, az_range: turns(0.0)..turns(1.0) };
                return (l.build(), if kind == 2 { Surf::None } else { Surf::Ring(4.0 * r as f64 / 3.0) }, false, 0);
            }
            let pts = if kind == 0 {
                vec![vertex(pt2(0.0, -0.3 * r), vec2(0.3 * nl, -nl)), vertex(pt2(r, 0.0), vec2(0.3 * nl, -nl)),
                     vertex(pt2(r, 0.0), vec2(0.3 * nl, nl)), vertex(pt2(0.0, 0.3 * r), vec2(0.3 * nl, nl))]
            } else {
                vec![vertex(pt2(0.0, -r), vec2(0.0, -nl)), vertex(pt2(r, -r), vec2(0.0, -nl)), vertex(pt2(r, -r), vec2(nl, 0.0)),
                     vertex(pt2(r, r), vec2(nl, 0.0)), vertex(pt2(r, r), vec2(0.0, nl)), vertex(pt2(0.0, r), vec2(0.0, nl))]
            };
            let l = if gi(case, "lit") == 1 {
                Lathe { points: pts, sectors: g("secs"), capped: false, az_range: turns(0.0)..turns(1.0) }
            } else {
                Lathe::new(pts, g("secs"))
            };
            (l.build(), Surf::None, false, 0)
        }
        _ => {
            // a partial sweep of a cylinder profile through the public az_range field; the profile
            // normals are given with length nl (they need not be unit vectors: build() normalises).
            // lit = 1: the Lathe is written as a struct literal, all of whose fields are public
            let nl = case.get("nl").and_then(|v| v.as_f64()).unwrap_or(1.0) as f32;
            let pts = (0..=g("segs")).map(|i| re::geom::vertex(re::math::point::pt2(f("r"), -1.0 + 2.0 * i as f32 / g("segs") as f32), re::math::vec::vec2(nl, 0.0)));
            let l = if case.get("lit").and_then(|v| v.as_i64()).unwrap_or(0) == 1 {
                Lathe { points: pts.collect(), sectors: g("secs"), capped: false, az_range: turns(f("az0"))..turns(f("az1")) }
            } else {
                let mut l = Lathe::new(pts, g("secs"));
                l.az_range = turns(f("az0"))..turns(f("az1"));
                l
            };
            (l.build(), Surf::None, false, 0)
        }
    }
}

/// Solids with a very large segment count (beyond 2^16): only a summary is recorded - index validity, the
/// extent reached along the axis, the radial distance of the vertices, the length of the normals.
fn exec_big(case: &Value) -> Value {
    let mut e = case.clone();
    let r = guard(|| build(case));
    let o = e.as_object_mut().unwrap();
    let Some((m, _, _, _)) = r else {
        for k in ["nv", "nf", "idxok", "ymin", "ymax", "rlo", "rhi", "nbadn"] {
            o.insert(k.into(), json!(0));
        }
        o.insert("panic".into(), json!(1));
        return e;
    };
    let nv = m.verts.len();
    let idxok = m.faces.iter().all(|t| t.0.iter().all(|&i| i < nv)) as u8;
    let (mut ymin, mut ymax, mut rlo, mut rhi) = (f64::MAX, f64::MIN, f64::MAX, f64::MIN);
    let mut nbadn = 0usize;
    for v in &m.verts {
        let (x, y, z) = (v.pos.x() as f64, v.pos.y() as f64, v.pos.z() as f64);
        ymin = ymin.min(y);
        ymax = ymax.max(y);
        // distance from the axis (cylinder) or from the centre (sphere)
        let d = if gs(case, "solid") == "sphere" { (x * x + y * y + z * z).sqrt() } else { (x * x + z * z).sqrt() };
        rlo = rlo.min(d);
        rhi = rhi.max(d);
        let n = v.attrib;
        let l = ((n.x() * n.x() + n.y() * n.y() + n.z() * n.z()) as f64).sqrt();
        if (l - 1.0).abs() > 1e-3 {
            nbadn += 1;
        }
    }
    let q = |x: f64| if x.is_finite() && x.abs() < 1e6 { (x * 1024.0).round() as i64 } else { 1_000_000_000 };
    o.insert("nv".into(), json!(nv));
    o.insert("nf".into(), json!(m.faces.len()));
    o.insert("idxok".into(), json!(idxok));
    o.insert("ymin".into(), json!(q(ymin)));
    o.insert("ymax".into(), json!(q(ymax)));
    o.insert("rlo".into(), json!(q(rlo)));
    o.insert("rhi".into(), json!(q(rhi)));
    o.insert("nbadn".into(), json!(nbadn));
    o.insert("panic".into(), json!(0));
    e
}

pub fn exec(case: &Value) -> Value {
    if case.get("big").is_some() {
        return exec_big(case);
    }
    let mut e = case.clone();
    let r = guard(|| build(case));
    let o = e.as_object_mut().unwrap();
    let Some((m, surf, closed, euler)) = r else {
        for k in ["faces", "cls", "fdeg", "fsign", "fnok", "vnlen", "vsurf"] {
            o.insert(k.into(), json!([]));
        }
        o.insert("nv".into(), json!(0));
        o.insert("closed".into(), json!(0));
        o.insert("euler".into(), json!(0));
        o.insert("panic".into(), json!(1));
        return e;
    };
    let pos: Vec<V3> = m.verts.iter().map(|v| [v.pos.x() as f64, v.pos.y() as f64, v.pos.z() as f64]).collect();
    let nrm: Vec<V3> = m.verts.iter().map(|v| [v.attrib.x() as f64, v.attrib.y() as f64, v.attrib.z() as f64]).collect();
    let size = pos.iter().map(|p| len(*p)).fold(1e-9, f64::max);
    // position classes: union-find over pairs closer than 1e-4 * size
    let n = pos.len();
    let mut parent: Vec<usize> = (0..n).collect();
    fn find(p: &mut Vec<usize>, i: usize) -> usize {
        let mut r = i;
        while p[r] != r {
            r = p[r];
        }
        p[i] = r;
        r
    }
    for i in 0..n {
        for j in 0..i {
            if len(sub(pos[i], pos[j])) < 1e-4 * size {
                let (a, b) = (find(&mut parent, i), find(&mut parent, j));
                parent[a] = b;
            }
        }
    }
    let cls: Vec<usize> = (0..n).map(|i| find(&mut parent, i)).collect();
    let ok = |i: usize| i < n;
    let mut fdeg = vec![];
    let mut fsign = vec![];
    let mut fnok = vec![];
    for t in &m.faces {
        let [a, b, c] = t.0;
        if !(ok(a) && ok(b) && ok(c)) {
            fdeg.push(1);
            fsign.push(0);
            fnok.push(0);
            continue;
        }
        let fnv = cross(sub(pos[b], pos[a]), sub(pos[c], pos[a]));
        // zero area relative to the face's own edges (a thin sliver of a many-sided cap is not degenerate)
        let (la, lb, lc) = (len(sub(pos[b], pos[a])), len(sub(pos[c], pos[a])), len(sub(pos[c], pos[b])));
        // ... and so is a face two of whose corners are one position (same class: the seam, a pole)
        let deg = len(fnv) <= 1e-4 * (la * lb).max(la * lc).max(lb * lc) || cls[a] == cls[b] || cls[a] == cls[c] || cls[b] == cls[c];
        let cen = [(pos[a][0] + pos[b][0] + pos[c][0]) / 3.0, (pos[a][1] + pos[b][1] + pos[c][1]) / 3.0, (pos[a][2] + pos[b][2] + pos[c][2]) / 3.0];
        // outward reference: away from the centre (torus: from the nearest point of the major circle)
        let outward = match surf {
            // torus: the sum over the corners of the direction from the centre of the tube's
            // circular section through that corner (exact at the vertices, robust for few sectors)
            Surf::Torus(rr, _) | Surf::Ring(rr) => {
                let mut acc = [0.0; 3];
                for &v in &[a, b, c] {
                    let p = pos[v];
                    let d = (p[0] * p[0] + p[2] * p[2]).sqrt().max(1e-12);
                    let o = sub(p, [p[0] / d * rr, 0.0, p[2] / d * rr]);
                    acc = [acc[0] + o[0], acc[1] + o[1], acc[2] + o[2]];
                }
                acc
            }
            // convex solids: away from the solid's centre
            Surf::Box(lo, hi) => sub(cen, [(lo[0] + hi[0]) / 2.0, (lo[1] + hi[1]) / 2.0, (lo[2] + hi[2]) / 2.0]),
            _ => cen,
        };
        fdeg.push(deg as u8);
        fsign.push(if deg { 0 } else if dot(fnv, outward) > 0.0 { 1 } else { -1 });
        fnok.push(if deg { 1 } else { [a, b, c].iter().all(|&v| dot(nrm[v], fnv) >= -1e-6 * len(fnv)) as u8 });
    }
    let vnlen: Vec<u8> = nrm.iter().map(|v| ((len(*v) - 1.0).abs() <= 1e-3) as u8).collect();
    let tol = 1e-3 * size;
    let vsurf: Vec<u8> = pos
        .iter()
        .map(|p| {
            let rho = (p[0] * p[0] + p[2] * p[2]).sqrt();
            (match surf {
                Surf::Sphere(r) => (len(*p) - r).abs() <= tol,
                Surf::Torus(rr, r) => (((rho - rr).powi(2) + p[1] * p[1]).sqrt() - r).abs() <= tol,
                Surf::Cone(r0, r1) => {
                    // on the side surface, or on a cap disc
                    let side = (rho - (r0 + (r1 - r0) * (p[1] + 1.0) / 2.0)).abs() <= tol && p[1].abs() <= 1.0 + tol;
                    side || ((p[1].abs() - 1.0).abs() <= tol && rho <= r0.max(r1) + tol)
                }
                Surf::Capsule(r) => {
                    let d = if p[1] > 1.0 { len(sub(*p, [0.0, 1.0, 0.0])) } else if p[1] < -1.0 { len(sub(*p, [0.0, -1.0, 0.0])) } else { rho };
                    (d - r).abs() <= tol
                }
                Surf::Box(a, b) => (0..3).all(|i| (p[i] - a[i]).abs() <= tol || (p[i] - b[i]).abs() <= tol),
                Surf::Platonic => (len(*p) - size).abs() <= tol,
                Surf::None | Surf::Ring(_) => true,
            }) as u8
        })
        .collect();
    let faces: Vec<Value> = m.faces.iter().map(|t| json!(t.0.map(|i| i.min(1 << 30)))).collect();
    o.insert("nv".into(), json!(n));
    o.insert("faces".into(), json!(faces));
    o.insert("cls".into(), json!(cls));
    o.insert("fdeg".into(), json!(fdeg));
    o.insert("fsign".into(), json!(fsign));
    o.insert("fnok".into(), json!(fnok));
    o.insert("vnlen".into(), json!(vnlen));
    o.insert("vsurf".into(), json!(vsurf));
    o.insert("closed".into(), json!(closed as u8));
    o.insert("euler".into(), json!(euler));
    o.insert("panic".into(), json!(0));
    e
}

pub fn gen(args: &Args, out: &mut dyn Write) {
    if args.rest.first().map(|s| s.as_str()) == Some("big") {
        // segment counts around and beyond 2^16 (three sectors; unit radius)
        let counts: &[u32] = if args.tier == "thorough" { &[65534, 65535, 65536, 65537, 70000, 131072] } else { &[65535, 70000] };
        let mut k = 0;
        for &n in counts {
            for solid in ["cylinder", "sphere"] {
                writeln!(out, "{}", json!({"k": format!("mb{k}"), "big": 1, "solid": solid, "secs": 3, "segs": n, "capped": 0, "r": 1.0})).unwrap();
                k += 1;
            }
        }
        return;
    }
    let thorough = args.tier == "thorough";
    let (maxs, maxg) = if thorough { (16, 10) } else { (8, 5) };
    let mut k = 0;
    let mut emit = |out: &mut dyn Write, mut v: Value| {
        v.as_object_mut().unwrap().insert("k".into(), json!(format!("m{}", k)));
        k += 1;
        writeln!(out, "{v}").unwrap();
    };
    for s in ["tetra", "octa", "dodeca", "icosa"] {
        emit(out, json!({"solid": s}));
    }
    for (a, b) in [([-1.0, -1.0, -1.0], [1.0, 1.0, 1.0]), ([0.0, 0.0, 0.0], [3.0, 0.5, 1.0]), ([-2.0, 1.0, -0.5], [-1.5, 4.0, 0.5])] {
        emit(out, json!({"solid": "box", "x0": a[0], "y0": a[1], "z0": a[2], "x1": b[0], "y1": b[1], "z1": b[2]}));
    }
    let radii = [0.5, 1.0, 3.0];
    for secs in 3..=maxs {
        for segs in 1..=maxg {
            let r = radii[(secs + segs) % 3];
            if segs >= 2 {
                emit(out, json!({"solid": "sphere", "secs": secs, "segs": segs, "r": r}));
            }
            if segs >= 3 {
                emit(out, json!({"solid": "torus", "secs": secs, "segs": segs, "R": 2.0 * r + 1.0, "r": r}));
            }
            // the same solids at very small and very large scales (every length scales with r)
            if (secs + 2 * segs) % 5 == 0 {
                for r in [0.00048828125, 512.0, 0.0000152587890625, 0.00000095367431640625] {
                    if segs >= 2 {
                        emit(out, json!({"solid": "sphere", "secs": secs, "segs": segs, "r": r}));
                    }
                    if segs >= 3 {
                        emit(out, json!({"solid": "torus", "secs": secs, "segs": segs, "R": 3.0 * r, "r": r}));
                    }
                }
            }
            for capped in [0, 1] {
                emit(out, json!({"solid": "cylinder", "secs": secs, "segs": segs, "capped": capped, "r": r}));
                emit(out, json!({"solid": "cone", "secs": secs, "segs": segs, "capped": capped, "r": r, "r2": 0.0}));
                emit(out, json!({"solid": "cone", "secs": secs, "segs": segs, "capped": capped, "r": r, "r2": r / 2.0}));
                emit(out, json!({"solid": "cone", "secs": secs, "segs": segs, "capped": capped, "r": 0.0, "r2": r}));
            }
            for caps in 1..=3.min(segs + 1) {
                emit(out, json!({"solid": "capsule", "secs": secs, "segs": segs, "caps": caps, "r": r}));
            }
            if segs <= 2 {
                let nl = [1.0, 2.5, 0.25][secs as usize % 3];
                emit(out, json!({"solid": "crease", "kind": segs - 1, "secs": secs, "r": r, "nl": nl, "lit": secs % 2}));
                emit(out, json!({"solid": "crease", "kind": segs + 1, "secs": secs, "r": r, "nl": nl, "lit": 1}));
            }
            // partial azimuth ranges of the lathe (open surfaces)
            for (a0, a1) in [(0.0, 0.25), (0.0, 0.5), (0.1, 0.9), (0.25, 1.25)] {
                let nl = [1.0, 2.5, 0.25][(secs + segs) as usize % 3];
                emit(out, json!({"solid": "lathe", "secs": secs, "segs": segs, "r": r, "az0": a0, "az1": a1, "nl": nl, "lit": (secs % 2)}));
            }
        }
    }
    // many sectors: whatever a builder does "every so many sectors" has happened at least once
    let many: &[u32] = if thorough { &[255, 256, 257, 300, 512, 1000] } else { &[256, 257] };
    for &secs in many {
        emit(out, json!({"solid": "sphere", "secs": secs, "segs": 2, "r": 1.0}));
        emit(out, json!({"solid": "torus", "secs": secs, "segs": 3, "R": 3.0, "r": 1.0}));
        emit(out, json!({"solid": "cylinder", "secs": secs, "segs": 1, "capped": 1, "r": 0.5}));
        emit(out, json!({"solid": "cone", "secs": secs, "segs": 1, "capped": 1, "r": 1.0, "r2": 0.0}));
        emit(out, json!({"solid": "capsule", "secs": secs, "segs": 1, "caps": 1, "r": 1.0}));
    }
    let _ = args.seed;
}
