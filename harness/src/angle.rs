//! C18 driver: unit conversions, wrap, arithmetic, polar / spherical
//! coordinates and trig pairs, recorded as scaled integers.

use crate::util::*;
use crate::Args;
use re::math::angle::{degs, polar, rads, spherical, turns, Angle};
use re::math::vec::{vec2, vec3};
use serde_json::{json, Value};
use std::io::Write;

fn sc(x: f32, k: f64) -> i64 {
    let v = (x as f64 * k).round();
    if v.is_finite() { v.clamp(-2e9, 2e9) as i64 } else { 2_000_000_000 }
}
fn fb(v: &Value, k: &str) -> f32 {
    f32::from_bits(u32::from_str_radix(v[k].as_str().unwrap(), 16).unwrap())
}

pub fn exec(case: &Value) -> Value {
    let mut e = case.clone();
    let op = gs(case, "op").to_string();
    let r: Option<Vec<(&str, Value)>> = guard(|| match op.as_str() {
        "conv" => {
            let x = fb(case, "xb");
            let a = match gs(case, "u") { "deg" => degs(x), "rad" => rads(x), _ => turns(x) };
            vec![("x", json!(sc(x, 256.0))), ("vd", json!(sc(a.to_degs(), 256.0))), ("vr", json!(sc(a.to_rads(), 256.0))),
                 ("vt", json!(sc(a.to_turns(), 65536.0)))]
        }
        "polbig" => {
            // an azimuth of many revolutions: to_cart is r (cos az, sin az) of THAT angle - compared with
            // sin_cos of the same Angle value (f32 cannot name such an angle exactly, so no absolute expectation)
            let a = degs(fb(case, "ab"));
            let r = gi(case, "R") as f32;
            let v = polar(r, a).to_cart();
            let (sn, cs) = a.sin_cos();
            let w = spherical(r, a, degs(0.0)).to_cart();
            vec![("x", json!(sc(v.x(), 65536.0))), ("y", json!(sc(v.y(), 65536.0))), ("s", json!(sc(sn, 65536.0))), ("c", json!(sc(cs, 65536.0))),
                 ("sx", json!(sc(w.x(), 65536.0))), ("sz", json!(sc(w.z(), 65536.0)))]
        }
        "convx" => {
            // extreme but finite angles, given as 2^k in the unit u: the other units are finite whenever
            // they are representable, and have the right binade
            let x = 2f32.powi(gi(case, "kx") as i32) * if gi(case, "neg") == 1 { -1.0 } else { 1.0 };
            let a = match gs(case, "u") { "deg" => degs(x), "rad" => rads(x), _ => turns(x) };
            let ex = |v: f32| -> i64 { if v == 0.0 { -999 } else if !v.is_finite() { 999 } else { (v.abs() as f64).log2().floor() as i64 } };
            vec![("ed", json!(ex(a.to_degs()))), ("er", json!(ex(a.to_rads()))), ("et", json!(ex(a.to_turns())))]
        }
        "wrap" => {
            let (a, lo, hi) = (fb(case, "ab"), fb(case, "lob"), fb(case, "hib"));
            let r = degs(a).wrap(degs(lo), degs(hi)).to_degs();
            let (ar, lr, hr) = (degs(a).to_rads(), degs(lo).to_rads(), degs(hi).to_rads());
            let (d, p) = (ar - lr, hr - lr);
            let exact = (d as f64 == ar as f64 - lr as f64 && p as f64 == hr as f64 - lr as f64 && p > 0.0 && (d as f64 % p as f64) == 0.0) as u8;
            let athi = (degs(a).wrap(degs(lo), degs(hi)).to_rads() == hr) as u8;
            // (exact comparisons of the observed f32 values: the scaled integers cannot show one ulp)
            vec![("a", json!(sc(a, 1024.0))), ("lo", json!(sc(lo, 1024.0))), ("hi", json!(sc(hi, 1024.0))), ("r", json!(sc(r, 1024.0))),
                 ("below", json!((r < lo) as u8)), ("above", json!((r > hi) as u8)),
                 // exact: the angle is a whole number of interval lengths away from the lower end, exactly (no rounding
                 // anywhere: judged in f64 on the f32 values); athi: the result is the upper end
                 // (in the radians the library computes in: both differences exact in f32, their quotient whole)
                 ("exact", json!(exact)), ("athi", json!(athi))]
        }
        "arith" => {
            let (a, b, c) = (fb(case, "ab"), fb(case, "bb"), fb(case, "cb"));
            let k = gi(case, "kf") as f32;
            let (aa, bb, cc) = (degs(a), degs(b), degs(c));
            let (lo, hi) = (aa.min(bb), aa.max(bb));
            let d = |x: Angle| json!(sc(x.to_degs(), 64.0));
            vec![("a", json!(sc(a, 64.0))), ("b", json!(sc(b, 64.0))), ("c", json!(sc(c, 64.0))),
                 ("add", d(aa + bb)), ("sub", d(aa - bb)), ("neg", d(-aa)), ("mul", d(aa * k)), ("div", d(aa / k)),
                 ("min", d(lo)), ("max", d(hi)), ("clamp", d(cc.clamp(lo, hi)))]
        }
        "arithx" => {
            // scaling by tiny and huge powers of two: a * k and a / k act on the magnitude (exactly, as
            // long as the result is a normal number), whatever the size of k
            let a = rads(fb(case, "ab"));
            let j = gi(case, "j") as i32;
            let k = 2f32.powi(j) * if gi(case, "neg") == 1 { -1.0 } else { 1.0 };
            vec![("ar", f32_rec(a.to_rads())), ("mulr", f32_rec((a * k).to_rads())), ("divr", f32_rec((a / k).to_rads()))]
        }
        "pyth" => {
            // the angle whose cosine and sine are cx/k, sy/k
            let (cx, sy) = (gi(case, "cx") as f32, gi(case, "sy") as f32);
            let az = rads(sy.atan2(cx));
            let v = polar(gi(case, "R") as f32, az).to_cart();
            vec![("x", json!(sc(v.x(), 1024.0))), ("y", json!(sc(v.y(), 1024.0)))]
        }
        "pyth3" => {
            let az = rads((gi(case, "sz") as f32).atan2(gi(case, "cx") as f32));
            let alt = rads((gi(case, "sy") as f32).atan2(gi(case, "ch") as f32));
            let v = spherical(gi(case, "R") as f32, az, alt).to_cart();
            vec![("x", json!(sc(v.x(), 1024.0))), ("y", json!(sc(v.y(), 1024.0))), ("z", json!(sc(v.z(), 1024.0)))]
        }
        "vec2" | "vec3" => {
            let c: Vec<f32> = case["c"].as_array().unwrap().iter().map(|b| f32::from_bits(u32::from_str_radix(b.as_str().unwrap(), 16).unwrap())).collect();
            // scale by the power of two that brings the largest component to about 2^13
            let big = c.iter().fold(0f32, |a, x| a.max(x.abs()));
            let k = 2f64.powi(13 - (big as f64).log2().floor() as i32);
            if op == "vec2" {
                let p = vec2::<f32, ()>(c[0], c[1]).to_polar();
                let b = p.to_cart();
                let kf = k * 1024.0;
                vec![("v", json!([sc(c[0], k), sc(c[1], k)])), ("r", json!(sc(p.r(), k))), ("az", json!(sc(p.az().to_degs(), 64.0))),
                     ("vf", json!([sc(c[0], kf), sc(c[1], kf)])), ("back", json!([sc(b.x(), kf), sc(b.y(), kf)]))]
            } else {
                let p = vec3::<f32, ()>(c[0], c[1], c[2]).to_spherical();
                let b = p.to_cart();
                let kf = k * 1024.0;
                vec![("v", json!([sc(c[0], k), sc(c[1], k), sc(c[2], k)])), ("r", json!(sc(p.r(), k))),
                     ("az", json!(sc(p.az().to_degs(), 64.0))), ("alt", json!(sc(p.alt().to_degs(), 64.0))),
                     ("vf", json!([sc(c[0], kf), sc(c[1], kf), sc(c[2], kf)])), ("back", json!([sc(b.x(), kf), sc(b.y(), kf), sc(b.z(), kf)]))]
            }
        }
        _ => {
            let a = degs(fb(case, "ab"));
            let (s2, c2) = a.sin_cos();
            vec![("s", json!(sc(a.sin(), 16384.0))), ("c", json!(sc(a.cos(), 16384.0))), ("s2", json!(sc(s2, 16384.0))), ("c2", json!(sc(c2, 16384.0)))]
        }
    });
    let o = e.as_object_mut().unwrap();
    match r {
        Some(fields) => {
            for (k, v) in fields {
                o.insert(k.into(), v);
            }
            o.insert("panic".into(), json!(0));
        }
        None => {
            for k in ["x", "vd", "vr", "vt", "a", "lo", "hi", "r", "b", "c", "add", "sub", "neg", "mul", "div", "min", "max", "clamp",
                      "y", "z", "az", "alt", "s", "s2", "c2"] {
                o.entry(k).or_insert(json!(0));
            }
            o.entry("v").or_insert(json!([0, 0, 0]));
            o.entry("back").or_insert(json!([0, 0, 0]));
            o.entry("vf").or_insert(json!([0, 0, 0]));
            o.insert("panic".into(), json!(1));
        }
    }
    e
}

pub fn gen(args: &Args, out: &mut dyn Write) {
    let thorough = args.tier == "thorough";
    let n = if thorough { 400_000 } else { 4_000 };
    let mut rng = Rng::new(args.seed ^ 0xA461E);
    let mut r3 = Rng::new(args.seed ^ 0x7816);
    let mut k = 0;
    let hx = |x: f32| format!("{:08x}", x.to_bits());
    let mut emit = |out: &mut dyn Write, mut v: Value| {
        v.as_object_mut().unwrap().insert("k".into(), json!(format!("a{}-{}", args.seed, k)));
        k += 1;
        writeln!(out, "{v}").unwrap();
    };
    for i in 0..n {
        // conversions: many revolutions, exact fractions of a turn
        let (u, x) = match i % 3 {
            0 => ("deg", if i % 2 == 0 { (rng.range(-48, 48) * 15) as f32 } else { ((rng.unit_f64() - 0.5) * 1400.0) as f32 }),
            1 => ("rad", ((rng.unit_f64() - 0.5) * 24.0) as f32),
            _ => ("turn", if i % 2 == 0 { rng.range(-16, 16) as f32 / 8.0 } else { ((rng.unit_f64() - 0.5) * 4.0) as f32 }),
        };
        emit(out, json!({"op": "conv", "u": u, "xb": hx(x)}));
        // wrap: all finite angles over many revolutions, a lattice of intervals
        let ivs = [(-180.0f32, 180.0f32), (0.0, 360.0), (-90.0, 90.0), (10.0, 20.0), (-720.0, -700.0), (350.0, 370.0), (0.0, 1.0), (-1.5, 2.25)];
        let (lo, hi) = ivs[i % ivs.len()];
        let a = match i % 4 {
            0 => (rng.range(-7200, 7200)) as f32,
            1 => lo + (hi - lo) * rng.range(-30, 30) as f32, // exact multiples of the period
            2 => ((rng.unit_f64() - 0.5) * 14400.0) as f32,
            _ => lo - rng.unit_f64() as f32 * (hi - lo) * 2.0, // one to two periods below the interval
        };
        emit(out, json!({"op": "wrap", "ab": hx(a), "lob": hx(lo), "hib": hx(hi)}));
        if i % 4 == 0 {
            let big = ((rng.unit_f64() - 0.5) * 2.0 * *rng.pick(&[4.0e3f64, 4.0e5, 3.0e6])) as f32;
            emit(out, json!({"op": "polbig", "ab": hx(big), "R": rng.range(1, 9)}));
        }
        if i % 16 == 1 {
            let u = *rng.pick(&["deg", "rad", "turn"]);
            emit(out, json!({"op": "convx", "u": u, "kx": rng.range(-126, 126), "neg": rng.below(2)}));
        }
        if i % 8 == 3 {
            // (the angle itself of ordinary size or tiny; products and quotients stay within 2^+-100)
            let ea = *rng.pick(&[0i64, 0, -20, -60]);
            let j = rng.range(-(100 - ea.abs()), 100 - ea.abs());
            let a = ((rng.unit_f64() + 0.5) * 2f64.powi(ea as i32)) as f32 * if rng.chance(1, 2) { -1.0 } else { 1.0 };
            emit(out, json!({"op": "arithx", "ab": hx(a), "j": j, "neg": rng.below(2)}));
        }
        let f = |rng: &mut Rng| ((rng.unit_f64() - 0.5) * 2000.0) as f32;
        emit(out, json!({"op": "arith", "ab": hx(f(&mut rng)), "bb": hx(f(&mut rng)), "cb": hx(f(&mut rng)),
                         "kf": *rng.pick(&[2i64, 3, -2, 4, -5, 7])}));
        emit(out, json!({"op": "trig", "ab": hx(((rng.unit_f64() - 0.5) * 4000.0) as f32)}));
        if i % 4 == 2 {
            // angles of 2^12 .. 2^100 degrees (up to and far beyond the size at which every f32 is a whole number of
            // quarter turns), and exact multiples of 90 degrees of that size: still a point on the unit circle
            let k = r3.range(12, 100) as i32;
            let a = if i % 8 == 2 { 90.0 * r3.range(1 << 16, 1 << 24) as f64 } else { (1.0 + r3.unit_f64()) * 2f64.powi(k) };
            emit(out, json!({"op": "trig", "ab": hx(a as f32 * if r3.chance(1, 2) { -1.0 } else { 1.0 })}));
        }
        // vectors over several magnitudes, axis-aligned and near-axis ones
        // (every 4th far below 1e-6 - "near-zero" yet non-zero -, every 4th around 1e3..1e6)
        // (every 8th: lengths of 1e-20..1e-19, whose SQUARES are subnormal numbers - still precise to 1e-4)
        let deep = i % 8 == 5;
        let mag = 2f64.powi(if deep { rng.range(-66, -63) } else { match i % 4 { 1 => rng.range(-30, -18), 3 => rng.range(10, 20), _ => rng.range(-6, 6) } } as i32);
        let mut c: Vec<f32> = (0..3).map(|_| ((rng.unit_f64() - 0.5) * 2.0 * mag) as f32).collect();
        if deep {
            c[0] = (mag * (0.5 + rng.unit_f64() * 0.5)) as f32 * if rng.chance(1, 2) { -1.0 } else { 1.0 };
        }
        match if deep { 6 } else { i % 7 } {
            0 => c[1] = 0.0,
            1 => { c[0] = 0.0; c[2] = 0.0 }
            2 => { c[0] = (mag * 2e-4) as f32; c[2] = 0.0; c[1] = mag as f32 } // nearly along +y
            3 => { c[0] = -c[0].abs(); c[1] = (mag * 1e-5) as f32 }           // near the +-180 degree seam
            _ => {}
        }
        // every 16th: one horizontal component smaller than the others by a factor beyond 2^64 (yet non-zero)
        if i % 16 == 9 {
            let tiny = (mag * 2f64.powi(-(66 + rng.range(0, 20) as i32))) as f32;
            let j = if rng.chance(1, 2) { 0 } else { 2 };
            c[j] = if tiny != 0.0 { tiny } else { f32::from_bits(1) };
            c[1] = (mag * (0.3 + 0.7 * rng.unit_f64())) as f32;
            c[2 - j] = (mag * (0.3 + 0.7 * rng.unit_f64())) as f32 * if rng.chance(1, 2) { -1.0 } else { 1.0 };
        }
        if c[0] != 0.0 || c[1] != 0.0 {
            emit(out, json!({"op": "vec2", "c": [hx(c[0]), hx(c[1])]}));
        }
        emit(out, json!({"op": "vec3", "c": c.iter().map(|x| hx(*x)).collect::<Vec<_>>()}));
    }
    // Pythagorean directions in all quadrants / octants and on the axes
    let dirs: [(i64, i64, i64); 8] = [(3, 4, 5), (4, 3, 5), (5, 12, 13), (12, 5, 13), (8, 15, 17), (1, 0, 1), (0, 1, 1), (7, 24, 25)];
    for (cx, sy, kk) in dirs {
        for (sx, ssy) in [(1, 1), (-1, 1), (1, -1), (-1, -1)] {
            for r in [1i64, 5, 10] {
                emit(out, json!({"op": "pyth", "R": r, "cx": sx * cx, "sy": ssy * sy, "kd": kk}));
                for (ch, s2, m) in dirs {
                    for sg in [1i64, -1] {
                        if ch > 0 {
                            emit(out, json!({"op": "pyth3", "R": r, "cx": sx * cx, "sz": ssy * sy, "kd": kk, "ch": ch, "sy": sg * s2, "m": m}));
                            if r == 5 {
                                // altitudes beyond the poles (negative cosine): the defining formula still applies
                                emit(out, json!({"op": "pyth3", "R": r, "cx": sx * cx, "sz": ssy * sy, "kd": kk, "ch": -ch, "sy": sg * s2, "m": m}));
                            }
                        }
                    }
                }
            }
        }
    }
}
