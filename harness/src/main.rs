//! rfverif — conformance harness binding the TLA+ specifications in
//! /verif/spec to the real retrofire code.
//!
//! Usage: rfverif <subsystem> gen  --seed S --tier quick|thorough [--n N]
//!        rfverif <subsystem> exec <cases.ndjson>
//!
//! `gen` writes one JSON case per line (inputs only) to stdout; `exec` runs
//! every case of a file against the real code and writes one JSON record
//! per line (inputs + observed results) to stdout.  The harness only
//! records; whether an observation is allowed is decided by TLC.

mod util;

mod buf2;
mod pnm;
mod obj;
mod tex;
mod target;
mod raster;
mod clip;
mod pipe;
mod rand;
mod color;
mod xform;
mod angle;
mod spline;
mod mesh;
mod proj;
mod vary;
mod rect;
mod stats;
mod meshb;
mod bufclone;
mod vecalg;

use std::io::{BufRead, BufWriter, Write};

pub struct Args {
    pub seed: u64,
    pub tier: String,
    pub n: Option<usize>,
    pub rest: Vec<String>,
}

fn parse_args(a: &[String]) -> Args {
    let mut r = Args { seed: 1, tier: "quick".into(), n: None, rest: vec![] };
    let mut i = 0;
    while i < a.len() {
        match a[i].as_str() {
            "--seed" => {
                r.seed = a[i + 1].parse().expect("seed");
                i += 1;
            }
            "--tier" => {
                r.tier = a[i + 1].clone();
                i += 1;
            }
            "--n" => {
                r.n = Some(a[i + 1].parse().expect("n"));
                i += 1;
            }
            s => r.rest.push(s.to_string()),
        }
        i += 1;
    }
    r
}

static PROGRESS: std::sync::atomic::AtomicU64 = std::sync::atomic::AtomicU64::new(0);
static CURRENT: std::sync::Mutex<String> = std::sync::Mutex::new(String::new());

type GenFn = fn(&Args, &mut dyn Write);
type ExecFn = fn(&serde_json::Value) -> serde_json::Value;

fn subsystem(name: &str) -> Option<(GenFn, ExecFn)> {
    Some(match name {
        "buf2" => (buf2::gen, buf2::exec),
        "pnm" => (pnm::gen, pnm::exec),
        "obj" => (obj::gen, obj::exec),
        "tex" => (tex::gen, tex::exec),
        "target" => (target::gen, target::exec),
        "raster" => (raster::gen, raster::exec),
        "clip" => (clip::gen, clip::exec),
        "pipe" => (pipe::gen, pipe::exec),
        "rand" => (rand::gen, rand::exec),
        "color" => (color::gen, color::exec),
        "xform" => (xform::gen, xform::exec),
        "angle" => (angle::gen, angle::exec),
        "spline" => (spline::gen, spline::exec),
        "mesh" => (mesh::gen, mesh::exec),
        "proj" => (proj::gen, proj::exec),
        "vary" => (vary::gen, vary::exec),
        "rect" => (rect::gen, rect::exec),
        "stats" => (stats::gen, stats::exec),
        "meshb" => (meshb::gen, meshb::exec),
        "bufclone" => (bufclone::gen, bufclone::exec),
        "vecalg" => (vecalg::gen, vecalg::exec),
        _ => return None,
    })
}

fn main() {
    // Panics inside the code under test are data: silence the default hook.
    std::panic::set_hook(Box::new(|_| {}));
    let argv: Vec<String> = std::env::args().collect();
    if argv.len() < 3 {
        eprintln!("usage: rfverif <subsystem> gen|exec ...");
        std::process::exit(2);
    }
    let Some((gen, exec)) = subsystem(&argv[1]) else {
        eprintln!("unknown subsystem {}", argv[1]);
        std::process::exit(2);
    };
    let args = parse_args(&argv[3..]);
    let out = std::io::stdout();
    let mut out = BufWriter::with_capacity(1 << 20, out.lock());
    match argv[2].as_str() {
        "gen" => gen(&args, &mut out),
        "exec" => {
            let path = args.rest.first().expect("cases file");
            let f = std::fs::File::open(path).expect("open cases");
            // Non-termination of the code under test is data too: a watchdog reports the
            // case that has been running for RFVERIF_HANG_SECS (default 300) and exits 3.
            let hang_secs: u64 = std::env::var("RFVERIF_HANG_SECS").ok().and_then(|s| s.parse().ok()).unwrap_or(300);
            std::thread::spawn(move || {
                let (mut seen, mut since) = (u64::MAX, std::time::Instant::now());
                loop {
                    std::thread::sleep(std::time::Duration::from_millis(500));
                    let now = PROGRESS.load(std::sync::atomic::Ordering::SeqCst);
                    if now != seen {
                        (seen, since) = (now, std::time::Instant::now());
                    } else if since.elapsed().as_secs() >= hang_secs {
                        eprintln!("HANG key={}", CURRENT.lock().map(|k| k.clone()).unwrap_or_default());
                        std::process::exit(3);
                    }
                }
            });
            for line in std::io::BufReader::new(f).lines() {
                let line = line.expect("read");
                if line.trim().is_empty() {
                    continue;
                }
                let case: serde_json::Value =
                    serde_json::from_str(&line).expect("case json");
                if let Ok(mut k) = CURRENT.lock() {
                    *k = case.get("k").map(|v| v.as_str().map(|s| s.to_string()).unwrap_or(v.to_string())).unwrap_or_default();
                }
                PROGRESS.fetch_add(1, std::sync::atomic::Ordering::SeqCst);
                // a case yields one record, or an array of records
                // a panic that escapes a recorder's own guards is still an observation of the code under test: the
                // case comes back marked, TLC cannot evaluate its relation on it, and the record counts as rejected
                let res = std::panic::catch_unwind(std::panic::AssertUnwindSafe(|| exec(&case))).unwrap_or_else(|_| {
                    let mut c = case.clone();
                    if let Some(o) = c.as_object_mut() {
                        o.insert("recorder_panic".into(), serde_json::json!(1));
                    }
                    c
                });
                match res {
                    serde_json::Value::Array(recs) => {
                        for rec in recs {
                            serde_json::to_writer(&mut out, &rec).unwrap();
                            out.write_all(b"\n").unwrap();
                        }
                    }
                    rec => {
                        serde_json::to_writer(&mut out, &rec).unwrap();
                        out.write_all(b"\n").unwrap();
                    }
                }
            }
        }
        m => {
            eprintln!("unknown mode {m}");
            std::process::exit(2);
        }
    }
    out.flush().unwrap();
}
