//! C16 driver: exhaustive 8-bit sweeps (aggregated per row), float round
//! trips on grids and random triples, packing, float->u8, saturating add.

use crate::util::*;
use crate::Args;
use re::math::color::{hsl, rgb, rgba, Color3, Color3f, Color4f, Hsl};
use re::math::space::Affine;
use re::math::vec::Vector;
use serde_json::{json, Value};
use std::io::Write;

const ONE: f64 = 1048576.0;

fn sc(x: f32) -> i64 {
    let v = (x as f64 * ONE).round();
    if v.is_nan() { 1_070_000_000 } else { v.clamp(-1.07e9, 1.07e9) as i64 }
}
fn halves(w: u32) -> [u32; 2] {
    [w >> 16, w & 0xFFFF]
}

pub fn exec(case: &Value) -> Value {
    let mut e = case.clone();
    let op = gs(case, "op").to_string();
    let o = e.as_object_mut().unwrap();
    match op.as_str() {
        "row8" => {
            let (r, g) = (gi(case, "r") as u8, gi(case, "g") as u8);
            let (mut maxerr, mut panics, mut graybad) = (0i32, 0, 0);
            for b in 0..=255u8 {
                match guard(|| {
                    let h = rgb(r, g, b).to_hsl();
                    (h, h.to_rgb())
                }) {
                    Some((h, back)) => {
                        for (x, y) in [r, g, b].iter().zip(back.0.iter()) {
                            maxerr = maxerr.max((*x as i32 - *y as i32).abs());
                        }
                        if r == g && g == b && (h.s() != 0 || h.l() != r) {
                            graybad += 1;
                        }
                    }
                    None => panics += 1,
                }
            }
            o.insert("maxerr".into(), json!(maxerr));
            o.insert("panics".into(), json!(panics));
            o.insert("graybad".into(), json!(graybad));
        }
        "hslrow" => {
            let (h, s) = (gi(case, "h") as u8, gi(case, "s") as u8);
            let mut panics = 0;
            for l in 0..=255u8 {
                if guard(|| hsl(h, s, l).to_rgb()).is_none() {
                    panics += 1;
                }
            }
            o.insert("panics".into(), json!(panics));
        }
        "rtf" => {
            let c = &case["c"];
            let g = |i: usize| f32::from_bits(u32::from_str_radix(c[i].as_str().unwrap(), 16).unwrap());
            let col: Color3f = rgb(g(0), g(1), g(2));
            match guard(|| {
                let h = col.to_hsl();
                (h, h.to_rgb())
            }) {
                Some((h, back)) => {
                    o.insert("panic".into(), json!(0));
                    o.insert("hsl".into(), json!(h.0.map(sc)));
                    o.insert("back".into(), json!(back.0.map(sc)));
                }
                None => {
                    o.insert("panic".into(), json!(1));
                    o.insert("hsl".into(), json!([0, 0, 0]));
                    o.insert("back".into(), json!([0, 0, 0]));
                }
            }
            o.insert("rgb".into(), json!(col.0.map(sc)));
            o.insert("gray".into(), json!((col.r() == col.g() && col.g() == col.b()) as u8));
        }
        "hslf" | "hue01" => {
            let c = &case["c"];
            let g = |i: usize| f32::from_bits(u32::from_str_radix(c[i].as_str().unwrap(), 16).unwrap());
            if op == "hslf" {
                let col: Color3f<Hsl> = hsl(g(0), g(1), g(2));
                match guard(|| col.to_rgb()) {
                    Some(r) => {
                        o.insert("panic".into(), json!(0));
                        o.insert("rgb".into(), json!(r.0.map(sc)));
                    }
                    None => {
                        o.insert("panic".into(), json!(1));
                        o.insert("rgb".into(), json!([0, 0, 0]));
                    }
                }
                o.insert("hsl".into(), json!(col.0.map(sc)));
            } else {
                match guard(|| (hsl(0.0f32, g(1), g(2)).to_rgb(), hsl(1.0f32, g(1), g(2)).to_rgb())) {
                    Some((a, b)) => {
                        o.insert("panic".into(), json!(0));
                        o.insert("rgb0".into(), json!(a.0.map(sc)));
                        o.insert("rgb1".into(), json!(b.0.map(sc)));
                    }
                    None => {
                        o.insert("panic".into(), json!(1));
                        o.insert("rgb0".into(), json!([0, 0, 0]));
                        o.insert("rgb1".into(), json!([0, 0, 0]));
                    }
                }
            }
        }
        "pack" => {
            let (r, g, b, a) = (gi(case, "r") as u8, gi(case, "g") as u8, gi(case, "b") as u8, gi(case, "a") as u8);
            o.insert("rgb_u32".into(), json!(halves(rgb(r, g, b).to_rgb_u32())));
            o.insert("rgba_u32".into(), json!(halves(rgba(r, g, b, a).to_rgba_u32())));
            o.insert("argb_u32".into(), json!(halves(rgba(r, g, b, a).to_argb_u32())));
            o.insert("to_rgba".into(), json!(rgb(r, g, b).to_rgba().0));
            o.insert("to_rgb".into(), json!(rgba(r, g, b, a).to_rgb().0));
            // four-channel HSL: alpha rides along unchanged, the colour part goes the 3-channel way
            let r4 = guard(|| {
                let h4 = rgba(r, g, b, a).to_hsla();
                let h3 = rgb(r, g, b).to_hsl();
                let back = h4.to_rgba();
                let f4 = rgba(r as f32 / 255.0, g as f32 / 255.0, b as f32 / 255.0, a as f32 / 255.0);
                let fh = f4.to_hsla();
                let fb = fh.to_rgba();
                let fa_same = (fh.a().to_bits() == f4.a().to_bits() && fb.a().to_bits() == f4.a().to_bits()) as u8;
                let fdiff = [(fb.r() - f4.r()).abs(), (fb.g() - f4.g()).abs(), (fb.b() - f4.b()).abs()].iter().fold(0f32, |m, x| m.max(*x));
                (json!(h4.0), (h4.to_hsl().0 == h3.0) as u8, json!(back.0), fa_same, sc(fdiff))
            });
            let (h4, same3, back, fa, fd) = r4.unwrap_or((json!([0, 0, 0, 0]), 0, json!([0, 0, 0, 0]), 0, 1 << 30));
            o.insert("hsla".into(), h4);
            o.insert("hsla3".into(), json!(same3));
            o.insert("hsla_back".into(), back);
            o.insert("fa_same".into(), json!(fa));
            o.insert("fdiff".into(), json!(fd));
        }
        "tou8" => {
            let x = f32::from_bits(u32::from_str_radix(gs(case, "xb"), 16).unwrap());
            let c3: Color3 = rgb(x, 0.5, 0.25).to_color3();
            let c4 = Color4f::from([0.1, x, 0.2, x]).to_color4();
            // all routes must agree on the channel
            let res = if c3.r() == c4.g() && c4.g() == c4.a() { c3.r() as i64 } else { -1 };
            o.insert("cls".into(), json!(x.is_nan() as u8));
            o.insert("x".into(), json!(if x.is_nan() { 0 } else { sc(x) }));
            o.insert("res".into(), json!(res));
        }
        "satadd" => {
            let (c, d) = (gi(case, "c") as u8, gi(case, "d") as i32);
            let col: Color3 = rgb(c, 7, 250);
            let diff: Vector<[i32; 3], _> = [d, -d, d].into();
            match guard(|| col.add(&diff)) {
                Some(r) => {
                    // the other channels saturate the same way
                    let ok2 = r.g() as i64 == (7 - d as i64).clamp(0, 255) && r.b() as i64 == (250 + d as i64).clamp(0, 255);
                    o.insert("res".into(), json!(if ok2 { r.r() as i64 } else { -1 }));
                }
                None => {
                    o.insert("res".into(), json!(-2));
                }
            }
        }
        _ => panic!("unknown op"),
    }
    e
}

pub fn gen(args: &Args, out: &mut dyn Write) {
    let thorough = args.tier == "thorough";
    let mut rng = Rng::new(args.seed ^ 0xC010);
    let mut k = 0;
    let mut emit = |out: &mut dyn Write, mut v: Value| {
        v.as_object_mut().unwrap().insert("k".into(), json!(format!("x{}-{}", args.seed, k)));
        k += 1;
        writeln!(out, "{v}").unwrap();
    };
    // 8-bit: every (r, g) row over all b (thorough: all 65536 rows; quick: a 64x64 sub-lattice + borders)
    let vals: Vec<u32> = if thorough { (0..256).collect() } else { (0..256).filter(|v| v % 4 == 0 || *v >= 253 || *v == 1 || *v == 127).collect() };
    for &a in &vals {
        for &b in &vals {
            emit(out, json!({"op": "row8", "r": a, "g": b}));
            emit(out, json!({"op": "hslrow", "h": a, "s": b}));
        }
    }
    let hx = |x: f32| format!("{:08x}", x.to_bits());
    // float grids k/24 and k/60 (every sextant boundary) and random triples
    for n in [24u32, 60] {
        let step = if n == 60 && !thorough { 4 } else { 1 };
        for r in (0..=n).step_by(step) {
            for g in (0..=n).step_by(step) {
                for b in (0..=n).step_by(step) {
                    let c = [r, g, b].map(|v| hx(v as f32 / n as f32));
                    emit(out, json!({"op": "rtf", "c": c}));
                    if (r + g + b) % 3 == 0 {
                        emit(out, json!({"op": "hslf", "c": c}));
                    }
                    if r == 0 {
                        emit(out, json!({"op": "hue01", "c": c}));
                    }
                }
            }
        }
    }
    for i in 0..(if thorough { 200_000 } else { 20_000 }) {
        let mut c = [0f32; 3];
        for v in c.iter_mut() {
            *v = match rng.below(8) {
                0 => 0.0,
                1 => 1.0,
                2 => f32::from_bits(0x3f7fffff), // just below 1
                3 => f32::from_bits(rng.below(64) as u32), // tiny
                _ => rng.unit_f64() as f32,
            };
        }
        if i % 9 == 0 {
            c[1] = c[0];
            c[2] = c[0]; // grays
        }
        let cs = c.map(hx);
        emit(out, json!({"op": if i % 3 == 2 { "hslf" } else { "rtf" }, "c": cs}));
    }
    // packing: each byte lane through all 256 values, plus random words
    for lane in 0..4 {
        for v in 0..256u32 {
            let mut b = [rng.below(256) as u32, rng.below(256) as u32, rng.below(256) as u32, rng.below(256) as u32];
            b[lane] = v;
            emit(out, json!({"op": "pack", "r": b[0], "g": b[1], "b": b[2], "a": b[3]}));
        }
    }
    for _ in 0..(if thorough { 100_000 } else { 5_000 }) {
        emit(out, json!({"op": "pack", "r": rng.below(256), "g": rng.below(256), "b": rng.below(256), "a": rng.below(256)}));
    }
    // float -> u8
    let specials = [0.0f32, -0.0, 1.0, -1.0, 2.0, 0.5, 0.999999, 1.0000001, f32::NAN, f32::INFINITY, f32::NEG_INFINITY,
                    1e-30, -1e-30, 1e30, 0.003921569, 0.0039215, 0.99607843, 0.996];
    for x in specials {
        emit(out, json!({"op": "tou8", "xb": hx(x)}));
    }
    for _ in 0..(if thorough { 50_000 } else { 5_000 }) {
        let x = if rng.chance(1, 2) { (rng.unit_f64() * 1.4 - 0.2) as f32 } else { f32::from_bits(rng.next() as u32) };
        emit(out, json!({"op": "tou8", "xb": hx(x)}));
    }
    // saturating add: all 256 x (-300..300), and large differences
    for c in 0..256 {
        for d in (-300..=300).step_by(if thorough { 1 } else { 7 }) {
            emit(out, json!({"op": "satadd", "c": c, "d": d}));
        }
        for d in [32767, 32768, 65536, -32768, -32769, -40000, 1 << 20, -(1 << 20), i32::MAX / 2, -(i32::MAX / 2)] {
            emit(out, json!({"op": "satadd", "c": c, "d": d}));
        }
    }
}
