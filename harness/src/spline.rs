//! C17 driver: cubic Beziers and Bezier splines on integer control points at
//! dyadic parameters, and polyline approximation with a recording halt
//! predicate.

use crate::util::*;
use crate::Args;
use re::math::color::{rgb, rgba, Color3f, Color4f};
use re::math::point::{pt2, Point2};
use re::math::space::{Affine, Linear};
use re::math::spline::{BezierSpline, CubicBezier};
use re::math::vec::{vec2, vec3, Vec2, Vec3};
use serde_json::{json, Value};
use std::cell::RefCell;
use std::io::Write;

const SC: f64 = 1024.0;

trait Coords: Affine<Diff: Linear<Scalar = f32> + Clone> + Clone + PartialEq {
    fn make(c: &[f32]) -> Self;
    fn comps(&self) -> Vec<f32>;
    fn dcomps(d: &Self::Diff) -> Vec<f32>;
}
impl Coords for f32 {
    fn make(c: &[f32]) -> Self { c[0] }
    fn comps(&self) -> Vec<f32> { vec![*self] }
    fn dcomps(d: &f32) -> Vec<f32> { vec![*d] }
}
impl Coords for Vec2 {
    fn make(c: &[f32]) -> Self { vec2(c[0], c[1]) }
    fn comps(&self) -> Vec<f32> { vec![self.x(), self.y()] }
    fn dcomps(d: &Vec2) -> Vec<f32> { vec![d.x(), d.y()] }
}
impl Coords for Point2 {
    fn make(c: &[f32]) -> Self { pt2(c[0], c[1]) }
    fn comps(&self) -> Vec<f32> { vec![self.x(), self.y()] }
    fn dcomps(d: &Vec2) -> Vec<f32> { vec![d.x(), d.y()] }
}
impl Coords for Vec3 {
    fn make(c: &[f32]) -> Self { vec3(c[0], c[1], c[2]) }
    fn comps(&self) -> Vec<f32> { vec![self.x(), self.y(), self.z()] }
    fn dcomps(d: &Vec3) -> Vec<f32> { vec![d.x(), d.y(), d.z()] }
}
impl Coords for Color3f {
    fn make(c: &[f32]) -> Self { rgb(c[0], c[1], c[2]) }
    fn comps(&self) -> Vec<f32> { vec![self.r(), self.g(), self.b()] }
    fn dcomps(d: &Color3f) -> Vec<f32> { vec![d.r(), d.g(), d.b()] }
}

impl Coords for re::math::angle::Angle {
    fn make(c: &[f32]) -> Self { re::math::angle::rads(c[0]) }
    fn comps(&self) -> Vec<f32> { vec![self.to_rads()] }
    fn dcomps(d: &re::math::angle::Angle) -> Vec<f32> { vec![d.to_rads()] }
}
impl Coords for Color4f {
    fn make(c: &[f32]) -> Self { rgba(c[0], c[1], c[2], c[3]) }
    fn comps(&self) -> Vec<f32> { self.0.to_vec() }
    fn dcomps(d: &Color4f) -> Vec<f32> { d.0.to_vec() }
}

/// control points from the per-coordinate lists, divided by `den` (non-dyadic values)
fn points<T: Coords>(pc: &Value, den: f32) -> Vec<T> {
    let coords = pc.as_array().unwrap();
    let n = coords[0].as_array().unwrap().len();
    (0..n)
        .map(|i| T::make(&coords.iter().map(|c| c[i].as_i64().unwrap() as f32 / den).collect::<Vec<_>>()))
        .collect()
}

fn run<T: Coords>(case: &Value) -> Option<Vec<(&'static str, Value)>> {
    let op = gs(case, "op").to_string();
    let den = gi(case, "den") as f32;
    // observations are multiplied back by den (in f64) before scaling
    let s = |x: f32| -> i64 {
        let v = (x as f64 * den as f64 * SC).round();
        if v.is_finite() { v.clamp(-2e9, 2e9) as i64 } else { 2_000_000_000 }
    };
    let tnan = case.get("tnan").and_then(|v| v.as_i64()).unwrap_or(0) == 1;
    guard(|| match op.as_str() {
        "cubic" => {
            let p: Vec<T> = points(&case["P"], den);
            let t = if tnan { f32::NAN } else { gi(case, "kk") as f32 / 64.0 };
            let cb = CubicBezier([p[0].clone(), p[1].clone(), p[2].clone(), p[3].clone()]);
            let (ev, fev, tan) = (cb.eval(t), cb.fast_eval(t), cb.tangent(t));
            // (for a NaN parameter: do the two evaluators still say the same thing, component by component?)
            let nanagree = ev.comps().iter().zip(fev.comps().iter()).all(|(a, b)| a.is_nan() == b.is_nan() && (a.is_nan() || a == b)) as u8;
            let endp = if t <= 0.0 { &p[0] } else { &p[3] };
            let end = (ev == *endp && fev == *endp) as u8;
            vec![("ev", json!(ev.comps().iter().map(|x| s(*x)).collect::<Vec<_>>())),
                 ("fev", json!(fev.comps().iter().map(|x| s(*x)).collect::<Vec<_>>())),
                 ("tan", json!(T::dcomps(&tan).iter().map(|x| s(*x)).collect::<Vec<_>>())), ("end", json!(end)), ("nanagree", json!(nanagree))]
        }
        "rays" => {
            let p: Vec<T> = points(&case["P"], den);
            let v: Vec<T> = points(&case["V"], den);
            // a direction is the difference between a point and the origin of the space (exact)
            let zero = T::make(&vec![0.0; case["P"].as_array().unwrap().len()]);
            let rays: Vec<re::geom::Ray<T, T::Diff>> = p.iter().zip(&v).map(|(p, v)| re::geom::Ray(p.clone(), v.sub(&zero))).collect();
            // (every other time through an adaptor that cannot say how many rays it will yield)
            let sp = if gi(case, "kk") % 2 == 0 { BezierSpline::from_rays(rays) } else { BezierSpline::from_rays(rays.into_iter().filter(|_| true)) };
            let t = if tnan { f32::NAN } else { gi(case, "kk") as f32 / 64.0 };
            let (ev, tan) = (sp.eval(t), sp.tangent(t));
            let endp = if t <= 0.0 { p[0].clone() } else { p.last().unwrap().clone() };
            vec![("ev", json!(ev.comps().iter().map(|x| s(*x)).collect::<Vec<_>>())), ("end", json!((ev == endp) as u8)),
                 ("stan", json!(T::dcomps(&tan).iter().map(|x| s(*x)).collect::<Vec<_>>()))]
        }
        "spline" => {
            let c: Vec<T> = points(&case["C"], den);
            let sp = BezierSpline::new(&c);
            let t = if tnan { f32::NAN } else { gi(case, "kk") as f32 / 64.0 };
            let ev = sp.eval(t);
            let tan = sp.tangent(t);
            let endp = if t <= 0.0 { &c[0] } else { c.last().unwrap() };
            let cb0 = CubicBezier([c[0].clone(), c[1].clone(), c[2].clone(), c[3].clone()]).eval(t);
            let nanagree = ev.comps().iter().zip(cb0.comps().iter()).all(|(a, b)| a.is_nan() == b.is_nan()) as u8;
            vec![("ev", json!(ev.comps().iter().map(|x| s(*x)).collect::<Vec<_>>())), ("end", json!((ev == *endp) as u8)), ("nanagree", json!(nanagree)),
                 ("stan", json!(T::dcomps(&tan).iter().map(|x| s(*x)).collect::<Vec<_>>()))]
        }
        _ => {
            let c: Vec<T> = points(&case["C"], den);
            let sp = BezierSpline::new(&c);
            let pol = &case["policy"];
            let rng = RefCell::new(Rng::new(gi(pol, "seed") as u64));
            let answers: RefCell<Vec<u8>> = RefCell::new(vec![]);
            let errs: RefCell<Vec<Vec<i64>>> = RefCell::new(vec![]);
            let kind = gs(pol, "kind").to_string();
            let eps = gf(pol, "eps") as f32 / den;
            let pnum = gi(pol, "p") as u64;
            // non-termination is data: the bisection is bounded by depth 10 + log2(len), so
            // no call may ask the criterion more than segments * 2^(bound + 1) times
            let budget = (c.len() as u64 + 1) << (12 + c.len().ilog2());
            let out = sp.approximate(|e: &T::Diff| {
                if answers.borrow().len() as u64 > budget {
                    panic!("approximate exceeded its depth bound: criterion asked more than {budget} times");
                }
                let ec = T::dcomps(e);
                let ans = match kind.as_str() {
                    "seeded" => rng.borrow_mut().chance(pnum, 10),
                    // refuse the first p questions (the bisection asks depth first, left half first: these are
                    // the pieces [0, 2^-j]), accept everything after
                    "first" => answers.borrow().len() as u64 >= pnum,
                    "norm" => ec.iter().map(|x| x * x).sum::<f32>() < eps * eps,
                    // one-sided: only the sign of the first component matters
                    _ => ec[0] > -eps && ec[0] < 1e9,
                };
                answers.borrow_mut().push(ans as u8);
                errs.borrow_mut().push(ec.iter().map(|x| s(*x)).collect());
                ans
            });
            let maxdep = 10 + c.len().ilog2();
            let first = (out.first() == c.first()) as u8;
            let last = (out.last() == c.last()) as u8;
            let pts: Vec<Vec<i64>> = out.iter().map(|p| p.comps().iter().map(|x| s(*x)).collect()).collect();
            vec![("maxdep", json!(maxdep)), ("answers", json!(answers.into_inner())), ("errs", json!(errs.into_inner())),
                 ("n", json!(out.len())), ("first", json!(first)), ("last", json!(last)), ("out", json!(pts))]
        }
    })
}

/// A spline of 2^lg segments (millions): parameters j / 2^lg and (2j + 1) / 2^(lg+1) are exact in f32, so the
/// spline must return control point 3j EXACTLY at the first and the value of the j-th cubic at one half
/// (computed by the library's own CubicBezier on the four control points) at the second.
fn exec_bigspline(case: &Value) -> Value {
    let mut e = case.clone();
    let lg = gi(case, "lg") as u32;
    let n = 1usize << lg;
    let joints: Vec<usize> = case["joints"].as_array().unwrap().iter().map(|j| j.as_u64().unwrap() as usize).collect();
    let r = guard(|| {
        let c: Vec<f32> = (0..3 * n + 1).map(|i| ((i * 7) % 1021) as f32).collect();
        let sp = BezierSpline::new(&c);
        let (mut missj, mut missm) = (0usize, 0usize);
        for &j in &joints {
            let t = j as f32 / n as f32;
            if sp.eval(t) != c[3 * j] {
                missj += 1;
            }
            if j < n {
                let tm = (2 * j + 1) as f32 / (2 * n) as f32;
                let cb = CubicBezier([c[3 * j], c[3 * j + 1], c[3 * j + 2], c[3 * j + 3]]);
                if sp.eval(tm) != cb.fast_eval(0.5) || sp.tangent(tm) != cb.tangent(0.5) {
                    missm += 1;
                }
            }
        }
        let ends = (sp.eval(0.0) == c[0] && sp.eval(1.0) == c[3 * n]) as u8;
        (missj, missm, ends)
    });
    let o = e.as_object_mut().unwrap();
    let (p, mj, mm, ends) = match r { Some((a, b, c)) => (0, a, b, c), None => (1, 0, 0, 0) };
    o.insert("panic".into(), json!(p));
    o.insert("missj".into(), json!(mj));
    o.insert("missm".into(), json!(mm));
    o.insert("ends".into(), json!(ends));
    o.insert("njoint".into(), json!(joints.len()));
    e
}

pub fn exec(case: &Value) -> Value {
    if gs(case, "op") == "bigspline" {
        return exec_bigspline(case);
    }
    if gs(case, "op") == "smooth" {
        let t = gi(case, "kk") as f32 / 16.0;
        let sc = |x: f32| ((x as f64) * SC).round() as i64;
        let mut e = case.clone();
        let o = e.as_object_mut().unwrap();
        match guard(|| (re::math::spline::smoothstep(t), re::math::spline::smootherstep(t))) {
            Some((a, b)) => {
                o.insert("ss".into(), json!(sc(a)));
                o.insert("sss".into(), json!(sc(b)));
                o.insert("panic".into(), json!(0));
            }
            None => {
                o.insert("ss".into(), json!(0));
                o.insert("sss".into(), json!(0));
                o.insert("panic".into(), json!(1));
            }
        }
        return e;
    }
    let r = match gs(case, "ty") {
        "vec2" => run::<Vec2>(case),
        "pt2" => run::<Point2>(case),
        "vec3" => run::<Vec3>(case),
        "col3" => run::<Color3f>(case),
        "col4" => run::<Color4f>(case),
        "ang" => run::<re::math::angle::Angle>(case),
        _ => run::<f32>(case),
    };
    let mut e = case.clone();
    let o = e.as_object_mut().unwrap();
    o.entry("tnan").or_insert(json!(0));
    match r {
        Some(fields) => {
            for (k, v) in fields {
                o.insert(k.into(), v);
            }
            o.insert("panic".into(), json!(0));
        }
        None => {
            for k in ["ev", "fev", "tan", "stan", "answers", "errs", "out"] {
                o.insert(k.into(), json!([]));
            }
            for k in ["end", "maxdep", "n", "first", "last", "nanagree"] {
                o.insert(k.into(), json!(0));
            }
            o.insert("panic".into(), json!(1));
        }
    }
    e
}

pub fn gen(args: &Args, out: &mut dyn Write) {
    if args.rest.first().map(|s| s.as_str()) == Some("extra") {
        for kk in -8..=24 {
            writeln!(out, "{}", json!({"k": format!("ss{kk}"), "op": "smooth", "ty": "f32", "kk": kk})).unwrap();
        }
        return;
    }
    let thorough = args.tier == "thorough";
    let n = args.n.unwrap_or(if thorough { 400_000 } else { 6_000 });
    let mut rng = Rng::new(args.seed ^ 0x5B11E);
    // millions of segments: joints around 2^24 / 3 control points and further up
    {
        let lg = 23u32;
        let mut joints: Vec<u64> = vec![1, 2, 3, 1000, 4_194_303, 4_194_305, (1 << lg) - 1, 1 << lg];
        for base in [5_592_400u64, 5_592_405, 6_000_001, 7_340_033, 8_000_000] {
            for d in 0..8 {
                joints.push(base + d);
            }
        }
        for _ in 0..(if thorough { 2000 } else { 100 }) {
            joints.push(rng.below(1 << lg));
        }
        writeln!(out, "{}", json!({"k": format!("big{}", args.seed), "op": "bigspline", "ty": "f32", "lg": lg, "joints": joints})).unwrap();
    }
    let tys = [("f32", 1usize), ("vec2", 2), ("pt2", 2), ("vec3", 3), ("col3", 3), ("col4", 4), ("ang", 1)];
    for i in 0..n {
        let (ty, nc) = tys[i % tys.len()];
        // control points over several magnitudes, non-dyadic-friendly values included
        let mag = *rng.pick(&[3i64, 10, 63, 63]);
        let key = format!("s{}-{}", args.seed, i);
        match i % 10 {
            0..=4 => {
                let p: Vec<Vec<i64>> = (0..nc).map(|_| (0..4).map(|_| rng.range(-mag, mag)).collect()).collect();
                let k = match rng.below(8) { 0 => 0, 1 => 64, 2 => -rng.range(1, 32), 3 => 64 + rng.range(1, 32), _ => rng.range(1, 63) };
                writeln!(out, "{}", json!({"k": key, "op": "cubic", "ty": ty, "P": p, "kk": k, "tnan": (i % 37 == 5) as u8, "den": *rng.pick(&[1i64, 1, 10, 7, 3])})).unwrap();
            }
            5..=7 if i % 9 == 4 => {
                // from_rays: one to nine rays (one ray cannot make a curve)
                let n = rng.range(1, 9) as usize;
                let p: Vec<Vec<i64>> = (0..nc).map(|_| (0..n).map(|_| rng.range(-mag, mag)).collect()).collect();
                let v: Vec<Vec<i64>> = (0..nc).map(|_| (0..n).map(|_| rng.range(-mag / 2, mag / 2)).collect()).collect();
                let segs = (n as i64 - 1).max(1);
                let k = match rng.below(6) { 0 => 0, 1 => 64, 2 => (64 / segs) * rng.range(0, segs), 3 => -5, 4 => 70, _ => rng.range(1, 63) };
                writeln!(out, "{}", json!({"k": key, "op": "rays", "ty": ty, "P": p, "V": v, "kk": k, "den": *rng.pick(&[1i64, 1, 10, 7, 3])})).unwrap();
            }
            5..=7 => {
                let segs = rng.range(1, 8);
                let c: Vec<Vec<i64>> = (0..nc).map(|_| (0..3 * segs + 1).map(|_| rng.range(-mag, mag)).collect()).collect();
                // lattice parameters, and exactly the joins j / segs when representable on the lattice
                let k = match rng.below(6) { 0 => 0, 1 => 64, 2 => (64 / segs) * rng.range(0, segs), 3 => -5, 4 => 70, _ => rng.range(1, 63) };
                writeln!(out, "{}", json!({"k": key, "op": "spline", "ty": ty, "C": c, "kk": k, "tnan": (i % 23 == 6) as u8, "den": *rng.pick(&[1i64, 1, 10, 7, 3])})).unwrap();
            }
            _ => {
                let segs = rng.range(1, 4);
                let (ty, nc) = if i % 20 < 10 { ("vec2", 2) } else if i % 60 == 19 { ("col4", 4) } else { ("f32", 1) };
                let c: Vec<Vec<i64>> = (0..nc).map(|_| (0..3 * segs + 1).map(|_| rng.range(-mag, mag)).collect()).collect();
                let policy = match rng.below(6) {
                    0 | 1 => json!({"kind": "seeded", "seed": rng.below(1 << 30), "p": rng.range(4, 9), "eps": 0.0}),
                    2 => json!({"kind": "norm", "seed": 0, "p": 0, "eps": *rng.pick(&[10.0, 1.0, 0.1, 0.01])}),
                    3 => json!({"kind": "norm", "seed": 0, "p": 0, "eps": if i % 200 == 9 { 1e-6 } else { 0.05 }}),
                    _ => json!({"kind": "onesided", "seed": 0, "p": 0, "eps": *rng.pick(&[1.0, 0.1, 0.01])}),
                };
                writeln!(out, "{}", json!({"k": key, "op": "flat", "ty": ty, "C": c, "policy": policy, "den": *rng.pick(&[1i64, 1, 10, 7])})).unwrap();
            }
        }
    }
    // flattening down to the depth bound along the start of the curve, for every segment count up to 9 (depth
    // bounds 12..14): the first p questions are refused, p around the bound, so that the left-most descent
    // reaches (or just misses, or overshoots) the deepest level while the output stays small
    let mut r2 = Rng::new(args.seed ^ 0xF1A7);
    for segs in 1..=9i64 {
        let maxdep = 10 + (3 * segs + 1).ilog2() as i64;
        for (j, p) in [maxdep, maxdep + 1, maxdep - 1, maxdep + 3, 2 * maxdep].into_iter().enumerate() {
            if !thorough && j >= 3 && segs % 2 == 0 {
                continue;
            }
            let (ty, nc) = if (segs + j as i64) % 3 == 0 { ("vec2", 2) } else { ("f32", 1) };
            let c: Vec<Vec<i64>> = (0..nc).map(|_| (0..3 * segs + 1).map(|_| r2.range(-10, 10)).collect()).collect();
            let policy = json!({"kind": "first", "seed": 0, "p": p, "eps": 0.0});
            writeln!(out, "{}", json!({"k": format!("fd{}-{}-{}", args.seed, segs, j), "op": "flat", "ty": ty, "C": c, "policy": policy, "den": 1})).unwrap();
        }
    }
}
