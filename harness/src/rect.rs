//! Growth (DESIGN §8): util::rect::Rect, replayed on the pairs of rects that
//! TLC enumerates in MC_Rect.  Sides are integers, None is recorded as -99.

use crate::util::*;
use crate::Args;
use re::math::vec::vec2;
use re::util::rect::Rect;
use serde_json::{json, Value};
use std::io::Write;
use std::ops::Bound;

const NONE: i64 = -99;

fn side(v: &Value) -> Option<i32> {
    let x = v.as_i64().unwrap();
    (x != NONE).then_some(x as i32)
}
fn rect_of(v: &Value) -> Rect<i32> {
    Rect { left: side(&v[0]), top: side(&v[1]), right: side(&v[2]), bottom: side(&v[3]) }
}
fn js<T: Copy + Into<i64>>(r: &Rect<T>) -> Value {
    let s = |x: Option<T>| x.map_or(NONE, |v| v.into());
    json!([s(r.left), s(r.top), s(r.right), s(r.bottom)])
}

/// the range form for one axis, chosen from which sides of `a` are bounded
fn form(lo: Option<i32>, hi: Option<i32>, incl: bool) -> (&'static str, u32, u32) {
    let u = |x: Option<i32>| x.unwrap_or(0).max(0) as u32;
    match (lo.is_some(), hi.is_some()) {
        // (odd starts: explicit bound pairs with an excluded start)
        (true, true) if u(lo) % 2 == 1 => (if incl { "exi" } else { "ex" }, u(lo), u(hi)),
        (true, true) => (if incl { "ri" } else { "rg" }, u(lo), u(hi)),
        (true, false) => ("from", u(lo), 0),
        (false, true) => (if incl { "toi" } else { "to" }, 0, u(hi)),
        _ => ("full", 0, 0),
    }
}
fn bounds(f: &str, a: u32, b: u32) -> (Bound<u32>, Bound<u32>) {
    use Bound::*;
    match f {
        "rg" => (Included(a), Excluded(b)),
        "ri" => (Included(a), Included(b)),
        "to" => (Unbounded, Excluded(b)),
        "toi" => (Unbounded, Included(b)),
        "from" => (Included(a), Unbounded),
        "ex" => (Excluded(a), Excluded(b)),
        "exi" => (Excluded(a), Included(b)),
        _ => (Unbounded, Unbounded),
    }
}

pub fn exec(case: &Value) -> Value {
    let key = gs(case, "k").to_string();
    let (a, b) = (rect_of(&case["a"]), rect_of(&case["b"]));
    let mut out = vec![];
    let mut n = 0;
    let mut emit = |op: &str, extra: Value, res: Option<Value>| {
        let mut e = json!({"k": format!("{key}#{n}"), "op": op, "a": case["a"], "b": case["b"]});
        n += 1;
        let o = e.as_object_mut().unwrap();
        for (k, v) in extra.as_object().unwrap() {
            o.insert(k.clone(), v.clone());
        }
        o.insert("panic".into(), json!(res.is_none() as u8));
        o.insert("res".into(), res.unwrap_or(json!(0)));
        out.push(e);
    };
    emit("intersect", json!({}), guard(|| js(&a.intersect(&b))));
    emit("is_empty", json!({}), guard(|| json!(a.is_empty() as u8)));
    emit("width", json!({}), guard(|| json!(a.width().map_or(NONE, |w| w as i64))));
    emit("height", json!({}), guard(|| json!(a.height().map_or(NONE, |w| w as i64))));
    // probes derived from the second rect: its corners and the points just inside them
    let (bl, bt) = (b.left.unwrap_or(0), b.top.unwrap_or(0));
    let (br, bb) = (b.right.unwrap_or(0), b.bottom.unwrap_or(0));
    for (x, y) in [(bl, bt), (br - 1, bb - 1), (br, bt), (bl - 1, bb)] {
        emit("contains", json!({"x": x, "y": y}), guard(|| json!(a.contains(x, y) as u8)));
    }
    // conversions from range forms (u32)
    let (hf, ha, hb) = form(a.left, a.right, b.left.is_none());
    let (vf, va, vb) = form(a.top, a.bottom, b.top.is_none());
    emit(
        "from_pair",
        json!({"hf": hf, "ha": ha, "hb": hb, "vf": vf, "va": va, "vb": vb}),
        guard(|| js(&Rect::<u32>::from((bounds(hf, ha, hb), bounds(vf, va, vb))))),
    );
    if [a.left, a.top, a.right, a.bottom].iter().all(|s| s.is_some_and(|v| v >= 0)) {
        let g = |s: Option<i32>| s.unwrap() as u32;
        emit("from_vec", json!({}), guard(|| js(&Rect::<u32>::from(vec2(g(a.left), g(a.top))..vec2(g(a.right), g(a.bottom))))));
    }
    if a == b {
        emit("full", json!({}), guard(|| js(&Rect::<u32>::from(..))));
    }
    json!(out)
}

pub fn gen(_args: &Args, _out: &mut dyn Write) {
    // cases come from TLC (MC_Rect exports every pair it explores)
}
