//! C13 driver: PNM decoding of arbitrary byte strings and write/read round
//! trips of owned and strided images.

use crate::util::*;
use crate::Args;
use re::math::color::{rgb, Color3};
use re::util::buf::Buf2;
use re::util::pnm::{parse_pnm, read_pnm, write_ppm};
use serde_json::{json, Value};
use std::io::Write;

const MAX_LOGGED: usize = 4096;

fn result_json(r: Option<re::util::pnm::Result<Buf2<Color3>>>) -> Value {
    match r {
        None => json!(["panic", 0]),
        Some(Err(e)) => json!(["err", format!("{e:?}")]),
        Some(Ok(img)) => {
            let (w, h) = (img.width(), img.height());
            let npix = img.data().len();
            let pix: Vec<u8> = if npix <= MAX_LOGGED {
                img.data().iter().flat_map(|c| c.0).collect()
            } else {
                vec![]
            };
            json!(["ok", w, h, npix, pix])
        }
    }
}

fn pixel(rng: &mut Rng) -> u8 {
    // bytes that look like whitespace, '#', digits and extremes are frequent
    const SPECIAL: [u8; 12] = [9, 10, 12, 13, 32, 35, 48, 57, 0, 255, 11, 80];
    if rng.chance(1, 3) {
        *rng.pick(&SPECIAL)
    } else {
        rng.below(256) as u8
    }
}

struct Trickle<'a> {
    data: &'a [u8],
    pos: usize,
    n: usize,
}
impl std::io::Read for Trickle<'_> {
    fn read(&mut self, buf: &mut [u8]) -> std::io::Result<usize> {
        self.n += 1;
        let k = (1 + self.n % 5).min(buf.len()).min(self.data.len() - self.pos);
        buf[..k].copy_from_slice(&self.data[self.pos..self.pos + k]);
        self.pos += k;
        Ok(k)
    }
}

pub fn exec(case: &Value) -> Value {
    let mut e = case.clone();
    let op = gs(case, "op").to_string();
    let o = e.as_object_mut().unwrap();
    match op.as_str() {
        "parse" => {
            let bytes: Vec<u8> = case["bytes"]
                .as_array()
                .unwrap()
                .iter()
                .map(|b| b.as_u64().unwrap() as u8)
                .collect();
            let via = case.get("via").and_then(|v| v.as_str()).unwrap_or("parse_pnm");
            let r = if via == "read_pnm" {
                guard(|| read_pnm(&bytes[..]))
            } else if via == "read_trickle" {
                // a reader that hands out one to five bytes per call (pipes, sockets, chained readers)
                guard(|| read_pnm(Trickle { data: &bytes, pos: 0, n: 0 }))
            } else {
                guard(|| parse_pnm(bytes.iter().copied()))
            };
            o.insert("res".into(), result_json(r));
        }
        "pair" => {
            // the same samples under a header whose maxval is e.max (not necessarily 255; samples may
            // exceed it), once as text and once as binary: the two decodes are recorded side by side
            let (w, h, max) = (gu(case, "w"), gu(case, "h"), gu(case, "max"));
            let rgbf = gi(case, "rgb") == 1;
            let pix: Vec<u8> = case["pix"].as_array().unwrap().iter().map(|b| b.as_u64().unwrap() as u8).collect();
            let head = |fmt: u8| format!("P{} {} {} {}\n", fmt, w, h, max).into_bytes();
            let mut text = head(if rgbf { 3 } else { 2 });
            for v in &pix {
                text.extend(format!("{} ", v).bytes());
            }
            let mut bin = head(if rgbf { 6 } else { 5 });
            bin.extend(&pix);
            o.insert("rt".into(), result_json(guard(|| parse_pnm(text.iter().copied()))));
            o.insert("rb".into(), result_json(guard(|| parse_pnm(bin.iter().copied()))));
            o.insert("bytes".into(), json!([]));
            o.insert("res".into(), json!(["pair", 0]));
        }
        "rt" => {
            // a bw x bh backing buffer, the view (ox, oy, w, h) of it (or the
            // whole buffer, owned, when "owned" = 1)
            let (bw, bh) = (gu(case, "bw"), gu(case, "bh"));
            let (ox, oy, w, h) = (gu(case, "ox"), gu(case, "oy"), gu(case, "w"), gu(case, "h"));
            let mut rng = Rng::new(gi(case, "pseed") as u64);
            let buf = Buf2::new_from((bw, bh), (0..bw * bh).map(|_| {
                rgb(pixel(&mut rng), pixel(&mut rng), pixel(&mut rng))
            }));
            let owned = gi(case, "owned") == 1;
            let mut bytes: Vec<u8> = vec![];
            let mut pix: Vec<u8> = vec![];
            for y in 0..h {
                for x in 0..w {
                    pix.extend(buf[[ox + x, oy + y]].0);
                }
            }
            // vk: how the sub-view is borrowed - 0 immutably, 1 mutably (slice_mut), 2 as a slice of a slice, 3 see below
            let vk = case.get("vk").and_then(|v| v.as_i64()).unwrap_or(0);
            let mut buf = buf;
            let wres = if owned {
                guard(|| write_ppm(&mut bytes, &buf))
            } else if vk == 1 {
                guard(|| write_ppm(&mut bytes, buf.slice_mut((ox..ox + w, oy..oy + h))))
            } else if vk == 3 && w >= 2 && oy + h < bh {
                // a view made directly over backing data that goes on beyond its last row - by a full stride
                // and a bit less than one row more
                let start = (oy * bw + ox) as usize;
                let len = (h * bw) as usize + 1 + (w as usize - 2).min((bw * bh) as usize - start - (h * bw) as usize - 1);
                guard(|| write_ppm(&mut bytes, re::util::buf::Slice2::new((w, h), bw, &buf.data()[start..start + len])))
            } else if vk == 2 {
                guard(|| write_ppm(&mut bytes, buf.slice((ox.., oy..)).slice((0..w, 0..h))))
            } else {
                guard(|| write_ppm(&mut bytes, buf.slice((ox..ox + w, oy..oy + h))))
            };
            let wres = match wres {
                Some(Ok(())) => "ok",
                Some(Err(_)) => "err",
                None => "panic",
            };
            let r = guard(|| read_pnm(&bytes[..]));
            o.insert("wres".into(), json!(wres));
            o.insert("pix".into(), json!(pix));
            o.insert("bytes".into(), json!(bytes));
            o.insert("res".into(), result_json(r));
        }
        _ => panic!("unknown op"),
    }
    e
}

// ---------------------------------------------------------------- generator

fn sep(rng: &mut Rng) -> Vec<u8> {
    let mut s = vec![];
    // at least one whitespace byte, then optional whitespace-preceded comments
    let n = 1 + rng.below(3);
    for _ in 0..n {
        s.push(*rng.pick(&[32u8, 10, 9, 13, 12]));
        if rng.chance(1, 5) {
            s.push(b'#');
            for _ in 0..rng.below(6) {
                s.push(*rng.pick(b"abc 123#P6\t\r"));
            }
            s.push(10);
            if rng.chance(1, 2) {
                s.push(32);
            }
        }
    }
    // must end in whitespace so that the next token is whitespace-preceded
    if !matches!(s.last(), Some(9 | 10 | 12 | 13 | 32)) {
        s.push(32);
    }
    s
}

/// A decimal spelling of `v`: now and then padded with leading zeros to 2..40 characters.
fn num(rng: &mut Rng, v: u32) -> Vec<u8> {
    let s = v.to_string();
    if rng.chance(1, 12) {
        let width = *rng.pick(&[2usize, 4, 9, 10, 11, 12, 20, 33, 40]);
        format!("{:0>width$}", s, width = width).into_bytes()
    } else {
        s.into_bytes()
    }
}

fn wellformed(rng: &mut Rng, fmt: u8, w: u32, h: u32, pix: &[u8]) -> Vec<u8> {
    let mut f = vec![b'P', b'0' + fmt];
    f.extend(sep(rng));
    f.extend(num(rng, w));
    f.extend(sep(rng));
    f.extend(num(rng, h));
    f.extend(sep(rng));
    f.extend(num(rng, 255));
    let gray: Vec<u8> = pix.chunks(3).map(|c| c[0]).collect();
    match fmt {
        6 => {
            f.push(*rng.pick(&[32u8, 10, 9, 13]));
            f.extend(pix);
        }
        5 => {
            f.push(*rng.pick(&[32u8, 10, 9, 13]));
            f.extend(gray);
        }
        _ => {
            let vals: &[u8] = if fmt == 3 { pix } else { &gray };
            for v in vals {
                f.extend(sep(rng));
                f.extend(num(rng, *v as u32));
            }
            if rng.chance(1, 2) {
                f.push(10);
            }
        }
    }
    f
}

fn mutate(rng: &mut Rng, mut f: Vec<u8>) -> Vec<u8> {
    if f.is_empty() {
        return f;
    }
    match rng.below(6) {
        0 => {
            let k = 1 + rng.below(4.min(f.len() as u64)) as usize;
            f.truncate(f.len() - k);
        }
        1 => {
            let i = rng.below(f.len() as u64) as usize;
            f.remove(i);
        }
        2 => {
            let i = rng.below(f.len() as u64) as usize;
            f[i] = rng.below(256) as u8;
        }
        3 => {
            let i = rng.below(f.len() as u64 + 1) as usize;
            f.insert(i, *rng.pick(&[b' ', b'#', b'\n', b'0', b'9', 0xFF, b'-', 11]));
        }
        4 => {
            let i = rng.below(f.len().min(14) as u64) as usize;
            f[i] = *rng.pick(&[b' ', b'#', b'\n', b'0', b'9', b'P']);
        }
        _ => {
            let n = rng.below(f.len() as u64 + 1) as usize;
            f.truncate(n);
        }
    }
    f
}

pub fn gen(args: &Args, out: &mut dyn Write) {
    let thorough = args.tier == "thorough";
    let n = args.n.unwrap_or(if thorough { 60000 } else { 4000 });
    let mut rng = Rng::new(args.seed ^ 0x9A11);
    let mut k = 0;
    let mut emit = |out: &mut dyn Write, v: Value| {
        let mut v = v;
        v.as_object_mut().unwrap().insert("k".into(), json!(format!("p{}-{}", args.seed, k)));
        k += 1;
        writeln!(out, "{v}").unwrap();
    };
    // hand-picked boundary files
    // other magics (plain bitmaps are not supported): an error or an image, never a panic
    for sp in [&b"P1 2 2\n1 0 2 1"[..], b"P1 2 2\n0110", b"P1 1 1 255", b"P1 3 1 9 9 9", b"P4 9 1 \xff\x80", b"P7 1 1 255 x", b"P0 1 1 255 x", b"P9 1 1 1 1"] {
        for via in ["parse_pnm", "read_pnm"] {
            emit(out, json!({"op": "parse", "via": via, "bytes": sp}));
        }
    }
    let specials: [&[u8]; 23] = [
        b"P6 0 5 255 ", b"P6 5 0 255 ", b"P6 0 0 255 ", b"P5 0 3 255 ", b"P2 0 2 255 ", b"P3 0 1 255",
        b"P6 65536 65536 255 ", b"P5 65536 65536 255 abc", b"P6 4294967295 4294967295 255 ",
        b"P6 65535 65537 255 x", b"P2 65536 65536 255 1 2 3", b"P3 4294967295 2 255 1 2 3",
        b"P4 8 1 \xAA", b"P1 1 1 1", b"P6 1 1 255", b"P6",
        // pixel counts between 2^32 / 3 and 2^32: the sample count (3 per pixel) no longer fits 32 bits
        b"P3 65535 65535 255\n1 2 3", b"P6 65535 65535 255\n123", b"P2 65535 65535 255 1", b"P3 40000 40000 255 1 2 3",
        b"P3 1431655766 1 255 1 2 3", b"P3 1 1431655766 255 1 2 3", b"P6 46341 46341 255 x",
    ];
    for s in specials {
        for via in ["parse_pnm", "read_pnm", "read_trickle"] {
            emit(out, json!({"op": "parse", "via": via, "bytes": s}));
        }
    }
    // the same samples as text and as binary under headers with other maxvals (samples within and beyond it)
    for i in 0..(if thorough { 3000 } else { 150 }) {
        let (w, h) = (rng.range(1, 5) as u32, rng.range(1, 4) as u32);
        let rgbf = i % 2;
        let max = *rng.pick(&[1u32, 15, 100, 254, 255, 255]);
        let n = (w * h) as usize * if rgbf == 1 { 3 } else { 1 };
        let pix: Vec<u32> = (0..n).map(|_| if rng.chance(1, 3) { rng.below(256) as u32 } else { rng.below(max as u64 + 1) as u32 }).collect();
        emit(out, json!({"op": "pair", "w": w, "h": h, "max": max, "rgb": rgbf, "pix": pix}));
    }
    // sizes around 2^8 and 2^16 in one direction (binary formats, patterned data)
    for (fmt, w, h) in [(5u8, 256u32, 1u32), (6, 256, 1), (5, 257, 1), (6, 1, 257), (5, 255, 2), (6, 300, 3), (5, 4096, 1), (5, 65536, 1), (5, 65537, 1), (6, 1, 65537), (5, 70000, 3)] {
        let mut f = format!("P{} {} {} 255\n", fmt, w, h).into_bytes();
        let per = if fmt == 6 { 3 } else { 1 };
        f.extend((0..(w as usize * h as usize * per)).map(|i| (i * 31 + 7) as u8));
        for via in ["parse_pnm", "read_pnm", "read_trickle"] {
            if w as usize * h as usize > 5000 && via == "read_trickle" {
                continue;
            }
            emit(out, json!({"op": "parse", "via": via, "bytes": f}));
        }
    }
    for i in 0..n {
        let big = i % 97 == 5;
        let (w, h) = if big {
            (rng.range(14, 40) as u32, rng.range(14, 30) as u32)
        } else {
            (rng.range(1, 6) as u32, rng.range(1, 5) as u32)
        };
        match i % 8 {
            0 => {
                // round trip, owned or strided sub-view
                let owned = rng.chance(1, 3);
                let (bw, bh, ox, oy) = if owned {
                    (w, h, 0, 0)
                } else {
                    let (ox, oy) = (rng.range(0, 3) as u32, rng.range(0, 2) as u32);
                    (w + ox + rng.range(0, 3) as u32, h + oy + rng.range(0, 2) as u32, ox, oy)
                };
                // (every 9th owned image has no rows: a w x 0 image is an image too)
                let h = if owned && i % 72 == 0 { 0 } else { h };
                let bh = if h == 0 { 0 } else { bh };
                emit(out, json!({"op": "rt", "bw": bw, "bh": bh, "ox": ox, "oy": oy, "w": w, "h": h,
                                 "owned": owned as u8, "pseed": rng.below(1 << 30), "vk": (i / 8) % 4}));
            }
            1..=4 => {
                // the same pixel data in a text and a binary format, any spelling
                let gray = rng.chance(1, 2);
                let mut pix = vec![];
                for _ in 0..w * h {
                    let p = [pixel(&mut rng), pixel(&mut rng), pixel(&mut rng)];
                    if gray {
                        pix.extend([p[0]; 3]);
                    } else {
                        pix.extend(p);
                    }
                }
                // text encodings of big images are costly to judge: binary only
                let fmts: &[u8] = match (gray, big) {
                    (true, false) => &[2, 5, 3, 6],
                    (false, false) => &[3, 6],
                    (true, true) => &[5, 6],
                    (false, true) => &[6],
                };
                for &fmt in fmts {
                    let f = wellformed(&mut rng, fmt, w, h, &pix);
                    let via = *rng.pick(&["parse_pnm", "read_pnm", "read_trickle", "parse_pnm"]);
                    emit(out, json!({"op": "parse", "via": via, "bytes": f}));
                }
            }
            5 | 6 => {
                let mut pix = vec![];
                for _ in 0..3 * w * h {
                    pix.push(pixel(&mut rng));
                }
                let fmt = if big { *rng.pick(&[5u8, 6]) } else { *rng.pick(&[2u8, 3, 5, 6, 6, 5]) };
                let mut f = wellformed(&mut rng, fmt, w, h, &pix);
                for _ in 0..1 + rng.below(2) {
                    f = mutate(&mut rng, f);
                }
                emit(out, json!({"op": "parse", "via": "parse_pnm", "bytes": f}));
            }
            _ => {
                let len = rng.below(40) as usize;
                let mut f: Vec<u8> = vec![b'P', *rng.pick(b"1234567 ")];
                for _ in 0..len {
                    f.push(if rng.chance(2, 3) { *rng.pick(b" \n\t#0123456789") } else { rng.below(256) as u8 });
                }
                emit(out, json!({"op": "parse", "via": "read_pnm", "bytes": f}));
            }
        }
    }
}
