//! C03 driver: view-frustum clipping of lattice clip-space triangles, singly
//! and in batches.  Each output vertex is recorded as its barycentric
//! coordinates with respect to the input triangle (least-squares solve in
//! f64, part of the trusted base) plus its attribute; TLC judges.

use crate::util::*;
use crate::Args;
use re::geom::{vertex, Tri};
use re::math::color::{rgb, Color3f};
use re::math::vec::{vec2, Vec2};
use re::render::clip::{view_frustum, Clip, ClipPlane, ClipVert};
use serde_json::{json, Value};
use std::io::Write;

const B: f64 = 16384.0;
const AS: f64 = 1024.0;

/// Attribute types the clipper interpolates (each through its own Lerp / Affine impl); two
/// components are recorded.  Colours may leave [0, 1]: the type documents that they may.
trait Attr: re::math::Lerp + Clone + PartialEq {
    fn make(a: f32, b: f32) -> Self;
    fn xy(&self) -> (f32, f32);
    fn bits(&self) -> Vec<u32>;
}
impl Attr for Vec2 {
    fn make(a: f32, b: f32) -> Self { vec2(a, b) }
    fn xy(&self) -> (f32, f32) { (self.x(), self.y()) }
    fn bits(&self) -> Vec<u32> { self.0.iter().map(|c| c.to_bits()).collect() }
}
impl Attr for Color3f {
    fn make(a: f32, b: f32) -> Self { rgb(a, b, 0.5) }
    fn xy(&self) -> (f32, f32) { (self.r(), self.g()) }
    fn bits(&self) -> Vec<u32> { self.0.iter().map(|c| c.to_bits()).collect() }
}
impl Attr for (f32, Color3f) {
    fn make(a: f32, b: f32) -> Self { (a, rgb(0.25, b, a)) }
    fn xy(&self) -> (f32, f32) { (self.0, self.1.g()) }
    fn bits(&self) -> Vec<u32> { std::iter::once(self.0.to_bits()).chain(self.1 .0.iter().map(|c| c.to_bits())).collect() }
}

// an angle (in units of ten degrees: values well beyond half a turn apart) and a plain number
impl Attr for (re::math::angle::Angle, f32) {
    fn make(a: f32, b: f32) -> Self { (re::math::angle::degs(a * 10.0), b) }
    fn xy(&self) -> (f32, f32) { (self.0.to_degs() / 10.0, self.1) }
    fn bits(&self) -> Vec<u32> { vec![self.0.to_rads().to_bits(), self.1.to_bits()] }
}

/// `scale` (a power of two, exact) multiplies all four homogeneous coordinates:
/// the same projective triangle, so the same clipping in barycentric terms.
fn mk_tri<A: Attr>(t: &Value, a: &Value, scale: f32) -> (Tri<ClipVert<A>>, [[f64; 4]; 3]) {
    let mut vs = vec![];
    let mut raw = [[0f64; 4]; 3];
    for i in 0..3 {
        let c = |j: usize| t[i][j].as_i64().unwrap() as f32 / 4.0;
        raw[i] = [c(0) as f64, c(1) as f64, c(2) as f64, c(3) as f64];
        let at = A::make(a[i][0].as_i64().unwrap() as f32, a[i][1].as_i64().unwrap() as f32);
        vs.push(ClipVert::new(vertex([c(0) * scale, c(1) * scale, c(2) * scale, c(3) * scale].into(), at)));
    }
    (Tri([vs[0].clone(), vs[1].clone(), vs[2].clone()]), raw)
}

/// least-squares barycentrics of p with respect to the three 4-vectors v
fn bary(v: &[[f64; 4]; 3], p: [f64; 4]) -> Option<([f64; 3], f64)> {
    let dot = |a: &[f64; 4], b: &[f64; 4]| (0..4).map(|i| a[i] * b[i]).sum::<f64>();
    let g = [
        [dot(&v[0], &v[0]), dot(&v[0], &v[1]), dot(&v[0], &v[2])],
        [dot(&v[1], &v[0]), dot(&v[1], &v[1]), dot(&v[1], &v[2])],
        [dot(&v[2], &v[0]), dot(&v[2], &v[1]), dot(&v[2], &v[2])],
    ];
    let r = [dot(&v[0], &p), dot(&v[1], &p), dot(&v[2], &p)];
    let det3 = |m: &[[f64; 3]; 3]| {
        m[0][0] * (m[1][1] * m[2][2] - m[1][2] * m[2][1]) - m[0][1] * (m[1][0] * m[2][2] - m[1][2] * m[2][0])
            + m[0][2] * (m[1][0] * m[2][1] - m[1][1] * m[2][0])
    };
    let d = det3(&g);
    if d.abs() < 1e-9 {
        return None;
    }
    let mut b = [0.0; 3];
    for k in 0..3 {
        let mut m = g;
        for i in 0..3 {
            m[i][k] = r[i];
        }
        b[k] = det3(&m) / d;
    }
    let scale = v.iter().flatten().fold(1.0f64, |a, x| a.max(x.abs()));
    let res = (0..4)
        .map(|j| ((0..3).map(|i| b[i] * v[i][j]).sum::<f64>() - p[j]).abs())
        .fold(0.0, f64::max)
        / scale;
    Some((b, res))
}

fn bits<A: Attr>(t: &Tri<ClipVert<A>>) -> Vec<u32> {
    t.0.iter()
        .flat_map(|v| {
            let mut b: Vec<u32> = v.pos.0.iter().map(|c| c.to_bits()).collect();
            b.extend(v.attrib.bits());
            b
        })
        .collect()
}

/// Plane orders: 0 = view_frustum::clip; k > 0 = the public Clip::clip with the six frustum
/// planes handed over in another order (the intersection of half-spaces does not depend on it).
const ORDERS: [[usize; 6]; 4] = [[0, 1, 2, 3, 4, 5], [5, 4, 3, 2, 1, 0], [2, 3, 4, 5, 0, 1], [4, 0, 5, 1, 3, 2]];

fn clip_ord<A: Attr>(ts: &[Tri<ClipVert<A>>], ord: usize) -> Option<Vec<Tri<ClipVert<A>>>> {
    guard(|| {
        let mut out = vec![];
        if ord == 0 {
            view_frustum::clip(ts, &mut out);
        } else {
            let planes: Vec<ClipPlane> = ORDERS[ord % ORDERS.len()].iter().map(|&i| view_frustum::PLANES[i].clone()).collect();
            ts.clip(&planes, &mut out);
        }
        out
    })
}


pub fn exec(case: &Value) -> Value {
    match case.get("at").and_then(|v| v.as_str()).unwrap_or("vec2") {
        "col3" => exec_a::<Color3f>(case),
        "tup" => exec_a::<(f32, Color3f)>(case),
        "ang" => exec_a::<(re::math::angle::Angle, f32)>(case),
        _ => exec_a::<Vec2>(case),
    }
}

fn exec_a<A: Attr>(case: &Value) -> Value {
    let scale = 2f32.powi(case.get("sc").and_then(|v| v.as_i64()).unwrap_or(0) as i32);
    let unscale = 1.0 / scale as f64;
    let (tri, raw) = mk_tri::<A>(&case["t"], &case["a"], scale);
    let mut e = case.clone();
    let o = e.as_object_mut().unwrap();
    let ord = case.get("po").and_then(|v| v.as_u64()).unwrap_or(0) as usize;
    let single = clip_ord(std::slice::from_ref(&tri), ord);
    let Some(single) = single else {
        o.insert("panic".into(), json!(1));
        o.insert("out".into(), json!([]));
        o.insert("same".into(), json!(0));
        o.insert("batch".into(), json!(0));
        return e;
    };
    // the same triangle inside a batch: the batch result must be the
    // concatenation of the single results, bit for bit
    let others: Vec<Tri<ClipVert<A>>> = case["others"]
        .as_array()
        .unwrap()
        .iter()
        .map(|t| mk_tri::<A>(&t["t"], &t["a"], scale).0)
        .collect();
    let pos = (gi(case, "pos") as usize).min(others.len());
    let mut batch: Vec<Tri<ClipVert<A>>> = others.clone();
    batch.insert(pos, tri.clone());
    let mut expect: Vec<Vec<u32>> = vec![];
    let mut ok_singles = true;
    for t in &batch {
        match clip_ord(std::slice::from_ref(t), ord) {
            Some(r) => expect.extend(r.iter().map(bits)),
            None => ok_singles = false,
        }
    }
    let batch_ok = match clip_ord(&batch, ord) {
        Some(r) => ok_singles && r.iter().map(bits).collect::<Vec<_>>() == expect,
        None => false,
    };
    let same = single.len() == 1 && bits(&single[0]) == bits(&tri);
    let mut solvable = true;
    let out: Vec<Value> = single
        .iter()
        .map(|t| {
            json!(t
                .0
                .iter()
                .map(|v| {
                    let p = v.pos.0.map(|c| c as f64 * unscale);
                    match bary(&raw, p) {
                        Some((b, res)) if b.iter().all(|x| x.abs() < 1e4) && res < 1e4 => json!([
                            (b[0] * B).round() as i64,
                            (b[1] * B).round() as i64,
                            (b[2] * B).round() as i64,
                            (res * B).ceil() as i64,
                            [(v.attrib.xy().0 as f64 * AS).round() as i64, (v.attrib.xy().1 as f64 * AS).round() as i64]
                        ]),
                        _ => {
                            solvable = false;
                            json!([0, 0, 0, 0, [0, 0]])
                        }
                    }
                })
                .collect::<Vec<_>>())
        })
        .collect();
    o.insert("panic".into(), json!(0));
    o.insert("solvable".into(), json!(solvable as u8));
    o.insert("out".into(), json!(out));
    o.insert("same".into(), json!(same as u8));
    o.insert("batch".into(), json!(batch_ok as u8));
    e
}

// ---------------------------------------------------------------- generator

fn independent(t: &[[i64; 4]; 3]) -> bool {
    // rank 3 of the three 4-vectors: some 3x3 minor is non-zero
    let minors = [[0usize, 1, 2], [0, 1, 3], [0, 2, 3], [1, 2, 3]];
    minors.iter().any(|c| {
        let m = |i: usize, j: usize| t[i][c[j]];
        m(0, 0) * (m(1, 1) * m(2, 2) - m(1, 2) * m(2, 1)) - m(0, 1) * (m(1, 0) * m(2, 2) - m(1, 2) * m(2, 0))
            + m(0, 2) * (m(1, 0) * m(2, 1) - m(1, 1) * m(2, 0))
            != 0
    })
}

fn gen_tri(rng: &mut Rng, r: i64) -> [[i64; 4]; 3] {
    loop {
        let mut t = [[0i64; 4]; 3];
        let kind = rng.below(8);
        for v in t.iter_mut() {
            let w = match kind {
                0 => rng.range(1, r),            // in front
                1 => rng.range(-r, r),           // mixed sign, possibly zero
                2 => -rng.range(1, r),           // behind
                _ => rng.range(-r / 4, r),
            };
            let c = |rng: &mut Rng| match rng.below(6) {
                0 => w,                           // exactly on a plane
                1 => -w,
                2 => rng.range(-w.abs(), w.abs()), // inside
                _ => rng.range(-r, r),
            };
            *v = [c(rng), c(rng), c(rng), w];
        }
        if independent(&t) {
            return t;
        }
    }
}

fn tri_json(rng: &mut Rng, t: [[i64; 4]; 3]) -> Value {
    let a: Vec<[i64; 2]> = (0..3).map(|_| [rng.range(-64, 64), rng.range(-64, 64)]).collect();
    json!({"t": t, "a": a})
}

pub fn gen(args: &Args, out: &mut dyn Write) {
    let thorough = args.tier == "thorough";
    let n = args.n.unwrap_or(if thorough { 300_000 } else { 25_000 });
    let mut rng = Rng::new(args.seed ^ 0xC11F);
    for i in 0..n {
        let r = *rng.pick(&[4i64, 8, 16, 16]);
        let mut t = gen_tri(&mut rng, r);
        // every 50th: a triangle cut by ALL six planes, each of its edges contributing a side too - what
        // remains has nine corners: (k, 0, -k), (-k, k, 0), (0, -k, k) with 1 < k < 2, in units of w / 4
        if i % 50 == 9 {
            let w = *rng.pick(&[4i64, 8, 12]);
            let k = w + rng.range(1, w - 1);
            t = [[k, 0, -k, w], [-k, k, 0, w], [0, -k, k, w]];
            let rot = rng.below(3) as usize;
            t.rotate_left(rot);
            if rng.chance(1, 2) { t.swap(1, 2); }
            if rng.chance(1, 2) { for v in t.iter_mut() { v[0] = -v[0]; } }
        }
        let mut c = tri_json(&mut rng, t);
        // (every 40th call is a long one: more than 64, 128 triangles)
        let nb = if i % 40 == 17 { rng.range(64, 140) as usize } else { rng.below(5) as usize };
        let others: Vec<Value> = (0..nb).map(|_| { let o = gen_tri(&mut rng, r); tri_json(&mut rng, o) }).collect();
        // every third call: a neighbour sharing an edge with the triangle (same two positions, its own
        // attributes: a seam) is clipped right after or right before it
        let mut others = others;
        let mut pos = rng.below(nb as u64 + 1) as usize;
        if i % 3 == 1 {
            let (ea, eb) = *rng.pick(&[(0usize, 1usize), (1, 2), (2, 0)]);
            let third = gen_tri(&mut rng, r)[0];
            let nbr = tri_json(&mut rng, [t[eb], t[ea], third]);
            if rng.chance(1, 2) { others.insert(pos, nbr); } else { others.insert(pos, nbr); pos += 1; }
        }
        let o = c.as_object_mut().unwrap();
        o.insert("k".into(), json!(format!("c{}-{}", args.seed, i)));
        o.insert("others".into(), json!(others));
        o.insert("pos".into(), json!(pos));
        // homogeneous scale 2^sc of the whole call (tiny, ordinary and large coordinates)
        o.insert("sc".into(), json!([0i64, 0, -30, 0, 20, -12][(i % 6) as usize]));
        // which entry point / plane order (every 5th call: the public Clip::clip with reordered planes)
        o.insert("at".into(), json!(["vec2", "col3", "ang", "tup"][(i % 4) as usize]));
        o.insert("po".into(), json!(if i % 5 == 4 { 1 + (i / 5) % 3 } else { 0 }));
        writeln!(out, "{c}").unwrap();
    }
}
