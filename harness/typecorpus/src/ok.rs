#![allow(unused)]
fn mk<T>() -> T { unimplemented!() }

pub fn p2() {
    let a: re::math::angle::Angle = mk();
    let b: re::math::angle::Angle = mk();
    let _ = a + b;
}

pub fn p3() {
    let a: re::math::angle::Angle = mk();
    let b: re::math::angle::Angle = mk();
    let _ = a % b;
}

pub fn p4() {
    let a: re::math::angle::Angle = mk();
    let b: re::math::angle::Angle = mk();
    let _ = a - b;
}

pub fn p8() {
    let a: re::math::angle::Angle = mk();
    let b: f32 = mk();
    let _ = a / b;
}

pub fn p9() {
    let a: re::math::angle::Angle = mk();
    let b: f32 = mk();
    let _ = a * b;
}

pub fn p10() {
    let a: re::math::angle::Angle = mk();
    let _ = re::math::angle::polar(1.0, a);
}

pub fn p11() {
    let a: re::math::angle::Angle = mk();
    let _ = re::math::mat::rotate_x(a);
}

pub fn p12() {
    let a: re::math::angle::Angle = mk();
    let _ = re::math::angle::Angle::sin(a);
}

pub fn p13() {
    let a: re::math::color::Color3f<re::math::color::Hsl> = mk();
    let b: re::math::color::Color3f<re::math::color::Hsl> = mk();
    let c: re::math::color::Color3f<re::math::color::Hsl> = mk();
    let d = re::math::space::Affine::sub(&a, &b);
    let _ = re::math::space::Affine::add(&c, &d);
}

pub fn p17() {
    let a: re::math::color::Color3f<re::math::color::Hsl> = mk();
    let b: re::math::color::Color3f<re::math::color::Hsl> = mk();
    let _ = re::math::space::Affine::add(&a, &b);
}

pub fn p18() {
    let a: re::math::color::Color3f<re::math::color::Hsl> = mk();
    let b: re::math::color::Color3f<re::math::color::Hsl> = mk();
    let _ = re::math::space::Affine::sub(&a, &b);
}

pub fn p19() {
    let a: re::math::color::Color3f<re::math::color::Hsl> = mk();
    let b: re::math::color::Color3f<re::math::color::Hsl> = mk();
    let _ = re::math::Lerp::lerp(&a, &b, 0.5);
}

pub fn p38() {
    let a: re::math::color::Color3f<re::math::color::Hsl> = mk();
    let _ = a.to_rgb();
}

pub fn p47() {
    let a: re::math::color::Color3f<re::math::color::LinRgb> = mk();
    let b: re::math::color::Color3f<re::math::color::LinRgb> = mk();
    let _ = re::math::space::Affine::add(&a, &b);
}

pub fn p48() {
    let a: re::math::color::Color3f<re::math::color::LinRgb> = mk();
    let b: re::math::color::Color3f<re::math::color::LinRgb> = mk();
    let _ = re::math::space::Affine::sub(&a, &b);
}

pub fn p49() {
    let a: re::math::color::Color3f<re::math::color::LinRgb> = mk();
    let b: re::math::color::Color3f<re::math::color::LinRgb> = mk();
    let _ = re::math::Lerp::lerp(&a, &b, 0.5);
}

pub fn p53() {
    let a: re::math::color::Color3f<re::math::color::LinRgb> = mk();
    let _ = a.to_srgb();
}

pub fn p70() {
    let a: re::math::color::Color3f<re::math::color::Rgb> = mk();
    let b: re::math::color::Color3f<re::math::color::Rgb> = mk();
    let c: re::math::color::Color3f<re::math::color::Rgb> = mk();
    let d = re::math::space::Affine::sub(&a, &b);
    let _ = re::math::space::Affine::add(&c, &d);
}

pub fn p73() {
    let a: re::math::color::Color3f<re::math::color::Rgb> = mk();
    let b: re::math::color::Color3f<re::math::color::Rgb> = mk();
    let _ = re::math::space::Affine::add(&a, &b);
}

pub fn p74() {
    let a: re::math::color::Color3f<re::math::color::Rgb> = mk();
    let b: re::math::color::Color3f<re::math::color::Rgb> = mk();
    let _ = re::math::space::Affine::sub(&a, &b);
}

pub fn p75() {
    let a: re::math::color::Color3f<re::math::color::Rgb> = mk();
    let b: re::math::color::Color3f<re::math::color::Rgb> = mk();
    let _ = re::math::Lerp::lerp(&a, &b, 0.5);
}

pub fn p84() {
    let a: re::math::color::Color3f<re::math::color::Rgb> = mk();
    let _ = a.to_color3();
}

pub fn p85() {
    let a: re::math::color::Color3f<re::math::color::Rgb> = mk();
    let _ = a.to_hsl();
}

pub fn p86() {
    let a: re::math::color::Color3f<re::math::color::Rgb> = mk();
    let _ = a.to_linear();
}

pub fn p87() {
    let a: re::math::color::Color3f<re::math::color::Rgb> = mk();
    let _ = a.to_rgba();
}

pub fn p100() {
    let a: re::math::color::Color3<re::math::color::Hsl> = mk();
    let b: re::math::color::Color3<re::math::color::Hsl> = mk();
    let c: re::math::color::Color3<re::math::color::Hsl> = mk();
    let d = re::math::space::Affine::sub(&a, &b);
    let _ = re::math::space::Affine::add(&c, &d);
}

pub fn p106() {
    let a: re::math::color::Color3<re::math::color::Hsl> = mk();
    let _ = a.to_rgb();
}

pub fn p127() {
    let a: re::math::color::Color3<re::math::color::Rgb> = mk();
    let b: re::math::color::Color3<re::math::color::Rgb> = mk();
    let c: re::math::color::Color3<re::math::color::Rgb> = mk();
    let d = re::math::space::Affine::sub(&a, &b);
    let _ = re::math::space::Affine::add(&c, &d);
}

pub fn p128() {
    let a: re::math::color::Color3<re::math::color::Rgb> = mk();
    let _ = a.to_hsl();
}

pub fn p129() {
    let a: re::math::color::Color3<re::math::color::Rgb> = mk();
    let _ = a.to_rgba();
}

pub fn p137() {
    let a: f32 = mk();
    let b: f32 = mk();
    let _ = a + b;
}

pub fn p138() {
    let a: f32 = mk();
    let b: f32 = mk();
    let _ = a % b;
}

pub fn p139() {
    let a: f32 = mk();
    let b: f32 = mk();
    let _ = a - b;
}

pub fn p143() {
    let a: re::math::mat::Mat3x3<re::math::mat::RealToReal<2, re::render::Model, re::render::Model>> = mk();
    let b: re::math::point::Point2<re::render::Model> = mk();
    let _r: re::math::point::Point2<re::render::Model> = a.apply_pt(&b);
}

pub fn p147() {
    let a: re::math::mat::Mat3x3<re::math::mat::RealToReal<2, re::render::Model, re::render::Model>> = mk();
    let b: re::math::vec::Vec2<re::render::Model> = mk();
    let _r: re::math::vec::Vec2<re::render::Model> = a.apply(&b);
}

pub fn p149() {
    let a: re::math::mat::Mat3x3<re::math::mat::RealToReal<2, re::render::Model, re::render::Model>> = mk();
    let b: re::math::vec::Vec2<re::render::Model> = mk();
    let _ = a.apply(&b);
}

pub fn p156() {
    let a: re::math::mat::Mat3x3<re::math::mat::RealToReal<2, re::render::Model, re::render::World>> = mk();
    let b: re::math::point::Point2<re::render::Model> = mk();
    let _r: re::math::point::Point2<re::render::World> = a.apply_pt(&b);
}

pub fn p160() {
    let a: re::math::mat::Mat3x3<re::math::mat::RealToReal<2, re::render::Model, re::render::World>> = mk();
    let b: re::math::vec::Vec2<re::render::Model> = mk();
    let _r: re::math::vec::Vec2<re::render::World> = a.apply(&b);
}

pub fn p161() {
    let a: re::math::mat::Mat3x3<re::math::mat::RealToReal<2, re::render::Model, re::render::World>> = mk();
    let b: re::math::vec::Vec2<re::render::Model> = mk();
    let _ = a.apply(&b);
}

pub fn p169() {
    let a: re::math::mat::Mat3x3<re::math::mat::RealToReal<2, re::render::World, re::render::Model>> = mk();
    let b: re::math::point::Point2<re::render::World> = mk();
    let _r: re::math::point::Point2<re::render::Model> = a.apply_pt(&b);
}

pub fn p174() {
    let a: re::math::mat::Mat3x3<re::math::mat::RealToReal<2, re::render::World, re::render::Model>> = mk();
    let b: re::math::vec::Vec2<re::render::World> = mk();
    let _r: re::math::vec::Vec2<re::render::Model> = a.apply(&b);
}

pub fn p176() {
    let a: re::math::mat::Mat3x3<re::math::mat::RealToReal<2, re::render::World, re::render::Model>> = mk();
    let b: re::math::vec::Vec2<re::render::World> = mk();
    let _ = a.apply(&b);
}

pub fn p182() {
    let a: re::math::mat::Mat3x3<re::math::mat::RealToReal<2, re::render::World, re::render::World>> = mk();
    let b: re::math::point::Point2<re::render::World> = mk();
    let _r: re::math::point::Point2<re::render::World> = a.apply_pt(&b);
}

pub fn p187() {
    let a: re::math::mat::Mat3x3<re::math::mat::RealToReal<2, re::render::World, re::render::World>> = mk();
    let b: re::math::vec::Vec2<re::render::World> = mk();
    let _r: re::math::vec::Vec2<re::render::World> = a.apply(&b);
}

pub fn p188() {
    let a: re::math::mat::Mat3x3<re::math::mat::RealToReal<2, re::render::World, re::render::World>> = mk();
    let b: re::math::vec::Vec2<re::render::World> = mk();
    let _ = a.apply(&b);
}

pub fn p191() {
    let a: re::math::mat::Mat4x4<re::math::mat::RealToReal<3, re::render::Model, re::render::Model>> = mk();
    let b: re::math::mat::Mat4x4<re::math::mat::RealToReal<3, re::render::Model, re::render::Model>> = mk();
    let _r: re::math::mat::Mat4x4<re::math::mat::RealToReal<3, re::render::Model, re::render::Model>> = a.compose(&b);
}

pub fn p195() {
    let a: re::math::mat::Mat4x4<re::math::mat::RealToReal<3, re::render::Model, re::render::Model>> = mk();
    let b: re::math::mat::Mat4x4<re::math::mat::RealToReal<3, re::render::Model, re::render::Model>> = mk();
    let _ = a.compose(&b);
}

pub fn p196() {
    let a: re::math::mat::Mat4x4<re::math::mat::RealToReal<3, re::render::Model, re::render::Model>> = mk();
    let b: re::math::mat::Mat4x4<re::math::mat::RealToReal<3, re::render::Model, re::render::Model>> = mk();
    let _ = a.then(&b);
}

pub fn p198() {
    let a: re::math::mat::Mat4x4<re::math::mat::RealToReal<3, re::render::Model, re::render::Model>> = mk();
    let b: re::math::mat::Mat4x4<re::math::mat::RealToReal<3, re::render::Model, ()>> = mk();
    let _ = a.then(&b);
}

pub fn p204() {
    let a: re::math::mat::Mat4x4<re::math::mat::RealToReal<3, re::render::Model, re::render::Model>> = mk();
    let b: re::math::mat::Mat4x4<re::math::mat::RealToReal<3, re::render::Model, re::render::World>> = mk();
    let _ = a.then(&b);
}

pub fn p206() {
    let a: re::math::mat::Mat4x4<re::math::mat::RealToReal<3, re::render::Model, re::render::Model>> = mk();
    let b: re::math::mat::Mat4x4<re::math::mat::RealToReal<3, (), re::render::Model>> = mk();
    let _ = a.compose(&b);
}

pub fn p213() {
    let a: re::math::mat::Mat4x4<re::math::mat::RealToReal<3, re::render::Model, re::render::Model>> = mk();
    let b: re::math::mat::Mat4x4<re::math::mat::RealToReal<3, re::render::World, re::render::Model>> = mk();
    let _r: re::math::mat::Mat4x4<re::math::mat::RealToReal<3, re::render::World, re::render::Model>> = a.compose(&b);
}

pub fn p216() {
    let a: re::math::mat::Mat4x4<re::math::mat::RealToReal<3, re::render::Model, re::render::Model>> = mk();
    let b: re::math::mat::Mat4x4<re::math::mat::RealToReal<3, re::render::World, re::render::Model>> = mk();
    let _ = a.compose(&b);
}

pub fn p226() {
    let a: re::math::mat::Mat4x4<re::math::mat::RealToReal<3, re::render::Model, re::render::Model>> = mk();
    let b: re::math::mat::Mat4x4<re::math::mat::RealToProj<re::render::Model>> = mk();
    let _ = a.then(&b);
}

pub fn p234() {
    let a: re::math::mat::Mat4x4<re::math::mat::RealToReal<3, re::render::Model, re::render::Model>> = mk();
    let b: re::math::point::Point3<re::render::Model> = mk();
    let _r: re::math::point::Point3<re::render::Model> = a.apply_pt(&b);
}

pub fn p237() {
    let a: re::math::mat::Mat4x4<re::math::mat::RealToReal<3, re::render::Model, re::render::Model>> = mk();
    let b: re::math::point::Point3<re::render::Model> = mk();
    let _ = a.apply_pt(&b);
}

pub fn p249() {
    let a: re::math::mat::Mat4x4<re::math::mat::RealToReal<3, re::render::Model, re::render::Model>> = mk();
    let b: re::math::vec::Vec3<re::render::Model> = mk();
    let _r: re::math::vec::Vec3<re::render::Model> = a.apply(&b);
}

pub fn p252() {
    let a: re::math::mat::Mat4x4<re::math::mat::RealToReal<3, re::render::Model, re::render::Model>> = mk();
    let b: re::math::vec::Vec3<re::render::Model> = mk();
    let _ = a.apply(&b);
}

pub fn p261() {
    let a: re::math::mat::Mat4x4<re::math::mat::RealToReal<3, re::render::Model, re::render::Model>> = mk();
    let _ = a.determinant();
}

pub fn p262() {
    let a: re::math::mat::Mat4x4<re::math::mat::RealToReal<3, re::render::Model, re::render::Model>> = mk();
    let _ = a.inverse();
}

pub fn p263() {
    let a: re::math::mat::Mat4x4<re::math::mat::RealToReal<3, re::render::Model, re::render::Model>> = mk();
    let _ = a.transpose();
}

pub fn p265() {
    let a: re::math::mat::Mat4x4<re::math::mat::RealToReal<3, re::render::Model, ()>> = mk();
    let b: re::math::mat::Mat4x4<re::math::mat::RealToReal<3, re::render::Model, re::render::Model>> = mk();
    let _ = a.compose(&b);
}

pub fn p270() {
    let a: re::math::mat::Mat4x4<re::math::mat::RealToReal<3, re::render::Model, ()>> = mk();
    let b: re::math::mat::Mat4x4<re::math::mat::RealToReal<3, (), re::render::Model>> = mk();
    let _ = a.compose(&b);
}

pub fn p271() {
    let a: re::math::mat::Mat4x4<re::math::mat::RealToReal<3, re::render::Model, ()>> = mk();
    let b: re::math::mat::Mat4x4<re::math::mat::RealToReal<3, (), re::render::Model>> = mk();
    let _ = a.then(&b);
}

pub fn p273() {
    let a: re::math::mat::Mat4x4<re::math::mat::RealToReal<3, re::render::Model, ()>> = mk();
    let b: re::math::mat::Mat4x4<re::math::mat::RealToReal<3, (), ()>> = mk();
    let _ = a.then(&b);
}

pub fn p275() {
    let a: re::math::mat::Mat4x4<re::math::mat::RealToReal<3, re::render::Model, ()>> = mk();
    let b: re::math::mat::Mat4x4<re::math::mat::RealToReal<3, (), re::render::World>> = mk();
    let _ = a.then(&b);
}

pub fn p277() {
    let a: re::math::mat::Mat4x4<re::math::mat::RealToReal<3, re::render::Model, ()>> = mk();
    let b: re::math::mat::Mat4x4<re::math::mat::RealToReal<3, re::render::World, re::render::Model>> = mk();
    let _ = a.compose(&b);
}

pub fn p285() {
    let a: re::math::mat::Mat4x4<re::math::mat::RealToReal<3, re::render::Model, ()>> = mk();
    let b: re::math::mat::Mat4x4<re::math::mat::RealToProj<()>> = mk();
    let _ = a.then(&b);
}

pub fn p292() {
    let a: re::math::mat::Mat4x4<re::math::mat::RealToReal<3, re::render::Model, ()>> = mk();
    let b: re::math::point::Point3<re::render::Model> = mk();
    let _r: re::math::point::Point3<()> = a.apply_pt(&b);
}

pub fn p294() {
    let a: re::math::mat::Mat4x4<re::math::mat::RealToReal<3, re::render::Model, ()>> = mk();
    let b: re::math::point::Point3<re::render::Model> = mk();
    let _ = a.apply_pt(&b);
}

pub fn p307() {
    let a: re::math::mat::Mat4x4<re::math::mat::RealToReal<3, re::render::Model, ()>> = mk();
    let b: re::math::vec::Vec3<re::render::Model> = mk();
    let _r: re::math::vec::Vec3<()> = a.apply(&b);
}

pub fn p309() {
    let a: re::math::mat::Mat4x4<re::math::mat::RealToReal<3, re::render::Model, ()>> = mk();
    let b: re::math::vec::Vec3<re::render::Model> = mk();
    let _ = a.apply(&b);
}

pub fn p318() {
    let a: re::math::mat::Mat4x4<re::math::mat::RealToReal<3, re::render::Model, ()>> = mk();
    let _ = a.determinant();
}

pub fn p319() {
    let a: re::math::mat::Mat4x4<re::math::mat::RealToReal<3, re::render::Model, ()>> = mk();
    let _ = a.inverse();
}

pub fn p320() {
    let a: re::math::mat::Mat4x4<re::math::mat::RealToReal<3, re::render::Model, ()>> = mk();
    let _ = a.transpose();
}

pub fn p322() {
    let a: re::math::mat::Mat4x4<re::math::mat::RealToReal<3, re::render::Model, re::render::World>> = mk();
    let b: re::math::mat::Mat4x4<re::math::mat::RealToReal<3, re::render::Model, re::render::Model>> = mk();
    let _r: re::math::mat::Mat4x4<re::math::mat::RealToReal<3, re::render::Model, re::render::World>> = a.compose(&b);
}

pub fn p326() {
    let a: re::math::mat::Mat4x4<re::math::mat::RealToReal<3, re::render::Model, re::render::World>> = mk();
    let b: re::math::mat::Mat4x4<re::math::mat::RealToReal<3, re::render::Model, re::render::Model>> = mk();
    let _ = a.compose(&b);
}

pub fn p336() {
    let a: re::math::mat::Mat4x4<re::math::mat::RealToReal<3, re::render::Model, re::render::World>> = mk();
    let b: re::math::mat::Mat4x4<re::math::mat::RealToReal<3, (), re::render::Model>> = mk();
    let _ = a.compose(&b);
}

pub fn p344() {
    let a: re::math::mat::Mat4x4<re::math::mat::RealToReal<3, re::render::Model, re::render::World>> = mk();
    let b: re::math::mat::Mat4x4<re::math::mat::RealToReal<3, re::render::World, re::render::Model>> = mk();
    let _r: re::math::mat::Mat4x4<re::math::mat::RealToReal<3, re::render::World, re::render::World>> = a.compose(&b);
}

pub fn p345() {
    let a: re::math::mat::Mat4x4<re::math::mat::RealToReal<3, re::render::Model, re::render::World>> = mk();
    let b: re::math::mat::Mat4x4<re::math::mat::RealToReal<3, re::render::World, re::render::Model>> = mk();
    let _ = a.compose(&b);
}

pub fn p346() {
    let a: re::math::mat::Mat4x4<re::math::mat::RealToReal<3, re::render::Model, re::render::World>> = mk();
    let b: re::math::mat::Mat4x4<re::math::mat::RealToReal<3, re::render::World, re::render::Model>> = mk();
    let _ = a.then(&b);
}

pub fn p348() {
    let a: re::math::mat::Mat4x4<re::math::mat::RealToReal<3, re::render::Model, re::render::World>> = mk();
    let b: re::math::mat::Mat4x4<re::math::mat::RealToReal<3, re::render::World, ()>> = mk();
    let _ = a.then(&b);
}

pub fn p354() {
    let a: re::math::mat::Mat4x4<re::math::mat::RealToReal<3, re::render::Model, re::render::World>> = mk();
    let b: re::math::mat::Mat4x4<re::math::mat::RealToReal<3, re::render::World, re::render::World>> = mk();
    let _ = a.then(&b);
}

pub fn p360() {
    let a: re::math::mat::Mat4x4<re::math::mat::RealToReal<3, re::render::Model, re::render::World>> = mk();
    let b: re::math::mat::Mat4x4<re::math::mat::RealToProj<re::render::World>> = mk();
    let _ = a.then(&b);
}

pub fn p366() {
    let a: re::math::mat::Mat4x4<re::math::mat::RealToReal<3, re::render::Model, re::render::World>> = mk();
    let b: re::math::point::Point3<re::render::Model> = mk();
    let _r: re::math::point::Point3<re::render::World> = a.apply_pt(&b);
}

pub fn p367() {
    let a: re::math::mat::Mat4x4<re::math::mat::RealToReal<3, re::render::Model, re::render::World>> = mk();
    let b: re::math::point::Point3<re::render::Model> = mk();
    let _ = a.apply_pt(&b);
}

pub fn p381() {
    let a: re::math::mat::Mat4x4<re::math::mat::RealToReal<3, re::render::Model, re::render::World>> = mk();
    let b: re::math::vec::Vec3<re::render::Model> = mk();
    let _r: re::math::vec::Vec3<re::render::World> = a.apply(&b);
}

pub fn p382() {
    let a: re::math::mat::Mat4x4<re::math::mat::RealToReal<3, re::render::Model, re::render::World>> = mk();
    let b: re::math::vec::Vec3<re::render::Model> = mk();
    let _ = a.apply(&b);
}

pub fn p391() {
    let a: re::math::mat::Mat4x4<re::math::mat::RealToReal<3, re::render::Model, re::render::World>> = mk();
    let _ = a.determinant();
}

pub fn p392() {
    let a: re::math::mat::Mat4x4<re::math::mat::RealToReal<3, re::render::Model, re::render::World>> = mk();
    let _ = a.inverse();
}

pub fn p393() {
    let a: re::math::mat::Mat4x4<re::math::mat::RealToReal<3, re::render::Model, re::render::World>> = mk();
    let _ = a.transpose();
}

pub fn p395() {
    let a: re::math::mat::Mat4x4<re::math::mat::RealToReal<3, (), re::render::Model>> = mk();
    let b: re::math::mat::Mat4x4<re::math::mat::RealToReal<3, re::render::Model, re::render::Model>> = mk();
    let _ = a.then(&b);
}

pub fn p396() {
    let a: re::math::mat::Mat4x4<re::math::mat::RealToReal<3, (), re::render::Model>> = mk();
    let b: re::math::mat::Mat4x4<re::math::mat::RealToReal<3, re::render::Model, ()>> = mk();
    let _ = a.compose(&b);
}

pub fn p397() {
    let a: re::math::mat::Mat4x4<re::math::mat::RealToReal<3, (), re::render::Model>> = mk();
    let b: re::math::mat::Mat4x4<re::math::mat::RealToReal<3, re::render::Model, ()>> = mk();
    let _ = a.then(&b);
}

pub fn p399() {
    let a: re::math::mat::Mat4x4<re::math::mat::RealToReal<3, (), re::render::Model>> = mk();
    let b: re::math::mat::Mat4x4<re::math::mat::RealToReal<3, re::render::Model, re::render::World>> = mk();
    let _ = a.then(&b);
}

pub fn p403() {
    let a: re::math::mat::Mat4x4<re::math::mat::RealToReal<3, (), re::render::Model>> = mk();
    let b: re::math::mat::Mat4x4<re::math::mat::RealToReal<3, (), ()>> = mk();
    let _ = a.compose(&b);
}

pub fn p409() {
    let a: re::math::mat::Mat4x4<re::math::mat::RealToReal<3, (), re::render::Model>> = mk();
    let b: re::math::mat::Mat4x4<re::math::mat::RealToReal<3, re::render::World, ()>> = mk();
    let _ = a.compose(&b);
}

pub fn p413() {
    let a: re::math::mat::Mat4x4<re::math::mat::RealToReal<3, (), re::render::Model>> = mk();
    let b: re::math::mat::Mat4x4<re::math::mat::RealToProj<re::render::Model>> = mk();
    let _ = a.then(&b);
}

pub fn p425() {
    let a: re::math::mat::Mat4x4<re::math::mat::RealToReal<3, (), re::render::Model>> = mk();
    let b: re::math::point::Point3<()> = mk();
    let _r: re::math::point::Point3<re::render::Model> = a.apply_pt(&b);
}

pub fn p428() {
    let a: re::math::mat::Mat4x4<re::math::mat::RealToReal<3, (), re::render::Model>> = mk();
    let b: re::math::point::Point3<()> = mk();
    let _ = a.apply_pt(&b);
}

pub fn p440() {
    let a: re::math::mat::Mat4x4<re::math::mat::RealToReal<3, (), re::render::Model>> = mk();
    let b: re::math::vec::Vec3<()> = mk();
    let _r: re::math::vec::Vec3<re::render::Model> = a.apply(&b);
}

pub fn p443() {
    let a: re::math::mat::Mat4x4<re::math::mat::RealToReal<3, (), re::render::Model>> = mk();
    let b: re::math::vec::Vec3<()> = mk();
    let _ = a.apply(&b);
}

pub fn p448() {
    let a: re::math::mat::Mat4x4<re::math::mat::RealToReal<3, (), re::render::Model>> = mk();
    let _ = a.determinant();
}

pub fn p449() {
    let a: re::math::mat::Mat4x4<re::math::mat::RealToReal<3, (), re::render::Model>> = mk();
    let _ = a.inverse();
}

pub fn p450() {
    let a: re::math::mat::Mat4x4<re::math::mat::RealToReal<3, (), re::render::Model>> = mk();
    let _ = a.transpose();
}

pub fn p454() {
    let a: re::math::mat::Mat4x4<re::math::mat::RealToReal<3, (), ()>> = mk();
    let b: re::math::mat::Mat4x4<re::math::mat::RealToReal<3, re::render::Model, ()>> = mk();
    let _ = a.compose(&b);
}

pub fn p458() {
    let a: re::math::mat::Mat4x4<re::math::mat::RealToReal<3, (), ()>> = mk();
    let b: re::math::mat::Mat4x4<re::math::mat::RealToReal<3, (), re::render::Model>> = mk();
    let _ = a.then(&b);
}

pub fn p459() {
    let a: re::math::mat::Mat4x4<re::math::mat::RealToReal<3, (), ()>> = mk();
    let b: re::math::mat::Mat4x4<re::math::mat::RealToReal<3, (), ()>> = mk();
    let _ = a.compose(&b);
}

pub fn p460() {
    let a: re::math::mat::Mat4x4<re::math::mat::RealToReal<3, (), ()>> = mk();
    let b: re::math::mat::Mat4x4<re::math::mat::RealToReal<3, (), ()>> = mk();
    let _ = a.then(&b);
}

pub fn p462() {
    let a: re::math::mat::Mat4x4<re::math::mat::RealToReal<3, (), ()>> = mk();
    let b: re::math::mat::Mat4x4<re::math::mat::RealToReal<3, (), re::render::World>> = mk();
    let _ = a.then(&b);
}

pub fn p466() {
    let a: re::math::mat::Mat4x4<re::math::mat::RealToReal<3, (), ()>> = mk();
    let b: re::math::mat::Mat4x4<re::math::mat::RealToReal<3, re::render::World, ()>> = mk();
    let _ = a.compose(&b);
}

pub fn p472() {
    let a: re::math::mat::Mat4x4<re::math::mat::RealToReal<3, (), ()>> = mk();
    let b: re::math::mat::Mat4x4<re::math::mat::RealToProj<()>> = mk();
    let _ = a.then(&b);
}

pub fn p483() {
    let a: re::math::mat::Mat4x4<re::math::mat::RealToReal<3, (), ()>> = mk();
    let b: re::math::point::Point3<()> = mk();
    let _r: re::math::point::Point3<()> = a.apply_pt(&b);
}

pub fn p485() {
    let a: re::math::mat::Mat4x4<re::math::mat::RealToReal<3, (), ()>> = mk();
    let b: re::math::point::Point3<()> = mk();
    let _ = a.apply_pt(&b);
}

pub fn p498() {
    let a: re::math::mat::Mat4x4<re::math::mat::RealToReal<3, (), ()>> = mk();
    let b: re::math::vec::Vec3<()> = mk();
    let _r: re::math::vec::Vec3<()> = a.apply(&b);
}

pub fn p500() {
    let a: re::math::mat::Mat4x4<re::math::mat::RealToReal<3, (), ()>> = mk();
    let b: re::math::vec::Vec3<()> = mk();
    let _ = a.apply(&b);
}

pub fn p505() {
    let a: re::math::mat::Mat4x4<re::math::mat::RealToReal<3, (), ()>> = mk();
    let _ = a.determinant();
}

pub fn p506() {
    let a: re::math::mat::Mat4x4<re::math::mat::RealToReal<3, (), ()>> = mk();
    let _ = a.inverse();
}

pub fn p507() {
    let a: re::math::mat::Mat4x4<re::math::mat::RealToReal<3, (), ()>> = mk();
    let _ = a.transpose();
}

pub fn p511() {
    let a: re::math::mat::Mat4x4<re::math::mat::RealToReal<3, (), re::render::World>> = mk();
    let b: re::math::mat::Mat4x4<re::math::mat::RealToReal<3, re::render::Model, ()>> = mk();
    let _ = a.compose(&b);
}

pub fn p517() {
    let a: re::math::mat::Mat4x4<re::math::mat::RealToReal<3, (), re::render::World>> = mk();
    let b: re::math::mat::Mat4x4<re::math::mat::RealToReal<3, (), ()>> = mk();
    let _ = a.compose(&b);
}

pub fn p521() {
    let a: re::math::mat::Mat4x4<re::math::mat::RealToReal<3, (), re::render::World>> = mk();
    let b: re::math::mat::Mat4x4<re::math::mat::RealToReal<3, re::render::World, re::render::Model>> = mk();
    let _ = a.then(&b);
}

pub fn p522() {
    let a: re::math::mat::Mat4x4<re::math::mat::RealToReal<3, (), re::render::World>> = mk();
    let b: re::math::mat::Mat4x4<re::math::mat::RealToReal<3, re::render::World, ()>> = mk();
    let _ = a.compose(&b);
}

pub fn p523() {
    let a: re::math::mat::Mat4x4<re::math::mat::RealToReal<3, (), re::render::World>> = mk();
    let b: re::math::mat::Mat4x4<re::math::mat::RealToReal<3, re::render::World, ()>> = mk();
    let _ = a.then(&b);
}

pub fn p525() {
    let a: re::math::mat::Mat4x4<re::math::mat::RealToReal<3, (), re::render::World>> = mk();
    let b: re::math::mat::Mat4x4<re::math::mat::RealToReal<3, re::render::World, re::render::World>> = mk();
    let _ = a.then(&b);
}

pub fn p531() {
    let a: re::math::mat::Mat4x4<re::math::mat::RealToReal<3, (), re::render::World>> = mk();
    let b: re::math::mat::Mat4x4<re::math::mat::RealToProj<re::render::World>> = mk();
    let _ = a.then(&b);
}

pub fn p541() {
    let a: re::math::mat::Mat4x4<re::math::mat::RealToReal<3, (), re::render::World>> = mk();
    let b: re::math::point::Point3<()> = mk();
    let _r: re::math::point::Point3<re::render::World> = a.apply_pt(&b);
}

pub fn p542() {
    let a: re::math::mat::Mat4x4<re::math::mat::RealToReal<3, (), re::render::World>> = mk();
    let b: re::math::point::Point3<()> = mk();
    let _ = a.apply_pt(&b);
}

pub fn p556() {
    let a: re::math::mat::Mat4x4<re::math::mat::RealToReal<3, (), re::render::World>> = mk();
    let b: re::math::vec::Vec3<()> = mk();
    let _r: re::math::vec::Vec3<re::render::World> = a.apply(&b);
}

pub fn p557() {
    let a: re::math::mat::Mat4x4<re::math::mat::RealToReal<3, (), re::render::World>> = mk();
    let b: re::math::vec::Vec3<()> = mk();
    let _ = a.apply(&b);
}

pub fn p562() {
    let a: re::math::mat::Mat4x4<re::math::mat::RealToReal<3, (), re::render::World>> = mk();
    let _ = a.determinant();
}

pub fn p563() {
    let a: re::math::mat::Mat4x4<re::math::mat::RealToReal<3, (), re::render::World>> = mk();
    let _ = a.inverse();
}

pub fn p564() {
    let a: re::math::mat::Mat4x4<re::math::mat::RealToReal<3, (), re::render::World>> = mk();
    let _ = a.transpose();
}

pub fn p565() {
    let a: re::math::mat::Mat4x4<re::math::mat::RealToReal<3, crate::UserTag, crate::UserTag>> = mk();
    let b: re::math::mat::Mat4x4<re::math::mat::RealToReal<3, crate::UserTag, crate::UserTag>> = mk();
    let _ = a.compose(&b);
}

pub fn p566() {
    let a: re::math::mat::Mat4x4<re::math::mat::RealToReal<3, crate::UserTag, crate::UserTag>> = mk();
    let b: re::math::mat::Mat4x4<re::math::mat::RealToReal<3, crate::UserTag, crate::UserTag>> = mk();
    let _ = a.then(&b);
}

pub fn p568() {
    let a: re::math::mat::Mat4x4<re::math::mat::RealToReal<3, crate::UserTag, crate::UserTag>> = mk();
    let b: re::math::mat::Mat4x4<re::math::mat::RealToReal<3, crate::UserTag, re::render::World>> = mk();
    let _ = a.then(&b);
}

pub fn p570() {
    let a: re::math::mat::Mat4x4<re::math::mat::RealToReal<3, crate::UserTag, crate::UserTag>> = mk();
    let b: re::math::mat::Mat4x4<re::math::mat::RealToReal<3, re::render::World, crate::UserTag>> = mk();
    let _ = a.compose(&b);
}

pub fn p571() {
    let a: re::math::mat::Mat4x4<re::math::mat::RealToReal<3, crate::UserTag, crate::UserTag>> = mk();
    let b: re::math::point::Point3<crate::UserTag> = mk();
    let _ = a.apply_pt(&b);
}

pub fn p573() {
    let a: re::math::mat::Mat4x4<re::math::mat::RealToReal<3, crate::UserTag, crate::UserTag>> = mk();
    let b: re::math::vec::Vec3<crate::UserTag> = mk();
    let _ = a.apply(&b);
}

pub fn p575() {
    let a: re::math::mat::Mat4x4<re::math::mat::RealToReal<3, crate::UserTag, crate::UserTag>> = mk();
    let _ = a.determinant();
}

pub fn p576() {
    let a: re::math::mat::Mat4x4<re::math::mat::RealToReal<3, crate::UserTag, crate::UserTag>> = mk();
    let _ = a.inverse();
}

pub fn p577() {
    let a: re::math::mat::Mat4x4<re::math::mat::RealToReal<3, crate::UserTag, crate::UserTag>> = mk();
    let _ = a.transpose();
}

pub fn p579() {
    let a: re::math::mat::Mat4x4<re::math::mat::RealToReal<3, crate::UserTag, re::render::World>> = mk();
    let b: re::math::mat::Mat4x4<re::math::mat::RealToReal<3, crate::UserTag, crate::UserTag>> = mk();
    let _ = a.compose(&b);
}

pub fn p582() {
    let a: re::math::mat::Mat4x4<re::math::mat::RealToReal<3, crate::UserTag, re::render::World>> = mk();
    let b: re::math::mat::Mat4x4<re::math::mat::RealToReal<3, re::render::World, crate::UserTag>> = mk();
    let _ = a.compose(&b);
}

pub fn p583() {
    let a: re::math::mat::Mat4x4<re::math::mat::RealToReal<3, crate::UserTag, re::render::World>> = mk();
    let b: re::math::mat::Mat4x4<re::math::mat::RealToReal<3, re::render::World, crate::UserTag>> = mk();
    let _ = a.then(&b);
}

pub fn p584() {
    let a: re::math::mat::Mat4x4<re::math::mat::RealToReal<3, crate::UserTag, re::render::World>> = mk();
    let b: re::math::point::Point3<crate::UserTag> = mk();
    let _ = a.apply_pt(&b);
}

pub fn p586() {
    let a: re::math::mat::Mat4x4<re::math::mat::RealToReal<3, crate::UserTag, re::render::World>> = mk();
    let b: re::math::vec::Vec3<crate::UserTag> = mk();
    let _ = a.apply(&b);
}

pub fn p588() {
    let a: re::math::mat::Mat4x4<re::math::mat::RealToReal<3, crate::UserTag, re::render::World>> = mk();
    let _ = a.determinant();
}

pub fn p589() {
    let a: re::math::mat::Mat4x4<re::math::mat::RealToReal<3, crate::UserTag, re::render::World>> = mk();
    let _ = a.inverse();
}

pub fn p590() {
    let a: re::math::mat::Mat4x4<re::math::mat::RealToReal<3, crate::UserTag, re::render::World>> = mk();
    let _ = a.transpose();
}

pub fn p596() {
    let a: re::math::mat::Mat4x4<re::math::mat::RealToReal<3, re::render::World, re::render::Model>> = mk();
    let b: re::math::mat::Mat4x4<re::math::mat::RealToReal<3, re::render::Model, re::render::Model>> = mk();
    let _ = a.then(&b);
}

pub fn p598() {
    let a: re::math::mat::Mat4x4<re::math::mat::RealToReal<3, re::render::World, re::render::Model>> = mk();
    let b: re::math::mat::Mat4x4<re::math::mat::RealToReal<3, re::render::Model, ()>> = mk();
    let _ = a.then(&b);
}

pub fn p599() {
    let a: re::math::mat::Mat4x4<re::math::mat::RealToReal<3, re::render::World, re::render::Model>> = mk();
    let b: re::math::mat::Mat4x4<re::math::mat::RealToReal<3, re::render::Model, re::render::World>> = mk();
    let _r: re::math::mat::Mat4x4<re::math::mat::RealToReal<3, re::render::Model, re::render::Model>> = a.compose(&b);
}

pub fn p603() {
    let a: re::math::mat::Mat4x4<re::math::mat::RealToReal<3, re::render::World, re::render::Model>> = mk();
    let b: re::math::mat::Mat4x4<re::math::mat::RealToReal<3, re::render::Model, re::render::World>> = mk();
    let _ = a.compose(&b);
}

pub fn p604() {
    let a: re::math::mat::Mat4x4<re::math::mat::RealToReal<3, re::render::World, re::render::Model>> = mk();
    let b: re::math::mat::Mat4x4<re::math::mat::RealToReal<3, re::render::Model, re::render::World>> = mk();
    let _ = a.then(&b);
}

pub fn p610() {
    let a: re::math::mat::Mat4x4<re::math::mat::RealToReal<3, re::render::World, re::render::Model>> = mk();
    let b: re::math::mat::Mat4x4<re::math::mat::RealToReal<3, (), re::render::World>> = mk();
    let _ = a.compose(&b);
}

pub fn p621() {
    let a: re::math::mat::Mat4x4<re::math::mat::RealToReal<3, re::render::World, re::render::Model>> = mk();
    let b: re::math::mat::Mat4x4<re::math::mat::RealToReal<3, re::render::World, re::render::World>> = mk();
    let _r: re::math::mat::Mat4x4<re::math::mat::RealToReal<3, re::render::World, re::render::Model>> = a.compose(&b);
}

pub fn p624() {
    let a: re::math::mat::Mat4x4<re::math::mat::RealToReal<3, re::render::World, re::render::Model>> = mk();
    let b: re::math::mat::Mat4x4<re::math::mat::RealToReal<3, re::render::World, re::render::World>> = mk();
    let _ = a.compose(&b);
}

pub fn p626() {
    let a: re::math::mat::Mat4x4<re::math::mat::RealToReal<3, re::render::World, re::render::Model>> = mk();
    let b: re::math::mat::Mat4x4<re::math::mat::RealToProj<re::render::Model>> = mk();
    let _ = a.then(&b);
}

pub fn p642() {
    let a: re::math::mat::Mat4x4<re::math::mat::RealToReal<3, re::render::World, re::render::Model>> = mk();
    let b: re::math::point::Point3<re::render::World> = mk();
    let _r: re::math::point::Point3<re::render::Model> = a.apply_pt(&b);
}

pub fn p645() {
    let a: re::math::mat::Mat4x4<re::math::mat::RealToReal<3, re::render::World, re::render::Model>> = mk();
    let b: re::math::point::Point3<re::render::World> = mk();
    let _ = a.apply_pt(&b);
}

pub fn p657() {
    let a: re::math::mat::Mat4x4<re::math::mat::RealToReal<3, re::render::World, re::render::Model>> = mk();
    let b: re::math::vec::Vec3<re::render::World> = mk();
    let _r: re::math::vec::Vec3<re::render::Model> = a.apply(&b);
}

pub fn p660() {
    let a: re::math::mat::Mat4x4<re::math::mat::RealToReal<3, re::render::World, re::render::Model>> = mk();
    let b: re::math::vec::Vec3<re::render::World> = mk();
    let _ = a.apply(&b);
}

pub fn p661() {
    let a: re::math::mat::Mat4x4<re::math::mat::RealToReal<3, re::render::World, re::render::Model>> = mk();
    let _ = a.determinant();
}

pub fn p662() {
    let a: re::math::mat::Mat4x4<re::math::mat::RealToReal<3, re::render::World, re::render::Model>> = mk();
    let _ = a.inverse();
}

pub fn p663() {
    let a: re::math::mat::Mat4x4<re::math::mat::RealToReal<3, re::render::World, re::render::Model>> = mk();
    let _ = a.transpose();
}

pub fn p669() {
    let a: re::math::mat::Mat4x4<re::math::mat::RealToReal<3, re::render::World, ()>> = mk();
    let b: re::math::mat::Mat4x4<re::math::mat::RealToReal<3, re::render::Model, re::render::World>> = mk();
    let _ = a.compose(&b);
}

pub fn p671() {
    let a: re::math::mat::Mat4x4<re::math::mat::RealToReal<3, re::render::World, ()>> = mk();
    let b: re::math::mat::Mat4x4<re::math::mat::RealToReal<3, (), re::render::Model>> = mk();
    let _ = a.then(&b);
}

pub fn p673() {
    let a: re::math::mat::Mat4x4<re::math::mat::RealToReal<3, re::render::World, ()>> = mk();
    let b: re::math::mat::Mat4x4<re::math::mat::RealToReal<3, (), ()>> = mk();
    let _ = a.then(&b);
}

pub fn p674() {
    let a: re::math::mat::Mat4x4<re::math::mat::RealToReal<3, re::render::World, ()>> = mk();
    let b: re::math::mat::Mat4x4<re::math::mat::RealToReal<3, (), re::render::World>> = mk();
    let _ = a.compose(&b);
}

pub fn p675() {
    let a: re::math::mat::Mat4x4<re::math::mat::RealToReal<3, re::render::World, ()>> = mk();
    let b: re::math::mat::Mat4x4<re::math::mat::RealToReal<3, (), re::render::World>> = mk();
    let _ = a.then(&b);
}

pub fn p681() {
    let a: re::math::mat::Mat4x4<re::math::mat::RealToReal<3, re::render::World, ()>> = mk();
    let b: re::math::mat::Mat4x4<re::math::mat::RealToReal<3, re::render::World, re::render::World>> = mk();
    let _ = a.compose(&b);
}

pub fn p685() {
    let a: re::math::mat::Mat4x4<re::math::mat::RealToReal<3, re::render::World, ()>> = mk();
    let b: re::math::mat::Mat4x4<re::math::mat::RealToProj<()>> = mk();
    let _ = a.then(&b);
}

pub fn p700() {
    let a: re::math::mat::Mat4x4<re::math::mat::RealToReal<3, re::render::World, ()>> = mk();
    let b: re::math::point::Point3<re::render::World> = mk();
    let _r: re::math::point::Point3<()> = a.apply_pt(&b);
}

pub fn p702() {
    let a: re::math::mat::Mat4x4<re::math::mat::RealToReal<3, re::render::World, ()>> = mk();
    let b: re::math::point::Point3<re::render::World> = mk();
    let _ = a.apply_pt(&b);
}

pub fn p715() {
    let a: re::math::mat::Mat4x4<re::math::mat::RealToReal<3, re::render::World, ()>> = mk();
    let b: re::math::vec::Vec3<re::render::World> = mk();
    let _r: re::math::vec::Vec3<()> = a.apply(&b);
}

pub fn p717() {
    let a: re::math::mat::Mat4x4<re::math::mat::RealToReal<3, re::render::World, ()>> = mk();
    let b: re::math::vec::Vec3<re::render::World> = mk();
    let _ = a.apply(&b);
}

pub fn p718() {
    let a: re::math::mat::Mat4x4<re::math::mat::RealToReal<3, re::render::World, ()>> = mk();
    let _ = a.determinant();
}

pub fn p719() {
    let a: re::math::mat::Mat4x4<re::math::mat::RealToReal<3, re::render::World, ()>> = mk();
    let _ = a.inverse();
}

pub fn p720() {
    let a: re::math::mat::Mat4x4<re::math::mat::RealToReal<3, re::render::World, ()>> = mk();
    let _ = a.transpose();
}

pub fn p722() {
    let a: re::math::mat::Mat4x4<re::math::mat::RealToReal<3, re::render::World, crate::UserTag>> = mk();
    let b: re::math::mat::Mat4x4<re::math::mat::RealToReal<3, crate::UserTag, crate::UserTag>> = mk();
    let _ = a.then(&b);
}

pub fn p723() {
    let a: re::math::mat::Mat4x4<re::math::mat::RealToReal<3, re::render::World, crate::UserTag>> = mk();
    let b: re::math::mat::Mat4x4<re::math::mat::RealToReal<3, crate::UserTag, re::render::World>> = mk();
    let _ = a.compose(&b);
}

pub fn p724() {
    let a: re::math::mat::Mat4x4<re::math::mat::RealToReal<3, re::render::World, crate::UserTag>> = mk();
    let b: re::math::mat::Mat4x4<re::math::mat::RealToReal<3, crate::UserTag, re::render::World>> = mk();
    let _ = a.then(&b);
}

pub fn p728() {
    let a: re::math::mat::Mat4x4<re::math::mat::RealToReal<3, re::render::World, crate::UserTag>> = mk();
    let b: re::math::point::Point3<re::render::World> = mk();
    let _ = a.apply_pt(&b);
}

pub fn p730() {
    let a: re::math::mat::Mat4x4<re::math::mat::RealToReal<3, re::render::World, crate::UserTag>> = mk();
    let b: re::math::vec::Vec3<re::render::World> = mk();
    let _ = a.apply(&b);
}

pub fn p731() {
    let a: re::math::mat::Mat4x4<re::math::mat::RealToReal<3, re::render::World, crate::UserTag>> = mk();
    let _ = a.determinant();
}

pub fn p732() {
    let a: re::math::mat::Mat4x4<re::math::mat::RealToReal<3, re::render::World, crate::UserTag>> = mk();
    let _ = a.inverse();
}

pub fn p733() {
    let a: re::math::mat::Mat4x4<re::math::mat::RealToReal<3, re::render::World, crate::UserTag>> = mk();
    let _ = a.transpose();
}

pub fn p743() {
    let a: re::math::mat::Mat4x4<re::math::mat::RealToReal<3, re::render::World, re::render::World>> = mk();
    let b: re::math::mat::Mat4x4<re::math::mat::RealToReal<3, re::render::Model, re::render::World>> = mk();
    let _r: re::math::mat::Mat4x4<re::math::mat::RealToReal<3, re::render::Model, re::render::World>> = a.compose(&b);
}

pub fn p747() {
    let a: re::math::mat::Mat4x4<re::math::mat::RealToReal<3, re::render::World, re::render::World>> = mk();
    let b: re::math::mat::Mat4x4<re::math::mat::RealToReal<3, re::render::Model, re::render::World>> = mk();
    let _ = a.compose(&b);
}

pub fn p753() {
    let a: re::math::mat::Mat4x4<re::math::mat::RealToReal<3, re::render::World, re::render::World>> = mk();
    let b: re::math::mat::Mat4x4<re::math::mat::RealToReal<3, (), re::render::World>> = mk();
    let _ = a.compose(&b);
}

pub fn p759() {
    let a: re::math::mat::Mat4x4<re::math::mat::RealToReal<3, re::render::World, re::render::World>> = mk();
    let b: re::math::mat::Mat4x4<re::math::mat::RealToReal<3, re::render::World, re::render::Model>> = mk();
    let _ = a.then(&b);
}

pub fn p761() {
    let a: re::math::mat::Mat4x4<re::math::mat::RealToReal<3, re::render::World, re::render::World>> = mk();
    let b: re::math::mat::Mat4x4<re::math::mat::RealToReal<3, re::render::World, ()>> = mk();
    let _ = a.then(&b);
}

pub fn p765() {
    let a: re::math::mat::Mat4x4<re::math::mat::RealToReal<3, re::render::World, re::render::World>> = mk();
    let b: re::math::mat::Mat4x4<re::math::mat::RealToReal<3, re::render::World, re::render::World>> = mk();
    let _r: re::math::mat::Mat4x4<re::math::mat::RealToReal<3, re::render::World, re::render::World>> = a.compose(&b);
}

pub fn p766() {
    let a: re::math::mat::Mat4x4<re::math::mat::RealToReal<3, re::render::World, re::render::World>> = mk();
    let b: re::math::mat::Mat4x4<re::math::mat::RealToReal<3, re::render::World, re::render::World>> = mk();
    let _ = a.compose(&b);
}

pub fn p767() {
    let a: re::math::mat::Mat4x4<re::math::mat::RealToReal<3, re::render::World, re::render::World>> = mk();
    let b: re::math::mat::Mat4x4<re::math::mat::RealToReal<3, re::render::World, re::render::World>> = mk();
    let _ = a.then(&b);
}

pub fn p773() {
    let a: re::math::mat::Mat4x4<re::math::mat::RealToReal<3, re::render::World, re::render::World>> = mk();
    let b: re::math::mat::Mat4x4<re::math::mat::RealToProj<re::render::World>> = mk();
    let _ = a.then(&b);
}

pub fn p787() {
    let a: re::math::mat::Mat4x4<re::math::mat::RealToReal<3, re::render::World, re::render::World>> = mk();
    let b: re::math::point::Point3<re::render::World> = mk();
    let _r: re::math::point::Point3<re::render::World> = a.apply_pt(&b);
}

pub fn p788() {
    let a: re::math::mat::Mat4x4<re::math::mat::RealToReal<3, re::render::World, re::render::World>> = mk();
    let b: re::math::point::Point3<re::render::World> = mk();
    let _ = a.apply_pt(&b);
}

pub fn p802() {
    let a: re::math::mat::Mat4x4<re::math::mat::RealToReal<3, re::render::World, re::render::World>> = mk();
    let b: re::math::vec::Vec3<re::render::World> = mk();
    let _r: re::math::vec::Vec3<re::render::World> = a.apply(&b);
}

pub fn p803() {
    let a: re::math::mat::Mat4x4<re::math::mat::RealToReal<3, re::render::World, re::render::World>> = mk();
    let b: re::math::vec::Vec3<re::render::World> = mk();
    let _ = a.apply(&b);
}

pub fn p804() {
    let a: re::math::mat::Mat4x4<re::math::mat::RealToReal<3, re::render::World, re::render::World>> = mk();
    let _ = a.determinant();
}

pub fn p805() {
    let a: re::math::mat::Mat4x4<re::math::mat::RealToReal<3, re::render::World, re::render::World>> = mk();
    let _ = a.inverse();
}

pub fn p806() {
    let a: re::math::mat::Mat4x4<re::math::mat::RealToReal<3, re::render::World, re::render::World>> = mk();
    let _ = a.transpose();
}

pub fn p808() {
    let a: re::math::mat::Mat4x4<re::math::mat::RealToProj<re::render::Model>> = mk();
    let b: re::math::mat::Mat4x4<re::math::mat::RealToReal<3, re::render::Model, re::render::Model>> = mk();
    let _ = a.compose(&b);
}

pub fn p814() {
    let a: re::math::mat::Mat4x4<re::math::mat::RealToProj<re::render::Model>> = mk();
    let b: re::math::mat::Mat4x4<re::math::mat::RealToReal<3, (), re::render::Model>> = mk();
    let _ = a.compose(&b);
}

pub fn p820() {
    let a: re::math::mat::Mat4x4<re::math::mat::RealToProj<re::render::Model>> = mk();
    let b: re::math::mat::Mat4x4<re::math::mat::RealToReal<3, re::render::World, re::render::Model>> = mk();
    let _ = a.compose(&b);
}

pub fn p825() {
    let a: re::math::mat::Mat4x4<re::math::mat::RealToProj<re::render::Model>> = mk();
    let b: re::math::point::Point3<re::render::Model> = mk();
    let _ = a.apply(&b);
}

pub fn p840() {
    let a: re::math::mat::Mat4x4<re::math::mat::RealToProj<()>> = mk();
    let b: re::math::mat::Mat4x4<re::math::mat::RealToReal<3, re::render::Model, ()>> = mk();
    let _ = a.compose(&b);
}

pub fn p846() {
    let a: re::math::mat::Mat4x4<re::math::mat::RealToProj<()>> = mk();
    let b: re::math::mat::Mat4x4<re::math::mat::RealToReal<3, (), ()>> = mk();
    let _ = a.compose(&b);
}

pub fn p852() {
    let a: re::math::mat::Mat4x4<re::math::mat::RealToProj<()>> = mk();
    let b: re::math::mat::Mat4x4<re::math::mat::RealToReal<3, re::render::World, ()>> = mk();
    let _ = a.compose(&b);
}

pub fn p857() {
    let a: re::math::mat::Mat4x4<re::math::mat::RealToProj<()>> = mk();
    let b: re::math::point::Point3<()> = mk();
    let _ = a.apply(&b);
}

pub fn p872() {
    let a: re::math::mat::Mat4x4<re::math::mat::RealToProj<re::render::World>> = mk();
    let b: re::math::mat::Mat4x4<re::math::mat::RealToReal<3, re::render::Model, re::render::World>> = mk();
    let _ = a.compose(&b);
}

pub fn p878() {
    let a: re::math::mat::Mat4x4<re::math::mat::RealToProj<re::render::World>> = mk();
    let b: re::math::mat::Mat4x4<re::math::mat::RealToReal<3, (), re::render::World>> = mk();
    let _ = a.compose(&b);
}

pub fn p884() {
    let a: re::math::mat::Mat4x4<re::math::mat::RealToProj<re::render::World>> = mk();
    let b: re::math::mat::Mat4x4<re::math::mat::RealToReal<3, re::render::World, re::render::World>> = mk();
    let _ = a.compose(&b);
}

pub fn p889() {
    let a: re::math::mat::Mat4x4<re::math::mat::RealToProj<re::render::World>> = mk();
    let b: re::math::point::Point3<re::render::World> = mk();
    let _ = a.apply(&b);
}

pub fn p903() {
    use re::geom::{Tri, Vertex};
    let vs = |_: Vertex<re::math::point::Point3<re::render::Model>, ()>, _: ()| -> Vertex<re::math::vec::ProjVec4, f32> { mk() };
    let fs = |_: re::render::raster::Frag<f32>| -> Option<re::math::color::Color4> { mk() };
    let sh = re::render::shader::Shader::new(vs, fs);
    let mut target: re::util::buf::Buf2<u32> = mk();
    let tris: Vec<Tri<usize>> = mk();
    let verts: Vec<Vertex<re::math::point::Point3<re::render::Model>, ()>> = mk();
    re::render::render(&tris, &verts, &sh, (), mk(), &mut target, &mk::<re::render::Context>());
}

pub fn p905() {
    let a: re::math::point::Point2<re::render::Model> = mk();
    let b: re::math::point::Point2<re::render::Model> = mk();
    let _ = re::math::Lerp::lerp(&a, &b, 0.5);
}

pub fn p906() {
    let a: re::math::point::Point2<re::render::Model> = mk();
    let b: re::math::point::Point2<re::render::Model> = mk();
    let _ = a - b;
}

pub fn p922() {
    let a: re::math::point::Point2<re::render::Model> = mk();
    let b: re::math::vec::Vec2<re::render::Model> = mk();
    let _ = a + b;
}

pub fn p932() {
    let a: re::math::point::Point2<()> = mk();
    let b: re::math::point::Point2<()> = mk();
    let _ = re::math::Lerp::lerp(&a, &b, 0.5);
}

pub fn p933() {
    let a: re::math::point::Point2<()> = mk();
    let b: re::math::point::Point2<()> = mk();
    let _ = a - b;
}

pub fn p947() {
    let a: re::math::point::Point2<()> = mk();
    let b: re::math::vec::Vec2<()> = mk();
    let _ = a + b;
}

pub fn p959() {
    let a: re::math::point::Point2<re::render::World> = mk();
    let b: re::math::point::Point2<re::render::World> = mk();
    let _ = re::math::Lerp::lerp(&a, &b, 0.5);
}

pub fn p960() {
    let a: re::math::point::Point2<re::render::World> = mk();
    let b: re::math::point::Point2<re::render::World> = mk();
    let _ = a - b;
}

pub fn p972() {
    let a: re::math::point::Point2<re::render::World> = mk();
    let b: re::math::vec::Vec2<re::render::World> = mk();
    let _ = a + b;
}

pub fn p986() {
    let a: re::math::point::Point3<re::render::Model> = mk();
    let b: re::math::point::Point3<re::render::Model> = mk();
    let c: re::math::point::Point3<re::render::Model> = mk();
    let d = re::math::space::Affine::sub(&a, &b);
    let _ = re::math::space::Affine::add(&c, &d);
}

pub fn p991() {
    let a: re::math::point::Point3<re::render::Model> = mk();
    let b: re::math::point::Point3<re::render::Model> = mk();
    let _r: re::math::vec::Vec3<re::render::Model> = a - b;
}

pub fn p995() {
    let a: re::math::point::Point3<re::render::Model> = mk();
    let b: re::math::point::Point3<re::render::Model> = mk();
    let _ = re::math::Lerp::lerp(&a, &b, 0.5);
}

pub fn p996() {
    let a: re::math::point::Point3<re::render::Model> = mk();
    let b: re::math::point::Point3<re::render::Model> = mk();
    let _ = a - b;
}

pub fn p1024() {
    let a: re::math::point::Point3<re::render::Model> = mk();
    let b: re::math::vec::Vec3<re::render::Model> = mk();
    let _ = a + b;
}

pub fn p1052() {
    let a: re::math::point::Point3<()> = mk();
    let b: re::math::point::Point3<()> = mk();
    let c: re::math::point::Point3<()> = mk();
    let d = re::math::space::Affine::sub(&a, &b);
    let _ = re::math::space::Affine::add(&c, &d);
}

pub fn p1056() {
    let a: re::math::point::Point3<()> = mk();
    let b: re::math::point::Point3<()> = mk();
    let _r: re::math::vec::Vec3<()> = a - b;
}

pub fn p1059() {
    let a: re::math::point::Point3<()> = mk();
    let b: re::math::point::Point3<()> = mk();
    let _ = re::math::Lerp::lerp(&a, &b, 0.5);
}

pub fn p1060() {
    let a: re::math::point::Point3<()> = mk();
    let b: re::math::point::Point3<()> = mk();
    let _ = a - b;
}

pub fn p1077() {
    let a: re::math::point::Point3<()> = mk();
    let b: re::math::vec::Vec3<()> = mk();
    let _ = a + b;
}

pub fn p1117() {
    let a: re::math::point::Point3<re::render::World> = mk();
    let b: re::math::point::Point3<re::render::World> = mk();
    let c: re::math::point::Point3<re::render::World> = mk();
    let d = re::math::space::Affine::sub(&a, &b);
    let _ = re::math::space::Affine::add(&c, &d);
}

pub fn p1120() {
    let a: re::math::point::Point3<re::render::World> = mk();
    let b: re::math::point::Point3<re::render::World> = mk();
    let _r: re::math::vec::Vec3<re::render::World> = a - b;
}

pub fn p1122() {
    let a: re::math::point::Point3<re::render::World> = mk();
    let b: re::math::point::Point3<re::render::World> = mk();
    let _ = re::math::Lerp::lerp(&a, &b, 0.5);
}

pub fn p1123() {
    let a: re::math::point::Point3<re::render::World> = mk();
    let b: re::math::point::Point3<re::render::World> = mk();
    let _ = a - b;
}

pub fn p1129() {
    let a: re::math::point::Point3<re::render::World> = mk();
    let b: re::math::vec::Vec3<re::render::World> = mk();
    let _ = a + b;
}

pub fn p1136() {
    let a: re::math::vec::Vec2<re::render::Model> = mk();
    let b: re::math::vec::Vec2<re::render::Model> = mk();
    let _ = a + b;
}

pub fn p1137() {
    let a: re::math::vec::Vec2<re::render::Model> = mk();
    let b: re::math::vec::Vec2<re::render::Model> = mk();
    let _ = a.dot(&b);
}

pub fn p1138() {
    let a: re::math::vec::Vec2<re::render::Model> = mk();
    let b: re::math::vec::Vec2<re::render::Model> = mk();
    let _ = re::math::Lerp::lerp(&a, &b, 0.5);
}

pub fn p1139() {
    let a: re::math::vec::Vec2<re::render::Model> = mk();
    let b: re::math::vec::Vec2<re::render::Model> = mk();
    let _ = a - b;
}

pub fn p1170() {
    let a: re::math::vec::Vec2<()> = mk();
    let b: re::math::vec::Vec2<()> = mk();
    let _ = a + b;
}

pub fn p1171() {
    let a: re::math::vec::Vec2<()> = mk();
    let b: re::math::vec::Vec2<()> = mk();
    let _ = a.dot(&b);
}

pub fn p1172() {
    let a: re::math::vec::Vec2<()> = mk();
    let b: re::math::vec::Vec2<()> = mk();
    let _ = re::math::Lerp::lerp(&a, &b, 0.5);
}

pub fn p1173() {
    let a: re::math::vec::Vec2<()> = mk();
    let b: re::math::vec::Vec2<()> = mk();
    let _ = a - b;
}

pub fn p1204() {
    let a: re::math::vec::Vec2<re::render::World> = mk();
    let b: re::math::vec::Vec2<re::render::World> = mk();
    let _ = a + b;
}

pub fn p1205() {
    let a: re::math::vec::Vec2<re::render::World> = mk();
    let b: re::math::vec::Vec2<re::render::World> = mk();
    let _ = a.dot(&b);
}

pub fn p1206() {
    let a: re::math::vec::Vec2<re::render::World> = mk();
    let b: re::math::vec::Vec2<re::render::World> = mk();
    let _ = re::math::Lerp::lerp(&a, &b, 0.5);
}

pub fn p1207() {
    let a: re::math::vec::Vec2<re::render::World> = mk();
    let b: re::math::vec::Vec2<re::render::World> = mk();
    let _ = a - b;
}

pub fn p1238() {
    let a: re::math::vec::Vec3<re::render::Model> = mk();
    let b: re::math::vec::Vec3<re::render::Model> = mk();
    let _ = a + b;
}

pub fn p1239() {
    let a: re::math::vec::Vec3<re::render::Model> = mk();
    let b: re::math::vec::Vec3<re::render::Model> = mk();
    let _ = a.dot(&b);
}

pub fn p1240() {
    let a: re::math::vec::Vec3<re::render::Model> = mk();
    let b: re::math::vec::Vec3<re::render::Model> = mk();
    let _ = re::math::Lerp::lerp(&a, &b, 0.5);
}

pub fn p1241() {
    let a: re::math::vec::Vec3<re::render::Model> = mk();
    let b: re::math::vec::Vec3<re::render::Model> = mk();
    let _ = a - b;
}

pub fn p1273() {
    let a: re::math::vec::Vec3<()> = mk();
    let b: re::math::vec::Vec3<()> = mk();
    let _ = a + b;
}

pub fn p1274() {
    let a: re::math::vec::Vec3<()> = mk();
    let b: re::math::vec::Vec3<()> = mk();
    let _ = a.dot(&b);
}

pub fn p1275() {
    let a: re::math::vec::Vec3<()> = mk();
    let b: re::math::vec::Vec3<()> = mk();
    let _ = re::math::Lerp::lerp(&a, &b, 0.5);
}

pub fn p1276() {
    let a: re::math::vec::Vec3<()> = mk();
    let b: re::math::vec::Vec3<()> = mk();
    let _ = a - b;
}

pub fn p1281() {
    let a: re::math::vec::Vec3<crate::UserTag> = mk();
    let b: re::math::vec::Vec3<crate::UserTag> = mk();
    let _ = a + b;
}

pub fn p1282() {
    let a: re::math::vec::Vec3<crate::UserTag> = mk();
    let b: re::math::vec::Vec3<crate::UserTag> = mk();
    let _ = a.dot(&b);
}

pub fn p1283() {
    let a: re::math::vec::Vec3<crate::UserTag> = mk();
    let b: re::math::vec::Vec3<crate::UserTag> = mk();
    let _ = re::math::Lerp::lerp(&a, &b, 0.5);
}

pub fn p1284() {
    let a: re::math::vec::Vec3<crate::UserTag> = mk();
    let b: re::math::vec::Vec3<crate::UserTag> = mk();
    let _ = a - b;
}

pub fn p1319() {
    let a: re::math::vec::Vec3<re::render::World> = mk();
    let b: re::math::vec::Vec3<re::render::World> = mk();
    let _ = a + b;
}

pub fn p1320() {
    let a: re::math::vec::Vec3<re::render::World> = mk();
    let b: re::math::vec::Vec3<re::render::World> = mk();
    let _ = a.dot(&b);
}

pub fn p1321() {
    let a: re::math::vec::Vec3<re::render::World> = mk();
    let b: re::math::vec::Vec3<re::render::World> = mk();
    let _ = re::math::Lerp::lerp(&a, &b, 0.5);
}

pub fn p1322() {
    let a: re::math::vec::Vec3<re::render::World> = mk();
    let b: re::math::vec::Vec3<re::render::World> = mk();
    let _ = a - b;
}

