#![allow(unused)]
fn mk<T>() -> T { unimplemented!() }

pub fn p1() {
    let a: re::math::angle::Angle = mk();
    let b: re::math::angle::Angle = mk();
    let _ = a + b;
}

pub fn p3() {
    let a: re::math::angle::Angle = mk();
    let b: f32 = mk();
    let _ = a * b;
}

pub fn p4() {
    let a: re::math::angle::Angle = mk();
    let _ = re::math::angle::polar(1.0, a);
}

pub fn p5() {
    let a: re::math::angle::Angle = mk();
    let _ = re::math::mat::rotate_x(a);
}

pub fn p6() {
    let a: re::math::angle::Angle = mk();
    let _ = re::math::angle::Angle::sin(a);
}

pub fn p7() {
    let a: re::math::color::Color3f<re::math::color::Hsl> = mk();
    let b: re::math::color::Color3f<re::math::color::Hsl> = mk();
    let c: re::math::color::Color3f<re::math::color::Hsl> = mk();
    let d = re::math::space::Affine::sub(&a, &b);
    let _ = re::math::space::Affine::add(&c, &d);
}

pub fn p11() {
    let a: re::math::color::Color3f<re::math::color::Hsl> = mk();
    let b: re::math::color::Color3f<re::math::color::Hsl> = mk();
    let _ = re::math::space::Affine::add(&a, &b);
}

pub fn p12() {
    let a: re::math::color::Color3f<re::math::color::Hsl> = mk();
    let b: re::math::color::Color3f<re::math::color::Hsl> = mk();
    let _ = re::math::space::Affine::sub(&a, &b);
}

pub fn p13() {
    let a: re::math::color::Color3f<re::math::color::Hsl> = mk();
    let b: re::math::color::Color3f<re::math::color::Hsl> = mk();
    let _ = re::math::Lerp::lerp(&a, &b, 0.5);
}

pub fn p29() {
    let a: re::math::color::Color3f<re::math::color::Hsl> = mk();
    let _ = a.to_rgb();
}

pub fn p39() {
    let a: re::math::color::Color3f<re::math::color::Rgb> = mk();
    let b: re::math::color::Color3f<re::math::color::Rgb> = mk();
    let c: re::math::color::Color3f<re::math::color::Rgb> = mk();
    let d = re::math::space::Affine::sub(&a, &b);
    let _ = re::math::space::Affine::add(&c, &d);
}

pub fn p42() {
    let a: re::math::color::Color3f<re::math::color::Rgb> = mk();
    let b: re::math::color::Color3f<re::math::color::Rgb> = mk();
    let _ = re::math::space::Affine::add(&a, &b);
}

pub fn p43() {
    let a: re::math::color::Color3f<re::math::color::Rgb> = mk();
    let b: re::math::color::Color3f<re::math::color::Rgb> = mk();
    let _ = re::math::space::Affine::sub(&a, &b);
}

pub fn p44() {
    let a: re::math::color::Color3f<re::math::color::Rgb> = mk();
    let b: re::math::color::Color3f<re::math::color::Rgb> = mk();
    let _ = re::math::Lerp::lerp(&a, &b, 0.5);
}

pub fn p53() {
    let a: re::math::color::Color3f<re::math::color::Rgb> = mk();
    let _ = a.to_hsl();
}

pub fn p65() {
    let a: re::math::color::Color3<re::math::color::Hsl> = mk();
    let b: re::math::color::Color3<re::math::color::Hsl> = mk();
    let c: re::math::color::Color3<re::math::color::Hsl> = mk();
    let d = re::math::space::Affine::sub(&a, &b);
    let _ = re::math::space::Affine::add(&c, &d);
}

pub fn p71() {
    let a: re::math::color::Color3<re::math::color::Hsl> = mk();
    let _ = a.to_rgb();
}

pub fn p88() {
    let a: re::math::color::Color3<re::math::color::Rgb> = mk();
    let b: re::math::color::Color3<re::math::color::Rgb> = mk();
    let c: re::math::color::Color3<re::math::color::Rgb> = mk();
    let d = re::math::space::Affine::sub(&a, &b);
    let _ = re::math::space::Affine::add(&c, &d);
}

pub fn p89() {
    let a: re::math::color::Color3<re::math::color::Rgb> = mk();
    let _ = a.to_hsl();
}

pub fn p92() {
    let a: f32 = mk();
    let b: f32 = mk();
    let _ = a + b;
}

pub fn p96() {
    let a: re::math::mat::Mat3x3<re::math::mat::RealToReal<2, re::render::Model, re::render::Model>> = mk();
    let b: re::math::point::Point2<re::render::Model> = mk();
    let _r: re::math::point::Point2<re::render::Model> = a.apply_pt(&b);
}

pub fn p100() {
    let a: re::math::mat::Mat3x3<re::math::mat::RealToReal<2, re::render::Model, re::render::Model>> = mk();
    let b: re::math::vec::Vec2<re::render::Model> = mk();
    let _r: re::math::vec::Vec2<re::render::Model> = a.apply(&b);
}

pub fn p102() {
    let a: re::math::mat::Mat3x3<re::math::mat::RealToReal<2, re::render::Model, re::render::Model>> = mk();
    let b: re::math::vec::Vec2<re::render::Model> = mk();
    let _ = a.apply(&b);
}

pub fn p109() {
    let a: re::math::mat::Mat3x3<re::math::mat::RealToReal<2, re::render::Model, re::render::World>> = mk();
    let b: re::math::point::Point2<re::render::Model> = mk();
    let _r: re::math::point::Point2<re::render::World> = a.apply_pt(&b);
}

pub fn p113() {
    let a: re::math::mat::Mat3x3<re::math::mat::RealToReal<2, re::render::Model, re::render::World>> = mk();
    let b: re::math::vec::Vec2<re::render::Model> = mk();
    let _r: re::math::vec::Vec2<re::render::World> = a.apply(&b);
}

pub fn p114() {
    let a: re::math::mat::Mat3x3<re::math::mat::RealToReal<2, re::render::Model, re::render::World>> = mk();
    let b: re::math::vec::Vec2<re::render::Model> = mk();
    let _ = a.apply(&b);
}

pub fn p122() {
    let a: re::math::mat::Mat3x3<re::math::mat::RealToReal<2, re::render::World, re::render::Model>> = mk();
    let b: re::math::point::Point2<re::render::World> = mk();
    let _r: re::math::point::Point2<re::render::Model> = a.apply_pt(&b);
}

pub fn p127() {
    let a: re::math::mat::Mat3x3<re::math::mat::RealToReal<2, re::render::World, re::render::Model>> = mk();
    let b: re::math::vec::Vec2<re::render::World> = mk();
    let _r: re::math::vec::Vec2<re::render::Model> = a.apply(&b);
}

pub fn p129() {
    let a: re::math::mat::Mat3x3<re::math::mat::RealToReal<2, re::render::World, re::render::Model>> = mk();
    let b: re::math::vec::Vec2<re::render::World> = mk();
    let _ = a.apply(&b);
}

pub fn p135() {
    let a: re::math::mat::Mat3x3<re::math::mat::RealToReal<2, re::render::World, re::render::World>> = mk();
    let b: re::math::point::Point2<re::render::World> = mk();
    let _r: re::math::point::Point2<re::render::World> = a.apply_pt(&b);
}

pub fn p140() {
    let a: re::math::mat::Mat3x3<re::math::mat::RealToReal<2, re::render::World, re::render::World>> = mk();
    let b: re::math::vec::Vec2<re::render::World> = mk();
    let _r: re::math::vec::Vec2<re::render::World> = a.apply(&b);
}

pub fn p141() {
    let a: re::math::mat::Mat3x3<re::math::mat::RealToReal<2, re::render::World, re::render::World>> = mk();
    let b: re::math::vec::Vec2<re::render::World> = mk();
    let _ = a.apply(&b);
}

pub fn p144() {
    let a: re::math::mat::Mat4x4<re::math::mat::RealToReal<3, re::render::Model, re::render::Model>> = mk();
    let b: re::math::mat::Mat4x4<re::math::mat::RealToReal<3, re::render::Model, re::render::Model>> = mk();
    let _r: re::math::mat::Mat4x4<re::math::mat::RealToReal<3, re::render::Model, re::render::Model>> = a.compose(&b);
}

pub fn p148() {
    let a: re::math::mat::Mat4x4<re::math::mat::RealToReal<3, re::render::Model, re::render::Model>> = mk();
    let b: re::math::mat::Mat4x4<re::math::mat::RealToReal<3, re::render::Model, re::render::Model>> = mk();
    let _ = a.compose(&b);
}

pub fn p149() {
    let a: re::math::mat::Mat4x4<re::math::mat::RealToReal<3, re::render::Model, re::render::Model>> = mk();
    let b: re::math::mat::Mat4x4<re::math::mat::RealToReal<3, re::render::Model, re::render::Model>> = mk();
    let _ = a.then(&b);
}

pub fn p151() {
    let a: re::math::mat::Mat4x4<re::math::mat::RealToReal<3, re::render::Model, re::render::Model>> = mk();
    let b: re::math::mat::Mat4x4<re::math::mat::RealToReal<3, re::render::Model, ()>> = mk();
    let _ = a.then(&b);
}

pub fn p157() {
    let a: re::math::mat::Mat4x4<re::math::mat::RealToReal<3, re::render::Model, re::render::Model>> = mk();
    let b: re::math::mat::Mat4x4<re::math::mat::RealToReal<3, re::render::Model, re::render::World>> = mk();
    let _ = a.then(&b);
}

pub fn p159() {
    let a: re::math::mat::Mat4x4<re::math::mat::RealToReal<3, re::render::Model, re::render::Model>> = mk();
    let b: re::math::mat::Mat4x4<re::math::mat::RealToReal<3, (), re::render::Model>> = mk();
    let _ = a.compose(&b);
}

pub fn p166() {
    let a: re::math::mat::Mat4x4<re::math::mat::RealToReal<3, re::render::Model, re::render::Model>> = mk();
    let b: re::math::mat::Mat4x4<re::math::mat::RealToReal<3, re::render::World, re::render::Model>> = mk();
    let _r: re::math::mat::Mat4x4<re::math::mat::RealToReal<3, re::render::World, re::render::Model>> = a.compose(&b);
}

pub fn p169() {
    let a: re::math::mat::Mat4x4<re::math::mat::RealToReal<3, re::render::Model, re::render::Model>> = mk();
    let b: re::math::mat::Mat4x4<re::math::mat::RealToReal<3, re::render::World, re::render::Model>> = mk();
    let _ = a.compose(&b);
}

pub fn p179() {
    let a: re::math::mat::Mat4x4<re::math::mat::RealToReal<3, re::render::Model, re::render::Model>> = mk();
    let b: re::math::mat::Mat4x4<re::math::mat::RealToProj<re::render::Model>> = mk();
    let _ = a.then(&b);
}

pub fn p187() {
    let a: re::math::mat::Mat4x4<re::math::mat::RealToReal<3, re::render::Model, re::render::Model>> = mk();
    let b: re::math::point::Point3<re::render::Model> = mk();
    let _r: re::math::point::Point3<re::render::Model> = a.apply_pt(&b);
}

pub fn p190() {
    let a: re::math::mat::Mat4x4<re::math::mat::RealToReal<3, re::render::Model, re::render::Model>> = mk();
    let b: re::math::point::Point3<re::render::Model> = mk();
    let _ = a.apply_pt(&b);
}

pub fn p202() {
    let a: re::math::mat::Mat4x4<re::math::mat::RealToReal<3, re::render::Model, re::render::Model>> = mk();
    let b: re::math::vec::Vec3<re::render::Model> = mk();
    let _r: re::math::vec::Vec3<re::render::Model> = a.apply(&b);
}

pub fn p205() {
    let a: re::math::mat::Mat4x4<re::math::mat::RealToReal<3, re::render::Model, re::render::Model>> = mk();
    let b: re::math::vec::Vec3<re::render::Model> = mk();
    let _ = a.apply(&b);
}

pub fn p214() {
    let a: re::math::mat::Mat4x4<re::math::mat::RealToReal<3, re::render::Model, re::render::Model>> = mk();
    let _ = a.determinant();
}

pub fn p215() {
    let a: re::math::mat::Mat4x4<re::math::mat::RealToReal<3, re::render::Model, re::render::Model>> = mk();
    let _ = a.inverse();
}

pub fn p216() {
    let a: re::math::mat::Mat4x4<re::math::mat::RealToReal<3, re::render::Model, re::render::Model>> = mk();
    let _ = a.transpose();
}

pub fn p218() {
    let a: re::math::mat::Mat4x4<re::math::mat::RealToReal<3, re::render::Model, ()>> = mk();
    let b: re::math::mat::Mat4x4<re::math::mat::RealToReal<3, re::render::Model, re::render::Model>> = mk();
    let _ = a.compose(&b);
}

pub fn p223() {
    let a: re::math::mat::Mat4x4<re::math::mat::RealToReal<3, re::render::Model, ()>> = mk();
    let b: re::math::mat::Mat4x4<re::math::mat::RealToReal<3, (), re::render::Model>> = mk();
    let _ = a.compose(&b);
}

pub fn p224() {
    let a: re::math::mat::Mat4x4<re::math::mat::RealToReal<3, re::render::Model, ()>> = mk();
    let b: re::math::mat::Mat4x4<re::math::mat::RealToReal<3, (), re::render::Model>> = mk();
    let _ = a.then(&b);
}

pub fn p226() {
    let a: re::math::mat::Mat4x4<re::math::mat::RealToReal<3, re::render::Model, ()>> = mk();
    let b: re::math::mat::Mat4x4<re::math::mat::RealToReal<3, (), ()>> = mk();
    let _ = a.then(&b);
}

pub fn p228() {
    let a: re::math::mat::Mat4x4<re::math::mat::RealToReal<3, re::render::Model, ()>> = mk();
    let b: re::math::mat::Mat4x4<re::math::mat::RealToReal<3, (), re::render::World>> = mk();
    let _ = a.then(&b);
}

pub fn p230() {
    let a: re::math::mat::Mat4x4<re::math::mat::RealToReal<3, re::render::Model, ()>> = mk();
    let b: re::math::mat::Mat4x4<re::math::mat::RealToReal<3, re::render::World, re::render::Model>> = mk();
    let _ = a.compose(&b);
}

pub fn p238() {
    let a: re::math::mat::Mat4x4<re::math::mat::RealToReal<3, re::render::Model, ()>> = mk();
    let b: re::math::mat::Mat4x4<re::math::mat::RealToProj<()>> = mk();
    let _ = a.then(&b);
}

pub fn p245() {
    let a: re::math::mat::Mat4x4<re::math::mat::RealToReal<3, re::render::Model, ()>> = mk();
    let b: re::math::point::Point3<re::render::Model> = mk();
    let _r: re::math::point::Point3<()> = a.apply_pt(&b);
}

pub fn p247() {
    let a: re::math::mat::Mat4x4<re::math::mat::RealToReal<3, re::render::Model, ()>> = mk();
    let b: re::math::point::Point3<re::render::Model> = mk();
    let _ = a.apply_pt(&b);
}

pub fn p260() {
    let a: re::math::mat::Mat4x4<re::math::mat::RealToReal<3, re::render::Model, ()>> = mk();
    let b: re::math::vec::Vec3<re::render::Model> = mk();
    let _r: re::math::vec::Vec3<()> = a.apply(&b);
}

pub fn p262() {
    let a: re::math::mat::Mat4x4<re::math::mat::RealToReal<3, re::render::Model, ()>> = mk();
    let b: re::math::vec::Vec3<re::render::Model> = mk();
    let _ = a.apply(&b);
}

pub fn p271() {
    let a: re::math::mat::Mat4x4<re::math::mat::RealToReal<3, re::render::Model, ()>> = mk();
    let _ = a.determinant();
}

pub fn p272() {
    let a: re::math::mat::Mat4x4<re::math::mat::RealToReal<3, re::render::Model, ()>> = mk();
    let _ = a.inverse();
}

pub fn p273() {
    let a: re::math::mat::Mat4x4<re::math::mat::RealToReal<3, re::render::Model, ()>> = mk();
    let _ = a.transpose();
}

pub fn p275() {
    let a: re::math::mat::Mat4x4<re::math::mat::RealToReal<3, re::render::Model, re::render::World>> = mk();
    let b: re::math::mat::Mat4x4<re::math::mat::RealToReal<3, re::render::Model, re::render::Model>> = mk();
    let _r: re::math::mat::Mat4x4<re::math::mat::RealToReal<3, re::render::Model, re::render::World>> = a.compose(&b);
}

pub fn p279() {
    let a: re::math::mat::Mat4x4<re::math::mat::RealToReal<3, re::render::Model, re::render::World>> = mk();
    let b: re::math::mat::Mat4x4<re::math::mat::RealToReal<3, re::render::Model, re::render::Model>> = mk();
    let _ = a.compose(&b);
}

pub fn p289() {
    let a: re::math::mat::Mat4x4<re::math::mat::RealToReal<3, re::render::Model, re::render::World>> = mk();
    let b: re::math::mat::Mat4x4<re::math::mat::RealToReal<3, (), re::render::Model>> = mk();
    let _ = a.compose(&b);
}

pub fn p297() {
    let a: re::math::mat::Mat4x4<re::math::mat::RealToReal<3, re::render::Model, re::render::World>> = mk();
    let b: re::math::mat::Mat4x4<re::math::mat::RealToReal<3, re::render::World, re::render::Model>> = mk();
    let _r: re::math::mat::Mat4x4<re::math::mat::RealToReal<3, re::render::World, re::render::World>> = a.compose(&b);
}

pub fn p298() {
    let a: re::math::mat::Mat4x4<re::math::mat::RealToReal<3, re::render::Model, re::render::World>> = mk();
    let b: re::math::mat::Mat4x4<re::math::mat::RealToReal<3, re::render::World, re::render::Model>> = mk();
    let _ = a.compose(&b);
}

pub fn p299() {
    let a: re::math::mat::Mat4x4<re::math::mat::RealToReal<3, re::render::Model, re::render::World>> = mk();
    let b: re::math::mat::Mat4x4<re::math::mat::RealToReal<3, re::render::World, re::render::Model>> = mk();
    let _ = a.then(&b);
}

pub fn p301() {
    let a: re::math::mat::Mat4x4<re::math::mat::RealToReal<3, re::render::Model, re::render::World>> = mk();
    let b: re::math::mat::Mat4x4<re::math::mat::RealToReal<3, re::render::World, ()>> = mk();
    let _ = a.then(&b);
}

pub fn p307() {
    let a: re::math::mat::Mat4x4<re::math::mat::RealToReal<3, re::render::Model, re::render::World>> = mk();
    let b: re::math::mat::Mat4x4<re::math::mat::RealToReal<3, re::render::World, re::render::World>> = mk();
    let _ = a.then(&b);
}

pub fn p313() {
    let a: re::math::mat::Mat4x4<re::math::mat::RealToReal<3, re::render::Model, re::render::World>> = mk();
    let b: re::math::mat::Mat4x4<re::math::mat::RealToProj<re::render::World>> = mk();
    let _ = a.then(&b);
}

pub fn p319() {
    let a: re::math::mat::Mat4x4<re::math::mat::RealToReal<3, re::render::Model, re::render::World>> = mk();
    let b: re::math::point::Point3<re::render::Model> = mk();
    let _r: re::math::point::Point3<re::render::World> = a.apply_pt(&b);
}

pub fn p320() {
    let a: re::math::mat::Mat4x4<re::math::mat::RealToReal<3, re::render::Model, re::render::World>> = mk();
    let b: re::math::point::Point3<re::render::Model> = mk();
    let _ = a.apply_pt(&b);
}

pub fn p334() {
    let a: re::math::mat::Mat4x4<re::math::mat::RealToReal<3, re::render::Model, re::render::World>> = mk();
    let b: re::math::vec::Vec3<re::render::Model> = mk();
    let _r: re::math::vec::Vec3<re::render::World> = a.apply(&b);
}

pub fn p335() {
    let a: re::math::mat::Mat4x4<re::math::mat::RealToReal<3, re::render::Model, re::render::World>> = mk();
    let b: re::math::vec::Vec3<re::render::Model> = mk();
    let _ = a.apply(&b);
}

pub fn p344() {
    let a: re::math::mat::Mat4x4<re::math::mat::RealToReal<3, re::render::Model, re::render::World>> = mk();
    let _ = a.determinant();
}

pub fn p345() {
    let a: re::math::mat::Mat4x4<re::math::mat::RealToReal<3, re::render::Model, re::render::World>> = mk();
    let _ = a.inverse();
}

pub fn p346() {
    let a: re::math::mat::Mat4x4<re::math::mat::RealToReal<3, re::render::Model, re::render::World>> = mk();
    let _ = a.transpose();
}

pub fn p348() {
    let a: re::math::mat::Mat4x4<re::math::mat::RealToReal<3, (), re::render::Model>> = mk();
    let b: re::math::mat::Mat4x4<re::math::mat::RealToReal<3, re::render::Model, re::render::Model>> = mk();
    let _ = a.then(&b);
}

pub fn p349() {
    let a: re::math::mat::Mat4x4<re::math::mat::RealToReal<3, (), re::render::Model>> = mk();
    let b: re::math::mat::Mat4x4<re::math::mat::RealToReal<3, re::render::Model, ()>> = mk();
    let _ = a.compose(&b);
}

pub fn p350() {
    let a: re::math::mat::Mat4x4<re::math::mat::RealToReal<3, (), re::render::Model>> = mk();
    let b: re::math::mat::Mat4x4<re::math::mat::RealToReal<3, re::render::Model, ()>> = mk();
    let _ = a.then(&b);
}

pub fn p352() {
    let a: re::math::mat::Mat4x4<re::math::mat::RealToReal<3, (), re::render::Model>> = mk();
    let b: re::math::mat::Mat4x4<re::math::mat::RealToReal<3, re::render::Model, re::render::World>> = mk();
    let _ = a.then(&b);
}

pub fn p356() {
    let a: re::math::mat::Mat4x4<re::math::mat::RealToReal<3, (), re::render::Model>> = mk();
    let b: re::math::mat::Mat4x4<re::math::mat::RealToReal<3, (), ()>> = mk();
    let _ = a.compose(&b);
}

pub fn p362() {
    let a: re::math::mat::Mat4x4<re::math::mat::RealToReal<3, (), re::render::Model>> = mk();
    let b: re::math::mat::Mat4x4<re::math::mat::RealToReal<3, re::render::World, ()>> = mk();
    let _ = a.compose(&b);
}

pub fn p366() {
    let a: re::math::mat::Mat4x4<re::math::mat::RealToReal<3, (), re::render::Model>> = mk();
    let b: re::math::mat::Mat4x4<re::math::mat::RealToProj<re::render::Model>> = mk();
    let _ = a.then(&b);
}

pub fn p378() {
    let a: re::math::mat::Mat4x4<re::math::mat::RealToReal<3, (), re::render::Model>> = mk();
    let b: re::math::point::Point3<()> = mk();
    let _r: re::math::point::Point3<re::render::Model> = a.apply_pt(&b);
}

pub fn p381() {
    let a: re::math::mat::Mat4x4<re::math::mat::RealToReal<3, (), re::render::Model>> = mk();
    let b: re::math::point::Point3<()> = mk();
    let _ = a.apply_pt(&b);
}

pub fn p393() {
    let a: re::math::mat::Mat4x4<re::math::mat::RealToReal<3, (), re::render::Model>> = mk();
    let b: re::math::vec::Vec3<()> = mk();
    let _r: re::math::vec::Vec3<re::render::Model> = a.apply(&b);
}

pub fn p396() {
    let a: re::math::mat::Mat4x4<re::math::mat::RealToReal<3, (), re::render::Model>> = mk();
    let b: re::math::vec::Vec3<()> = mk();
    let _ = a.apply(&b);
}

pub fn p401() {
    let a: re::math::mat::Mat4x4<re::math::mat::RealToReal<3, (), re::render::Model>> = mk();
    let _ = a.determinant();
}

pub fn p402() {
    let a: re::math::mat::Mat4x4<re::math::mat::RealToReal<3, (), re::render::Model>> = mk();
    let _ = a.inverse();
}

pub fn p403() {
    let a: re::math::mat::Mat4x4<re::math::mat::RealToReal<3, (), re::render::Model>> = mk();
    let _ = a.transpose();
}

pub fn p407() {
    let a: re::math::mat::Mat4x4<re::math::mat::RealToReal<3, (), ()>> = mk();
    let b: re::math::mat::Mat4x4<re::math::mat::RealToReal<3, re::render::Model, ()>> = mk();
    let _ = a.compose(&b);
}

pub fn p411() {
    let a: re::math::mat::Mat4x4<re::math::mat::RealToReal<3, (), ()>> = mk();
    let b: re::math::mat::Mat4x4<re::math::mat::RealToReal<3, (), re::render::Model>> = mk();
    let _ = a.then(&b);
}

pub fn p412() {
    let a: re::math::mat::Mat4x4<re::math::mat::RealToReal<3, (), ()>> = mk();
    let b: re::math::mat::Mat4x4<re::math::mat::RealToReal<3, (), ()>> = mk();
    let _ = a.compose(&b);
}

pub fn p413() {
    let a: re::math::mat::Mat4x4<re::math::mat::RealToReal<3, (), ()>> = mk();
    let b: re::math::mat::Mat4x4<re::math::mat::RealToReal<3, (), ()>> = mk();
    let _ = a.then(&b);
}

pub fn p415() {
    let a: re::math::mat::Mat4x4<re::math::mat::RealToReal<3, (), ()>> = mk();
    let b: re::math::mat::Mat4x4<re::math::mat::RealToReal<3, (), re::render::World>> = mk();
    let _ = a.then(&b);
}

pub fn p419() {
    let a: re::math::mat::Mat4x4<re::math::mat::RealToReal<3, (), ()>> = mk();
    let b: re::math::mat::Mat4x4<re::math::mat::RealToReal<3, re::render::World, ()>> = mk();
    let _ = a.compose(&b);
}

pub fn p425() {
    let a: re::math::mat::Mat4x4<re::math::mat::RealToReal<3, (), ()>> = mk();
    let b: re::math::mat::Mat4x4<re::math::mat::RealToProj<()>> = mk();
    let _ = a.then(&b);
}

pub fn p436() {
    let a: re::math::mat::Mat4x4<re::math::mat::RealToReal<3, (), ()>> = mk();
    let b: re::math::point::Point3<()> = mk();
    let _r: re::math::point::Point3<()> = a.apply_pt(&b);
}

pub fn p438() {
    let a: re::math::mat::Mat4x4<re::math::mat::RealToReal<3, (), ()>> = mk();
    let b: re::math::point::Point3<()> = mk();
    let _ = a.apply_pt(&b);
}

pub fn p451() {
    let a: re::math::mat::Mat4x4<re::math::mat::RealToReal<3, (), ()>> = mk();
    let b: re::math::vec::Vec3<()> = mk();
    let _r: re::math::vec::Vec3<()> = a.apply(&b);
}

pub fn p453() {
    let a: re::math::mat::Mat4x4<re::math::mat::RealToReal<3, (), ()>> = mk();
    let b: re::math::vec::Vec3<()> = mk();
    let _ = a.apply(&b);
}

pub fn p458() {
    let a: re::math::mat::Mat4x4<re::math::mat::RealToReal<3, (), ()>> = mk();
    let _ = a.determinant();
}

pub fn p459() {
    let a: re::math::mat::Mat4x4<re::math::mat::RealToReal<3, (), ()>> = mk();
    let _ = a.inverse();
}

pub fn p460() {
    let a: re::math::mat::Mat4x4<re::math::mat::RealToReal<3, (), ()>> = mk();
    let _ = a.transpose();
}

pub fn p464() {
    let a: re::math::mat::Mat4x4<re::math::mat::RealToReal<3, (), re::render::World>> = mk();
    let b: re::math::mat::Mat4x4<re::math::mat::RealToReal<3, re::render::Model, ()>> = mk();
    let _ = a.compose(&b);
}

pub fn p470() {
    let a: re::math::mat::Mat4x4<re::math::mat::RealToReal<3, (), re::render::World>> = mk();
    let b: re::math::mat::Mat4x4<re::math::mat::RealToReal<3, (), ()>> = mk();
    let _ = a.compose(&b);
}

pub fn p474() {
    let a: re::math::mat::Mat4x4<re::math::mat::RealToReal<3, (), re::render::World>> = mk();
    let b: re::math::mat::Mat4x4<re::math::mat::RealToReal<3, re::render::World, re::render::Model>> = mk();
    let _ = a.then(&b);
}

pub fn p475() {
    let a: re::math::mat::Mat4x4<re::math::mat::RealToReal<3, (), re::render::World>> = mk();
    let b: re::math::mat::Mat4x4<re::math::mat::RealToReal<3, re::render::World, ()>> = mk();
    let _ = a.compose(&b);
}

pub fn p476() {
    let a: re::math::mat::Mat4x4<re::math::mat::RealToReal<3, (), re::render::World>> = mk();
    let b: re::math::mat::Mat4x4<re::math::mat::RealToReal<3, re::render::World, ()>> = mk();
    let _ = a.then(&b);
}

pub fn p478() {
    let a: re::math::mat::Mat4x4<re::math::mat::RealToReal<3, (), re::render::World>> = mk();
    let b: re::math::mat::Mat4x4<re::math::mat::RealToReal<3, re::render::World, re::render::World>> = mk();
    let _ = a.then(&b);
}

pub fn p484() {
    let a: re::math::mat::Mat4x4<re::math::mat::RealToReal<3, (), re::render::World>> = mk();
    let b: re::math::mat::Mat4x4<re::math::mat::RealToProj<re::render::World>> = mk();
    let _ = a.then(&b);
}

pub fn p494() {
    let a: re::math::mat::Mat4x4<re::math::mat::RealToReal<3, (), re::render::World>> = mk();
    let b: re::math::point::Point3<()> = mk();
    let _r: re::math::point::Point3<re::render::World> = a.apply_pt(&b);
}

pub fn p495() {
    let a: re::math::mat::Mat4x4<re::math::mat::RealToReal<3, (), re::render::World>> = mk();
    let b: re::math::point::Point3<()> = mk();
    let _ = a.apply_pt(&b);
}

pub fn p509() {
    let a: re::math::mat::Mat4x4<re::math::mat::RealToReal<3, (), re::render::World>> = mk();
    let b: re::math::vec::Vec3<()> = mk();
    let _r: re::math::vec::Vec3<re::render::World> = a.apply(&b);
}

pub fn p510() {
    let a: re::math::mat::Mat4x4<re::math::mat::RealToReal<3, (), re::render::World>> = mk();
    let b: re::math::vec::Vec3<()> = mk();
    let _ = a.apply(&b);
}

pub fn p515() {
    let a: re::math::mat::Mat4x4<re::math::mat::RealToReal<3, (), re::render::World>> = mk();
    let _ = a.determinant();
}

pub fn p516() {
    let a: re::math::mat::Mat4x4<re::math::mat::RealToReal<3, (), re::render::World>> = mk();
    let _ = a.inverse();
}

pub fn p517() {
    let a: re::math::mat::Mat4x4<re::math::mat::RealToReal<3, (), re::render::World>> = mk();
    let _ = a.transpose();
}

pub fn p523() {
    let a: re::math::mat::Mat4x4<re::math::mat::RealToReal<3, re::render::World, re::render::Model>> = mk();
    let b: re::math::mat::Mat4x4<re::math::mat::RealToReal<3, re::render::Model, re::render::Model>> = mk();
    let _ = a.then(&b);
}

pub fn p525() {
    let a: re::math::mat::Mat4x4<re::math::mat::RealToReal<3, re::render::World, re::render::Model>> = mk();
    let b: re::math::mat::Mat4x4<re::math::mat::RealToReal<3, re::render::Model, ()>> = mk();
    let _ = a.then(&b);
}

pub fn p526() {
    let a: re::math::mat::Mat4x4<re::math::mat::RealToReal<3, re::render::World, re::render::Model>> = mk();
    let b: re::math::mat::Mat4x4<re::math::mat::RealToReal<3, re::render::Model, re::render::World>> = mk();
    let _r: re::math::mat::Mat4x4<re::math::mat::RealToReal<3, re::render::Model, re::render::Model>> = a.compose(&b);
}

pub fn p530() {
    let a: re::math::mat::Mat4x4<re::math::mat::RealToReal<3, re::render::World, re::render::Model>> = mk();
    let b: re::math::mat::Mat4x4<re::math::mat::RealToReal<3, re::render::Model, re::render::World>> = mk();
    let _ = a.compose(&b);
}

pub fn p531() {
    let a: re::math::mat::Mat4x4<re::math::mat::RealToReal<3, re::render::World, re::render::Model>> = mk();
    let b: re::math::mat::Mat4x4<re::math::mat::RealToReal<3, re::render::Model, re::render::World>> = mk();
    let _ = a.then(&b);
}

pub fn p537() {
    let a: re::math::mat::Mat4x4<re::math::mat::RealToReal<3, re::render::World, re::render::Model>> = mk();
    let b: re::math::mat::Mat4x4<re::math::mat::RealToReal<3, (), re::render::World>> = mk();
    let _ = a.compose(&b);
}

pub fn p548() {
    let a: re::math::mat::Mat4x4<re::math::mat::RealToReal<3, re::render::World, re::render::Model>> = mk();
    let b: re::math::mat::Mat4x4<re::math::mat::RealToReal<3, re::render::World, re::render::World>> = mk();
    let _r: re::math::mat::Mat4x4<re::math::mat::RealToReal<3, re::render::World, re::render::Model>> = a.compose(&b);
}

pub fn p551() {
    let a: re::math::mat::Mat4x4<re::math::mat::RealToReal<3, re::render::World, re::render::Model>> = mk();
    let b: re::math::mat::Mat4x4<re::math::mat::RealToReal<3, re::render::World, re::render::World>> = mk();
    let _ = a.compose(&b);
}

pub fn p553() {
    let a: re::math::mat::Mat4x4<re::math::mat::RealToReal<3, re::render::World, re::render::Model>> = mk();
    let b: re::math::mat::Mat4x4<re::math::mat::RealToProj<re::render::Model>> = mk();
    let _ = a.then(&b);
}

pub fn p569() {
    let a: re::math::mat::Mat4x4<re::math::mat::RealToReal<3, re::render::World, re::render::Model>> = mk();
    let b: re::math::point::Point3<re::render::World> = mk();
    let _r: re::math::point::Point3<re::render::Model> = a.apply_pt(&b);
}

pub fn p572() {
    let a: re::math::mat::Mat4x4<re::math::mat::RealToReal<3, re::render::World, re::render::Model>> = mk();
    let b: re::math::point::Point3<re::render::World> = mk();
    let _ = a.apply_pt(&b);
}

pub fn p584() {
    let a: re::math::mat::Mat4x4<re::math::mat::RealToReal<3, re::render::World, re::render::Model>> = mk();
    let b: re::math::vec::Vec3<re::render::World> = mk();
    let _r: re::math::vec::Vec3<re::render::Model> = a.apply(&b);
}

pub fn p587() {
    let a: re::math::mat::Mat4x4<re::math::mat::RealToReal<3, re::render::World, re::render::Model>> = mk();
    let b: re::math::vec::Vec3<re::render::World> = mk();
    let _ = a.apply(&b);
}

pub fn p588() {
    let a: re::math::mat::Mat4x4<re::math::mat::RealToReal<3, re::render::World, re::render::Model>> = mk();
    let _ = a.determinant();
}

pub fn p589() {
    let a: re::math::mat::Mat4x4<re::math::mat::RealToReal<3, re::render::World, re::render::Model>> = mk();
    let _ = a.inverse();
}

pub fn p590() {
    let a: re::math::mat::Mat4x4<re::math::mat::RealToReal<3, re::render::World, re::render::Model>> = mk();
    let _ = a.transpose();
}

pub fn p596() {
    let a: re::math::mat::Mat4x4<re::math::mat::RealToReal<3, re::render::World, ()>> = mk();
    let b: re::math::mat::Mat4x4<re::math::mat::RealToReal<3, re::render::Model, re::render::World>> = mk();
    let _ = a.compose(&b);
}

pub fn p598() {
    let a: re::math::mat::Mat4x4<re::math::mat::RealToReal<3, re::render::World, ()>> = mk();
    let b: re::math::mat::Mat4x4<re::math::mat::RealToReal<3, (), re::render::Model>> = mk();
    let _ = a.then(&b);
}

pub fn p600() {
    let a: re::math::mat::Mat4x4<re::math::mat::RealToReal<3, re::render::World, ()>> = mk();
    let b: re::math::mat::Mat4x4<re::math::mat::RealToReal<3, (), ()>> = mk();
    let _ = a.then(&b);
}

pub fn p601() {
    let a: re::math::mat::Mat4x4<re::math::mat::RealToReal<3, re::render::World, ()>> = mk();
    let b: re::math::mat::Mat4x4<re::math::mat::RealToReal<3, (), re::render::World>> = mk();
    let _ = a.compose(&b);
}

pub fn p602() {
    let a: re::math::mat::Mat4x4<re::math::mat::RealToReal<3, re::render::World, ()>> = mk();
    let b: re::math::mat::Mat4x4<re::math::mat::RealToReal<3, (), re::render::World>> = mk();
    let _ = a.then(&b);
}

pub fn p608() {
    let a: re::math::mat::Mat4x4<re::math::mat::RealToReal<3, re::render::World, ()>> = mk();
    let b: re::math::mat::Mat4x4<re::math::mat::RealToReal<3, re::render::World, re::render::World>> = mk();
    let _ = a.compose(&b);
}

pub fn p612() {
    let a: re::math::mat::Mat4x4<re::math::mat::RealToReal<3, re::render::World, ()>> = mk();
    let b: re::math::mat::Mat4x4<re::math::mat::RealToProj<()>> = mk();
    let _ = a.then(&b);
}

pub fn p627() {
    let a: re::math::mat::Mat4x4<re::math::mat::RealToReal<3, re::render::World, ()>> = mk();
    let b: re::math::point::Point3<re::render::World> = mk();
    let _r: re::math::point::Point3<()> = a.apply_pt(&b);
}

pub fn p629() {
    let a: re::math::mat::Mat4x4<re::math::mat::RealToReal<3, re::render::World, ()>> = mk();
    let b: re::math::point::Point3<re::render::World> = mk();
    let _ = a.apply_pt(&b);
}

pub fn p642() {
    let a: re::math::mat::Mat4x4<re::math::mat::RealToReal<3, re::render::World, ()>> = mk();
    let b: re::math::vec::Vec3<re::render::World> = mk();
    let _r: re::math::vec::Vec3<()> = a.apply(&b);
}

pub fn p644() {
    let a: re::math::mat::Mat4x4<re::math::mat::RealToReal<3, re::render::World, ()>> = mk();
    let b: re::math::vec::Vec3<re::render::World> = mk();
    let _ = a.apply(&b);
}

pub fn p645() {
    let a: re::math::mat::Mat4x4<re::math::mat::RealToReal<3, re::render::World, ()>> = mk();
    let _ = a.determinant();
}

pub fn p646() {
    let a: re::math::mat::Mat4x4<re::math::mat::RealToReal<3, re::render::World, ()>> = mk();
    let _ = a.inverse();
}

pub fn p647() {
    let a: re::math::mat::Mat4x4<re::math::mat::RealToReal<3, re::render::World, ()>> = mk();
    let _ = a.transpose();
}

pub fn p657() {
    let a: re::math::mat::Mat4x4<re::math::mat::RealToReal<3, re::render::World, re::render::World>> = mk();
    let b: re::math::mat::Mat4x4<re::math::mat::RealToReal<3, re::render::Model, re::render::World>> = mk();
    let _r: re::math::mat::Mat4x4<re::math::mat::RealToReal<3, re::render::Model, re::render::World>> = a.compose(&b);
}

pub fn p661() {
    let a: re::math::mat::Mat4x4<re::math::mat::RealToReal<3, re::render::World, re::render::World>> = mk();
    let b: re::math::mat::Mat4x4<re::math::mat::RealToReal<3, re::render::Model, re::render::World>> = mk();
    let _ = a.compose(&b);
}

pub fn p667() {
    let a: re::math::mat::Mat4x4<re::math::mat::RealToReal<3, re::render::World, re::render::World>> = mk();
    let b: re::math::mat::Mat4x4<re::math::mat::RealToReal<3, (), re::render::World>> = mk();
    let _ = a.compose(&b);
}

pub fn p673() {
    let a: re::math::mat::Mat4x4<re::math::mat::RealToReal<3, re::render::World, re::render::World>> = mk();
    let b: re::math::mat::Mat4x4<re::math::mat::RealToReal<3, re::render::World, re::render::Model>> = mk();
    let _ = a.then(&b);
}

pub fn p675() {
    let a: re::math::mat::Mat4x4<re::math::mat::RealToReal<3, re::render::World, re::render::World>> = mk();
    let b: re::math::mat::Mat4x4<re::math::mat::RealToReal<3, re::render::World, ()>> = mk();
    let _ = a.then(&b);
}

pub fn p679() {
    let a: re::math::mat::Mat4x4<re::math::mat::RealToReal<3, re::render::World, re::render::World>> = mk();
    let b: re::math::mat::Mat4x4<re::math::mat::RealToReal<3, re::render::World, re::render::World>> = mk();
    let _r: re::math::mat::Mat4x4<re::math::mat::RealToReal<3, re::render::World, re::render::World>> = a.compose(&b);
}

pub fn p680() {
    let a: re::math::mat::Mat4x4<re::math::mat::RealToReal<3, re::render::World, re::render::World>> = mk();
    let b: re::math::mat::Mat4x4<re::math::mat::RealToReal<3, re::render::World, re::render::World>> = mk();
    let _ = a.compose(&b);
}

pub fn p681() {
    let a: re::math::mat::Mat4x4<re::math::mat::RealToReal<3, re::render::World, re::render::World>> = mk();
    let b: re::math::mat::Mat4x4<re::math::mat::RealToReal<3, re::render::World, re::render::World>> = mk();
    let _ = a.then(&b);
}

pub fn p687() {
    let a: re::math::mat::Mat4x4<re::math::mat::RealToReal<3, re::render::World, re::render::World>> = mk();
    let b: re::math::mat::Mat4x4<re::math::mat::RealToProj<re::render::World>> = mk();
    let _ = a.then(&b);
}

pub fn p701() {
    let a: re::math::mat::Mat4x4<re::math::mat::RealToReal<3, re::render::World, re::render::World>> = mk();
    let b: re::math::point::Point3<re::render::World> = mk();
    let _r: re::math::point::Point3<re::render::World> = a.apply_pt(&b);
}

pub fn p702() {
    let a: re::math::mat::Mat4x4<re::math::mat::RealToReal<3, re::render::World, re::render::World>> = mk();
    let b: re::math::point::Point3<re::render::World> = mk();
    let _ = a.apply_pt(&b);
}

pub fn p716() {
    let a: re::math::mat::Mat4x4<re::math::mat::RealToReal<3, re::render::World, re::render::World>> = mk();
    let b: re::math::vec::Vec3<re::render::World> = mk();
    let _r: re::math::vec::Vec3<re::render::World> = a.apply(&b);
}

pub fn p717() {
    let a: re::math::mat::Mat4x4<re::math::mat::RealToReal<3, re::render::World, re::render::World>> = mk();
    let b: re::math::vec::Vec3<re::render::World> = mk();
    let _ = a.apply(&b);
}

pub fn p718() {
    let a: re::math::mat::Mat4x4<re::math::mat::RealToReal<3, re::render::World, re::render::World>> = mk();
    let _ = a.determinant();
}

pub fn p719() {
    let a: re::math::mat::Mat4x4<re::math::mat::RealToReal<3, re::render::World, re::render::World>> = mk();
    let _ = a.inverse();
}

pub fn p720() {
    let a: re::math::mat::Mat4x4<re::math::mat::RealToReal<3, re::render::World, re::render::World>> = mk();
    let _ = a.transpose();
}

pub fn p722() {
    let a: re::math::mat::Mat4x4<re::math::mat::RealToProj<re::render::Model>> = mk();
    let b: re::math::mat::Mat4x4<re::math::mat::RealToReal<3, re::render::Model, re::render::Model>> = mk();
    let _ = a.compose(&b);
}

pub fn p728() {
    let a: re::math::mat::Mat4x4<re::math::mat::RealToProj<re::render::Model>> = mk();
    let b: re::math::mat::Mat4x4<re::math::mat::RealToReal<3, (), re::render::Model>> = mk();
    let _ = a.compose(&b);
}

pub fn p734() {
    let a: re::math::mat::Mat4x4<re::math::mat::RealToProj<re::render::Model>> = mk();
    let b: re::math::mat::Mat4x4<re::math::mat::RealToReal<3, re::render::World, re::render::Model>> = mk();
    let _ = a.compose(&b);
}

pub fn p739() {
    let a: re::math::mat::Mat4x4<re::math::mat::RealToProj<re::render::Model>> = mk();
    let b: re::math::point::Point3<re::render::Model> = mk();
    let _ = a.apply(&b);
}

pub fn p754() {
    let a: re::math::mat::Mat4x4<re::math::mat::RealToProj<()>> = mk();
    let b: re::math::mat::Mat4x4<re::math::mat::RealToReal<3, re::render::Model, ()>> = mk();
    let _ = a.compose(&b);
}

pub fn p760() {
    let a: re::math::mat::Mat4x4<re::math::mat::RealToProj<()>> = mk();
    let b: re::math::mat::Mat4x4<re::math::mat::RealToReal<3, (), ()>> = mk();
    let _ = a.compose(&b);
}

pub fn p766() {
    let a: re::math::mat::Mat4x4<re::math::mat::RealToProj<()>> = mk();
    let b: re::math::mat::Mat4x4<re::math::mat::RealToReal<3, re::render::World, ()>> = mk();
    let _ = a.compose(&b);
}

pub fn p771() {
    let a: re::math::mat::Mat4x4<re::math::mat::RealToProj<()>> = mk();
    let b: re::math::point::Point3<()> = mk();
    let _ = a.apply(&b);
}

pub fn p786() {
    let a: re::math::mat::Mat4x4<re::math::mat::RealToProj<re::render::World>> = mk();
    let b: re::math::mat::Mat4x4<re::math::mat::RealToReal<3, re::render::Model, re::render::World>> = mk();
    let _ = a.compose(&b);
}

pub fn p792() {
    let a: re::math::mat::Mat4x4<re::math::mat::RealToProj<re::render::World>> = mk();
    let b: re::math::mat::Mat4x4<re::math::mat::RealToReal<3, (), re::render::World>> = mk();
    let _ = a.compose(&b);
}

pub fn p798() {
    let a: re::math::mat::Mat4x4<re::math::mat::RealToProj<re::render::World>> = mk();
    let b: re::math::mat::Mat4x4<re::math::mat::RealToReal<3, re::render::World, re::render::World>> = mk();
    let _ = a.compose(&b);
}

pub fn p803() {
    let a: re::math::mat::Mat4x4<re::math::mat::RealToProj<re::render::World>> = mk();
    let b: re::math::point::Point3<re::render::World> = mk();
    let _ = a.apply(&b);
}

pub fn p811() {
    use re::geom::{Tri, Vertex};
    let vs = |_: Vertex<re::math::point::Point3<re::render::Model>, ()>, _: ()| -> Vertex<re::math::vec::ProjVec4, f32> { mk() };
    let fs = |_: re::render::raster::Frag<f32>| -> Option<re::math::color::Color4> { mk() };
    let sh = re::render::shader::Shader::new(vs, fs);
    let mut target: re::util::buf::Buf2<u32> = mk();
    let tris: Vec<Tri<usize>> = mk();
    let verts: Vec<Vertex<re::math::point::Point3<re::render::Model>, ()>> = mk();
    re::render::render(&tris, &verts, &sh, (), mk(), &mut target, &mk::<re::render::Context>());
}

pub fn p813() {
    let a: re::math::point::Point2<re::render::Model> = mk();
    let b: re::math::point::Point2<re::render::Model> = mk();
    let _ = re::math::Lerp::lerp(&a, &b, 0.5);
}

pub fn p814() {
    let a: re::math::point::Point2<re::render::Model> = mk();
    let b: re::math::point::Point2<re::render::Model> = mk();
    let _ = a - b;
}

pub fn p830() {
    let a: re::math::point::Point2<re::render::Model> = mk();
    let b: re::math::vec::Vec2<re::render::Model> = mk();
    let _ = a + b;
}

pub fn p840() {
    let a: re::math::point::Point2<()> = mk();
    let b: re::math::point::Point2<()> = mk();
    let _ = re::math::Lerp::lerp(&a, &b, 0.5);
}

pub fn p841() {
    let a: re::math::point::Point2<()> = mk();
    let b: re::math::point::Point2<()> = mk();
    let _ = a - b;
}

pub fn p855() {
    let a: re::math::point::Point2<()> = mk();
    let b: re::math::vec::Vec2<()> = mk();
    let _ = a + b;
}

pub fn p867() {
    let a: re::math::point::Point2<re::render::World> = mk();
    let b: re::math::point::Point2<re::render::World> = mk();
    let _ = re::math::Lerp::lerp(&a, &b, 0.5);
}

pub fn p868() {
    let a: re::math::point::Point2<re::render::World> = mk();
    let b: re::math::point::Point2<re::render::World> = mk();
    let _ = a - b;
}

pub fn p880() {
    let a: re::math::point::Point2<re::render::World> = mk();
    let b: re::math::vec::Vec2<re::render::World> = mk();
    let _ = a + b;
}

pub fn p894() {
    let a: re::math::point::Point3<re::render::Model> = mk();
    let b: re::math::point::Point3<re::render::Model> = mk();
    let c: re::math::point::Point3<re::render::Model> = mk();
    let d = re::math::space::Affine::sub(&a, &b);
    let _ = re::math::space::Affine::add(&c, &d);
}

pub fn p899() {
    let a: re::math::point::Point3<re::render::Model> = mk();
    let b: re::math::point::Point3<re::render::Model> = mk();
    let _r: re::math::vec::Vec3<re::render::Model> = a - b;
}

pub fn p903() {
    let a: re::math::point::Point3<re::render::Model> = mk();
    let b: re::math::point::Point3<re::render::Model> = mk();
    let _ = re::math::Lerp::lerp(&a, &b, 0.5);
}

pub fn p904() {
    let a: re::math::point::Point3<re::render::Model> = mk();
    let b: re::math::point::Point3<re::render::Model> = mk();
    let _ = a - b;
}

pub fn p932() {
    let a: re::math::point::Point3<re::render::Model> = mk();
    let b: re::math::vec::Vec3<re::render::Model> = mk();
    let _ = a + b;
}

pub fn p960() {
    let a: re::math::point::Point3<()> = mk();
    let b: re::math::point::Point3<()> = mk();
    let c: re::math::point::Point3<()> = mk();
    let d = re::math::space::Affine::sub(&a, &b);
    let _ = re::math::space::Affine::add(&c, &d);
}

pub fn p964() {
    let a: re::math::point::Point3<()> = mk();
    let b: re::math::point::Point3<()> = mk();
    let _r: re::math::vec::Vec3<()> = a - b;
}

pub fn p967() {
    let a: re::math::point::Point3<()> = mk();
    let b: re::math::point::Point3<()> = mk();
    let _ = re::math::Lerp::lerp(&a, &b, 0.5);
}

pub fn p968() {
    let a: re::math::point::Point3<()> = mk();
    let b: re::math::point::Point3<()> = mk();
    let _ = a - b;
}

pub fn p985() {
    let a: re::math::point::Point3<()> = mk();
    let b: re::math::vec::Vec3<()> = mk();
    let _ = a + b;
}

pub fn p1025() {
    let a: re::math::point::Point3<re::render::World> = mk();
    let b: re::math::point::Point3<re::render::World> = mk();
    let c: re::math::point::Point3<re::render::World> = mk();
    let d = re::math::space::Affine::sub(&a, &b);
    let _ = re::math::space::Affine::add(&c, &d);
}

pub fn p1028() {
    let a: re::math::point::Point3<re::render::World> = mk();
    let b: re::math::point::Point3<re::render::World> = mk();
    let _r: re::math::vec::Vec3<re::render::World> = a - b;
}

pub fn p1030() {
    let a: re::math::point::Point3<re::render::World> = mk();
    let b: re::math::point::Point3<re::render::World> = mk();
    let _ = re::math::Lerp::lerp(&a, &b, 0.5);
}

pub fn p1031() {
    let a: re::math::point::Point3<re::render::World> = mk();
    let b: re::math::point::Point3<re::render::World> = mk();
    let _ = a - b;
}

pub fn p1037() {
    let a: re::math::point::Point3<re::render::World> = mk();
    let b: re::math::vec::Vec3<re::render::World> = mk();
    let _ = a + b;
}

pub fn p1044() {
    let a: re::math::vec::Vec2<re::render::Model> = mk();
    let b: re::math::vec::Vec2<re::render::Model> = mk();
    let _ = a + b;
}

pub fn p1045() {
    let a: re::math::vec::Vec2<re::render::Model> = mk();
    let b: re::math::vec::Vec2<re::render::Model> = mk();
    let _ = a.dot(&b);
}

pub fn p1046() {
    let a: re::math::vec::Vec2<re::render::Model> = mk();
    let b: re::math::vec::Vec2<re::render::Model> = mk();
    let _ = re::math::Lerp::lerp(&a, &b, 0.5);
}

pub fn p1047() {
    let a: re::math::vec::Vec2<re::render::Model> = mk();
    let b: re::math::vec::Vec2<re::render::Model> = mk();
    let _ = a - b;
}

pub fn p1078() {
    let a: re::math::vec::Vec2<()> = mk();
    let b: re::math::vec::Vec2<()> = mk();
    let _ = a + b;
}

pub fn p1079() {
    let a: re::math::vec::Vec2<()> = mk();
    let b: re::math::vec::Vec2<()> = mk();
    let _ = a.dot(&b);
}

pub fn p1080() {
    let a: re::math::vec::Vec2<()> = mk();
    let b: re::math::vec::Vec2<()> = mk();
    let _ = re::math::Lerp::lerp(&a, &b, 0.5);
}

pub fn p1081() {
    let a: re::math::vec::Vec2<()> = mk();
    let b: re::math::vec::Vec2<()> = mk();
    let _ = a - b;
}

pub fn p1112() {
    let a: re::math::vec::Vec2<re::render::World> = mk();
    let b: re::math::vec::Vec2<re::render::World> = mk();
    let _ = a + b;
}

pub fn p1113() {
    let a: re::math::vec::Vec2<re::render::World> = mk();
    let b: re::math::vec::Vec2<re::render::World> = mk();
    let _ = a.dot(&b);
}

pub fn p1114() {
    let a: re::math::vec::Vec2<re::render::World> = mk();
    let b: re::math::vec::Vec2<re::render::World> = mk();
    let _ = re::math::Lerp::lerp(&a, &b, 0.5);
}

pub fn p1115() {
    let a: re::math::vec::Vec2<re::render::World> = mk();
    let b: re::math::vec::Vec2<re::render::World> = mk();
    let _ = a - b;
}

pub fn p1146() {
    let a: re::math::vec::Vec3<re::render::Model> = mk();
    let b: re::math::vec::Vec3<re::render::Model> = mk();
    let _ = a + b;
}

pub fn p1147() {
    let a: re::math::vec::Vec3<re::render::Model> = mk();
    let b: re::math::vec::Vec3<re::render::Model> = mk();
    let _ = a.dot(&b);
}

pub fn p1148() {
    let a: re::math::vec::Vec3<re::render::Model> = mk();
    let b: re::math::vec::Vec3<re::render::Model> = mk();
    let _ = re::math::Lerp::lerp(&a, &b, 0.5);
}

pub fn p1149() {
    let a: re::math::vec::Vec3<re::render::Model> = mk();
    let b: re::math::vec::Vec3<re::render::Model> = mk();
    let _ = a - b;
}

pub fn p1181() {
    let a: re::math::vec::Vec3<()> = mk();
    let b: re::math::vec::Vec3<()> = mk();
    let _ = a + b;
}

pub fn p1182() {
    let a: re::math::vec::Vec3<()> = mk();
    let b: re::math::vec::Vec3<()> = mk();
    let _ = a.dot(&b);
}

pub fn p1183() {
    let a: re::math::vec::Vec3<()> = mk();
    let b: re::math::vec::Vec3<()> = mk();
    let _ = re::math::Lerp::lerp(&a, &b, 0.5);
}

pub fn p1184() {
    let a: re::math::vec::Vec3<()> = mk();
    let b: re::math::vec::Vec3<()> = mk();
    let _ = a - b;
}

pub fn p1215() {
    let a: re::math::vec::Vec3<re::render::World> = mk();
    let b: re::math::vec::Vec3<re::render::World> = mk();
    let _ = a + b;
}

pub fn p1216() {
    let a: re::math::vec::Vec3<re::render::World> = mk();
    let b: re::math::vec::Vec3<re::render::World> = mk();
    let _ = a.dot(&b);
}

pub fn p1217() {
    let a: re::math::vec::Vec3<re::render::World> = mk();
    let b: re::math::vec::Vec3<re::render::World> = mk();
    let _ = re::math::Lerp::lerp(&a, &b, 0.5);
}

pub fn p1218() {
    let a: re::math::vec::Vec3<re::render::World> = mk();
    let b: re::math::vec::Vec3<re::render::World> = mk();
    let _ = a - b;
}

