#![allow(unused)]
fn mk<T>() -> T { unimplemented!() }

pub fn p1() {
    let a: re::math::angle::Angle = mk();
    let b: re::math::angle::Angle = mk();
    let _ = a + b;
}

pub fn p3() {
    let a: re::math::angle::Angle = mk();
    let b: f32 = mk();
    let _ = a * b;
}

pub fn p4() {
    let a: re::math::angle::Angle = mk();
    let _ = re::math::angle::polar(1.0, a);
}

pub fn p5() {
    let a: re::math::angle::Angle = mk();
    let _ = re::math::mat::rotate_x(a);
}

pub fn p6() {
    let a: re::math::angle::Angle = mk();
    let _ = re::math::angle::Angle::sin(a);
}

pub fn p7() {
    let a: re::math::color::Color3f<re::math::color::Hsl> = mk();
    let b: re::math::color::Color3f<re::math::color::Hsl> = mk();
    let c: re::math::color::Color3f<re::math::color::Hsl> = mk();
    let d = re::math::space::Affine::sub(&a, &b);
    let _ = re::math::space::Affine::add(&c, &d);
}

pub fn p11() {
    let a: re::math::color::Color3f<re::math::color::Hsl> = mk();
    let b: re::math::color::Color3f<re::math::color::Hsl> = mk();
    let _ = re::math::space::Affine::add(&a, &b);
}

pub fn p12() {
    let a: re::math::color::Color3f<re::math::color::Hsl> = mk();
    let b: re::math::color::Color3f<re::math::color::Hsl> = mk();
    let _ = re::math::space::Affine::sub(&a, &b);
}

pub fn p13() {
    let a: re::math::color::Color3f<re::math::color::Hsl> = mk();
    let b: re::math::color::Color3f<re::math::color::Hsl> = mk();
    let _ = re::math::Lerp::lerp(&a, &b, 0.5);
}

pub fn p32() {
    let a: re::math::color::Color3f<re::math::color::Hsl> = mk();
    let _ = a.to_rgb();
}

pub fn p41() {
    let a: re::math::color::Color3f<re::math::color::LinRgb> = mk();
    let b: re::math::color::Color3f<re::math::color::LinRgb> = mk();
    let _ = re::math::space::Affine::add(&a, &b);
}

pub fn p42() {
    let a: re::math::color::Color3f<re::math::color::LinRgb> = mk();
    let b: re::math::color::Color3f<re::math::color::LinRgb> = mk();
    let _ = re::math::space::Affine::sub(&a, &b);
}

pub fn p43() {
    let a: re::math::color::Color3f<re::math::color::LinRgb> = mk();
    let b: re::math::color::Color3f<re::math::color::LinRgb> = mk();
    let _ = re::math::Lerp::lerp(&a, &b, 0.5);
}

pub fn p47() {
    let a: re::math::color::Color3f<re::math::color::LinRgb> = mk();
    let _ = a.to_srgb();
}

pub fn p64() {
    let a: re::math::color::Color3f<re::math::color::Rgb> = mk();
    let b: re::math::color::Color3f<re::math::color::Rgb> = mk();
    let c: re::math::color::Color3f<re::math::color::Rgb> = mk();
    let d = re::math::space::Affine::sub(&a, &b);
    let _ = re::math::space::Affine::add(&c, &d);
}

pub fn p67() {
    let a: re::math::color::Color3f<re::math::color::Rgb> = mk();
    let b: re::math::color::Color3f<re::math::color::Rgb> = mk();
    let _ = re::math::space::Affine::add(&a, &b);
}

pub fn p68() {
    let a: re::math::color::Color3f<re::math::color::Rgb> = mk();
    let b: re::math::color::Color3f<re::math::color::Rgb> = mk();
    let _ = re::math::space::Affine::sub(&a, &b);
}

pub fn p69() {
    let a: re::math::color::Color3f<re::math::color::Rgb> = mk();
    let b: re::math::color::Color3f<re::math::color::Rgb> = mk();
    let _ = re::math::Lerp::lerp(&a, &b, 0.5);
}

pub fn p78() {
    let a: re::math::color::Color3f<re::math::color::Rgb> = mk();
    let _ = a.to_color3();
}

pub fn p79() {
    let a: re::math::color::Color3f<re::math::color::Rgb> = mk();
    let _ = a.to_hsl();
}

pub fn p80() {
    let a: re::math::color::Color3f<re::math::color::Rgb> = mk();
    let _ = a.to_linear();
}

pub fn p81() {
    let a: re::math::color::Color3f<re::math::color::Rgb> = mk();
    let _ = a.to_rgba();
}

pub fn p94() {
    let a: re::math::color::Color3<re::math::color::Hsl> = mk();
    let b: re::math::color::Color3<re::math::color::Hsl> = mk();
    let c: re::math::color::Color3<re::math::color::Hsl> = mk();
    let d = re::math::space::Affine::sub(&a, &b);
    let _ = re::math::space::Affine::add(&c, &d);
}

pub fn p100() {
    let a: re::math::color::Color3<re::math::color::Hsl> = mk();
    let _ = a.to_rgb();
}

pub fn p121() {
    let a: re::math::color::Color3<re::math::color::Rgb> = mk();
    let b: re::math::color::Color3<re::math::color::Rgb> = mk();
    let c: re::math::color::Color3<re::math::color::Rgb> = mk();
    let d = re::math::space::Affine::sub(&a, &b);
    let _ = re::math::space::Affine::add(&c, &d);
}

pub fn p122() {
    let a: re::math::color::Color3<re::math::color::Rgb> = mk();
    let _ = a.to_hsl();
}

pub fn p123() {
    let a: re::math::color::Color3<re::math::color::Rgb> = mk();
    let _ = a.to_rgba();
}

pub fn p129() {
    let a: f32 = mk();
    let b: f32 = mk();
    let _ = a + b;
}

pub fn p133() {
    let a: re::math::mat::Mat3x3<re::math::mat::RealToReal<2, re::render::Model, re::render::Model>> = mk();
    let b: re::math::point::Point2<re::render::Model> = mk();
    let _r: re::math::point::Point2<re::render::Model> = a.apply_pt(&b);
}

pub fn p137() {
    let a: re::math::mat::Mat3x3<re::math::mat::RealToReal<2, re::render::Model, re::render::Model>> = mk();
    let b: re::math::vec::Vec2<re::render::Model> = mk();
    let _r: re::math::vec::Vec2<re::render::Model> = a.apply(&b);
}

pub fn p139() {
    let a: re::math::mat::Mat3x3<re::math::mat::RealToReal<2, re::render::Model, re::render::Model>> = mk();
    let b: re::math::vec::Vec2<re::render::Model> = mk();
    let _ = a.apply(&b);
}

pub fn p146() {
    let a: re::math::mat::Mat3x3<re::math::mat::RealToReal<2, re::render::Model, re::render::World>> = mk();
    let b: re::math::point::Point2<re::render::Model> = mk();
    let _r: re::math::point::Point2<re::render::World> = a.apply_pt(&b);
}

pub fn p150() {
    let a: re::math::mat::Mat3x3<re::math::mat::RealToReal<2, re::render::Model, re::render::World>> = mk();
    let b: re::math::vec::Vec2<re::render::Model> = mk();
    let _r: re::math::vec::Vec2<re::render::World> = a.apply(&b);
}

pub fn p151() {
    let a: re::math::mat::Mat3x3<re::math::mat::RealToReal<2, re::render::Model, re::render::World>> = mk();
    let b: re::math::vec::Vec2<re::render::Model> = mk();
    let _ = a.apply(&b);
}

pub fn p159() {
    let a: re::math::mat::Mat3x3<re::math::mat::RealToReal<2, re::render::World, re::render::Model>> = mk();
    let b: re::math::point::Point2<re::render::World> = mk();
    let _r: re::math::point::Point2<re::render::Model> = a.apply_pt(&b);
}

pub fn p164() {
    let a: re::math::mat::Mat3x3<re::math::mat::RealToReal<2, re::render::World, re::render::Model>> = mk();
    let b: re::math::vec::Vec2<re::render::World> = mk();
    let _r: re::math::vec::Vec2<re::render::Model> = a.apply(&b);
}

pub fn p166() {
    let a: re::math::mat::Mat3x3<re::math::mat::RealToReal<2, re::render::World, re::render::Model>> = mk();
    let b: re::math::vec::Vec2<re::render::World> = mk();
    let _ = a.apply(&b);
}

pub fn p172() {
    let a: re::math::mat::Mat3x3<re::math::mat::RealToReal<2, re::render::World, re::render::World>> = mk();
    let b: re::math::point::Point2<re::render::World> = mk();
    let _r: re::math::point::Point2<re::render::World> = a.apply_pt(&b);
}

pub fn p177() {
    let a: re::math::mat::Mat3x3<re::math::mat::RealToReal<2, re::render::World, re::render::World>> = mk();
    let b: re::math::vec::Vec2<re::render::World> = mk();
    let _r: re::math::vec::Vec2<re::render::World> = a.apply(&b);
}

pub fn p178() {
    let a: re::math::mat::Mat3x3<re::math::mat::RealToReal<2, re::render::World, re::render::World>> = mk();
    let b: re::math::vec::Vec2<re::render::World> = mk();
    let _ = a.apply(&b);
}

pub fn p181() {
    let a: re::math::mat::Mat4x4<re::math::mat::RealToReal<3, re::render::Model, re::render::Model>> = mk();
    let b: re::math::mat::Mat4x4<re::math::mat::RealToReal<3, re::render::Model, re::render::Model>> = mk();
    let _r: re::math::mat::Mat4x4<re::math::mat::RealToReal<3, re::render::Model, re::render::Model>> = a.compose(&b);
}

pub fn p185() {
    let a: re::math::mat::Mat4x4<re::math::mat::RealToReal<3, re::render::Model, re::render::Model>> = mk();
    let b: re::math::mat::Mat4x4<re::math::mat::RealToReal<3, re::render::Model, re::render::Model>> = mk();
    let _ = a.compose(&b);
}

pub fn p186() {
    let a: re::math::mat::Mat4x4<re::math::mat::RealToReal<3, re::render::Model, re::render::Model>> = mk();
    let b: re::math::mat::Mat4x4<re::math::mat::RealToReal<3, re::render::Model, re::render::Model>> = mk();
    let _ = a.then(&b);
}

pub fn p188() {
    let a: re::math::mat::Mat4x4<re::math::mat::RealToReal<3, re::render::Model, re::render::Model>> = mk();
    let b: re::math::mat::Mat4x4<re::math::mat::RealToReal<3, re::render::Model, ()>> = mk();
    let _ = a.then(&b);
}

pub fn p194() {
    let a: re::math::mat::Mat4x4<re::math::mat::RealToReal<3, re::render::Model, re::render::Model>> = mk();
    let b: re::math::mat::Mat4x4<re::math::mat::RealToReal<3, re::render::Model, re::render::World>> = mk();
    let _ = a.then(&b);
}

pub fn p196() {
    let a: re::math::mat::Mat4x4<re::math::mat::RealToReal<3, re::render::Model, re::render::Model>> = mk();
    let b: re::math::mat::Mat4x4<re::math::mat::RealToReal<3, (), re::render::Model>> = mk();
    let _ = a.compose(&b);
}

pub fn p203() {
    let a: re::math::mat::Mat4x4<re::math::mat::RealToReal<3, re::render::Model, re::render::Model>> = mk();
    let b: re::math::mat::Mat4x4<re::math::mat::RealToReal<3, re::render::World, re::render::Model>> = mk();
    let _r: re::math::mat::Mat4x4<re::math::mat::RealToReal<3, re::render::World, re::render::Model>> = a.compose(&b);
}

pub fn p206() {
    let a: re::math::mat::Mat4x4<re::math::mat::RealToReal<3, re::render::Model, re::render::Model>> = mk();
    let b: re::math::mat::Mat4x4<re::math::mat::RealToReal<3, re::render::World, re::render::Model>> = mk();
    let _ = a.compose(&b);
}

pub fn p216() {
    let a: re::math::mat::Mat4x4<re::math::mat::RealToReal<3, re::render::Model, re::render::Model>> = mk();
    let b: re::math::mat::Mat4x4<re::math::mat::RealToProj<re::render::Model>> = mk();
    let _ = a.then(&b);
}

pub fn p224() {
    let a: re::math::mat::Mat4x4<re::math::mat::RealToReal<3, re::render::Model, re::render::Model>> = mk();
    let b: re::math::point::Point3<re::render::Model> = mk();
    let _r: re::math::point::Point3<re::render::Model> = a.apply_pt(&b);
}

pub fn p227() {
    let a: re::math::mat::Mat4x4<re::math::mat::RealToReal<3, re::render::Model, re::render::Model>> = mk();
    let b: re::math::point::Point3<re::render::Model> = mk();
    let _ = a.apply_pt(&b);
}

pub fn p239() {
    let a: re::math::mat::Mat4x4<re::math::mat::RealToReal<3, re::render::Model, re::render::Model>> = mk();
    let b: re::math::vec::Vec3<re::render::Model> = mk();
    let _r: re::math::vec::Vec3<re::render::Model> = a.apply(&b);
}

pub fn p242() {
    let a: re::math::mat::Mat4x4<re::math::mat::RealToReal<3, re::render::Model, re::render::Model>> = mk();
    let b: re::math::vec::Vec3<re::render::Model> = mk();
    let _ = a.apply(&b);
}

pub fn p251() {
    let a: re::math::mat::Mat4x4<re::math::mat::RealToReal<3, re::render::Model, re::render::Model>> = mk();
    let _ = a.determinant();
}

pub fn p252() {
    let a: re::math::mat::Mat4x4<re::math::mat::RealToReal<3, re::render::Model, re::render::Model>> = mk();
    let _ = a.inverse();
}

pub fn p253() {
    let a: re::math::mat::Mat4x4<re::math::mat::RealToReal<3, re::render::Model, re::render::Model>> = mk();
    let _ = a.transpose();
}

pub fn p255() {
    let a: re::math::mat::Mat4x4<re::math::mat::RealToReal<3, re::render::Model, ()>> = mk();
    let b: re::math::mat::Mat4x4<re::math::mat::RealToReal<3, re::render::Model, re::render::Model>> = mk();
    let _ = a.compose(&b);
}

pub fn p260() {
    let a: re::math::mat::Mat4x4<re::math::mat::RealToReal<3, re::render::Model, ()>> = mk();
    let b: re::math::mat::Mat4x4<re::math::mat::RealToReal<3, (), re::render::Model>> = mk();
    let _ = a.compose(&b);
}

pub fn p261() {
    let a: re::math::mat::Mat4x4<re::math::mat::RealToReal<3, re::render::Model, ()>> = mk();
    let b: re::math::mat::Mat4x4<re::math::mat::RealToReal<3, (), re::render::Model>> = mk();
    let _ = a.then(&b);
}

pub fn p263() {
    let a: re::math::mat::Mat4x4<re::math::mat::RealToReal<3, re::render::Model, ()>> = mk();
    let b: re::math::mat::Mat4x4<re::math::mat::RealToReal<3, (), ()>> = mk();
    let _ = a.then(&b);
}

pub fn p265() {
    let a: re::math::mat::Mat4x4<re::math::mat::RealToReal<3, re::render::Model, ()>> = mk();
    let b: re::math::mat::Mat4x4<re::math::mat::RealToReal<3, (), re::render::World>> = mk();
    let _ = a.then(&b);
}

pub fn p267() {
    let a: re::math::mat::Mat4x4<re::math::mat::RealToReal<3, re::render::Model, ()>> = mk();
    let b: re::math::mat::Mat4x4<re::math::mat::RealToReal<3, re::render::World, re::render::Model>> = mk();
    let _ = a.compose(&b);
}

pub fn p275() {
    let a: re::math::mat::Mat4x4<re::math::mat::RealToReal<3, re::render::Model, ()>> = mk();
    let b: re::math::mat::Mat4x4<re::math::mat::RealToProj<()>> = mk();
    let _ = a.then(&b);
}

pub fn p282() {
    let a: re::math::mat::Mat4x4<re::math::mat::RealToReal<3, re::render::Model, ()>> = mk();
    let b: re::math::point::Point3<re::render::Model> = mk();
    let _r: re::math::point::Point3<()> = a.apply_pt(&b);
}

pub fn p284() {
    let a: re::math::mat::Mat4x4<re::math::mat::RealToReal<3, re::render::Model, ()>> = mk();
    let b: re::math::point::Point3<re::render::Model> = mk();
    let _ = a.apply_pt(&b);
}

pub fn p297() {
    let a: re::math::mat::Mat4x4<re::math::mat::RealToReal<3, re::render::Model, ()>> = mk();
    let b: re::math::vec::Vec3<re::render::Model> = mk();
    let _r: re::math::vec::Vec3<()> = a.apply(&b);
}

pub fn p299() {
    let a: re::math::mat::Mat4x4<re::math::mat::RealToReal<3, re::render::Model, ()>> = mk();
    let b: re::math::vec::Vec3<re::render::Model> = mk();
    let _ = a.apply(&b);
}

pub fn p308() {
    let a: re::math::mat::Mat4x4<re::math::mat::RealToReal<3, re::render::Model, ()>> = mk();
    let _ = a.determinant();
}

pub fn p309() {
    let a: re::math::mat::Mat4x4<re::math::mat::RealToReal<3, re::render::Model, ()>> = mk();
    let _ = a.inverse();
}

pub fn p310() {
    let a: re::math::mat::Mat4x4<re::math::mat::RealToReal<3, re::render::Model, ()>> = mk();
    let _ = a.transpose();
}

pub fn p312() {
    let a: re::math::mat::Mat4x4<re::math::mat::RealToReal<3, re::render::Model, re::render::World>> = mk();
    let b: re::math::mat::Mat4x4<re::math::mat::RealToReal<3, re::render::Model, re::render::Model>> = mk();
    let _r: re::math::mat::Mat4x4<re::math::mat::RealToReal<3, re::render::Model, re::render::World>> = a.compose(&b);
}

pub fn p316() {
    let a: re::math::mat::Mat4x4<re::math::mat::RealToReal<3, re::render::Model, re::render::World>> = mk();
    let b: re::math::mat::Mat4x4<re::math::mat::RealToReal<3, re::render::Model, re::render::Model>> = mk();
    let _ = a.compose(&b);
}

pub fn p326() {
    let a: re::math::mat::Mat4x4<re::math::mat::RealToReal<3, re::render::Model, re::render::World>> = mk();
    let b: re::math::mat::Mat4x4<re::math::mat::RealToReal<3, (), re::render::Model>> = mk();
    let _ = a.compose(&b);
}

pub fn p334() {
    let a: re::math::mat::Mat4x4<re::math::mat::RealToReal<3, re::render::Model, re::render::World>> = mk();
    let b: re::math::mat::Mat4x4<re::math::mat::RealToReal<3, re::render::World, re::render::Model>> = mk();
    let _r: re::math::mat::Mat4x4<re::math::mat::RealToReal<3, re::render::World, re::render::World>> = a.compose(&b);
}

pub fn p335() {
    let a: re::math::mat::Mat4x4<re::math::mat::RealToReal<3, re::render::Model, re::render::World>> = mk();
    let b: re::math::mat::Mat4x4<re::math::mat::RealToReal<3, re::render::World, re::render::Model>> = mk();
    let _ = a.compose(&b);
}

pub fn p336() {
    let a: re::math::mat::Mat4x4<re::math::mat::RealToReal<3, re::render::Model, re::render::World>> = mk();
    let b: re::math::mat::Mat4x4<re::math::mat::RealToReal<3, re::render::World, re::render::Model>> = mk();
    let _ = a.then(&b);
}

pub fn p338() {
    let a: re::math::mat::Mat4x4<re::math::mat::RealToReal<3, re::render::Model, re::render::World>> = mk();
    let b: re::math::mat::Mat4x4<re::math::mat::RealToReal<3, re::render::World, ()>> = mk();
    let _ = a.then(&b);
}

pub fn p344() {
    let a: re::math::mat::Mat4x4<re::math::mat::RealToReal<3, re::render::Model, re::render::World>> = mk();
    let b: re::math::mat::Mat4x4<re::math::mat::RealToReal<3, re::render::World, re::render::World>> = mk();
    let _ = a.then(&b);
}

pub fn p350() {
    let a: re::math::mat::Mat4x4<re::math::mat::RealToReal<3, re::render::Model, re::render::World>> = mk();
    let b: re::math::mat::Mat4x4<re::math::mat::RealToProj<re::render::World>> = mk();
    let _ = a.then(&b);
}

pub fn p356() {
    let a: re::math::mat::Mat4x4<re::math::mat::RealToReal<3, re::render::Model, re::render::World>> = mk();
    let b: re::math::point::Point3<re::render::Model> = mk();
    let _r: re::math::point::Point3<re::render::World> = a.apply_pt(&b);
}

pub fn p357() {
    let a: re::math::mat::Mat4x4<re::math::mat::RealToReal<3, re::render::Model, re::render::World>> = mk();
    let b: re::math::point::Point3<re::render::Model> = mk();
    let _ = a.apply_pt(&b);
}

pub fn p371() {
    let a: re::math::mat::Mat4x4<re::math::mat::RealToReal<3, re::render::Model, re::render::World>> = mk();
    let b: re::math::vec::Vec3<re::render::Model> = mk();
    let _r: re::math::vec::Vec3<re::render::World> = a.apply(&b);
}

pub fn p372() {
    let a: re::math::mat::Mat4x4<re::math::mat::RealToReal<3, re::render::Model, re::render::World>> = mk();
    let b: re::math::vec::Vec3<re::render::Model> = mk();
    let _ = a.apply(&b);
}

pub fn p381() {
    let a: re::math::mat::Mat4x4<re::math::mat::RealToReal<3, re::render::Model, re::render::World>> = mk();
    let _ = a.determinant();
}

pub fn p382() {
    let a: re::math::mat::Mat4x4<re::math::mat::RealToReal<3, re::render::Model, re::render::World>> = mk();
    let _ = a.inverse();
}

pub fn p383() {
    let a: re::math::mat::Mat4x4<re::math::mat::RealToReal<3, re::render::Model, re::render::World>> = mk();
    let _ = a.transpose();
}

pub fn p385() {
    let a: re::math::mat::Mat4x4<re::math::mat::RealToReal<3, (), re::render::Model>> = mk();
    let b: re::math::mat::Mat4x4<re::math::mat::RealToReal<3, re::render::Model, re::render::Model>> = mk();
    let _ = a.then(&b);
}

pub fn p386() {
    let a: re::math::mat::Mat4x4<re::math::mat::RealToReal<3, (), re::render::Model>> = mk();
    let b: re::math::mat::Mat4x4<re::math::mat::RealToReal<3, re::render::Model, ()>> = mk();
    let _ = a.compose(&b);
}

pub fn p387() {
    let a: re::math::mat::Mat4x4<re::math::mat::RealToReal<3, (), re::render::Model>> = mk();
    let b: re::math::mat::Mat4x4<re::math::mat::RealToReal<3, re::render::Model, ()>> = mk();
    let _ = a.then(&b);
}

pub fn p389() {
    let a: re::math::mat::Mat4x4<re::math::mat::RealToReal<3, (), re::render::Model>> = mk();
    let b: re::math::mat::Mat4x4<re::math::mat::RealToReal<3, re::render::Model, re::render::World>> = mk();
    let _ = a.then(&b);
}

pub fn p393() {
    let a: re::math::mat::Mat4x4<re::math::mat::RealToReal<3, (), re::render::Model>> = mk();
    let b: re::math::mat::Mat4x4<re::math::mat::RealToReal<3, (), ()>> = mk();
    let _ = a.compose(&b);
}

pub fn p399() {
    let a: re::math::mat::Mat4x4<re::math::mat::RealToReal<3, (), re::render::Model>> = mk();
    let b: re::math::mat::Mat4x4<re::math::mat::RealToReal<3, re::render::World, ()>> = mk();
    let _ = a.compose(&b);
}

pub fn p403() {
    let a: re::math::mat::Mat4x4<re::math::mat::RealToReal<3, (), re::render::Model>> = mk();
    let b: re::math::mat::Mat4x4<re::math::mat::RealToProj<re::render::Model>> = mk();
    let _ = a.then(&b);
}

pub fn p415() {
    let a: re::math::mat::Mat4x4<re::math::mat::RealToReal<3, (), re::render::Model>> = mk();
    let b: re::math::point::Point3<()> = mk();
    let _r: re::math::point::Point3<re::render::Model> = a.apply_pt(&b);
}

pub fn p418() {
    let a: re::math::mat::Mat4x4<re::math::mat::RealToReal<3, (), re::render::Model>> = mk();
    let b: re::math::point::Point3<()> = mk();
    let _ = a.apply_pt(&b);
}

pub fn p430() {
    let a: re::math::mat::Mat4x4<re::math::mat::RealToReal<3, (), re::render::Model>> = mk();
    let b: re::math::vec::Vec3<()> = mk();
    let _r: re::math::vec::Vec3<re::render::Model> = a.apply(&b);
}

pub fn p433() {
    let a: re::math::mat::Mat4x4<re::math::mat::RealToReal<3, (), re::render::Model>> = mk();
    let b: re::math::vec::Vec3<()> = mk();
    let _ = a.apply(&b);
}

pub fn p438() {
    let a: re::math::mat::Mat4x4<re::math::mat::RealToReal<3, (), re::render::Model>> = mk();
    let _ = a.determinant();
}

pub fn p439() {
    let a: re::math::mat::Mat4x4<re::math::mat::RealToReal<3, (), re::render::Model>> = mk();
    let _ = a.inverse();
}

pub fn p440() {
    let a: re::math::mat::Mat4x4<re::math::mat::RealToReal<3, (), re::render::Model>> = mk();
    let _ = a.transpose();
}

pub fn p444() {
    let a: re::math::mat::Mat4x4<re::math::mat::RealToReal<3, (), ()>> = mk();
    let b: re::math::mat::Mat4x4<re::math::mat::RealToReal<3, re::render::Model, ()>> = mk();
    let _ = a.compose(&b);
}

pub fn p448() {
    let a: re::math::mat::Mat4x4<re::math::mat::RealToReal<3, (), ()>> = mk();
    let b: re::math::mat::Mat4x4<re::math::mat::RealToReal<3, (), re::render::Model>> = mk();
    let _ = a.then(&b);
}

pub fn p449() {
    let a: re::math::mat::Mat4x4<re::math::mat::RealToReal<3, (), ()>> = mk();
    let b: re::math::mat::Mat4x4<re::math::mat::RealToReal<3, (), ()>> = mk();
    let _ = a.compose(&b);
}

pub fn p450() {
    let a: re::math::mat::Mat4x4<re::math::mat::RealToReal<3, (), ()>> = mk();
    let b: re::math::mat::Mat4x4<re::math::mat::RealToReal<3, (), ()>> = mk();
    let _ = a.then(&b);
}

pub fn p452() {
    let a: re::math::mat::Mat4x4<re::math::mat::RealToReal<3, (), ()>> = mk();
    let b: re::math::mat::Mat4x4<re::math::mat::RealToReal<3, (), re::render::World>> = mk();
    let _ = a.then(&b);
}

pub fn p456() {
    let a: re::math::mat::Mat4x4<re::math::mat::RealToReal<3, (), ()>> = mk();
    let b: re::math::mat::Mat4x4<re::math::mat::RealToReal<3, re::render::World, ()>> = mk();
    let _ = a.compose(&b);
}

pub fn p462() {
    let a: re::math::mat::Mat4x4<re::math::mat::RealToReal<3, (), ()>> = mk();
    let b: re::math::mat::Mat4x4<re::math::mat::RealToProj<()>> = mk();
    let _ = a.then(&b);
}

pub fn p473() {
    let a: re::math::mat::Mat4x4<re::math::mat::RealToReal<3, (), ()>> = mk();
    let b: re::math::point::Point3<()> = mk();
    let _r: re::math::point::Point3<()> = a.apply_pt(&b);
}

pub fn p475() {
    let a: re::math::mat::Mat4x4<re::math::mat::RealToReal<3, (), ()>> = mk();
    let b: re::math::point::Point3<()> = mk();
    let _ = a.apply_pt(&b);
}

pub fn p488() {
    let a: re::math::mat::Mat4x4<re::math::mat::RealToReal<3, (), ()>> = mk();
    let b: re::math::vec::Vec3<()> = mk();
    let _r: re::math::vec::Vec3<()> = a.apply(&b);
}

pub fn p490() {
    let a: re::math::mat::Mat4x4<re::math::mat::RealToReal<3, (), ()>> = mk();
    let b: re::math::vec::Vec3<()> = mk();
    let _ = a.apply(&b);
}

pub fn p495() {
    let a: re::math::mat::Mat4x4<re::math::mat::RealToReal<3, (), ()>> = mk();
    let _ = a.determinant();
}

pub fn p496() {
    let a: re::math::mat::Mat4x4<re::math::mat::RealToReal<3, (), ()>> = mk();
    let _ = a.inverse();
}

pub fn p497() {
    let a: re::math::mat::Mat4x4<re::math::mat::RealToReal<3, (), ()>> = mk();
    let _ = a.transpose();
}

pub fn p501() {
    let a: re::math::mat::Mat4x4<re::math::mat::RealToReal<3, (), re::render::World>> = mk();
    let b: re::math::mat::Mat4x4<re::math::mat::RealToReal<3, re::render::Model, ()>> = mk();
    let _ = a.compose(&b);
}

pub fn p507() {
    let a: re::math::mat::Mat4x4<re::math::mat::RealToReal<3, (), re::render::World>> = mk();
    let b: re::math::mat::Mat4x4<re::math::mat::RealToReal<3, (), ()>> = mk();
    let _ = a.compose(&b);
}

pub fn p511() {
    let a: re::math::mat::Mat4x4<re::math::mat::RealToReal<3, (), re::render::World>> = mk();
    let b: re::math::mat::Mat4x4<re::math::mat::RealToReal<3, re::render::World, re::render::Model>> = mk();
    let _ = a.then(&b);
}

pub fn p512() {
    let a: re::math::mat::Mat4x4<re::math::mat::RealToReal<3, (), re::render::World>> = mk();
    let b: re::math::mat::Mat4x4<re::math::mat::RealToReal<3, re::render::World, ()>> = mk();
    let _ = a.compose(&b);
}

pub fn p513() {
    let a: re::math::mat::Mat4x4<re::math::mat::RealToReal<3, (), re::render::World>> = mk();
    let b: re::math::mat::Mat4x4<re::math::mat::RealToReal<3, re::render::World, ()>> = mk();
    let _ = a.then(&b);
}

pub fn p515() {
    let a: re::math::mat::Mat4x4<re::math::mat::RealToReal<3, (), re::render::World>> = mk();
    let b: re::math::mat::Mat4x4<re::math::mat::RealToReal<3, re::render::World, re::render::World>> = mk();
    let _ = a.then(&b);
}

pub fn p521() {
    let a: re::math::mat::Mat4x4<re::math::mat::RealToReal<3, (), re::render::World>> = mk();
    let b: re::math::mat::Mat4x4<re::math::mat::RealToProj<re::render::World>> = mk();
    let _ = a.then(&b);
}

pub fn p531() {
    let a: re::math::mat::Mat4x4<re::math::mat::RealToReal<3, (), re::render::World>> = mk();
    let b: re::math::point::Point3<()> = mk();
    let _r: re::math::point::Point3<re::render::World> = a.apply_pt(&b);
}

pub fn p532() {
    let a: re::math::mat::Mat4x4<re::math::mat::RealToReal<3, (), re::render::World>> = mk();
    let b: re::math::point::Point3<()> = mk();
    let _ = a.apply_pt(&b);
}

pub fn p546() {
    let a: re::math::mat::Mat4x4<re::math::mat::RealToReal<3, (), re::render::World>> = mk();
    let b: re::math::vec::Vec3<()> = mk();
    let _r: re::math::vec::Vec3<re::render::World> = a.apply(&b);
}

pub fn p547() {
    let a: re::math::mat::Mat4x4<re::math::mat::RealToReal<3, (), re::render::World>> = mk();
    let b: re::math::vec::Vec3<()> = mk();
    let _ = a.apply(&b);
}

pub fn p552() {
    let a: re::math::mat::Mat4x4<re::math::mat::RealToReal<3, (), re::render::World>> = mk();
    let _ = a.determinant();
}

pub fn p553() {
    let a: re::math::mat::Mat4x4<re::math::mat::RealToReal<3, (), re::render::World>> = mk();
    let _ = a.inverse();
}

pub fn p554() {
    let a: re::math::mat::Mat4x4<re::math::mat::RealToReal<3, (), re::render::World>> = mk();
    let _ = a.transpose();
}

pub fn p560() {
    let a: re::math::mat::Mat4x4<re::math::mat::RealToReal<3, re::render::World, re::render::Model>> = mk();
    let b: re::math::mat::Mat4x4<re::math::mat::RealToReal<3, re::render::Model, re::render::Model>> = mk();
    let _ = a.then(&b);
}

pub fn p562() {
    let a: re::math::mat::Mat4x4<re::math::mat::RealToReal<3, re::render::World, re::render::Model>> = mk();
    let b: re::math::mat::Mat4x4<re::math::mat::RealToReal<3, re::render::Model, ()>> = mk();
    let _ = a.then(&b);
}

pub fn p563() {
    let a: re::math::mat::Mat4x4<re::math::mat::RealToReal<3, re::render::World, re::render::Model>> = mk();
    let b: re::math::mat::Mat4x4<re::math::mat::RealToReal<3, re::render::Model, re::render::World>> = mk();
    let _r: re::math::mat::Mat4x4<re::math::mat::RealToReal<3, re::render::Model, re::render::Model>> = a.compose(&b);
}

pub fn p567() {
    let a: re::math::mat::Mat4x4<re::math::mat::RealToReal<3, re::render::World, re::render::Model>> = mk();
    let b: re::math::mat::Mat4x4<re::math::mat::RealToReal<3, re::render::Model, re::render::World>> = mk();
    let _ = a.compose(&b);
}

pub fn p568() {
    let a: re::math::mat::Mat4x4<re::math::mat::RealToReal<3, re::render::World, re::render::Model>> = mk();
    let b: re::math::mat::Mat4x4<re::math::mat::RealToReal<3, re::render::Model, re::render::World>> = mk();
    let _ = a.then(&b);
}

pub fn p574() {
    let a: re::math::mat::Mat4x4<re::math::mat::RealToReal<3, re::render::World, re::render::Model>> = mk();
    let b: re::math::mat::Mat4x4<re::math::mat::RealToReal<3, (), re::render::World>> = mk();
    let _ = a.compose(&b);
}

pub fn p585() {
    let a: re::math::mat::Mat4x4<re::math::mat::RealToReal<3, re::render::World, re::render::Model>> = mk();
    let b: re::math::mat::Mat4x4<re::math::mat::RealToReal<3, re::render::World, re::render::World>> = mk();
    let _r: re::math::mat::Mat4x4<re::math::mat::RealToReal<3, re::render::World, re::render::Model>> = a.compose(&b);
}

pub fn p588() {
    let a: re::math::mat::Mat4x4<re::math::mat::RealToReal<3, re::render::World, re::render::Model>> = mk();
    let b: re::math::mat::Mat4x4<re::math::mat::RealToReal<3, re::render::World, re::render::World>> = mk();
    let _ = a.compose(&b);
}

pub fn p590() {
    let a: re::math::mat::Mat4x4<re::math::mat::RealToReal<3, re::render::World, re::render::Model>> = mk();
    let b: re::math::mat::Mat4x4<re::math::mat::RealToProj<re::render::Model>> = mk();
    let _ = a.then(&b);
}

pub fn p606() {
    let a: re::math::mat::Mat4x4<re::math::mat::RealToReal<3, re::render::World, re::render::Model>> = mk();
    let b: re::math::point::Point3<re::render::World> = mk();
    let _r: re::math::point::Point3<re::render::Model> = a.apply_pt(&b);
}

pub fn p609() {
    let a: re::math::mat::Mat4x4<re::math::mat::RealToReal<3, re::render::World, re::render::Model>> = mk();
    let b: re::math::point::Point3<re::render::World> = mk();
    let _ = a.apply_pt(&b);
}

pub fn p621() {
    let a: re::math::mat::Mat4x4<re::math::mat::RealToReal<3, re::render::World, re::render::Model>> = mk();
    let b: re::math::vec::Vec3<re::render::World> = mk();
    let _r: re::math::vec::Vec3<re::render::Model> = a.apply(&b);
}

pub fn p624() {
    let a: re::math::mat::Mat4x4<re::math::mat::RealToReal<3, re::render::World, re::render::Model>> = mk();
    let b: re::math::vec::Vec3<re::render::World> = mk();
    let _ = a.apply(&b);
}

pub fn p625() {
    let a: re::math::mat::Mat4x4<re::math::mat::RealToReal<3, re::render::World, re::render::Model>> = mk();
    let _ = a.determinant();
}

pub fn p626() {
    let a: re::math::mat::Mat4x4<re::math::mat::RealToReal<3, re::render::World, re::render::Model>> = mk();
    let _ = a.inverse();
}

pub fn p627() {
    let a: re::math::mat::Mat4x4<re::math::mat::RealToReal<3, re::render::World, re::render::Model>> = mk();
    let _ = a.transpose();
}

pub fn p633() {
    let a: re::math::mat::Mat4x4<re::math::mat::RealToReal<3, re::render::World, ()>> = mk();
    let b: re::math::mat::Mat4x4<re::math::mat::RealToReal<3, re::render::Model, re::render::World>> = mk();
    let _ = a.compose(&b);
}

pub fn p635() {
    let a: re::math::mat::Mat4x4<re::math::mat::RealToReal<3, re::render::World, ()>> = mk();
    let b: re::math::mat::Mat4x4<re::math::mat::RealToReal<3, (), re::render::Model>> = mk();
    let _ = a.then(&b);
}

pub fn p637() {
    let a: re::math::mat::Mat4x4<re::math::mat::RealToReal<3, re::render::World, ()>> = mk();
    let b: re::math::mat::Mat4x4<re::math::mat::RealToReal<3, (), ()>> = mk();
    let _ = a.then(&b);
}

pub fn p638() {
    let a: re::math::mat::Mat4x4<re::math::mat::RealToReal<3, re::render::World, ()>> = mk();
    let b: re::math::mat::Mat4x4<re::math::mat::RealToReal<3, (), re::render::World>> = mk();
    let _ = a.compose(&b);
}

pub fn p639() {
    let a: re::math::mat::Mat4x4<re::math::mat::RealToReal<3, re::render::World, ()>> = mk();
    let b: re::math::mat::Mat4x4<re::math::mat::RealToReal<3, (), re::render::World>> = mk();
    let _ = a.then(&b);
}

pub fn p645() {
    let a: re::math::mat::Mat4x4<re::math::mat::RealToReal<3, re::render::World, ()>> = mk();
    let b: re::math::mat::Mat4x4<re::math::mat::RealToReal<3, re::render::World, re::render::World>> = mk();
    let _ = a.compose(&b);
}

pub fn p649() {
    let a: re::math::mat::Mat4x4<re::math::mat::RealToReal<3, re::render::World, ()>> = mk();
    let b: re::math::mat::Mat4x4<re::math::mat::RealToProj<()>> = mk();
    let _ = a.then(&b);
}

pub fn p664() {
    let a: re::math::mat::Mat4x4<re::math::mat::RealToReal<3, re::render::World, ()>> = mk();
    let b: re::math::point::Point3<re::render::World> = mk();
    let _r: re::math::point::Point3<()> = a.apply_pt(&b);
}

pub fn p666() {
    let a: re::math::mat::Mat4x4<re::math::mat::RealToReal<3, re::render::World, ()>> = mk();
    let b: re::math::point::Point3<re::render::World> = mk();
    let _ = a.apply_pt(&b);
}

pub fn p679() {
    let a: re::math::mat::Mat4x4<re::math::mat::RealToReal<3, re::render::World, ()>> = mk();
    let b: re::math::vec::Vec3<re::render::World> = mk();
    let _r: re::math::vec::Vec3<()> = a.apply(&b);
}

pub fn p681() {
    let a: re::math::mat::Mat4x4<re::math::mat::RealToReal<3, re::render::World, ()>> = mk();
    let b: re::math::vec::Vec3<re::render::World> = mk();
    let _ = a.apply(&b);
}

pub fn p682() {
    let a: re::math::mat::Mat4x4<re::math::mat::RealToReal<3, re::render::World, ()>> = mk();
    let _ = a.determinant();
}

pub fn p683() {
    let a: re::math::mat::Mat4x4<re::math::mat::RealToReal<3, re::render::World, ()>> = mk();
    let _ = a.inverse();
}

pub fn p684() {
    let a: re::math::mat::Mat4x4<re::math::mat::RealToReal<3, re::render::World, ()>> = mk();
    let _ = a.transpose();
}

pub fn p694() {
    let a: re::math::mat::Mat4x4<re::math::mat::RealToReal<3, re::render::World, re::render::World>> = mk();
    let b: re::math::mat::Mat4x4<re::math::mat::RealToReal<3, re::render::Model, re::render::World>> = mk();
    let _r: re::math::mat::Mat4x4<re::math::mat::RealToReal<3, re::render::Model, re::render::World>> = a.compose(&b);
}

pub fn p698() {
    let a: re::math::mat::Mat4x4<re::math::mat::RealToReal<3, re::render::World, re::render::World>> = mk();
    let b: re::math::mat::Mat4x4<re::math::mat::RealToReal<3, re::render::Model, re::render::World>> = mk();
    let _ = a.compose(&b);
}

pub fn p704() {
    let a: re::math::mat::Mat4x4<re::math::mat::RealToReal<3, re::render::World, re::render::World>> = mk();
    let b: re::math::mat::Mat4x4<re::math::mat::RealToReal<3, (), re::render::World>> = mk();
    let _ = a.compose(&b);
}

pub fn p710() {
    let a: re::math::mat::Mat4x4<re::math::mat::RealToReal<3, re::render::World, re::render::World>> = mk();
    let b: re::math::mat::Mat4x4<re::math::mat::RealToReal<3, re::render::World, re::render::Model>> = mk();
    let _ = a.then(&b);
}

pub fn p712() {
    let a: re::math::mat::Mat4x4<re::math::mat::RealToReal<3, re::render::World, re::render::World>> = mk();
    let b: re::math::mat::Mat4x4<re::math::mat::RealToReal<3, re::render::World, ()>> = mk();
    let _ = a.then(&b);
}

pub fn p716() {
    let a: re::math::mat::Mat4x4<re::math::mat::RealToReal<3, re::render::World, re::render::World>> = mk();
    let b: re::math::mat::Mat4x4<re::math::mat::RealToReal<3, re::render::World, re::render::World>> = mk();
    let _r: re::math::mat::Mat4x4<re::math::mat::RealToReal<3, re::render::World, re::render::World>> = a.compose(&b);
}

pub fn p717() {
    let a: re::math::mat::Mat4x4<re::math::mat::RealToReal<3, re::render::World, re::render::World>> = mk();
    let b: re::math::mat::Mat4x4<re::math::mat::RealToReal<3, re::render::World, re::render::World>> = mk();
    let _ = a.compose(&b);
}

pub fn p718() {
    let a: re::math::mat::Mat4x4<re::math::mat::RealToReal<3, re::render::World, re::render::World>> = mk();
    let b: re::math::mat::Mat4x4<re::math::mat::RealToReal<3, re::render::World, re::render::World>> = mk();
    let _ = a.then(&b);
}

pub fn p724() {
    let a: re::math::mat::Mat4x4<re::math::mat::RealToReal<3, re::render::World, re::render::World>> = mk();
    let b: re::math::mat::Mat4x4<re::math::mat::RealToProj<re::render::World>> = mk();
    let _ = a.then(&b);
}

pub fn p738() {
    let a: re::math::mat::Mat4x4<re::math::mat::RealToReal<3, re::render::World, re::render::World>> = mk();
    let b: re::math::point::Point3<re::render::World> = mk();
    let _r: re::math::point::Point3<re::render::World> = a.apply_pt(&b);
}

pub fn p739() {
    let a: re::math::mat::Mat4x4<re::math::mat::RealToReal<3, re::render::World, re::render::World>> = mk();
    let b: re::math::point::Point3<re::render::World> = mk();
    let _ = a.apply_pt(&b);
}

pub fn p753() {
    let a: re::math::mat::Mat4x4<re::math::mat::RealToReal<3, re::render::World, re::render::World>> = mk();
    let b: re::math::vec::Vec3<re::render::World> = mk();
    let _r: re::math::vec::Vec3<re::render::World> = a.apply(&b);
}

pub fn p754() {
    let a: re::math::mat::Mat4x4<re::math::mat::RealToReal<3, re::render::World, re::render::World>> = mk();
    let b: re::math::vec::Vec3<re::render::World> = mk();
    let _ = a.apply(&b);
}

pub fn p755() {
    let a: re::math::mat::Mat4x4<re::math::mat::RealToReal<3, re::render::World, re::render::World>> = mk();
    let _ = a.determinant();
}

pub fn p756() {
    let a: re::math::mat::Mat4x4<re::math::mat::RealToReal<3, re::render::World, re::render::World>> = mk();
    let _ = a.inverse();
}

pub fn p757() {
    let a: re::math::mat::Mat4x4<re::math::mat::RealToReal<3, re::render::World, re::render::World>> = mk();
    let _ = a.transpose();
}

pub fn p759() {
    let a: re::math::mat::Mat4x4<re::math::mat::RealToProj<re::render::Model>> = mk();
    let b: re::math::mat::Mat4x4<re::math::mat::RealToReal<3, re::render::Model, re::render::Model>> = mk();
    let _ = a.compose(&b);
}

pub fn p765() {
    let a: re::math::mat::Mat4x4<re::math::mat::RealToProj<re::render::Model>> = mk();
    let b: re::math::mat::Mat4x4<re::math::mat::RealToReal<3, (), re::render::Model>> = mk();
    let _ = a.compose(&b);
}

pub fn p771() {
    let a: re::math::mat::Mat4x4<re::math::mat::RealToProj<re::render::Model>> = mk();
    let b: re::math::mat::Mat4x4<re::math::mat::RealToReal<3, re::render::World, re::render::Model>> = mk();
    let _ = a.compose(&b);
}

pub fn p776() {
    let a: re::math::mat::Mat4x4<re::math::mat::RealToProj<re::render::Model>> = mk();
    let b: re::math::point::Point3<re::render::Model> = mk();
    let _ = a.apply(&b);
}

pub fn p791() {
    let a: re::math::mat::Mat4x4<re::math::mat::RealToProj<()>> = mk();
    let b: re::math::mat::Mat4x4<re::math::mat::RealToReal<3, re::render::Model, ()>> = mk();
    let _ = a.compose(&b);
}

pub fn p797() {
    let a: re::math::mat::Mat4x4<re::math::mat::RealToProj<()>> = mk();
    let b: re::math::mat::Mat4x4<re::math::mat::RealToReal<3, (), ()>> = mk();
    let _ = a.compose(&b);
}

pub fn p803() {
    let a: re::math::mat::Mat4x4<re::math::mat::RealToProj<()>> = mk();
    let b: re::math::mat::Mat4x4<re::math::mat::RealToReal<3, re::render::World, ()>> = mk();
    let _ = a.compose(&b);
}

pub fn p808() {
    let a: re::math::mat::Mat4x4<re::math::mat::RealToProj<()>> = mk();
    let b: re::math::point::Point3<()> = mk();
    let _ = a.apply(&b);
}

pub fn p823() {
    let a: re::math::mat::Mat4x4<re::math::mat::RealToProj<re::render::World>> = mk();
    let b: re::math::mat::Mat4x4<re::math::mat::RealToReal<3, re::render::Model, re::render::World>> = mk();
    let _ = a.compose(&b);
}

pub fn p829() {
    let a: re::math::mat::Mat4x4<re::math::mat::RealToProj<re::render::World>> = mk();
    let b: re::math::mat::Mat4x4<re::math::mat::RealToReal<3, (), re::render::World>> = mk();
    let _ = a.compose(&b);
}

pub fn p835() {
    let a: re::math::mat::Mat4x4<re::math::mat::RealToProj<re::render::World>> = mk();
    let b: re::math::mat::Mat4x4<re::math::mat::RealToReal<3, re::render::World, re::render::World>> = mk();
    let _ = a.compose(&b);
}

pub fn p840() {
    let a: re::math::mat::Mat4x4<re::math::mat::RealToProj<re::render::World>> = mk();
    let b: re::math::point::Point3<re::render::World> = mk();
    let _ = a.apply(&b);
}

pub fn p848() {
    use re::geom::{Tri, Vertex};
    let vs = |_: Vertex<re::math::point::Point3<re::render::Model>, ()>, _: ()| -> Vertex<re::math::vec::ProjVec4, f32> { mk() };
    let fs = |_: re::render::raster::Frag<f32>| -> Option<re::math::color::Color4> { mk() };
    let sh = re::render::shader::Shader::new(vs, fs);
    let mut target: re::util::buf::Buf2<u32> = mk();
    let tris: Vec<Tri<usize>> = mk();
    let verts: Vec<Vertex<re::math::point::Point3<re::render::Model>, ()>> = mk();
    re::render::render(&tris, &verts, &sh, (), mk(), &mut target, &mk::<re::render::Context>());
}

pub fn p850() {
    let a: re::math::point::Point2<re::render::Model> = mk();
    let b: re::math::point::Point2<re::render::Model> = mk();
    let _ = re::math::Lerp::lerp(&a, &b, 0.5);
}

pub fn p851() {
    let a: re::math::point::Point2<re::render::Model> = mk();
    let b: re::math::point::Point2<re::render::Model> = mk();
    let _ = a - b;
}

pub fn p867() {
    let a: re::math::point::Point2<re::render::Model> = mk();
    let b: re::math::vec::Vec2<re::render::Model> = mk();
    let _ = a + b;
}

pub fn p877() {
    let a: re::math::point::Point2<()> = mk();
    let b: re::math::point::Point2<()> = mk();
    let _ = re::math::Lerp::lerp(&a, &b, 0.5);
}

pub fn p878() {
    let a: re::math::point::Point2<()> = mk();
    let b: re::math::point::Point2<()> = mk();
    let _ = a - b;
}

pub fn p892() {
    let a: re::math::point::Point2<()> = mk();
    let b: re::math::vec::Vec2<()> = mk();
    let _ = a + b;
}

pub fn p904() {
    let a: re::math::point::Point2<re::render::World> = mk();
    let b: re::math::point::Point2<re::render::World> = mk();
    let _ = re::math::Lerp::lerp(&a, &b, 0.5);
}

pub fn p905() {
    let a: re::math::point::Point2<re::render::World> = mk();
    let b: re::math::point::Point2<re::render::World> = mk();
    let _ = a - b;
}

pub fn p917() {
    let a: re::math::point::Point2<re::render::World> = mk();
    let b: re::math::vec::Vec2<re::render::World> = mk();
    let _ = a + b;
}

pub fn p931() {
    let a: re::math::point::Point3<re::render::Model> = mk();
    let b: re::math::point::Point3<re::render::Model> = mk();
    let c: re::math::point::Point3<re::render::Model> = mk();
    let d = re::math::space::Affine::sub(&a, &b);
    let _ = re::math::space::Affine::add(&c, &d);
}

pub fn p936() {
    let a: re::math::point::Point3<re::render::Model> = mk();
    let b: re::math::point::Point3<re::render::Model> = mk();
    let _r: re::math::vec::Vec3<re::render::Model> = a - b;
}

pub fn p940() {
    let a: re::math::point::Point3<re::render::Model> = mk();
    let b: re::math::point::Point3<re::render::Model> = mk();
    let _ = re::math::Lerp::lerp(&a, &b, 0.5);
}

pub fn p941() {
    let a: re::math::point::Point3<re::render::Model> = mk();
    let b: re::math::point::Point3<re::render::Model> = mk();
    let _ = a - b;
}

pub fn p969() {
    let a: re::math::point::Point3<re::render::Model> = mk();
    let b: re::math::vec::Vec3<re::render::Model> = mk();
    let _ = a + b;
}

pub fn p997() {
    let a: re::math::point::Point3<()> = mk();
    let b: re::math::point::Point3<()> = mk();
    let c: re::math::point::Point3<()> = mk();
    let d = re::math::space::Affine::sub(&a, &b);
    let _ = re::math::space::Affine::add(&c, &d);
}

pub fn p1001() {
    let a: re::math::point::Point3<()> = mk();
    let b: re::math::point::Point3<()> = mk();
    let _r: re::math::vec::Vec3<()> = a - b;
}

pub fn p1004() {
    let a: re::math::point::Point3<()> = mk();
    let b: re::math::point::Point3<()> = mk();
    let _ = re::math::Lerp::lerp(&a, &b, 0.5);
}

pub fn p1005() {
    let a: re::math::point::Point3<()> = mk();
    let b: re::math::point::Point3<()> = mk();
    let _ = a - b;
}

pub fn p1022() {
    let a: re::math::point::Point3<()> = mk();
    let b: re::math::vec::Vec3<()> = mk();
    let _ = a + b;
}

pub fn p1062() {
    let a: re::math::point::Point3<re::render::World> = mk();
    let b: re::math::point::Point3<re::render::World> = mk();
    let c: re::math::point::Point3<re::render::World> = mk();
    let d = re::math::space::Affine::sub(&a, &b);
    let _ = re::math::space::Affine::add(&c, &d);
}

pub fn p1065() {
    let a: re::math::point::Point3<re::render::World> = mk();
    let b: re::math::point::Point3<re::render::World> = mk();
    let _r: re::math::vec::Vec3<re::render::World> = a - b;
}

pub fn p1067() {
    let a: re::math::point::Point3<re::render::World> = mk();
    let b: re::math::point::Point3<re::render::World> = mk();
    let _ = re::math::Lerp::lerp(&a, &b, 0.5);
}

pub fn p1068() {
    let a: re::math::point::Point3<re::render::World> = mk();
    let b: re::math::point::Point3<re::render::World> = mk();
    let _ = a - b;
}

pub fn p1074() {
    let a: re::math::point::Point3<re::render::World> = mk();
    let b: re::math::vec::Vec3<re::render::World> = mk();
    let _ = a + b;
}

pub fn p1081() {
    let a: re::math::vec::Vec2<re::render::Model> = mk();
    let b: re::math::vec::Vec2<re::render::Model> = mk();
    let _ = a + b;
}

pub fn p1082() {
    let a: re::math::vec::Vec2<re::render::Model> = mk();
    let b: re::math::vec::Vec2<re::render::Model> = mk();
    let _ = a.dot(&b);
}

pub fn p1083() {
    let a: re::math::vec::Vec2<re::render::Model> = mk();
    let b: re::math::vec::Vec2<re::render::Model> = mk();
    let _ = re::math::Lerp::lerp(&a, &b, 0.5);
}

pub fn p1084() {
    let a: re::math::vec::Vec2<re::render::Model> = mk();
    let b: re::math::vec::Vec2<re::render::Model> = mk();
    let _ = a - b;
}

pub fn p1115() {
    let a: re::math::vec::Vec2<()> = mk();
    let b: re::math::vec::Vec2<()> = mk();
    let _ = a + b;
}

pub fn p1116() {
    let a: re::math::vec::Vec2<()> = mk();
    let b: re::math::vec::Vec2<()> = mk();
    let _ = a.dot(&b);
}

pub fn p1117() {
    let a: re::math::vec::Vec2<()> = mk();
    let b: re::math::vec::Vec2<()> = mk();
    let _ = re::math::Lerp::lerp(&a, &b, 0.5);
}

pub fn p1118() {
    let a: re::math::vec::Vec2<()> = mk();
    let b: re::math::vec::Vec2<()> = mk();
    let _ = a - b;
}

pub fn p1149() {
    let a: re::math::vec::Vec2<re::render::World> = mk();
    let b: re::math::vec::Vec2<re::render::World> = mk();
    let _ = a + b;
}

pub fn p1150() {
    let a: re::math::vec::Vec2<re::render::World> = mk();
    let b: re::math::vec::Vec2<re::render::World> = mk();
    let _ = a.dot(&b);
}

pub fn p1151() {
    let a: re::math::vec::Vec2<re::render::World> = mk();
    let b: re::math::vec::Vec2<re::render::World> = mk();
    let _ = re::math::Lerp::lerp(&a, &b, 0.5);
}

pub fn p1152() {
    let a: re::math::vec::Vec2<re::render::World> = mk();
    let b: re::math::vec::Vec2<re::render::World> = mk();
    let _ = a - b;
}

pub fn p1183() {
    let a: re::math::vec::Vec3<re::render::Model> = mk();
    let b: re::math::vec::Vec3<re::render::Model> = mk();
    let _ = a + b;
}

pub fn p1184() {
    let a: re::math::vec::Vec3<re::render::Model> = mk();
    let b: re::math::vec::Vec3<re::render::Model> = mk();
    let _ = a.dot(&b);
}

pub fn p1185() {
    let a: re::math::vec::Vec3<re::render::Model> = mk();
    let b: re::math::vec::Vec3<re::render::Model> = mk();
    let _ = re::math::Lerp::lerp(&a, &b, 0.5);
}

pub fn p1186() {
    let a: re::math::vec::Vec3<re::render::Model> = mk();
    let b: re::math::vec::Vec3<re::render::Model> = mk();
    let _ = a - b;
}

pub fn p1218() {
    let a: re::math::vec::Vec3<()> = mk();
    let b: re::math::vec::Vec3<()> = mk();
    let _ = a + b;
}

pub fn p1219() {
    let a: re::math::vec::Vec3<()> = mk();
    let b: re::math::vec::Vec3<()> = mk();
    let _ = a.dot(&b);
}

pub fn p1220() {
    let a: re::math::vec::Vec3<()> = mk();
    let b: re::math::vec::Vec3<()> = mk();
    let _ = re::math::Lerp::lerp(&a, &b, 0.5);
}

pub fn p1221() {
    let a: re::math::vec::Vec3<()> = mk();
    let b: re::math::vec::Vec3<()> = mk();
    let _ = a - b;
}

pub fn p1252() {
    let a: re::math::vec::Vec3<re::render::World> = mk();
    let b: re::math::vec::Vec3<re::render::World> = mk();
    let _ = a + b;
}

pub fn p1253() {
    let a: re::math::vec::Vec3<re::render::World> = mk();
    let b: re::math::vec::Vec3<re::render::World> = mk();
    let _ = a.dot(&b);
}

pub fn p1254() {
    let a: re::math::vec::Vec3<re::render::World> = mk();
    let b: re::math::vec::Vec3<re::render::World> = mk();
    let _ = re::math::Lerp::lerp(&a, &b, 0.5);
}

pub fn p1255() {
    let a: re::math::vec::Vec3<re::render::World> = mk();
    let b: re::math::vec::Vec3<re::render::World> = mk();
    let _ = a - b;
}

