#![allow(unused)]
fn mk<T>() -> T { unimplemented!() }

pub fn p14() {
    let a: re::math::mat::Mat4x4<re::render::ModelToProj> = mk();
    let b: re::math::mat::Mat4x4<re::math::mat::RealToProj<re::render::Model>> = mk();
    let _ = [a, b];
}

pub fn p17() {
    let a: re::math::mat::Mat4x4<re::render::ModelToProj> = mk();
    let b: re::math::point::Point3<re::render::Model> = mk();
    let _ = a.apply(&b);
}

pub fn p24() {
    let a: re::math::mat::Mat4x4<re::render::ModelToProj> = mk();
    let _ = re::render::cam::Camera::new((8, 8)).mode(a.to());
}

pub fn p28() {
    let a: re::math::mat::Mat4x4<re::render::ModelToView> = mk();
    let b: re::math::mat::Mat4x4<re::render::ViewToProj> = mk();
    let _ = a.then(&b);
}

pub fn p31() {
    let a: re::math::mat::Mat4x4<re::render::ModelToView> = mk();
    let b: re::math::mat::Mat4x4<re::math::mat::RealToReal<3, re::render::Model, re::render::View>> = mk();
    let _ = [a, b];
}

pub fn p43() {
    let a: re::math::mat::Mat4x4<re::render::ModelToView> = mk();
    let b: re::math::point::Point3<re::render::Model> = mk();
    let _ = a.apply_pt(&b);
}

pub fn p49() {
    let a: re::math::mat::Mat4x4<re::render::ModelToView> = mk();
    let _ = re::render::cam::Camera::new((8, 8)).mode(a.to());
}

pub fn p54() {
    let a: re::math::mat::Mat4x4<re::render::ModelToWorld> = mk();
    let b: re::math::mat::Mat4x4<re::render::WorldToView> = mk();
    let _ = a.then(&b);
}

pub fn p57() {
    let a: re::math::mat::Mat4x4<re::render::ModelToWorld> = mk();
    let b: re::math::mat::Mat4x4<re::math::mat::RealToReal<3, re::render::Model, re::render::World>> = mk();
    let _ = [a, b];
}

pub fn p68() {
    let a: re::math::mat::Mat4x4<re::render::ModelToWorld> = mk();
    let b: re::math::point::Point3<re::render::Model> = mk();
    let _ = a.apply_pt(&b);
}

pub fn p74() {
    let a: re::math::mat::Mat4x4<re::render::ModelToWorld> = mk();
    let _ = re::render::cam::Camera::new((8, 8)).mode(a.to());
}

pub fn p90() {
    let a: re::math::mat::Mat4x4<re::render::ViewToProj> = mk();
    let b: re::math::mat::Mat4x4<re::math::mat::RealToProj<re::render::View>> = mk();
    let _ = [a, b];
}

pub fn p94() {
    let a: re::math::mat::Mat4x4<re::render::ViewToProj> = mk();
    let b: re::math::point::Point3<re::render::View> = mk();
    let _ = a.apply(&b);
}

pub fn p99() {
    let a: re::math::mat::Mat4x4<re::render::ViewToProj> = mk();
    let _ = re::render::cam::Camera::new((8, 8)).mode(a.to());
}

pub fn p103() {
    let a: re::math::mat::Mat4x4<re::render::WorldToView> = mk();
    let b: re::math::mat::Mat4x4<re::render::ViewToProj> = mk();
    let _ = a.then(&b);
}

pub fn p112() {
    let a: re::math::mat::Mat4x4<re::render::WorldToView> = mk();
    let b: re::math::mat::Mat4x4<re::math::mat::RealToReal<3, re::render::World, re::render::View>> = mk();
    let _ = [a, b];
}

pub fn p122() {
    let a: re::math::mat::Mat4x4<re::render::WorldToView> = mk();
    let b: re::math::point::Point3<re::render::World> = mk();
    let _ = a.apply_pt(&b);
}

pub fn p123() {
    let a: re::math::mat::Mat4x4<re::render::WorldToView> = mk();
    let _ = re::render::cam::Camera::new((8, 8)).mode(a);
}

pub fn p124() {
    let a: re::math::mat::Mat4x4<re::render::WorldToView> = mk();
    let _ = re::render::cam::Camera::new((8, 8)).mode(a.to());
}

pub fn p127() {
    let a: re::math::angle::Angle = mk();
    let b: re::math::angle::Angle = mk();
    let _ = a + b;
}

pub fn p128() {
    let a: re::math::angle::Angle = mk();
    let b: re::math::angle::Angle = mk();
    let _ = a % b;
}

pub fn p129() {
    let a: re::math::angle::Angle = mk();
    let b: re::math::angle::Angle = mk();
    let _ = a - b;
}

pub fn p133() {
    let a: re::math::angle::Angle = mk();
    let b: f32 = mk();
    let _ = a / b;
}

pub fn p134() {
    let a: re::math::angle::Angle = mk();
    let b: f32 = mk();
    let _ = a * b;
}

pub fn p135() {
    let a: re::math::angle::Angle = mk();
    let _ = re::math::angle::polar(1.0, a);
}

pub fn p136() {
    let a: re::math::angle::Angle = mk();
    let _ = re::math::mat::rotate_x(a);
}

pub fn p137() {
    let a: re::math::angle::Angle = mk();
    let _ = re::math::angle::Angle::sin(a);
}

pub fn p138() {
    let a: re::math::color::Color3f<re::math::color::Hsl> = mk();
    let b: re::math::color::Color3f<re::math::color::Hsl> = mk();
    let c: re::math::color::Color3f<re::math::color::Hsl> = mk();
    let d = re::math::space::Affine::sub(&a, &b);
    let _ = re::math::space::Affine::add(&c, &d);
}

pub fn p142() {
    let a: re::math::color::Color3f<re::math::color::Hsl> = mk();
    let b: re::math::color::Color3f<re::math::color::Hsl> = mk();
    let _ = re::math::space::Affine::add(&a, &b);
}

pub fn p143() {
    let a: re::math::color::Color3f<re::math::color::Hsl> = mk();
    let b: re::math::color::Color3f<re::math::color::Hsl> = mk();
    let _ = re::math::space::Affine::sub(&a, &b);
}

pub fn p144() {
    let a: re::math::color::Color3f<re::math::color::Hsl> = mk();
    let b: re::math::color::Color3f<re::math::color::Hsl> = mk();
    let _ = re::math::Lerp::lerp(&a, &b, 0.5);
}

pub fn p163() {
    let a: re::math::color::Color3f<re::math::color::Hsl> = mk();
    let _ = a.to_rgb();
}

pub fn p173() {
    let a: re::math::color::Color3f<re::math::color::LinRgb> = mk();
    let b: re::math::color::Color3f<re::math::color::LinRgb> = mk();
    let _ = re::math::space::Affine::add(&a, &b);
}

pub fn p174() {
    let a: re::math::color::Color3f<re::math::color::LinRgb> = mk();
    let b: re::math::color::Color3f<re::math::color::LinRgb> = mk();
    let _ = re::math::space::Affine::sub(&a, &b);
}

pub fn p175() {
    let a: re::math::color::Color3f<re::math::color::LinRgb> = mk();
    let b: re::math::color::Color3f<re::math::color::LinRgb> = mk();
    let _ = re::math::Lerp::lerp(&a, &b, 0.5);
}

pub fn p179() {
    let a: re::math::color::Color3f<re::math::color::LinRgb> = mk();
    let _ = a.to_srgb();
}

pub fn p197() {
    let a: re::math::color::Color3f<re::math::color::Rgb> = mk();
    let b: re::math::color::Color3f<re::math::color::Rgb> = mk();
    let c: re::math::color::Color3f<re::math::color::Rgb> = mk();
    let d = re::math::space::Affine::sub(&a, &b);
    let _ = re::math::space::Affine::add(&c, &d);
}

pub fn p200() {
    let a: re::math::color::Color3f<re::math::color::Rgb> = mk();
    let b: re::math::color::Color3f<re::math::color::Rgb> = mk();
    let _ = re::math::space::Affine::add(&a, &b);
}

pub fn p201() {
    let a: re::math::color::Color3f<re::math::color::Rgb> = mk();
    let b: re::math::color::Color3f<re::math::color::Rgb> = mk();
    let _ = re::math::space::Affine::sub(&a, &b);
}

pub fn p202() {
    let a: re::math::color::Color3f<re::math::color::Rgb> = mk();
    let b: re::math::color::Color3f<re::math::color::Rgb> = mk();
    let _ = re::math::Lerp::lerp(&a, &b, 0.5);
}

pub fn p211() {
    let a: re::math::color::Color3f<re::math::color::Rgb> = mk();
    let _ = a.to_color3();
}

pub fn p212() {
    let a: re::math::color::Color3f<re::math::color::Rgb> = mk();
    let _ = a.to_hsl();
}

pub fn p213() {
    let a: re::math::color::Color3f<re::math::color::Rgb> = mk();
    let _ = a.to_linear();
}

pub fn p214() {
    let a: re::math::color::Color3f<re::math::color::Rgb> = mk();
    let _ = a.to_rgba();
}

pub fn p227() {
    let a: re::math::color::Color3<re::math::color::Hsl> = mk();
    let b: re::math::color::Color3<re::math::color::Hsl> = mk();
    let c: re::math::color::Color3<re::math::color::Hsl> = mk();
    let d = re::math::space::Affine::sub(&a, &b);
    let _ = re::math::space::Affine::add(&c, &d);
}

pub fn p233() {
    let a: re::math::color::Color3<re::math::color::Hsl> = mk();
    let _ = a.to_rgb();
}

pub fn p255() {
    let a: re::math::color::Color3<re::math::color::Rgb> = mk();
    let b: re::math::color::Color3<re::math::color::Rgb> = mk();
    let c: re::math::color::Color3<re::math::color::Rgb> = mk();
    let d = re::math::space::Affine::sub(&a, &b);
    let _ = re::math::space::Affine::add(&c, &d);
}

pub fn p256() {
    let a: re::math::color::Color3<re::math::color::Rgb> = mk();
    let _ = a.to_hsl();
}

pub fn p257() {
    let a: re::math::color::Color3<re::math::color::Rgb> = mk();
    let _ = a.to_rgba();
}

pub fn p264() {
    use re::geom::{Tri, Vertex};
    let vs = |_: Vertex<re::math::point::Point3<re::render::Model>, ()>, _: ()| -> Vertex<re::math::vec::ProjVec4, f32> { mk() };
    let fs = |_: re::render::raster::Frag<f32>| -> re::math::color::Color<[u8; 4], re::math::color::Rgba> { mk() };
    let sh = re::render::shader::Shader::new(vs, fs);
    let mut target: re::util::buf::Buf2<u32> = mk();
    let tris: Vec<Tri<usize>> = mk();
    let verts: Vec<Vertex<re::math::point::Point3<re::render::Model>, ()>> = mk();
    re::render::render(&tris, &verts, &sh, (), mk(), &mut target, &mk::<re::render::Context>());
}

pub fn p268() {
    let a: f32 = mk();
    let b: f32 = mk();
    let _ = a + b;
}

pub fn p269() {
    let a: f32 = mk();
    let b: f32 = mk();
    let _ = a % b;
}

pub fn p270() {
    let a: f32 = mk();
    let b: f32 = mk();
    let _ = a - b;
}

pub fn p274() {
    let a: re::math::mat::Mat3x3<re::math::mat::RealToReal<2, re::render::Model, re::render::Model>> = mk();
    let b: re::math::point::Point2<re::render::Model> = mk();
    let _r: re::math::point::Point2<re::render::Model> = a.apply_pt(&b);
}

pub fn p278() {
    let a: re::math::mat::Mat3x3<re::math::mat::RealToReal<2, re::render::Model, re::render::Model>> = mk();
    let b: re::math::vec::Vec2<re::render::Model> = mk();
    let _r: re::math::vec::Vec2<re::render::Model> = a.apply(&b);
}

pub fn p280() {
    let a: re::math::mat::Mat3x3<re::math::mat::RealToReal<2, re::render::Model, re::render::Model>> = mk();
    let b: re::math::vec::Vec2<re::render::Model> = mk();
    let _ = a.apply(&b);
}

pub fn p287() {
    let a: re::math::mat::Mat3x3<re::math::mat::RealToReal<2, re::render::Model, re::render::World>> = mk();
    let b: re::math::point::Point2<re::render::Model> = mk();
    let _r: re::math::point::Point2<re::render::World> = a.apply_pt(&b);
}

pub fn p291() {
    let a: re::math::mat::Mat3x3<re::math::mat::RealToReal<2, re::render::Model, re::render::World>> = mk();
    let b: re::math::vec::Vec2<re::render::Model> = mk();
    let _r: re::math::vec::Vec2<re::render::World> = a.apply(&b);
}

pub fn p292() {
    let a: re::math::mat::Mat3x3<re::math::mat::RealToReal<2, re::render::Model, re::render::World>> = mk();
    let b: re::math::vec::Vec2<re::render::Model> = mk();
    let _ = a.apply(&b);
}

pub fn p300() {
    let a: re::math::mat::Mat3x3<re::math::mat::RealToReal<2, re::render::World, re::render::Model>> = mk();
    let b: re::math::point::Point2<re::render::World> = mk();
    let _r: re::math::point::Point2<re::render::Model> = a.apply_pt(&b);
}

pub fn p305() {
    let a: re::math::mat::Mat3x3<re::math::mat::RealToReal<2, re::render::World, re::render::Model>> = mk();
    let b: re::math::vec::Vec2<re::render::World> = mk();
    let _r: re::math::vec::Vec2<re::render::Model> = a.apply(&b);
}

pub fn p307() {
    let a: re::math::mat::Mat3x3<re::math::mat::RealToReal<2, re::render::World, re::render::Model>> = mk();
    let b: re::math::vec::Vec2<re::render::World> = mk();
    let _ = a.apply(&b);
}

pub fn p313() {
    let a: re::math::mat::Mat3x3<re::math::mat::RealToReal<2, re::render::World, re::render::World>> = mk();
    let b: re::math::point::Point2<re::render::World> = mk();
    let _r: re::math::point::Point2<re::render::World> = a.apply_pt(&b);
}

pub fn p318() {
    let a: re::math::mat::Mat3x3<re::math::mat::RealToReal<2, re::render::World, re::render::World>> = mk();
    let b: re::math::vec::Vec2<re::render::World> = mk();
    let _r: re::math::vec::Vec2<re::render::World> = a.apply(&b);
}

pub fn p319() {
    let a: re::math::mat::Mat3x3<re::math::mat::RealToReal<2, re::render::World, re::render::World>> = mk();
    let b: re::math::vec::Vec2<re::render::World> = mk();
    let _ = a.apply(&b);
}

pub fn p322() {
    let a: re::math::mat::Mat4x4<re::math::mat::RealToReal<3, re::render::Model, re::render::Model>> = mk();
    let b: re::math::mat::Mat4x4<re::render::ModelToProj> = mk();
    let _ = a.then(&b);
}

pub fn p323() {
    let a: re::math::mat::Mat4x4<re::math::mat::RealToReal<3, re::render::Model, re::render::Model>> = mk();
    let b: re::math::mat::Mat4x4<re::render::ModelToView> = mk();
    let _ = a.then(&b);
}

pub fn p324() {
    let a: re::math::mat::Mat4x4<re::math::mat::RealToReal<3, re::render::Model, re::render::Model>> = mk();
    let b: re::math::mat::Mat4x4<re::render::ModelToWorld> = mk();
    let _ = a.then(&b);
}

pub fn p327() {
    let a: re::math::mat::Mat4x4<re::math::mat::RealToReal<3, re::render::Model, re::render::Model>> = mk();
    let b: re::math::mat::Mat4x4<re::math::mat::RealToReal<3, re::render::Model, re::render::Model>> = mk();
    let _r: re::math::mat::Mat4x4<re::math::mat::RealToReal<3, re::render::Model, re::render::Model>> = a.compose(&b);
}

pub fn p331() {
    let a: re::math::mat::Mat4x4<re::math::mat::RealToReal<3, re::render::Model, re::render::Model>> = mk();
    let b: re::math::mat::Mat4x4<re::math::mat::RealToReal<3, re::render::Model, re::render::Model>> = mk();
    let _ = a.compose(&b);
}

pub fn p332() {
    let a: re::math::mat::Mat4x4<re::math::mat::RealToReal<3, re::render::Model, re::render::Model>> = mk();
    let b: re::math::mat::Mat4x4<re::math::mat::RealToReal<3, re::render::Model, re::render::Model>> = mk();
    let _ = a.then(&b);
}

pub fn p334() {
    let a: re::math::mat::Mat4x4<re::math::mat::RealToReal<3, re::render::Model, re::render::Model>> = mk();
    let b: re::math::mat::Mat4x4<re::math::mat::RealToReal<3, re::render::Model, ()>> = mk();
    let _ = a.then(&b);
}

pub fn p340() {
    let a: re::math::mat::Mat4x4<re::math::mat::RealToReal<3, re::render::Model, re::render::Model>> = mk();
    let b: re::math::mat::Mat4x4<re::math::mat::RealToReal<3, re::render::Model, re::render::World>> = mk();
    let _ = a.then(&b);
}

pub fn p342() {
    let a: re::math::mat::Mat4x4<re::math::mat::RealToReal<3, re::render::Model, re::render::Model>> = mk();
    let b: re::math::mat::Mat4x4<re::math::mat::RealToReal<3, (), re::render::Model>> = mk();
    let _ = a.compose(&b);
}

pub fn p349() {
    let a: re::math::mat::Mat4x4<re::math::mat::RealToReal<3, re::render::Model, re::render::Model>> = mk();
    let b: re::math::mat::Mat4x4<re::math::mat::RealToReal<3, re::render::World, re::render::Model>> = mk();
    let _r: re::math::mat::Mat4x4<re::math::mat::RealToReal<3, re::render::World, re::render::Model>> = a.compose(&b);
}

pub fn p352() {
    let a: re::math::mat::Mat4x4<re::math::mat::RealToReal<3, re::render::Model, re::render::Model>> = mk();
    let b: re::math::mat::Mat4x4<re::math::mat::RealToReal<3, re::render::World, re::render::Model>> = mk();
    let _ = a.compose(&b);
}

pub fn p362() {
    let a: re::math::mat::Mat4x4<re::math::mat::RealToReal<3, re::render::Model, re::render::Model>> = mk();
    let b: re::math::mat::Mat4x4<re::math::mat::RealToProj<re::render::Model>> = mk();
    let _ = a.then(&b);
}

pub fn p370() {
    let a: re::math::mat::Mat4x4<re::math::mat::RealToReal<3, re::render::Model, re::render::Model>> = mk();
    let b: re::math::point::Point3<re::render::Model> = mk();
    let _r: re::math::point::Point3<re::render::Model> = a.apply_pt(&b);
}

pub fn p374() {
    let a: re::math::mat::Mat4x4<re::math::mat::RealToReal<3, re::render::Model, re::render::Model>> = mk();
    let b: re::math::point::Point3<re::render::Model> = mk();
    let _ = a.apply_pt(&b);
}

pub fn p389() {
    let a: re::math::mat::Mat4x4<re::math::mat::RealToReal<3, re::render::Model, re::render::Model>> = mk();
    let b: re::math::vec::Vec3<re::render::Model> = mk();
    let _r: re::math::vec::Vec3<re::render::Model> = a.apply(&b);
}

pub fn p392() {
    let a: re::math::mat::Mat4x4<re::math::mat::RealToReal<3, re::render::Model, re::render::Model>> = mk();
    let b: re::math::vec::Vec3<re::render::Model> = mk();
    let _ = a.apply(&b);
}

pub fn p402() {
    let a: re::math::mat::Mat4x4<re::math::mat::RealToReal<3, re::render::Model, re::render::Model>> = mk();
    let _ = re::render::cam::Camera::new((8, 8)).mode(a.to());
}

pub fn p403() {
    let a: re::math::mat::Mat4x4<re::math::mat::RealToReal<3, re::render::Model, re::render::Model>> = mk();
    let _ = a.determinant();
}

pub fn p404() {
    let a: re::math::mat::Mat4x4<re::math::mat::RealToReal<3, re::render::Model, re::render::Model>> = mk();
    let _ = a.inverse();
}

pub fn p405() {
    let a: re::math::mat::Mat4x4<re::math::mat::RealToReal<3, re::render::Model, re::render::Model>> = mk();
    let _ = a.transpose();
}

pub fn p407() {
    let a: re::math::mat::Mat4x4<re::math::mat::RealToReal<3, re::render::Model, ()>> = mk();
    let b: re::math::mat::Mat4x4<re::math::mat::RealToReal<3, re::render::Model, re::render::Model>> = mk();
    let _ = a.compose(&b);
}

pub fn p412() {
    let a: re::math::mat::Mat4x4<re::math::mat::RealToReal<3, re::render::Model, ()>> = mk();
    let b: re::math::mat::Mat4x4<re::math::mat::RealToReal<3, (), re::render::Model>> = mk();
    let _ = a.compose(&b);
}

pub fn p413() {
    let a: re::math::mat::Mat4x4<re::math::mat::RealToReal<3, re::render::Model, ()>> = mk();
    let b: re::math::mat::Mat4x4<re::math::mat::RealToReal<3, (), re::render::Model>> = mk();
    let _ = a.then(&b);
}

pub fn p415() {
    let a: re::math::mat::Mat4x4<re::math::mat::RealToReal<3, re::render::Model, ()>> = mk();
    let b: re::math::mat::Mat4x4<re::math::mat::RealToReal<3, (), ()>> = mk();
    let _ = a.then(&b);
}

pub fn p417() {
    let a: re::math::mat::Mat4x4<re::math::mat::RealToReal<3, re::render::Model, ()>> = mk();
    let b: re::math::mat::Mat4x4<re::math::mat::RealToReal<3, (), re::render::World>> = mk();
    let _ = a.then(&b);
}

pub fn p419() {
    let a: re::math::mat::Mat4x4<re::math::mat::RealToReal<3, re::render::Model, ()>> = mk();
    let b: re::math::mat::Mat4x4<re::math::mat::RealToReal<3, re::render::World, re::render::Model>> = mk();
    let _ = a.compose(&b);
}

pub fn p427() {
    let a: re::math::mat::Mat4x4<re::math::mat::RealToReal<3, re::render::Model, ()>> = mk();
    let b: re::math::mat::Mat4x4<re::math::mat::RealToProj<()>> = mk();
    let _ = a.then(&b);
}

pub fn p434() {
    let a: re::math::mat::Mat4x4<re::math::mat::RealToReal<3, re::render::Model, ()>> = mk();
    let b: re::math::point::Point3<re::render::Model> = mk();
    let _r: re::math::point::Point3<()> = a.apply_pt(&b);
}

pub fn p436() {
    let a: re::math::mat::Mat4x4<re::math::mat::RealToReal<3, re::render::Model, ()>> = mk();
    let b: re::math::point::Point3<re::render::Model> = mk();
    let _ = a.apply_pt(&b);
}

pub fn p449() {
    let a: re::math::mat::Mat4x4<re::math::mat::RealToReal<3, re::render::Model, ()>> = mk();
    let b: re::math::vec::Vec3<re::render::Model> = mk();
    let _r: re::math::vec::Vec3<()> = a.apply(&b);
}

pub fn p451() {
    let a: re::math::mat::Mat4x4<re::math::mat::RealToReal<3, re::render::Model, ()>> = mk();
    let b: re::math::vec::Vec3<re::render::Model> = mk();
    let _ = a.apply(&b);
}

pub fn p460() {
    let a: re::math::mat::Mat4x4<re::math::mat::RealToReal<3, re::render::Model, ()>> = mk();
    let _ = a.determinant();
}

pub fn p461() {
    let a: re::math::mat::Mat4x4<re::math::mat::RealToReal<3, re::render::Model, ()>> = mk();
    let _ = a.inverse();
}

pub fn p462() {
    let a: re::math::mat::Mat4x4<re::math::mat::RealToReal<3, re::render::Model, ()>> = mk();
    let _ = a.transpose();
}

pub fn p466() {
    let a: re::math::mat::Mat4x4<re::math::mat::RealToReal<3, re::render::Model, re::render::View>> = mk();
    let b: re::math::mat::Mat4x4<re::render::ViewToProj> = mk();
    let _ = a.then(&b);
}

pub fn p469() {
    let a: re::math::mat::Mat4x4<re::math::mat::RealToReal<3, re::render::Model, re::render::View>> = mk();
    let b: re::math::point::Point3<re::render::Model> = mk();
    let _ = a.apply_pt(&b);
}

pub fn p475() {
    let a: re::math::mat::Mat4x4<re::math::mat::RealToReal<3, re::render::Model, re::render::View>> = mk();
    let _ = re::render::cam::Camera::new((8, 8)).mode(a.to());
}

pub fn p480() {
    let a: re::math::mat::Mat4x4<re::math::mat::RealToReal<3, re::render::Model, re::render::World>> = mk();
    let b: re::math::mat::Mat4x4<re::render::WorldToView> = mk();
    let _ = a.then(&b);
}

pub fn p482() {
    let a: re::math::mat::Mat4x4<re::math::mat::RealToReal<3, re::render::Model, re::render::World>> = mk();
    let b: re::math::mat::Mat4x4<re::math::mat::RealToReal<3, re::render::Model, re::render::Model>> = mk();
    let _r: re::math::mat::Mat4x4<re::math::mat::RealToReal<3, re::render::Model, re::render::World>> = a.compose(&b);
}

pub fn p486() {
    let a: re::math::mat::Mat4x4<re::math::mat::RealToReal<3, re::render::Model, re::render::World>> = mk();
    let b: re::math::mat::Mat4x4<re::math::mat::RealToReal<3, re::render::Model, re::render::Model>> = mk();
    let _ = a.compose(&b);
}

pub fn p496() {
    let a: re::math::mat::Mat4x4<re::math::mat::RealToReal<3, re::render::Model, re::render::World>> = mk();
    let b: re::math::mat::Mat4x4<re::math::mat::RealToReal<3, (), re::render::Model>> = mk();
    let _ = a.compose(&b);
}

pub fn p504() {
    let a: re::math::mat::Mat4x4<re::math::mat::RealToReal<3, re::render::Model, re::render::World>> = mk();
    let b: re::math::mat::Mat4x4<re::math::mat::RealToReal<3, re::render::World, re::render::Model>> = mk();
    let _r: re::math::mat::Mat4x4<re::math::mat::RealToReal<3, re::render::World, re::render::World>> = a.compose(&b);
}

pub fn p505() {
    let a: re::math::mat::Mat4x4<re::math::mat::RealToReal<3, re::render::Model, re::render::World>> = mk();
    let b: re::math::mat::Mat4x4<re::math::mat::RealToReal<3, re::render::World, re::render::Model>> = mk();
    let _ = a.compose(&b);
}

pub fn p506() {
    let a: re::math::mat::Mat4x4<re::math::mat::RealToReal<3, re::render::Model, re::render::World>> = mk();
    let b: re::math::mat::Mat4x4<re::math::mat::RealToReal<3, re::render::World, re::render::Model>> = mk();
    let _ = a.then(&b);
}

pub fn p508() {
    let a: re::math::mat::Mat4x4<re::math::mat::RealToReal<3, re::render::Model, re::render::World>> = mk();
    let b: re::math::mat::Mat4x4<re::math::mat::RealToReal<3, re::render::World, ()>> = mk();
    let _ = a.then(&b);
}

pub fn p514() {
    let a: re::math::mat::Mat4x4<re::math::mat::RealToReal<3, re::render::Model, re::render::World>> = mk();
    let b: re::math::mat::Mat4x4<re::math::mat::RealToReal<3, re::render::World, re::render::World>> = mk();
    let _ = a.then(&b);
}

pub fn p520() {
    let a: re::math::mat::Mat4x4<re::math::mat::RealToReal<3, re::render::Model, re::render::World>> = mk();
    let b: re::math::mat::Mat4x4<re::math::mat::RealToProj<re::render::World>> = mk();
    let _ = a.then(&b);
}

pub fn p526() {
    let a: re::math::mat::Mat4x4<re::math::mat::RealToReal<3, re::render::Model, re::render::World>> = mk();
    let b: re::math::point::Point3<re::render::Model> = mk();
    let _r: re::math::point::Point3<re::render::World> = a.apply_pt(&b);
}

pub fn p528() {
    let a: re::math::mat::Mat4x4<re::math::mat::RealToReal<3, re::render::Model, re::render::World>> = mk();
    let b: re::math::point::Point3<re::render::Model> = mk();
    let _ = a.apply_pt(&b);
}

pub fn p545() {
    let a: re::math::mat::Mat4x4<re::math::mat::RealToReal<3, re::render::Model, re::render::World>> = mk();
    let b: re::math::vec::Vec3<re::render::Model> = mk();
    let _r: re::math::vec::Vec3<re::render::World> = a.apply(&b);
}

pub fn p546() {
    let a: re::math::mat::Mat4x4<re::math::mat::RealToReal<3, re::render::Model, re::render::World>> = mk();
    let b: re::math::vec::Vec3<re::render::Model> = mk();
    let _ = a.apply(&b);
}

pub fn p556() {
    let a: re::math::mat::Mat4x4<re::math::mat::RealToReal<3, re::render::Model, re::render::World>> = mk();
    let _ = re::render::cam::Camera::new((8, 8)).mode(a.to());
}

pub fn p557() {
    let a: re::math::mat::Mat4x4<re::math::mat::RealToReal<3, re::render::Model, re::render::World>> = mk();
    let _ = a.determinant();
}

pub fn p558() {
    let a: re::math::mat::Mat4x4<re::math::mat::RealToReal<3, re::render::Model, re::render::World>> = mk();
    let _ = a.inverse();
}

pub fn p559() {
    let a: re::math::mat::Mat4x4<re::math::mat::RealToReal<3, re::render::Model, re::render::World>> = mk();
    let _ = a.transpose();
}

pub fn p561() {
    let a: re::math::mat::Mat4x4<re::math::mat::RealToReal<3, (), re::render::Model>> = mk();
    let b: re::math::mat::Mat4x4<re::math::mat::RealToReal<3, re::render::Model, re::render::Model>> = mk();
    let _ = a.then(&b);
}

pub fn p562() {
    let a: re::math::mat::Mat4x4<re::math::mat::RealToReal<3, (), re::render::Model>> = mk();
    let b: re::math::mat::Mat4x4<re::math::mat::RealToReal<3, re::render::Model, ()>> = mk();
    let _ = a.compose(&b);
}

pub fn p563() {
    let a: re::math::mat::Mat4x4<re::math::mat::RealToReal<3, (), re::render::Model>> = mk();
    let b: re::math::mat::Mat4x4<re::math::mat::RealToReal<3, re::render::Model, ()>> = mk();
    let _ = a.then(&b);
}

pub fn p565() {
    let a: re::math::mat::Mat4x4<re::math::mat::RealToReal<3, (), re::render::Model>> = mk();
    let b: re::math::mat::Mat4x4<re::math::mat::RealToReal<3, re::render::Model, re::render::World>> = mk();
    let _ = a.then(&b);
}

pub fn p569() {
    let a: re::math::mat::Mat4x4<re::math::mat::RealToReal<3, (), re::render::Model>> = mk();
    let b: re::math::mat::Mat4x4<re::math::mat::RealToReal<3, (), ()>> = mk();
    let _ = a.compose(&b);
}

pub fn p575() {
    let a: re::math::mat::Mat4x4<re::math::mat::RealToReal<3, (), re::render::Model>> = mk();
    let b: re::math::mat::Mat4x4<re::math::mat::RealToReal<3, re::render::World, ()>> = mk();
    let _ = a.compose(&b);
}

pub fn p579() {
    let a: re::math::mat::Mat4x4<re::math::mat::RealToReal<3, (), re::render::Model>> = mk();
    let b: re::math::mat::Mat4x4<re::math::mat::RealToProj<re::render::Model>> = mk();
    let _ = a.then(&b);
}

pub fn p591() {
    let a: re::math::mat::Mat4x4<re::math::mat::RealToReal<3, (), re::render::Model>> = mk();
    let b: re::math::point::Point3<()> = mk();
    let _r: re::math::point::Point3<re::render::Model> = a.apply_pt(&b);
}

pub fn p594() {
    let a: re::math::mat::Mat4x4<re::math::mat::RealToReal<3, (), re::render::Model>> = mk();
    let b: re::math::point::Point3<()> = mk();
    let _ = a.apply_pt(&b);
}

pub fn p606() {
    let a: re::math::mat::Mat4x4<re::math::mat::RealToReal<3, (), re::render::Model>> = mk();
    let b: re::math::vec::Vec3<()> = mk();
    let _r: re::math::vec::Vec3<re::render::Model> = a.apply(&b);
}

pub fn p609() {
    let a: re::math::mat::Mat4x4<re::math::mat::RealToReal<3, (), re::render::Model>> = mk();
    let b: re::math::vec::Vec3<()> = mk();
    let _ = a.apply(&b);
}

pub fn p614() {
    let a: re::math::mat::Mat4x4<re::math::mat::RealToReal<3, (), re::render::Model>> = mk();
    let _ = a.determinant();
}

pub fn p615() {
    let a: re::math::mat::Mat4x4<re::math::mat::RealToReal<3, (), re::render::Model>> = mk();
    let _ = a.inverse();
}

pub fn p616() {
    let a: re::math::mat::Mat4x4<re::math::mat::RealToReal<3, (), re::render::Model>> = mk();
    let _ = a.transpose();
}

pub fn p620() {
    let a: re::math::mat::Mat4x4<re::math::mat::RealToReal<3, (), ()>> = mk();
    let b: re::math::mat::Mat4x4<re::math::mat::RealToReal<3, re::render::Model, ()>> = mk();
    let _ = a.compose(&b);
}

pub fn p624() {
    let a: re::math::mat::Mat4x4<re::math::mat::RealToReal<3, (), ()>> = mk();
    let b: re::math::mat::Mat4x4<re::math::mat::RealToReal<3, (), re::render::Model>> = mk();
    let _ = a.then(&b);
}

pub fn p625() {
    let a: re::math::mat::Mat4x4<re::math::mat::RealToReal<3, (), ()>> = mk();
    let b: re::math::mat::Mat4x4<re::math::mat::RealToReal<3, (), ()>> = mk();
    let _ = a.compose(&b);
}

pub fn p626() {
    let a: re::math::mat::Mat4x4<re::math::mat::RealToReal<3, (), ()>> = mk();
    let b: re::math::mat::Mat4x4<re::math::mat::RealToReal<3, (), ()>> = mk();
    let _ = a.then(&b);
}

pub fn p628() {
    let a: re::math::mat::Mat4x4<re::math::mat::RealToReal<3, (), ()>> = mk();
    let b: re::math::mat::Mat4x4<re::math::mat::RealToReal<3, (), re::render::World>> = mk();
    let _ = a.then(&b);
}

pub fn p632() {
    let a: re::math::mat::Mat4x4<re::math::mat::RealToReal<3, (), ()>> = mk();
    let b: re::math::mat::Mat4x4<re::math::mat::RealToReal<3, re::render::World, ()>> = mk();
    let _ = a.compose(&b);
}

pub fn p638() {
    let a: re::math::mat::Mat4x4<re::math::mat::RealToReal<3, (), ()>> = mk();
    let b: re::math::mat::Mat4x4<re::math::mat::RealToProj<()>> = mk();
    let _ = a.then(&b);
}

pub fn p649() {
    let a: re::math::mat::Mat4x4<re::math::mat::RealToReal<3, (), ()>> = mk();
    let b: re::math::point::Point3<()> = mk();
    let _r: re::math::point::Point3<()> = a.apply_pt(&b);
}

pub fn p651() {
    let a: re::math::mat::Mat4x4<re::math::mat::RealToReal<3, (), ()>> = mk();
    let b: re::math::point::Point3<()> = mk();
    let _ = a.apply_pt(&b);
}

pub fn p664() {
    let a: re::math::mat::Mat4x4<re::math::mat::RealToReal<3, (), ()>> = mk();
    let b: re::math::vec::Vec3<()> = mk();
    let _r: re::math::vec::Vec3<()> = a.apply(&b);
}

pub fn p666() {
    let a: re::math::mat::Mat4x4<re::math::mat::RealToReal<3, (), ()>> = mk();
    let b: re::math::vec::Vec3<()> = mk();
    let _ = a.apply(&b);
}

pub fn p671() {
    let a: re::math::mat::Mat4x4<re::math::mat::RealToReal<3, (), ()>> = mk();
    let _ = a.determinant();
}

pub fn p672() {
    let a: re::math::mat::Mat4x4<re::math::mat::RealToReal<3, (), ()>> = mk();
    let _ = a.inverse();
}

pub fn p673() {
    let a: re::math::mat::Mat4x4<re::math::mat::RealToReal<3, (), ()>> = mk();
    let _ = a.transpose();
}

pub fn p677() {
    let a: re::math::mat::Mat4x4<re::math::mat::RealToReal<3, (), re::render::World>> = mk();
    let b: re::math::mat::Mat4x4<re::math::mat::RealToReal<3, re::render::Model, ()>> = mk();
    let _ = a.compose(&b);
}

pub fn p683() {
    let a: re::math::mat::Mat4x4<re::math::mat::RealToReal<3, (), re::render::World>> = mk();
    let b: re::math::mat::Mat4x4<re::math::mat::RealToReal<3, (), ()>> = mk();
    let _ = a.compose(&b);
}

pub fn p687() {
    let a: re::math::mat::Mat4x4<re::math::mat::RealToReal<3, (), re::render::World>> = mk();
    let b: re::math::mat::Mat4x4<re::math::mat::RealToReal<3, re::render::World, re::render::Model>> = mk();
    let _ = a.then(&b);
}

pub fn p688() {
    let a: re::math::mat::Mat4x4<re::math::mat::RealToReal<3, (), re::render::World>> = mk();
    let b: re::math::mat::Mat4x4<re::math::mat::RealToReal<3, re::render::World, ()>> = mk();
    let _ = a.compose(&b);
}

pub fn p689() {
    let a: re::math::mat::Mat4x4<re::math::mat::RealToReal<3, (), re::render::World>> = mk();
    let b: re::math::mat::Mat4x4<re::math::mat::RealToReal<3, re::render::World, ()>> = mk();
    let _ = a.then(&b);
}

pub fn p691() {
    let a: re::math::mat::Mat4x4<re::math::mat::RealToReal<3, (), re::render::World>> = mk();
    let b: re::math::mat::Mat4x4<re::math::mat::RealToReal<3, re::render::World, re::render::World>> = mk();
    let _ = a.then(&b);
}

pub fn p697() {
    let a: re::math::mat::Mat4x4<re::math::mat::RealToReal<3, (), re::render::World>> = mk();
    let b: re::math::mat::Mat4x4<re::math::mat::RealToProj<re::render::World>> = mk();
    let _ = a.then(&b);
}

pub fn p707() {
    let a: re::math::mat::Mat4x4<re::math::mat::RealToReal<3, (), re::render::World>> = mk();
    let b: re::math::point::Point3<()> = mk();
    let _r: re::math::point::Point3<re::render::World> = a.apply_pt(&b);
}

pub fn p708() {
    let a: re::math::mat::Mat4x4<re::math::mat::RealToReal<3, (), re::render::World>> = mk();
    let b: re::math::point::Point3<()> = mk();
    let _ = a.apply_pt(&b);
}

pub fn p722() {
    let a: re::math::mat::Mat4x4<re::math::mat::RealToReal<3, (), re::render::World>> = mk();
    let b: re::math::vec::Vec3<()> = mk();
    let _r: re::math::vec::Vec3<re::render::World> = a.apply(&b);
}

pub fn p723() {
    let a: re::math::mat::Mat4x4<re::math::mat::RealToReal<3, (), re::render::World>> = mk();
    let b: re::math::vec::Vec3<()> = mk();
    let _ = a.apply(&b);
}

pub fn p728() {
    let a: re::math::mat::Mat4x4<re::math::mat::RealToReal<3, (), re::render::World>> = mk();
    let _ = a.determinant();
}

pub fn p729() {
    let a: re::math::mat::Mat4x4<re::math::mat::RealToReal<3, (), re::render::World>> = mk();
    let _ = a.inverse();
}

pub fn p730() {
    let a: re::math::mat::Mat4x4<re::math::mat::RealToReal<3, (), re::render::World>> = mk();
    let _ = a.transpose();
}

pub fn p731() {
    let a: re::math::mat::Mat4x4<re::math::mat::RealToReal<3, crate::UserTag, crate::UserTag>> = mk();
    let b: re::math::mat::Mat4x4<re::math::mat::RealToReal<3, crate::UserTag, crate::UserTag>> = mk();
    let _ = a.compose(&b);
}

pub fn p732() {
    let a: re::math::mat::Mat4x4<re::math::mat::RealToReal<3, crate::UserTag, crate::UserTag>> = mk();
    let b: re::math::mat::Mat4x4<re::math::mat::RealToReal<3, crate::UserTag, crate::UserTag>> = mk();
    let _ = a.then(&b);
}

pub fn p734() {
    let a: re::math::mat::Mat4x4<re::math::mat::RealToReal<3, crate::UserTag, crate::UserTag>> = mk();
    let b: re::math::mat::Mat4x4<re::math::mat::RealToReal<3, crate::UserTag, re::render::World>> = mk();
    let _ = a.then(&b);
}

pub fn p736() {
    let a: re::math::mat::Mat4x4<re::math::mat::RealToReal<3, crate::UserTag, crate::UserTag>> = mk();
    let b: re::math::mat::Mat4x4<re::math::mat::RealToReal<3, re::render::World, crate::UserTag>> = mk();
    let _ = a.compose(&b);
}

pub fn p737() {
    let a: re::math::mat::Mat4x4<re::math::mat::RealToReal<3, crate::UserTag, crate::UserTag>> = mk();
    let b: re::math::point::Point3<crate::UserTag> = mk();
    let _ = a.apply_pt(&b);
}

pub fn p739() {
    let a: re::math::mat::Mat4x4<re::math::mat::RealToReal<3, crate::UserTag, crate::UserTag>> = mk();
    let b: re::math::vec::Vec3<crate::UserTag> = mk();
    let _ = a.apply(&b);
}

pub fn p741() {
    let a: re::math::mat::Mat4x4<re::math::mat::RealToReal<3, crate::UserTag, crate::UserTag>> = mk();
    let _ = a.determinant();
}

pub fn p742() {
    let a: re::math::mat::Mat4x4<re::math::mat::RealToReal<3, crate::UserTag, crate::UserTag>> = mk();
    let _ = a.inverse();
}

pub fn p743() {
    let a: re::math::mat::Mat4x4<re::math::mat::RealToReal<3, crate::UserTag, crate::UserTag>> = mk();
    let _ = a.transpose();
}

pub fn p745() {
    let a: re::math::mat::Mat4x4<re::math::mat::RealToReal<3, crate::UserTag, re::render::World>> = mk();
    let b: re::math::mat::Mat4x4<re::math::mat::RealToReal<3, crate::UserTag, crate::UserTag>> = mk();
    let _ = a.compose(&b);
}

pub fn p748() {
    let a: re::math::mat::Mat4x4<re::math::mat::RealToReal<3, crate::UserTag, re::render::World>> = mk();
    let b: re::math::mat::Mat4x4<re::math::mat::RealToReal<3, re::render::World, crate::UserTag>> = mk();
    let _ = a.compose(&b);
}

pub fn p749() {
    let a: re::math::mat::Mat4x4<re::math::mat::RealToReal<3, crate::UserTag, re::render::World>> = mk();
    let b: re::math::mat::Mat4x4<re::math::mat::RealToReal<3, re::render::World, crate::UserTag>> = mk();
    let _ = a.then(&b);
}

pub fn p750() {
    let a: re::math::mat::Mat4x4<re::math::mat::RealToReal<3, crate::UserTag, re::render::World>> = mk();
    let b: re::math::point::Point3<crate::UserTag> = mk();
    let _ = a.apply_pt(&b);
}

pub fn p752() {
    let a: re::math::mat::Mat4x4<re::math::mat::RealToReal<3, crate::UserTag, re::render::World>> = mk();
    let b: re::math::vec::Vec3<crate::UserTag> = mk();
    let _ = a.apply(&b);
}

pub fn p754() {
    let a: re::math::mat::Mat4x4<re::math::mat::RealToReal<3, crate::UserTag, re::render::World>> = mk();
    let _ = a.determinant();
}

pub fn p755() {
    let a: re::math::mat::Mat4x4<re::math::mat::RealToReal<3, crate::UserTag, re::render::World>> = mk();
    let _ = a.inverse();
}

pub fn p756() {
    let a: re::math::mat::Mat4x4<re::math::mat::RealToReal<3, crate::UserTag, re::render::World>> = mk();
    let _ = a.transpose();
}

pub fn p757() {
    let a: re::math::mat::Mat4x4<re::math::mat::RealToReal<3, re::render::View, re::render::Model>> = mk();
    let b: re::math::mat::Mat4x4<re::render::ModelToProj> = mk();
    let _ = a.then(&b);
}

pub fn p758() {
    let a: re::math::mat::Mat4x4<re::math::mat::RealToReal<3, re::render::View, re::render::Model>> = mk();
    let b: re::math::mat::Mat4x4<re::render::ModelToView> = mk();
    let _ = a.then(&b);
}

pub fn p759() {
    let a: re::math::mat::Mat4x4<re::math::mat::RealToReal<3, re::render::View, re::render::Model>> = mk();
    let b: re::math::mat::Mat4x4<re::render::ModelToWorld> = mk();
    let _ = a.then(&b);
}

pub fn p765() {
    let a: re::math::mat::Mat4x4<re::math::mat::RealToReal<3, re::render::View, re::render::Model>> = mk();
    let b: re::math::point::Point3<re::render::View> = mk();
    let _ = a.apply_pt(&b);
}

pub fn p769() {
    let a: re::math::mat::Mat4x4<re::math::mat::RealToReal<3, re::render::View, re::render::Model>> = mk();
    let _ = re::render::cam::Camera::new((8, 8)).mode(a.to());
}

pub fn p773() {
    let a: re::math::mat::Mat4x4<re::math::mat::RealToReal<3, re::render::View, re::render::View>> = mk();
    let b: re::math::mat::Mat4x4<re::render::ViewToProj> = mk();
    let _ = a.then(&b);
}

pub fn p778() {
    let a: re::math::mat::Mat4x4<re::math::mat::RealToReal<3, re::render::View, re::render::View>> = mk();
    let b: re::math::point::Point3<re::render::View> = mk();
    let _ = a.apply_pt(&b);
}

pub fn p782() {
    let a: re::math::mat::Mat4x4<re::math::mat::RealToReal<3, re::render::View, re::render::View>> = mk();
    let _ = re::render::cam::Camera::new((8, 8)).mode(a.to());
}

pub fn p787() {
    let a: re::math::mat::Mat4x4<re::math::mat::RealToReal<3, re::render::View, re::render::World>> = mk();
    let b: re::math::mat::Mat4x4<re::render::WorldToView> = mk();
    let _ = a.then(&b);
}

pub fn p791() {
    let a: re::math::mat::Mat4x4<re::math::mat::RealToReal<3, re::render::View, re::render::World>> = mk();
    let b: re::math::point::Point3<re::render::View> = mk();
    let _ = a.apply_pt(&b);
}

pub fn p795() {
    let a: re::math::mat::Mat4x4<re::math::mat::RealToReal<3, re::render::View, re::render::World>> = mk();
    let _ = re::render::cam::Camera::new((8, 8)).mode(a.to());
}

pub fn p796() {
    let a: re::math::mat::Mat4x4<re::math::mat::RealToReal<3, re::render::World, re::render::Model>> = mk();
    let b: re::math::mat::Mat4x4<re::render::ModelToProj> = mk();
    let _ = a.then(&b);
}

pub fn p797() {
    let a: re::math::mat::Mat4x4<re::math::mat::RealToReal<3, re::render::World, re::render::Model>> = mk();
    let b: re::math::mat::Mat4x4<re::render::ModelToView> = mk();
    let _ = a.then(&b);
}

pub fn p798() {
    let a: re::math::mat::Mat4x4<re::math::mat::RealToReal<3, re::render::World, re::render::Model>> = mk();
    let b: re::math::mat::Mat4x4<re::render::ModelToWorld> = mk();
    let _ = a.then(&b);
}

pub fn p806() {
    let a: re::math::mat::Mat4x4<re::math::mat::RealToReal<3, re::render::World, re::render::Model>> = mk();
    let b: re::math::mat::Mat4x4<re::math::mat::RealToReal<3, re::render::Model, re::render::Model>> = mk();
    let _ = a.then(&b);
}

pub fn p808() {
    let a: re::math::mat::Mat4x4<re::math::mat::RealToReal<3, re::render::World, re::render::Model>> = mk();
    let b: re::math::mat::Mat4x4<re::math::mat::RealToReal<3, re::render::Model, ()>> = mk();
    let _ = a.then(&b);
}

pub fn p809() {
    let a: re::math::mat::Mat4x4<re::math::mat::RealToReal<3, re::render::World, re::render::Model>> = mk();
    let b: re::math::mat::Mat4x4<re::math::mat::RealToReal<3, re::render::Model, re::render::World>> = mk();
    let _r: re::math::mat::Mat4x4<re::math::mat::RealToReal<3, re::render::Model, re::render::Model>> = a.compose(&b);
}

pub fn p813() {
    let a: re::math::mat::Mat4x4<re::math::mat::RealToReal<3, re::render::World, re::render::Model>> = mk();
    let b: re::math::mat::Mat4x4<re::math::mat::RealToReal<3, re::render::Model, re::render::World>> = mk();
    let _ = a.compose(&b);
}

pub fn p814() {
    let a: re::math::mat::Mat4x4<re::math::mat::RealToReal<3, re::render::World, re::render::Model>> = mk();
    let b: re::math::mat::Mat4x4<re::math::mat::RealToReal<3, re::render::Model, re::render::World>> = mk();
    let _ = a.then(&b);
}

pub fn p820() {
    let a: re::math::mat::Mat4x4<re::math::mat::RealToReal<3, re::render::World, re::render::Model>> = mk();
    let b: re::math::mat::Mat4x4<re::math::mat::RealToReal<3, (), re::render::World>> = mk();
    let _ = a.compose(&b);
}

pub fn p831() {
    let a: re::math::mat::Mat4x4<re::math::mat::RealToReal<3, re::render::World, re::render::Model>> = mk();
    let b: re::math::mat::Mat4x4<re::math::mat::RealToReal<3, re::render::World, re::render::World>> = mk();
    let _r: re::math::mat::Mat4x4<re::math::mat::RealToReal<3, re::render::World, re::render::Model>> = a.compose(&b);
}

pub fn p834() {
    let a: re::math::mat::Mat4x4<re::math::mat::RealToReal<3, re::render::World, re::render::Model>> = mk();
    let b: re::math::mat::Mat4x4<re::math::mat::RealToReal<3, re::render::World, re::render::World>> = mk();
    let _ = a.compose(&b);
}

pub fn p836() {
    let a: re::math::mat::Mat4x4<re::math::mat::RealToReal<3, re::render::World, re::render::Model>> = mk();
    let b: re::math::mat::Mat4x4<re::math::mat::RealToProj<re::render::Model>> = mk();
    let _ = a.then(&b);
}

pub fn p855() {
    let a: re::math::mat::Mat4x4<re::math::mat::RealToReal<3, re::render::World, re::render::Model>> = mk();
    let b: re::math::point::Point3<re::render::World> = mk();
    let _r: re::math::point::Point3<re::render::Model> = a.apply_pt(&b);
}

pub fn p859() {
    let a: re::math::mat::Mat4x4<re::math::mat::RealToReal<3, re::render::World, re::render::Model>> = mk();
    let b: re::math::point::Point3<re::render::World> = mk();
    let _ = a.apply_pt(&b);
}

pub fn p871() {
    let a: re::math::mat::Mat4x4<re::math::mat::RealToReal<3, re::render::World, re::render::Model>> = mk();
    let b: re::math::vec::Vec3<re::render::World> = mk();
    let _r: re::math::vec::Vec3<re::render::Model> = a.apply(&b);
}

pub fn p874() {
    let a: re::math::mat::Mat4x4<re::math::mat::RealToReal<3, re::render::World, re::render::Model>> = mk();
    let b: re::math::vec::Vec3<re::render::World> = mk();
    let _ = a.apply(&b);
}

pub fn p876() {
    let a: re::math::mat::Mat4x4<re::math::mat::RealToReal<3, re::render::World, re::render::Model>> = mk();
    let _ = re::render::cam::Camera::new((8, 8)).mode(a.to());
}

pub fn p877() {
    let a: re::math::mat::Mat4x4<re::math::mat::RealToReal<3, re::render::World, re::render::Model>> = mk();
    let _ = a.determinant();
}

pub fn p878() {
    let a: re::math::mat::Mat4x4<re::math::mat::RealToReal<3, re::render::World, re::render::Model>> = mk();
    let _ = a.inverse();
}

pub fn p879() {
    let a: re::math::mat::Mat4x4<re::math::mat::RealToReal<3, re::render::World, re::render::Model>> = mk();
    let _ = a.transpose();
}

pub fn p885() {
    let a: re::math::mat::Mat4x4<re::math::mat::RealToReal<3, re::render::World, ()>> = mk();
    let b: re::math::mat::Mat4x4<re::math::mat::RealToReal<3, re::render::Model, re::render::World>> = mk();
    let _ = a.compose(&b);
}

pub fn p887() {
    let a: re::math::mat::Mat4x4<re::math::mat::RealToReal<3, re::render::World, ()>> = mk();
    let b: re::math::mat::Mat4x4<re::math::mat::RealToReal<3, (), re::render::Model>> = mk();
    let _ = a.then(&b);
}

pub fn p889() {
    let a: re::math::mat::Mat4x4<re::math::mat::RealToReal<3, re::render::World, ()>> = mk();
    let b: re::math::mat::Mat4x4<re::math::mat::RealToReal<3, (), ()>> = mk();
    let _ = a.then(&b);
}

pub fn p890() {
    let a: re::math::mat::Mat4x4<re::math::mat::RealToReal<3, re::render::World, ()>> = mk();
    let b: re::math::mat::Mat4x4<re::math::mat::RealToReal<3, (), re::render::World>> = mk();
    let _ = a.compose(&b);
}

pub fn p891() {
    let a: re::math::mat::Mat4x4<re::math::mat::RealToReal<3, re::render::World, ()>> = mk();
    let b: re::math::mat::Mat4x4<re::math::mat::RealToReal<3, (), re::render::World>> = mk();
    let _ = a.then(&b);
}

pub fn p897() {
    let a: re::math::mat::Mat4x4<re::math::mat::RealToReal<3, re::render::World, ()>> = mk();
    let b: re::math::mat::Mat4x4<re::math::mat::RealToReal<3, re::render::World, re::render::World>> = mk();
    let _ = a.compose(&b);
}

pub fn p901() {
    let a: re::math::mat::Mat4x4<re::math::mat::RealToReal<3, re::render::World, ()>> = mk();
    let b: re::math::mat::Mat4x4<re::math::mat::RealToProj<()>> = mk();
    let _ = a.then(&b);
}

pub fn p916() {
    let a: re::math::mat::Mat4x4<re::math::mat::RealToReal<3, re::render::World, ()>> = mk();
    let b: re::math::point::Point3<re::render::World> = mk();
    let _r: re::math::point::Point3<()> = a.apply_pt(&b);
}

pub fn p918() {
    let a: re::math::mat::Mat4x4<re::math::mat::RealToReal<3, re::render::World, ()>> = mk();
    let b: re::math::point::Point3<re::render::World> = mk();
    let _ = a.apply_pt(&b);
}

pub fn p931() {
    let a: re::math::mat::Mat4x4<re::math::mat::RealToReal<3, re::render::World, ()>> = mk();
    let b: re::math::vec::Vec3<re::render::World> = mk();
    let _r: re::math::vec::Vec3<()> = a.apply(&b);
}

pub fn p933() {
    let a: re::math::mat::Mat4x4<re::math::mat::RealToReal<3, re::render::World, ()>> = mk();
    let b: re::math::vec::Vec3<re::render::World> = mk();
    let _ = a.apply(&b);
}

pub fn p934() {
    let a: re::math::mat::Mat4x4<re::math::mat::RealToReal<3, re::render::World, ()>> = mk();
    let _ = a.determinant();
}

pub fn p935() {
    let a: re::math::mat::Mat4x4<re::math::mat::RealToReal<3, re::render::World, ()>> = mk();
    let _ = a.inverse();
}

pub fn p936() {
    let a: re::math::mat::Mat4x4<re::math::mat::RealToReal<3, re::render::World, ()>> = mk();
    let _ = a.transpose();
}

pub fn p938() {
    let a: re::math::mat::Mat4x4<re::math::mat::RealToReal<3, re::render::World, crate::UserTag>> = mk();
    let b: re::math::mat::Mat4x4<re::math::mat::RealToReal<3, crate::UserTag, crate::UserTag>> = mk();
    let _ = a.then(&b);
}

pub fn p939() {
    let a: re::math::mat::Mat4x4<re::math::mat::RealToReal<3, re::render::World, crate::UserTag>> = mk();
    let b: re::math::mat::Mat4x4<re::math::mat::RealToReal<3, crate::UserTag, re::render::World>> = mk();
    let _ = a.compose(&b);
}

pub fn p940() {
    let a: re::math::mat::Mat4x4<re::math::mat::RealToReal<3, re::render::World, crate::UserTag>> = mk();
    let b: re::math::mat::Mat4x4<re::math::mat::RealToReal<3, crate::UserTag, re::render::World>> = mk();
    let _ = a.then(&b);
}

pub fn p944() {
    let a: re::math::mat::Mat4x4<re::math::mat::RealToReal<3, re::render::World, crate::UserTag>> = mk();
    let b: re::math::point::Point3<re::render::World> = mk();
    let _ = a.apply_pt(&b);
}

pub fn p946() {
    let a: re::math::mat::Mat4x4<re::math::mat::RealToReal<3, re::render::World, crate::UserTag>> = mk();
    let b: re::math::vec::Vec3<re::render::World> = mk();
    let _ = a.apply(&b);
}

pub fn p947() {
    let a: re::math::mat::Mat4x4<re::math::mat::RealToReal<3, re::render::World, crate::UserTag>> = mk();
    let _ = a.determinant();
}

pub fn p948() {
    let a: re::math::mat::Mat4x4<re::math::mat::RealToReal<3, re::render::World, crate::UserTag>> = mk();
    let _ = a.inverse();
}

pub fn p949() {
    let a: re::math::mat::Mat4x4<re::math::mat::RealToReal<3, re::render::World, crate::UserTag>> = mk();
    let _ = a.transpose();
}

pub fn p953() {
    let a: re::math::mat::Mat4x4<re::math::mat::RealToReal<3, re::render::World, re::render::View>> = mk();
    let b: re::math::mat::Mat4x4<re::render::ViewToProj> = mk();
    let _ = a.then(&b);
}

pub fn p960() {
    let a: re::math::mat::Mat4x4<re::math::mat::RealToReal<3, re::render::World, re::render::View>> = mk();
    let b: re::math::point::Point3<re::render::World> = mk();
    let _ = a.apply_pt(&b);
}

pub fn p961() {
    let a: re::math::mat::Mat4x4<re::math::mat::RealToReal<3, re::render::World, re::render::View>> = mk();
    let _ = re::render::cam::Camera::new((8, 8)).mode(a);
}

pub fn p962() {
    let a: re::math::mat::Mat4x4<re::math::mat::RealToReal<3, re::render::World, re::render::View>> = mk();
    let _ = re::render::cam::Camera::new((8, 8)).mode(a.to());
}

pub fn p967() {
    let a: re::math::mat::Mat4x4<re::math::mat::RealToReal<3, re::render::World, re::render::World>> = mk();
    let b: re::math::mat::Mat4x4<re::render::WorldToView> = mk();
    let _ = a.then(&b);
}

pub fn p977() {
    let a: re::math::mat::Mat4x4<re::math::mat::RealToReal<3, re::render::World, re::render::World>> = mk();
    let b: re::math::mat::Mat4x4<re::math::mat::RealToReal<3, re::render::Model, re::render::World>> = mk();
    let _r: re::math::mat::Mat4x4<re::math::mat::RealToReal<3, re::render::Model, re::render::World>> = a.compose(&b);
}

pub fn p981() {
    let a: re::math::mat::Mat4x4<re::math::mat::RealToReal<3, re::render::World, re::render::World>> = mk();
    let b: re::math::mat::Mat4x4<re::math::mat::RealToReal<3, re::render::Model, re::render::World>> = mk();
    let _ = a.compose(&b);
}

pub fn p987() {
    let a: re::math::mat::Mat4x4<re::math::mat::RealToReal<3, re::render::World, re::render::World>> = mk();
    let b: re::math::mat::Mat4x4<re::math::mat::RealToReal<3, (), re::render::World>> = mk();
    let _ = a.compose(&b);
}

pub fn p993() {
    let a: re::math::mat::Mat4x4<re::math::mat::RealToReal<3, re::render::World, re::render::World>> = mk();
    let b: re::math::mat::Mat4x4<re::math::mat::RealToReal<3, re::render::World, re::render::Model>> = mk();
    let _ = a.then(&b);
}

pub fn p995() {
    let a: re::math::mat::Mat4x4<re::math::mat::RealToReal<3, re::render::World, re::render::World>> = mk();
    let b: re::math::mat::Mat4x4<re::math::mat::RealToReal<3, re::render::World, ()>> = mk();
    let _ = a.then(&b);
}

pub fn p999() {
    let a: re::math::mat::Mat4x4<re::math::mat::RealToReal<3, re::render::World, re::render::World>> = mk();
    let b: re::math::mat::Mat4x4<re::math::mat::RealToReal<3, re::render::World, re::render::World>> = mk();
    let _r: re::math::mat::Mat4x4<re::math::mat::RealToReal<3, re::render::World, re::render::World>> = a.compose(&b);
}

pub fn p1000() {
    let a: re::math::mat::Mat4x4<re::math::mat::RealToReal<3, re::render::World, re::render::World>> = mk();
    let b: re::math::mat::Mat4x4<re::math::mat::RealToReal<3, re::render::World, re::render::World>> = mk();
    let _ = a.compose(&b);
}

pub fn p1001() {
    let a: re::math::mat::Mat4x4<re::math::mat::RealToReal<3, re::render::World, re::render::World>> = mk();
    let b: re::math::mat::Mat4x4<re::math::mat::RealToReal<3, re::render::World, re::render::World>> = mk();
    let _ = a.then(&b);
}

pub fn p1007() {
    let a: re::math::mat::Mat4x4<re::math::mat::RealToReal<3, re::render::World, re::render::World>> = mk();
    let b: re::math::mat::Mat4x4<re::math::mat::RealToProj<re::render::World>> = mk();
    let _ = a.then(&b);
}

pub fn p1024() {
    let a: re::math::mat::Mat4x4<re::math::mat::RealToReal<3, re::render::World, re::render::World>> = mk();
    let b: re::math::point::Point3<re::render::World> = mk();
    let _r: re::math::point::Point3<re::render::World> = a.apply_pt(&b);
}

pub fn p1026() {
    let a: re::math::mat::Mat4x4<re::math::mat::RealToReal<3, re::render::World, re::render::World>> = mk();
    let b: re::math::point::Point3<re::render::World> = mk();
    let _ = a.apply_pt(&b);
}

pub fn p1040() {
    let a: re::math::mat::Mat4x4<re::math::mat::RealToReal<3, re::render::World, re::render::World>> = mk();
    let b: re::math::vec::Vec3<re::render::World> = mk();
    let _r: re::math::vec::Vec3<re::render::World> = a.apply(&b);
}

pub fn p1041() {
    let a: re::math::mat::Mat4x4<re::math::mat::RealToReal<3, re::render::World, re::render::World>> = mk();
    let b: re::math::vec::Vec3<re::render::World> = mk();
    let _ = a.apply(&b);
}

pub fn p1043() {
    let a: re::math::mat::Mat4x4<re::math::mat::RealToReal<3, re::render::World, re::render::World>> = mk();
    let _ = re::render::cam::Camera::new((8, 8)).mode(a.to());
}

pub fn p1044() {
    let a: re::math::mat::Mat4x4<re::math::mat::RealToReal<3, re::render::World, re::render::World>> = mk();
    let _ = a.determinant();
}

pub fn p1045() {
    let a: re::math::mat::Mat4x4<re::math::mat::RealToReal<3, re::render::World, re::render::World>> = mk();
    let _ = a.inverse();
}

pub fn p1046() {
    let a: re::math::mat::Mat4x4<re::math::mat::RealToReal<3, re::render::World, re::render::World>> = mk();
    let _ = a.transpose();
}

pub fn p1053() {
    let a: re::math::mat::Mat4x4<re::math::mat::RealToProj<re::render::Model>> = mk();
    let b: re::math::mat::Mat4x4<re::math::mat::RealToReal<3, re::render::Model, re::render::Model>> = mk();
    let _ = a.compose(&b);
}

pub fn p1059() {
    let a: re::math::mat::Mat4x4<re::math::mat::RealToProj<re::render::Model>> = mk();
    let b: re::math::mat::Mat4x4<re::math::mat::RealToReal<3, (), re::render::Model>> = mk();
    let _ = a.compose(&b);
}

pub fn p1065() {
    let a: re::math::mat::Mat4x4<re::math::mat::RealToProj<re::render::Model>> = mk();
    let b: re::math::mat::Mat4x4<re::math::mat::RealToReal<3, re::render::World, re::render::Model>> = mk();
    let _ = a.compose(&b);
}

pub fn p1070() {
    let a: re::math::mat::Mat4x4<re::math::mat::RealToProj<re::render::Model>> = mk();
    let b: re::math::point::Point3<re::render::Model> = mk();
    let _ = a.apply(&b);
}

pub fn p1082() {
    let a: re::math::mat::Mat4x4<re::math::mat::RealToProj<re::render::Model>> = mk();
    let _ = re::render::cam::Camera::new((8, 8)).mode(a.to());
}

pub fn p1089() {
    let a: re::math::mat::Mat4x4<re::math::mat::RealToProj<()>> = mk();
    let b: re::math::mat::Mat4x4<re::math::mat::RealToReal<3, re::render::Model, ()>> = mk();
    let _ = a.compose(&b);
}

pub fn p1095() {
    let a: re::math::mat::Mat4x4<re::math::mat::RealToProj<()>> = mk();
    let b: re::math::mat::Mat4x4<re::math::mat::RealToReal<3, (), ()>> = mk();
    let _ = a.compose(&b);
}

pub fn p1101() {
    let a: re::math::mat::Mat4x4<re::math::mat::RealToProj<()>> = mk();
    let b: re::math::mat::Mat4x4<re::math::mat::RealToReal<3, re::render::World, ()>> = mk();
    let _ = a.compose(&b);
}

pub fn p1106() {
    let a: re::math::mat::Mat4x4<re::math::mat::RealToProj<()>> = mk();
    let b: re::math::point::Point3<()> = mk();
    let _ = a.apply(&b);
}

pub fn p1123() {
    let a: re::math::mat::Mat4x4<re::math::mat::RealToProj<re::render::View>> = mk();
    let b: re::math::point::Point3<re::render::View> = mk();
    let _ = a.apply(&b);
}

pub fn p1128() {
    let a: re::math::mat::Mat4x4<re::math::mat::RealToProj<re::render::View>> = mk();
    let _ = re::render::cam::Camera::new((8, 8)).mode(a.to());
}

pub fn p1139() {
    let a: re::math::mat::Mat4x4<re::math::mat::RealToProj<re::render::World>> = mk();
    let b: re::math::mat::Mat4x4<re::math::mat::RealToReal<3, re::render::Model, re::render::World>> = mk();
    let _ = a.compose(&b);
}

pub fn p1145() {
    let a: re::math::mat::Mat4x4<re::math::mat::RealToProj<re::render::World>> = mk();
    let b: re::math::mat::Mat4x4<re::math::mat::RealToReal<3, (), re::render::World>> = mk();
    let _ = a.compose(&b);
}

pub fn p1151() {
    let a: re::math::mat::Mat4x4<re::math::mat::RealToProj<re::render::World>> = mk();
    let b: re::math::mat::Mat4x4<re::math::mat::RealToReal<3, re::render::World, re::render::World>> = mk();
    let _ = a.compose(&b);
}

pub fn p1158() {
    let a: re::math::mat::Mat4x4<re::math::mat::RealToProj<re::render::World>> = mk();
    let b: re::math::point::Point3<re::render::World> = mk();
    let _ = a.apply(&b);
}

pub fn p1164() {
    let a: re::math::mat::Mat4x4<re::math::mat::RealToProj<re::render::World>> = mk();
    let _ = re::render::cam::Camera::new((8, 8)).mode(a.to());
}

pub fn p1174() {
    use re::geom::{Tri, Vertex};
    let vs = |_: Vertex<re::math::point::Point3<re::render::Model>, ()>, _: ()| -> Vertex<re::math::vec::ProjVec4, f32> { mk() };
    let fs = |_: re::render::raster::Frag<f32>| -> Option<re::math::color::Color4> { mk() };
    let sh = re::render::shader::Shader::new(vs, fs);
    let mut target: re::util::buf::Buf2<u32> = mk();
    let tris: Vec<Tri<usize>> = mk();
    let verts: Vec<Vertex<re::math::point::Point3<re::render::Model>, ()>> = mk();
    re::render::render(&tris, &verts, &sh, (), mk(), &mut target, &mk::<re::render::Context>());
}

pub fn p1179() {
    let a: re::math::point::Point2<re::render::Model> = mk();
    let b: re::math::point::Point2<re::render::Model> = mk();
    let _ = re::math::Lerp::lerp(&a, &b, 0.5);
}

pub fn p1180() {
    let a: re::math::point::Point2<re::render::Model> = mk();
    let b: re::math::point::Point2<re::render::Model> = mk();
    let _ = a - b;
}

pub fn p1199() {
    let a: re::math::point::Point2<re::render::Model> = mk();
    let b: re::math::vec::Vec2<re::render::Model> = mk();
    let _ = a + b;
}

pub fn p1207() {
    let a: re::math::point::Point2<()> = mk();
    let b: re::math::angle::PolarVec = mk();
    let _ = a + b.to_cart();
}

pub fn p1208() {
    let a: re::math::point::Point2<()> = mk();
    let b: re::math::angle::PolarVec = mk();
    let _ = a + b.into();
}

pub fn p1213() {
    let a: re::math::point::Point2<()> = mk();
    let b: re::math::point::Point2<()> = mk();
    let _ = re::math::Lerp::lerp(&a, &b, 0.5);
}

pub fn p1214() {
    let a: re::math::point::Point2<()> = mk();
    let b: re::math::point::Point2<()> = mk();
    let _ = a - b;
}

pub fn p1231() {
    let a: re::math::point::Point2<()> = mk();
    let b: re::math::vec::Vec2<()> = mk();
    let _ = a + b;
}

pub fn p1244() {
    let a: re::math::point::Point2<re::render::World> = mk();
    let b: re::math::point::Point2<re::render::World> = mk();
    let _ = re::math::Lerp::lerp(&a, &b, 0.5);
}

pub fn p1245() {
    let a: re::math::point::Point2<re::render::World> = mk();
    let b: re::math::point::Point2<re::render::World> = mk();
    let _ = a - b;
}

pub fn p1257() {
    let a: re::math::point::Point2<re::render::World> = mk();
    let b: re::math::vec::Vec2<re::render::World> = mk();
    let _ = a + b;
}

pub fn p1275() {
    let a: re::math::point::Point3<re::render::Model> = mk();
    let b: re::math::point::Point3<re::render::Model> = mk();
    let c: re::math::point::Point3<re::render::Model> = mk();
    let d = re::math::space::Affine::sub(&a, &b);
    let _ = re::math::space::Affine::add(&c, &d);
}

pub fn p1280() {
    let a: re::math::point::Point3<re::render::Model> = mk();
    let b: re::math::point::Point3<re::render::Model> = mk();
    let _r: re::math::vec::Vec3<re::render::Model> = a - b;
}

pub fn p1284() {
    let a: re::math::point::Point3<re::render::Model> = mk();
    let b: re::math::point::Point3<re::render::Model> = mk();
    let _ = re::math::Lerp::lerp(&a, &b, 0.5);
}

pub fn p1285() {
    let a: re::math::point::Point3<re::render::Model> = mk();
    let b: re::math::point::Point3<re::render::Model> = mk();
    let _ = a - b;
}

pub fn p1316() {
    let a: re::math::point::Point3<re::render::Model> = mk();
    let b: re::math::vec::Vec3<re::render::Model> = mk();
    let _ = a + b;
}

pub fn p1348() {
    let a: re::math::point::Point3<()> = mk();
    let b: re::math::point::Point3<()> = mk();
    let c: re::math::point::Point3<()> = mk();
    let d = re::math::space::Affine::sub(&a, &b);
    let _ = re::math::space::Affine::add(&c, &d);
}

pub fn p1352() {
    let a: re::math::point::Point3<()> = mk();
    let b: re::math::point::Point3<()> = mk();
    let _r: re::math::vec::Vec3<()> = a - b;
}

pub fn p1355() {
    let a: re::math::point::Point3<()> = mk();
    let b: re::math::point::Point3<()> = mk();
    let _ = re::math::Lerp::lerp(&a, &b, 0.5);
}

pub fn p1356() {
    let a: re::math::point::Point3<()> = mk();
    let b: re::math::point::Point3<()> = mk();
    let _ = a - b;
}

pub fn p1370() {
    let a: re::math::point::Point3<()> = mk();
    let b: re::math::angle::SphericalVec = mk();
    let _ = a + b.to_cart();
}

pub fn p1371() {
    let a: re::math::point::Point3<()> = mk();
    let b: re::math::angle::SphericalVec = mk();
    let _ = a + b.into();
}

pub fn p1376() {
    let a: re::math::point::Point3<()> = mk();
    let b: re::math::vec::Vec3<()> = mk();
    let _ = a + b;
}

pub fn p1417() {
    let a: re::math::point::Point3<re::render::World> = mk();
    let b: re::math::point::Point3<re::render::World> = mk();
    let c: re::math::point::Point3<re::render::World> = mk();
    let d = re::math::space::Affine::sub(&a, &b);
    let _ = re::math::space::Affine::add(&c, &d);
}

pub fn p1420() {
    let a: re::math::point::Point3<re::render::World> = mk();
    let b: re::math::point::Point3<re::render::World> = mk();
    let _r: re::math::vec::Vec3<re::render::World> = a - b;
}

pub fn p1422() {
    let a: re::math::point::Point3<re::render::World> = mk();
    let b: re::math::point::Point3<re::render::World> = mk();
    let _ = re::math::Lerp::lerp(&a, &b, 0.5);
}

pub fn p1423() {
    let a: re::math::point::Point3<re::render::World> = mk();
    let b: re::math::point::Point3<re::render::World> = mk();
    let _ = a - b;
}

pub fn p1429() {
    let a: re::math::point::Point3<re::render::World> = mk();
    let b: re::math::vec::Vec3<re::render::World> = mk();
    let _ = a + b;
}

pub fn p1443() {
    let a: re::math::vec::Vec2<re::render::Model> = mk();
    let b: re::math::vec::Vec2<re::render::Model> = mk();
    let _ = a + b;
}

pub fn p1444() {
    let a: re::math::vec::Vec2<re::render::Model> = mk();
    let b: re::math::vec::Vec2<re::render::Model> = mk();
    let _ = a.dot(&b);
}

pub fn p1445() {
    let a: re::math::vec::Vec2<re::render::Model> = mk();
    let b: re::math::vec::Vec2<re::render::Model> = mk();
    let _ = re::math::Lerp::lerp(&a, &b, 0.5);
}

pub fn p1446() {
    let a: re::math::vec::Vec2<re::render::Model> = mk();
    let b: re::math::vec::Vec2<re::render::Model> = mk();
    let _ = a - b;
}

pub fn p1467() {
    let a: re::math::vec::Vec2<re::render::Model> = mk();
    let _ = [a.clone(), a].into_iter().sum::<re::math::vec::Vec2<re::render::Model>>();
}

pub fn p1469() {
    let a: re::math::vec::Vec2<()> = mk();
    let b: re::math::angle::PolarVec = mk();
    let _ = a + b.to_cart();
}

pub fn p1470() {
    let a: re::math::vec::Vec2<()> = mk();
    let b: re::math::angle::PolarVec = mk();
    let _ = a + b.into();
}

pub fn p1484() {
    let a: re::math::vec::Vec2<()> = mk();
    let b: re::math::vec::Vec2<()> = mk();
    let _ = a + b;
}

pub fn p1485() {
    let a: re::math::vec::Vec2<()> = mk();
    let b: re::math::vec::Vec2<()> = mk();
    let _ = a.dot(&b);
}

pub fn p1486() {
    let a: re::math::vec::Vec2<()> = mk();
    let b: re::math::vec::Vec2<()> = mk();
    let _ = re::math::Lerp::lerp(&a, &b, 0.5);
}

pub fn p1487() {
    let a: re::math::vec::Vec2<()> = mk();
    let b: re::math::vec::Vec2<()> = mk();
    let _ = a - b;
}

pub fn p1504() {
    let a: re::math::vec::Vec2<()> = mk();
    let _ = [a.clone(), a].into_iter().sum::<re::math::vec::Vec2<()>>();
}

pub fn p1519() {
    let a: re::math::vec::Vec2<re::render::World> = mk();
    let b: re::math::vec::Vec2<re::render::World> = mk();
    let _ = a + b;
}

pub fn p1520() {
    let a: re::math::vec::Vec2<re::render::World> = mk();
    let b: re::math::vec::Vec2<re::render::World> = mk();
    let _ = a.dot(&b);
}

pub fn p1521() {
    let a: re::math::vec::Vec2<re::render::World> = mk();
    let b: re::math::vec::Vec2<re::render::World> = mk();
    let _ = re::math::Lerp::lerp(&a, &b, 0.5);
}

pub fn p1522() {
    let a: re::math::vec::Vec2<re::render::World> = mk();
    let b: re::math::vec::Vec2<re::render::World> = mk();
    let _ = a - b;
}

pub fn p1535() {
    let a: re::math::vec::Vec2<re::render::World> = mk();
    let _ = [a.clone(), a].into_iter().sum::<re::math::vec::Vec2<re::render::World>>();
}

pub fn p1560() {
    let a: re::math::vec::Vec3<re::render::Model> = mk();
    let b: re::math::vec::Vec3<re::render::Model> = mk();
    let _ = a + b;
}

pub fn p1561() {
    let a: re::math::vec::Vec3<re::render::Model> = mk();
    let b: re::math::vec::Vec3<re::render::Model> = mk();
    let _ = a.dot(&b);
}

pub fn p1562() {
    let a: re::math::vec::Vec3<re::render::Model> = mk();
    let b: re::math::vec::Vec3<re::render::Model> = mk();
    let _ = re::math::Lerp::lerp(&a, &b, 0.5);
}

pub fn p1563() {
    let a: re::math::vec::Vec3<re::render::Model> = mk();
    let b: re::math::vec::Vec3<re::render::Model> = mk();
    let _ = a - b;
}

pub fn p1572() {
    let a: re::math::vec::Vec3<re::render::Model> = mk();
    let _ = [a.clone(), a].into_iter().sum::<re::math::vec::Vec3<re::render::Model>>();
}

pub fn p1584() {
    let a: re::math::vec::Vec3<()> = mk();
    let b: re::math::angle::SphericalVec = mk();
    let _ = a + b.to_cart();
}

pub fn p1585() {
    let a: re::math::vec::Vec3<()> = mk();
    let b: re::math::angle::SphericalVec = mk();
    let _ = a + b.into();
}

pub fn p1602() {
    let a: re::math::vec::Vec3<()> = mk();
    let b: re::math::vec::Vec3<()> = mk();
    let _ = a + b;
}

pub fn p1603() {
    let a: re::math::vec::Vec3<()> = mk();
    let b: re::math::vec::Vec3<()> = mk();
    let _ = a.dot(&b);
}

pub fn p1604() {
    let a: re::math::vec::Vec3<()> = mk();
    let b: re::math::vec::Vec3<()> = mk();
    let _ = re::math::Lerp::lerp(&a, &b, 0.5);
}

pub fn p1605() {
    let a: re::math::vec::Vec3<()> = mk();
    let b: re::math::vec::Vec3<()> = mk();
    let _ = a - b;
}

pub fn p1610() {
    let a: re::math::vec::Vec3<()> = mk();
    let _ = [a.clone(), a].into_iter().sum::<re::math::vec::Vec3<()>>();
}

pub fn p1611() {
    let a: re::math::vec::Vec3<crate::UserTag> = mk();
    let b: re::math::vec::Vec3<crate::UserTag> = mk();
    let _ = a + b;
}

pub fn p1612() {
    let a: re::math::vec::Vec3<crate::UserTag> = mk();
    let b: re::math::vec::Vec3<crate::UserTag> = mk();
    let _ = a.dot(&b);
}

pub fn p1613() {
    let a: re::math::vec::Vec3<crate::UserTag> = mk();
    let b: re::math::vec::Vec3<crate::UserTag> = mk();
    let _ = re::math::Lerp::lerp(&a, &b, 0.5);
}

pub fn p1614() {
    let a: re::math::vec::Vec3<crate::UserTag> = mk();
    let b: re::math::vec::Vec3<crate::UserTag> = mk();
    let _ = a - b;
}

pub fn p1649() {
    let a: re::math::vec::Vec3<re::render::World> = mk();
    let b: re::math::vec::Vec3<re::render::World> = mk();
    let _ = a + b;
}

pub fn p1650() {
    let a: re::math::vec::Vec3<re::render::World> = mk();
    let b: re::math::vec::Vec3<re::render::World> = mk();
    let _ = a.dot(&b);
}

pub fn p1651() {
    let a: re::math::vec::Vec3<re::render::World> = mk();
    let b: re::math::vec::Vec3<re::render::World> = mk();
    let _ = re::math::Lerp::lerp(&a, &b, 0.5);
}

pub fn p1652() {
    let a: re::math::vec::Vec3<re::render::World> = mk();
    let b: re::math::vec::Vec3<re::render::World> = mk();
    let _ = a - b;
}

pub fn p1653() {
    let a: re::math::vec::Vec3<re::render::World> = mk();
    let _ = [a.clone(), a].into_iter().sum::<re::math::vec::Vec3<re::render::World>>();
}

