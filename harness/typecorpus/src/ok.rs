#![allow(unused)]
fn mk<T>() -> T { unimplemented!() }

pub fn p14() {
    let a: re::math::mat::Mat4x4<re::render::ModelToProj> = mk();
    let b: re::math::mat::Mat4x4<re::math::mat::RealToProj<re::render::Model>> = mk();
    let _ = [a, b];
}

pub fn p17() {
    let a: re::math::mat::Mat4x4<re::render::ModelToProj> = mk();
    let b: re::math::point::Point3<re::render::Model> = mk();
    let _ = a.apply(&b);
}

pub fn p24() {
    let a: re::math::mat::Mat4x4<re::render::ModelToProj> = mk();
    let _ = re::render::cam::Camera::new((8, 8)).mode(a.to());
}

pub fn p28() {
    let a: re::math::mat::Mat4x4<re::render::ModelToView> = mk();
    let b: re::math::mat::Mat4x4<re::render::ViewToProj> = mk();
    let _ = a.then(&b);
}

pub fn p31() {
    let a: re::math::mat::Mat4x4<re::render::ModelToView> = mk();
    let b: re::math::mat::Mat4x4<re::math::mat::RealToReal<3, re::render::Model, re::render::View>> = mk();
    let _ = [a, b];
}

pub fn p43() {
    let a: re::math::mat::Mat4x4<re::render::ModelToView> = mk();
    let b: re::math::point::Point3<re::render::Model> = mk();
    let _ = a.apply_pt(&b);
}

pub fn p49() {
    let a: re::math::mat::Mat4x4<re::render::ModelToView> = mk();
    let _ = re::render::cam::Camera::new((8, 8)).mode(a.to());
}

pub fn p54() {
    let a: re::math::mat::Mat4x4<re::render::ModelToWorld> = mk();
    let b: re::math::mat::Mat4x4<re::render::WorldToView> = mk();
    let _ = a.then(&b);
}

pub fn p57() {
    let a: re::math::mat::Mat4x4<re::render::ModelToWorld> = mk();
    let b: re::math::mat::Mat4x4<re::math::mat::RealToReal<3, re::render::Model, re::render::World>> = mk();
    let _ = [a, b];
}

pub fn p68() {
    let a: re::math::mat::Mat4x4<re::render::ModelToWorld> = mk();
    let b: re::math::point::Point3<re::render::Model> = mk();
    let _ = a.apply_pt(&b);
}

pub fn p74() {
    let a: re::math::mat::Mat4x4<re::render::ModelToWorld> = mk();
    let _ = re::render::cam::Camera::new((8, 8)).mode(a.to());
}

pub fn p90() {
    let a: re::math::mat::Mat4x4<re::render::ViewToProj> = mk();
    let b: re::math::mat::Mat4x4<re::math::mat::RealToProj<re::render::View>> = mk();
    let _ = [a, b];
}

pub fn p94() {
    let a: re::math::mat::Mat4x4<re::render::ViewToProj> = mk();
    let b: re::math::point::Point3<re::render::View> = mk();
    let _ = a.apply(&b);
}

pub fn p99() {
    let a: re::math::mat::Mat4x4<re::render::ViewToProj> = mk();
    let _ = re::render::cam::Camera::new((8, 8)).mode(a.to());
}

pub fn p103() {
    let a: re::math::mat::Mat4x4<re::render::WorldToView> = mk();
    let b: re::math::mat::Mat4x4<re::render::ViewToProj> = mk();
    let _ = a.then(&b);
}

pub fn p112() {
    let a: re::math::mat::Mat4x4<re::render::WorldToView> = mk();
    let b: re::math::mat::Mat4x4<re::math::mat::RealToReal<3, re::render::World, re::render::View>> = mk();
    let _ = [a, b];
}

pub fn p122() {
    let a: re::math::mat::Mat4x4<re::render::WorldToView> = mk();
    let b: re::math::point::Point3<re::render::World> = mk();
    let _ = a.apply_pt(&b);
}

pub fn p123() {
    let a: re::math::mat::Mat4x4<re::render::WorldToView> = mk();
    let _ = re::render::cam::Camera::new((8, 8)).mode(a);
}

pub fn p124() {
    let a: re::math::mat::Mat4x4<re::render::WorldToView> = mk();
    let _ = re::render::cam::Camera::new((8, 8)).mode(a.to());
}

pub fn p127() {
    let a: re::math::angle::Angle = mk();
    let b: re::math::angle::Angle = mk();
    let _ = a + b;
}

pub fn p128() {
    let a: re::math::angle::Angle = mk();
    let b: re::math::angle::Angle = mk();
    let _ = a % b;
}

pub fn p129() {
    let a: re::math::angle::Angle = mk();
    let b: re::math::angle::Angle = mk();
    let _ = a - b;
}

pub fn p133() {
    let a: re::math::angle::Angle = mk();
    let b: f32 = mk();
    let _ = a / b;
}

pub fn p134() {
    let a: re::math::angle::Angle = mk();
    let b: f32 = mk();
    let _ = a * b;
}

pub fn p135() {
    let a: re::math::angle::Angle = mk();
    let _ = re::math::angle::polar(1.0, a);
}

pub fn p136() {
    let a: re::math::angle::Angle = mk();
    let _ = re::math::mat::rotate_x(a);
}

pub fn p137() {
    let a: re::math::angle::Angle = mk();
    let _ = re::math::angle::Angle::sin(a);
}

pub fn p138() {
    let a: re::math::color::Color3f<re::math::color::Hsl> = mk();
    let b: re::math::color::Color3f<re::math::color::Hsl> = mk();
    let c: re::math::color::Color3f<re::math::color::Hsl> = mk();
    let d = re::math::space::Affine::sub(&a, &b);
    let _ = re::math::space::Affine::add(&c, &d);
}

pub fn p142() {
    let a: re::math::color::Color3f<re::math::color::Hsl> = mk();
    let b: re::math::color::Color3f<re::math::color::Hsl> = mk();
    let _ = re::math::space::Affine::add(&a, &b);
}

pub fn p143() {
    let a: re::math::color::Color3f<re::math::color::Hsl> = mk();
    let b: re::math::color::Color3f<re::math::color::Hsl> = mk();
    let _ = re::math::space::Affine::sub(&a, &b);
}

pub fn p144() {
    let a: re::math::color::Color3f<re::math::color::Hsl> = mk();
    let b: re::math::color::Color3f<re::math::color::Hsl> = mk();
    let _ = re::math::Lerp::lerp(&a, &b, 0.5);
}

pub fn p163() {
    let a: re::math::color::Color3f<re::math::color::Hsl> = mk();
    let _ = a.to_rgb();
}

pub fn p172() {
    let a: re::math::color::Color3f<re::math::color::LinRgb> = mk();
    let b: re::math::color::Color3f<re::math::color::LinRgb> = mk();
    let _ = re::math::space::Affine::add(&a, &b);
}

pub fn p173() {
    let a: re::math::color::Color3f<re::math::color::LinRgb> = mk();
    let b: re::math::color::Color3f<re::math::color::LinRgb> = mk();
    let _ = re::math::space::Affine::sub(&a, &b);
}

pub fn p174() {
    let a: re::math::color::Color3f<re::math::color::LinRgb> = mk();
    let b: re::math::color::Color3f<re::math::color::LinRgb> = mk();
    let _ = re::math::Lerp::lerp(&a, &b, 0.5);
}

pub fn p178() {
    let a: re::math::color::Color3f<re::math::color::LinRgb> = mk();
    let _ = a.to_srgb();
}

pub fn p195() {
    let a: re::math::color::Color3f<re::math::color::Rgb> = mk();
    let b: re::math::color::Color3f<re::math::color::Rgb> = mk();
    let c: re::math::color::Color3f<re::math::color::Rgb> = mk();
    let d = re::math::space::Affine::sub(&a, &b);
    let _ = re::math::space::Affine::add(&c, &d);
}

pub fn p198() {
    let a: re::math::color::Color3f<re::math::color::Rgb> = mk();
    let b: re::math::color::Color3f<re::math::color::Rgb> = mk();
    let _ = re::math::space::Affine::add(&a, &b);
}

pub fn p199() {
    let a: re::math::color::Color3f<re::math::color::Rgb> = mk();
    let b: re::math::color::Color3f<re::math::color::Rgb> = mk();
    let _ = re::math::space::Affine::sub(&a, &b);
}

pub fn p200() {
    let a: re::math::color::Color3f<re::math::color::Rgb> = mk();
    let b: re::math::color::Color3f<re::math::color::Rgb> = mk();
    let _ = re::math::Lerp::lerp(&a, &b, 0.5);
}

pub fn p209() {
    let a: re::math::color::Color3f<re::math::color::Rgb> = mk();
    let _ = a.to_color3();
}

pub fn p210() {
    let a: re::math::color::Color3f<re::math::color::Rgb> = mk();
    let _ = a.to_hsl();
}

pub fn p211() {
    let a: re::math::color::Color3f<re::math::color::Rgb> = mk();
    let _ = a.to_linear();
}

pub fn p212() {
    let a: re::math::color::Color3f<re::math::color::Rgb> = mk();
    let _ = a.to_rgba();
}

pub fn p225() {
    let a: re::math::color::Color3<re::math::color::Hsl> = mk();
    let b: re::math::color::Color3<re::math::color::Hsl> = mk();
    let c: re::math::color::Color3<re::math::color::Hsl> = mk();
    let d = re::math::space::Affine::sub(&a, &b);
    let _ = re::math::space::Affine::add(&c, &d);
}

pub fn p231() {
    let a: re::math::color::Color3<re::math::color::Hsl> = mk();
    let _ = a.to_rgb();
}

pub fn p252() {
    let a: re::math::color::Color3<re::math::color::Rgb> = mk();
    let b: re::math::color::Color3<re::math::color::Rgb> = mk();
    let c: re::math::color::Color3<re::math::color::Rgb> = mk();
    let d = re::math::space::Affine::sub(&a, &b);
    let _ = re::math::space::Affine::add(&c, &d);
}

pub fn p253() {
    let a: re::math::color::Color3<re::math::color::Rgb> = mk();
    let _ = a.to_hsl();
}

pub fn p254() {
    let a: re::math::color::Color3<re::math::color::Rgb> = mk();
    let _ = a.to_rgba();
}

pub fn p262() {
    let a: f32 = mk();
    let b: f32 = mk();
    let _ = a + b;
}

pub fn p263() {
    let a: f32 = mk();
    let b: f32 = mk();
    let _ = a % b;
}

pub fn p264() {
    let a: f32 = mk();
    let b: f32 = mk();
    let _ = a - b;
}

pub fn p268() {
    let a: re::math::mat::Mat3x3<re::math::mat::RealToReal<2, re::render::Model, re::render::Model>> = mk();
    let b: re::math::point::Point2<re::render::Model> = mk();
    let _r: re::math::point::Point2<re::render::Model> = a.apply_pt(&b);
}

pub fn p272() {
    let a: re::math::mat::Mat3x3<re::math::mat::RealToReal<2, re::render::Model, re::render::Model>> = mk();
    let b: re::math::vec::Vec2<re::render::Model> = mk();
    let _r: re::math::vec::Vec2<re::render::Model> = a.apply(&b);
}

pub fn p274() {
    let a: re::math::mat::Mat3x3<re::math::mat::RealToReal<2, re::render::Model, re::render::Model>> = mk();
    let b: re::math::vec::Vec2<re::render::Model> = mk();
    let _ = a.apply(&b);
}

pub fn p281() {
    let a: re::math::mat::Mat3x3<re::math::mat::RealToReal<2, re::render::Model, re::render::World>> = mk();
    let b: re::math::point::Point2<re::render::Model> = mk();
    let _r: re::math::point::Point2<re::render::World> = a.apply_pt(&b);
}

pub fn p285() {
    let a: re::math::mat::Mat3x3<re::math::mat::RealToReal<2, re::render::Model, re::render::World>> = mk();
    let b: re::math::vec::Vec2<re::render::Model> = mk();
    let _r: re::math::vec::Vec2<re::render::World> = a.apply(&b);
}

pub fn p286() {
    let a: re::math::mat::Mat3x3<re::math::mat::RealToReal<2, re::render::Model, re::render::World>> = mk();
    let b: re::math::vec::Vec2<re::render::Model> = mk();
    let _ = a.apply(&b);
}

pub fn p294() {
    let a: re::math::mat::Mat3x3<re::math::mat::RealToReal<2, re::render::World, re::render::Model>> = mk();
    let b: re::math::point::Point2<re::render::World> = mk();
    let _r: re::math::point::Point2<re::render::Model> = a.apply_pt(&b);
}

pub fn p299() {
    let a: re::math::mat::Mat3x3<re::math::mat::RealToReal<2, re::render::World, re::render::Model>> = mk();
    let b: re::math::vec::Vec2<re::render::World> = mk();
    let _r: re::math::vec::Vec2<re::render::Model> = a.apply(&b);
}

pub fn p301() {
    let a: re::math::mat::Mat3x3<re::math::mat::RealToReal<2, re::render::World, re::render::Model>> = mk();
    let b: re::math::vec::Vec2<re::render::World> = mk();
    let _ = a.apply(&b);
}

pub fn p307() {
    let a: re::math::mat::Mat3x3<re::math::mat::RealToReal<2, re::render::World, re::render::World>> = mk();
    let b: re::math::point::Point2<re::render::World> = mk();
    let _r: re::math::point::Point2<re::render::World> = a.apply_pt(&b);
}

pub fn p312() {
    let a: re::math::mat::Mat3x3<re::math::mat::RealToReal<2, re::render::World, re::render::World>> = mk();
    let b: re::math::vec::Vec2<re::render::World> = mk();
    let _r: re::math::vec::Vec2<re::render::World> = a.apply(&b);
}

pub fn p313() {
    let a: re::math::mat::Mat3x3<re::math::mat::RealToReal<2, re::render::World, re::render::World>> = mk();
    let b: re::math::vec::Vec2<re::render::World> = mk();
    let _ = a.apply(&b);
}

pub fn p316() {
    let a: re::math::mat::Mat4x4<re::math::mat::RealToReal<3, re::render::Model, re::render::Model>> = mk();
    let b: re::math::mat::Mat4x4<re::render::ModelToProj> = mk();
    let _ = a.then(&b);
}

pub fn p317() {
    let a: re::math::mat::Mat4x4<re::math::mat::RealToReal<3, re::render::Model, re::render::Model>> = mk();
    let b: re::math::mat::Mat4x4<re::render::ModelToView> = mk();
    let _ = a.then(&b);
}

pub fn p318() {
    let a: re::math::mat::Mat4x4<re::math::mat::RealToReal<3, re::render::Model, re::render::Model>> = mk();
    let b: re::math::mat::Mat4x4<re::render::ModelToWorld> = mk();
    let _ = a.then(&b);
}

pub fn p321() {
    let a: re::math::mat::Mat4x4<re::math::mat::RealToReal<3, re::render::Model, re::render::Model>> = mk();
    let b: re::math::mat::Mat4x4<re::math::mat::RealToReal<3, re::render::Model, re::render::Model>> = mk();
    let _r: re::math::mat::Mat4x4<re::math::mat::RealToReal<3, re::render::Model, re::render::Model>> = a.compose(&b);
}

pub fn p325() {
    let a: re::math::mat::Mat4x4<re::math::mat::RealToReal<3, re::render::Model, re::render::Model>> = mk();
    let b: re::math::mat::Mat4x4<re::math::mat::RealToReal<3, re::render::Model, re::render::Model>> = mk();
    let _ = a.compose(&b);
}

pub fn p326() {
    let a: re::math::mat::Mat4x4<re::math::mat::RealToReal<3, re::render::Model, re::render::Model>> = mk();
    let b: re::math::mat::Mat4x4<re::math::mat::RealToReal<3, re::render::Model, re::render::Model>> = mk();
    let _ = a.then(&b);
}

pub fn p328() {
    let a: re::math::mat::Mat4x4<re::math::mat::RealToReal<3, re::render::Model, re::render::Model>> = mk();
    let b: re::math::mat::Mat4x4<re::math::mat::RealToReal<3, re::render::Model, ()>> = mk();
    let _ = a.then(&b);
}

pub fn p334() {
    let a: re::math::mat::Mat4x4<re::math::mat::RealToReal<3, re::render::Model, re::render::Model>> = mk();
    let b: re::math::mat::Mat4x4<re::math::mat::RealToReal<3, re::render::Model, re::render::World>> = mk();
    let _ = a.then(&b);
}

pub fn p336() {
    let a: re::math::mat::Mat4x4<re::math::mat::RealToReal<3, re::render::Model, re::render::Model>> = mk();
    let b: re::math::mat::Mat4x4<re::math::mat::RealToReal<3, (), re::render::Model>> = mk();
    let _ = a.compose(&b);
}

pub fn p343() {
    let a: re::math::mat::Mat4x4<re::math::mat::RealToReal<3, re::render::Model, re::render::Model>> = mk();
    let b: re::math::mat::Mat4x4<re::math::mat::RealToReal<3, re::render::World, re::render::Model>> = mk();
    let _r: re::math::mat::Mat4x4<re::math::mat::RealToReal<3, re::render::World, re::render::Model>> = a.compose(&b);
}

pub fn p346() {
    let a: re::math::mat::Mat4x4<re::math::mat::RealToReal<3, re::render::Model, re::render::Model>> = mk();
    let b: re::math::mat::Mat4x4<re::math::mat::RealToReal<3, re::render::World, re::render::Model>> = mk();
    let _ = a.compose(&b);
}

pub fn p356() {
    let a: re::math::mat::Mat4x4<re::math::mat::RealToReal<3, re::render::Model, re::render::Model>> = mk();
    let b: re::math::mat::Mat4x4<re::math::mat::RealToProj<re::render::Model>> = mk();
    let _ = a.then(&b);
}

pub fn p364() {
    let a: re::math::mat::Mat4x4<re::math::mat::RealToReal<3, re::render::Model, re::render::Model>> = mk();
    let b: re::math::point::Point3<re::render::Model> = mk();
    let _r: re::math::point::Point3<re::render::Model> = a.apply_pt(&b);
}

pub fn p368() {
    let a: re::math::mat::Mat4x4<re::math::mat::RealToReal<3, re::render::Model, re::render::Model>> = mk();
    let b: re::math::point::Point3<re::render::Model> = mk();
    let _ = a.apply_pt(&b);
}

pub fn p383() {
    let a: re::math::mat::Mat4x4<re::math::mat::RealToReal<3, re::render::Model, re::render::Model>> = mk();
    let b: re::math::vec::Vec3<re::render::Model> = mk();
    let _r: re::math::vec::Vec3<re::render::Model> = a.apply(&b);
}

pub fn p386() {
    let a: re::math::mat::Mat4x4<re::math::mat::RealToReal<3, re::render::Model, re::render::Model>> = mk();
    let b: re::math::vec::Vec3<re::render::Model> = mk();
    let _ = a.apply(&b);
}

pub fn p396() {
    let a: re::math::mat::Mat4x4<re::math::mat::RealToReal<3, re::render::Model, re::render::Model>> = mk();
    let _ = re::render::cam::Camera::new((8, 8)).mode(a.to());
}

pub fn p397() {
    let a: re::math::mat::Mat4x4<re::math::mat::RealToReal<3, re::render::Model, re::render::Model>> = mk();
    let _ = a.determinant();
}

pub fn p398() {
    let a: re::math::mat::Mat4x4<re::math::mat::RealToReal<3, re::render::Model, re::render::Model>> = mk();
    let _ = a.inverse();
}

pub fn p399() {
    let a: re::math::mat::Mat4x4<re::math::mat::RealToReal<3, re::render::Model, re::render::Model>> = mk();
    let _ = a.transpose();
}

pub fn p401() {
    let a: re::math::mat::Mat4x4<re::math::mat::RealToReal<3, re::render::Model, ()>> = mk();
    let b: re::math::mat::Mat4x4<re::math::mat::RealToReal<3, re::render::Model, re::render::Model>> = mk();
    let _ = a.compose(&b);
}

pub fn p406() {
    let a: re::math::mat::Mat4x4<re::math::mat::RealToReal<3, re::render::Model, ()>> = mk();
    let b: re::math::mat::Mat4x4<re::math::mat::RealToReal<3, (), re::render::Model>> = mk();
    let _ = a.compose(&b);
}

pub fn p407() {
    let a: re::math::mat::Mat4x4<re::math::mat::RealToReal<3, re::render::Model, ()>> = mk();
    let b: re::math::mat::Mat4x4<re::math::mat::RealToReal<3, (), re::render::Model>> = mk();
    let _ = a.then(&b);
}

pub fn p409() {
    let a: re::math::mat::Mat4x4<re::math::mat::RealToReal<3, re::render::Model, ()>> = mk();
    let b: re::math::mat::Mat4x4<re::math::mat::RealToReal<3, (), ()>> = mk();
    let _ = a.then(&b);
}

pub fn p411() {
    let a: re::math::mat::Mat4x4<re::math::mat::RealToReal<3, re::render::Model, ()>> = mk();
    let b: re::math::mat::Mat4x4<re::math::mat::RealToReal<3, (), re::render::World>> = mk();
    let _ = a.then(&b);
}

pub fn p413() {
    let a: re::math::mat::Mat4x4<re::math::mat::RealToReal<3, re::render::Model, ()>> = mk();
    let b: re::math::mat::Mat4x4<re::math::mat::RealToReal<3, re::render::World, re::render::Model>> = mk();
    let _ = a.compose(&b);
}

pub fn p421() {
    let a: re::math::mat::Mat4x4<re::math::mat::RealToReal<3, re::render::Model, ()>> = mk();
    let b: re::math::mat::Mat4x4<re::math::mat::RealToProj<()>> = mk();
    let _ = a.then(&b);
}

pub fn p428() {
    let a: re::math::mat::Mat4x4<re::math::mat::RealToReal<3, re::render::Model, ()>> = mk();
    let b: re::math::point::Point3<re::render::Model> = mk();
    let _r: re::math::point::Point3<()> = a.apply_pt(&b);
}

pub fn p430() {
    let a: re::math::mat::Mat4x4<re::math::mat::RealToReal<3, re::render::Model, ()>> = mk();
    let b: re::math::point::Point3<re::render::Model> = mk();
    let _ = a.apply_pt(&b);
}

pub fn p443() {
    let a: re::math::mat::Mat4x4<re::math::mat::RealToReal<3, re::render::Model, ()>> = mk();
    let b: re::math::vec::Vec3<re::render::Model> = mk();
    let _r: re::math::vec::Vec3<()> = a.apply(&b);
}

pub fn p445() {
    let a: re::math::mat::Mat4x4<re::math::mat::RealToReal<3, re::render::Model, ()>> = mk();
    let b: re::math::vec::Vec3<re::render::Model> = mk();
    let _ = a.apply(&b);
}

pub fn p454() {
    let a: re::math::mat::Mat4x4<re::math::mat::RealToReal<3, re::render::Model, ()>> = mk();
    let _ = a.determinant();
}

pub fn p455() {
    let a: re::math::mat::Mat4x4<re::math::mat::RealToReal<3, re::render::Model, ()>> = mk();
    let _ = a.inverse();
}

pub fn p456() {
    let a: re::math::mat::Mat4x4<re::math::mat::RealToReal<3, re::render::Model, ()>> = mk();
    let _ = a.transpose();
}

pub fn p460() {
    let a: re::math::mat::Mat4x4<re::math::mat::RealToReal<3, re::render::Model, re::render::View>> = mk();
    let b: re::math::mat::Mat4x4<re::render::ViewToProj> = mk();
    let _ = a.then(&b);
}

pub fn p463() {
    let a: re::math::mat::Mat4x4<re::math::mat::RealToReal<3, re::render::Model, re::render::View>> = mk();
    let b: re::math::point::Point3<re::render::Model> = mk();
    let _ = a.apply_pt(&b);
}

pub fn p469() {
    let a: re::math::mat::Mat4x4<re::math::mat::RealToReal<3, re::render::Model, re::render::View>> = mk();
    let _ = re::render::cam::Camera::new((8, 8)).mode(a.to());
}

pub fn p474() {
    let a: re::math::mat::Mat4x4<re::math::mat::RealToReal<3, re::render::Model, re::render::World>> = mk();
    let b: re::math::mat::Mat4x4<re::render::WorldToView> = mk();
    let _ = a.then(&b);
}

pub fn p476() {
    let a: re::math::mat::Mat4x4<re::math::mat::RealToReal<3, re::render::Model, re::render::World>> = mk();
    let b: re::math::mat::Mat4x4<re::math::mat::RealToReal<3, re::render::Model, re::render::Model>> = mk();
    let _r: re::math::mat::Mat4x4<re::math::mat::RealToReal<3, re::render::Model, re::render::World>> = a.compose(&b);
}

pub fn p480() {
    let a: re::math::mat::Mat4x4<re::math::mat::RealToReal<3, re::render::Model, re::render::World>> = mk();
    let b: re::math::mat::Mat4x4<re::math::mat::RealToReal<3, re::render::Model, re::render::Model>> = mk();
    let _ = a.compose(&b);
}

pub fn p490() {
    let a: re::math::mat::Mat4x4<re::math::mat::RealToReal<3, re::render::Model, re::render::World>> = mk();
    let b: re::math::mat::Mat4x4<re::math::mat::RealToReal<3, (), re::render::Model>> = mk();
    let _ = a.compose(&b);
}

pub fn p498() {
    let a: re::math::mat::Mat4x4<re::math::mat::RealToReal<3, re::render::Model, re::render::World>> = mk();
    let b: re::math::mat::Mat4x4<re::math::mat::RealToReal<3, re::render::World, re::render::Model>> = mk();
    let _r: re::math::mat::Mat4x4<re::math::mat::RealToReal<3, re::render::World, re::render::World>> = a.compose(&b);
}

pub fn p499() {
    let a: re::math::mat::Mat4x4<re::math::mat::RealToReal<3, re::render::Model, re::render::World>> = mk();
    let b: re::math::mat::Mat4x4<re::math::mat::RealToReal<3, re::render::World, re::render::Model>> = mk();
    let _ = a.compose(&b);
}

pub fn p500() {
    let a: re::math::mat::Mat4x4<re::math::mat::RealToReal<3, re::render::Model, re::render::World>> = mk();
    let b: re::math::mat::Mat4x4<re::math::mat::RealToReal<3, re::render::World, re::render::Model>> = mk();
    let _ = a.then(&b);
}

pub fn p502() {
    let a: re::math::mat::Mat4x4<re::math::mat::RealToReal<3, re::render::Model, re::render::World>> = mk();
    let b: re::math::mat::Mat4x4<re::math::mat::RealToReal<3, re::render::World, ()>> = mk();
    let _ = a.then(&b);
}

pub fn p508() {
    let a: re::math::mat::Mat4x4<re::math::mat::RealToReal<3, re::render::Model, re::render::World>> = mk();
    let b: re::math::mat::Mat4x4<re::math::mat::RealToReal<3, re::render::World, re::render::World>> = mk();
    let _ = a.then(&b);
}

pub fn p514() {
    let a: re::math::mat::Mat4x4<re::math::mat::RealToReal<3, re::render::Model, re::render::World>> = mk();
    let b: re::math::mat::Mat4x4<re::math::mat::RealToProj<re::render::World>> = mk();
    let _ = a.then(&b);
}

pub fn p520() {
    let a: re::math::mat::Mat4x4<re::math::mat::RealToReal<3, re::render::Model, re::render::World>> = mk();
    let b: re::math::point::Point3<re::render::Model> = mk();
    let _r: re::math::point::Point3<re::render::World> = a.apply_pt(&b);
}

pub fn p522() {
    let a: re::math::mat::Mat4x4<re::math::mat::RealToReal<3, re::render::Model, re::render::World>> = mk();
    let b: re::math::point::Point3<re::render::Model> = mk();
    let _ = a.apply_pt(&b);
}

pub fn p539() {
    let a: re::math::mat::Mat4x4<re::math::mat::RealToReal<3, re::render::Model, re::render::World>> = mk();
    let b: re::math::vec::Vec3<re::render::Model> = mk();
    let _r: re::math::vec::Vec3<re::render::World> = a.apply(&b);
}

pub fn p540() {
    let a: re::math::mat::Mat4x4<re::math::mat::RealToReal<3, re::render::Model, re::render::World>> = mk();
    let b: re::math::vec::Vec3<re::render::Model> = mk();
    let _ = a.apply(&b);
}

pub fn p550() {
    let a: re::math::mat::Mat4x4<re::math::mat::RealToReal<3, re::render::Model, re::render::World>> = mk();
    let _ = re::render::cam::Camera::new((8, 8)).mode(a.to());
}

pub fn p551() {
    let a: re::math::mat::Mat4x4<re::math::mat::RealToReal<3, re::render::Model, re::render::World>> = mk();
    let _ = a.determinant();
}

pub fn p552() {
    let a: re::math::mat::Mat4x4<re::math::mat::RealToReal<3, re::render::Model, re::render::World>> = mk();
    let _ = a.inverse();
}

pub fn p553() {
    let a: re::math::mat::Mat4x4<re::math::mat::RealToReal<3, re::render::Model, re::render::World>> = mk();
    let _ = a.transpose();
}

pub fn p555() {
    let a: re::math::mat::Mat4x4<re::math::mat::RealToReal<3, (), re::render::Model>> = mk();
    let b: re::math::mat::Mat4x4<re::math::mat::RealToReal<3, re::render::Model, re::render::Model>> = mk();
    let _ = a.then(&b);
}

pub fn p556() {
    let a: re::math::mat::Mat4x4<re::math::mat::RealToReal<3, (), re::render::Model>> = mk();
    let b: re::math::mat::Mat4x4<re::math::mat::RealToReal<3, re::render::Model, ()>> = mk();
    let _ = a.compose(&b);
}

pub fn p557() {
    let a: re::math::mat::Mat4x4<re::math::mat::RealToReal<3, (), re::render::Model>> = mk();
    let b: re::math::mat::Mat4x4<re::math::mat::RealToReal<3, re::render::Model, ()>> = mk();
    let _ = a.then(&b);
}

pub fn p559() {
    let a: re::math::mat::Mat4x4<re::math::mat::RealToReal<3, (), re::render::Model>> = mk();
    let b: re::math::mat::Mat4x4<re::math::mat::RealToReal<3, re::render::Model, re::render::World>> = mk();
    let _ = a.then(&b);
}

pub fn p563() {
    let a: re::math::mat::Mat4x4<re::math::mat::RealToReal<3, (), re::render::Model>> = mk();
    let b: re::math::mat::Mat4x4<re::math::mat::RealToReal<3, (), ()>> = mk();
    let _ = a.compose(&b);
}

pub fn p569() {
    let a: re::math::mat::Mat4x4<re::math::mat::RealToReal<3, (), re::render::Model>> = mk();
    let b: re::math::mat::Mat4x4<re::math::mat::RealToReal<3, re::render::World, ()>> = mk();
    let _ = a.compose(&b);
}

pub fn p573() {
    let a: re::math::mat::Mat4x4<re::math::mat::RealToReal<3, (), re::render::Model>> = mk();
    let b: re::math::mat::Mat4x4<re::math::mat::RealToProj<re::render::Model>> = mk();
    let _ = a.then(&b);
}

pub fn p585() {
    let a: re::math::mat::Mat4x4<re::math::mat::RealToReal<3, (), re::render::Model>> = mk();
    let b: re::math::point::Point3<()> = mk();
    let _r: re::math::point::Point3<re::render::Model> = a.apply_pt(&b);
}

pub fn p588() {
    let a: re::math::mat::Mat4x4<re::math::mat::RealToReal<3, (), re::render::Model>> = mk();
    let b: re::math::point::Point3<()> = mk();
    let _ = a.apply_pt(&b);
}

pub fn p600() {
    let a: re::math::mat::Mat4x4<re::math::mat::RealToReal<3, (), re::render::Model>> = mk();
    let b: re::math::vec::Vec3<()> = mk();
    let _r: re::math::vec::Vec3<re::render::Model> = a.apply(&b);
}

pub fn p603() {
    let a: re::math::mat::Mat4x4<re::math::mat::RealToReal<3, (), re::render::Model>> = mk();
    let b: re::math::vec::Vec3<()> = mk();
    let _ = a.apply(&b);
}

pub fn p608() {
    let a: re::math::mat::Mat4x4<re::math::mat::RealToReal<3, (), re::render::Model>> = mk();
    let _ = a.determinant();
}

pub fn p609() {
    let a: re::math::mat::Mat4x4<re::math::mat::RealToReal<3, (), re::render::Model>> = mk();
    let _ = a.inverse();
}

pub fn p610() {
    let a: re::math::mat::Mat4x4<re::math::mat::RealToReal<3, (), re::render::Model>> = mk();
    let _ = a.transpose();
}

pub fn p614() {
    let a: re::math::mat::Mat4x4<re::math::mat::RealToReal<3, (), ()>> = mk();
    let b: re::math::mat::Mat4x4<re::math::mat::RealToReal<3, re::render::Model, ()>> = mk();
    let _ = a.compose(&b);
}

pub fn p618() {
    let a: re::math::mat::Mat4x4<re::math::mat::RealToReal<3, (), ()>> = mk();
    let b: re::math::mat::Mat4x4<re::math::mat::RealToReal<3, (), re::render::Model>> = mk();
    let _ = a.then(&b);
}

pub fn p619() {
    let a: re::math::mat::Mat4x4<re::math::mat::RealToReal<3, (), ()>> = mk();
    let b: re::math::mat::Mat4x4<re::math::mat::RealToReal<3, (), ()>> = mk();
    let _ = a.compose(&b);
}

pub fn p620() {
    let a: re::math::mat::Mat4x4<re::math::mat::RealToReal<3, (), ()>> = mk();
    let b: re::math::mat::Mat4x4<re::math::mat::RealToReal<3, (), ()>> = mk();
    let _ = a.then(&b);
}

pub fn p622() {
    let a: re::math::mat::Mat4x4<re::math::mat::RealToReal<3, (), ()>> = mk();
    let b: re::math::mat::Mat4x4<re::math::mat::RealToReal<3, (), re::render::World>> = mk();
    let _ = a.then(&b);
}

pub fn p626() {
    let a: re::math::mat::Mat4x4<re::math::mat::RealToReal<3, (), ()>> = mk();
    let b: re::math::mat::Mat4x4<re::math::mat::RealToReal<3, re::render::World, ()>> = mk();
    let _ = a.compose(&b);
}

pub fn p632() {
    let a: re::math::mat::Mat4x4<re::math::mat::RealToReal<3, (), ()>> = mk();
    let b: re::math::mat::Mat4x4<re::math::mat::RealToProj<()>> = mk();
    let _ = a.then(&b);
}

pub fn p643() {
    let a: re::math::mat::Mat4x4<re::math::mat::RealToReal<3, (), ()>> = mk();
    let b: re::math::point::Point3<()> = mk();
    let _r: re::math::point::Point3<()> = a.apply_pt(&b);
}

pub fn p645() {
    let a: re::math::mat::Mat4x4<re::math::mat::RealToReal<3, (), ()>> = mk();
    let b: re::math::point::Point3<()> = mk();
    let _ = a.apply_pt(&b);
}

pub fn p658() {
    let a: re::math::mat::Mat4x4<re::math::mat::RealToReal<3, (), ()>> = mk();
    let b: re::math::vec::Vec3<()> = mk();
    let _r: re::math::vec::Vec3<()> = a.apply(&b);
}

pub fn p660() {
    let a: re::math::mat::Mat4x4<re::math::mat::RealToReal<3, (), ()>> = mk();
    let b: re::math::vec::Vec3<()> = mk();
    let _ = a.apply(&b);
}

pub fn p665() {
    let a: re::math::mat::Mat4x4<re::math::mat::RealToReal<3, (), ()>> = mk();
    let _ = a.determinant();
}

pub fn p666() {
    let a: re::math::mat::Mat4x4<re::math::mat::RealToReal<3, (), ()>> = mk();
    let _ = a.inverse();
}

pub fn p667() {
    let a: re::math::mat::Mat4x4<re::math::mat::RealToReal<3, (), ()>> = mk();
    let _ = a.transpose();
}

pub fn p671() {
    let a: re::math::mat::Mat4x4<re::math::mat::RealToReal<3, (), re::render::World>> = mk();
    let b: re::math::mat::Mat4x4<re::math::mat::RealToReal<3, re::render::Model, ()>> = mk();
    let _ = a.compose(&b);
}

pub fn p677() {
    let a: re::math::mat::Mat4x4<re::math::mat::RealToReal<3, (), re::render::World>> = mk();
    let b: re::math::mat::Mat4x4<re::math::mat::RealToReal<3, (), ()>> = mk();
    let _ = a.compose(&b);
}

pub fn p681() {
    let a: re::math::mat::Mat4x4<re::math::mat::RealToReal<3, (), re::render::World>> = mk();
    let b: re::math::mat::Mat4x4<re::math::mat::RealToReal<3, re::render::World, re::render::Model>> = mk();
    let _ = a.then(&b);
}

pub fn p682() {
    let a: re::math::mat::Mat4x4<re::math::mat::RealToReal<3, (), re::render::World>> = mk();
    let b: re::math::mat::Mat4x4<re::math::mat::RealToReal<3, re::render::World, ()>> = mk();
    let _ = a.compose(&b);
}

pub fn p683() {
    let a: re::math::mat::Mat4x4<re::math::mat::RealToReal<3, (), re::render::World>> = mk();
    let b: re::math::mat::Mat4x4<re::math::mat::RealToReal<3, re::render::World, ()>> = mk();
    let _ = a.then(&b);
}

pub fn p685() {
    let a: re::math::mat::Mat4x4<re::math::mat::RealToReal<3, (), re::render::World>> = mk();
    let b: re::math::mat::Mat4x4<re::math::mat::RealToReal<3, re::render::World, re::render::World>> = mk();
    let _ = a.then(&b);
}

pub fn p691() {
    let a: re::math::mat::Mat4x4<re::math::mat::RealToReal<3, (), re::render::World>> = mk();
    let b: re::math::mat::Mat4x4<re::math::mat::RealToProj<re::render::World>> = mk();
    let _ = a.then(&b);
}

pub fn p701() {
    let a: re::math::mat::Mat4x4<re::math::mat::RealToReal<3, (), re::render::World>> = mk();
    let b: re::math::point::Point3<()> = mk();
    let _r: re::math::point::Point3<re::render::World> = a.apply_pt(&b);
}

pub fn p702() {
    let a: re::math::mat::Mat4x4<re::math::mat::RealToReal<3, (), re::render::World>> = mk();
    let b: re::math::point::Point3<()> = mk();
    let _ = a.apply_pt(&b);
}

pub fn p716() {
    let a: re::math::mat::Mat4x4<re::math::mat::RealToReal<3, (), re::render::World>> = mk();
    let b: re::math::vec::Vec3<()> = mk();
    let _r: re::math::vec::Vec3<re::render::World> = a.apply(&b);
}

pub fn p717() {
    let a: re::math::mat::Mat4x4<re::math::mat::RealToReal<3, (), re::render::World>> = mk();
    let b: re::math::vec::Vec3<()> = mk();
    let _ = a.apply(&b);
}

pub fn p722() {
    let a: re::math::mat::Mat4x4<re::math::mat::RealToReal<3, (), re::render::World>> = mk();
    let _ = a.determinant();
}

pub fn p723() {
    let a: re::math::mat::Mat4x4<re::math::mat::RealToReal<3, (), re::render::World>> = mk();
    let _ = a.inverse();
}

pub fn p724() {
    let a: re::math::mat::Mat4x4<re::math::mat::RealToReal<3, (), re::render::World>> = mk();
    let _ = a.transpose();
}

pub fn p725() {
    let a: re::math::mat::Mat4x4<re::math::mat::RealToReal<3, crate::UserTag, crate::UserTag>> = mk();
    let b: re::math::mat::Mat4x4<re::math::mat::RealToReal<3, crate::UserTag, crate::UserTag>> = mk();
    let _ = a.compose(&b);
}

pub fn p726() {
    let a: re::math::mat::Mat4x4<re::math::mat::RealToReal<3, crate::UserTag, crate::UserTag>> = mk();
    let b: re::math::mat::Mat4x4<re::math::mat::RealToReal<3, crate::UserTag, crate::UserTag>> = mk();
    let _ = a.then(&b);
}

pub fn p728() {
    let a: re::math::mat::Mat4x4<re::math::mat::RealToReal<3, crate::UserTag, crate::UserTag>> = mk();
    let b: re::math::mat::Mat4x4<re::math::mat::RealToReal<3, crate::UserTag, re::render::World>> = mk();
    let _ = a.then(&b);
}

pub fn p730() {
    let a: re::math::mat::Mat4x4<re::math::mat::RealToReal<3, crate::UserTag, crate::UserTag>> = mk();
    let b: re::math::mat::Mat4x4<re::math::mat::RealToReal<3, re::render::World, crate::UserTag>> = mk();
    let _ = a.compose(&b);
}

pub fn p731() {
    let a: re::math::mat::Mat4x4<re::math::mat::RealToReal<3, crate::UserTag, crate::UserTag>> = mk();
    let b: re::math::point::Point3<crate::UserTag> = mk();
    let _ = a.apply_pt(&b);
}

pub fn p733() {
    let a: re::math::mat::Mat4x4<re::math::mat::RealToReal<3, crate::UserTag, crate::UserTag>> = mk();
    let b: re::math::vec::Vec3<crate::UserTag> = mk();
    let _ = a.apply(&b);
}

pub fn p735() {
    let a: re::math::mat::Mat4x4<re::math::mat::RealToReal<3, crate::UserTag, crate::UserTag>> = mk();
    let _ = a.determinant();
}

pub fn p736() {
    let a: re::math::mat::Mat4x4<re::math::mat::RealToReal<3, crate::UserTag, crate::UserTag>> = mk();
    let _ = a.inverse();
}

pub fn p737() {
    let a: re::math::mat::Mat4x4<re::math::mat::RealToReal<3, crate::UserTag, crate::UserTag>> = mk();
    let _ = a.transpose();
}

pub fn p739() {
    let a: re::math::mat::Mat4x4<re::math::mat::RealToReal<3, crate::UserTag, re::render::World>> = mk();
    let b: re::math::mat::Mat4x4<re::math::mat::RealToReal<3, crate::UserTag, crate::UserTag>> = mk();
    let _ = a.compose(&b);
}

pub fn p742() {
    let a: re::math::mat::Mat4x4<re::math::mat::RealToReal<3, crate::UserTag, re::render::World>> = mk();
    let b: re::math::mat::Mat4x4<re::math::mat::RealToReal<3, re::render::World, crate::UserTag>> = mk();
    let _ = a.compose(&b);
}

pub fn p743() {
    let a: re::math::mat::Mat4x4<re::math::mat::RealToReal<3, crate::UserTag, re::render::World>> = mk();
    let b: re::math::mat::Mat4x4<re::math::mat::RealToReal<3, re::render::World, crate::UserTag>> = mk();
    let _ = a.then(&b);
}

pub fn p744() {
    let a: re::math::mat::Mat4x4<re::math::mat::RealToReal<3, crate::UserTag, re::render::World>> = mk();
    let b: re::math::point::Point3<crate::UserTag> = mk();
    let _ = a.apply_pt(&b);
}

pub fn p746() {
    let a: re::math::mat::Mat4x4<re::math::mat::RealToReal<3, crate::UserTag, re::render::World>> = mk();
    let b: re::math::vec::Vec3<crate::UserTag> = mk();
    let _ = a.apply(&b);
}

pub fn p748() {
    let a: re::math::mat::Mat4x4<re::math::mat::RealToReal<3, crate::UserTag, re::render::World>> = mk();
    let _ = a.determinant();
}

pub fn p749() {
    let a: re::math::mat::Mat4x4<re::math::mat::RealToReal<3, crate::UserTag, re::render::World>> = mk();
    let _ = a.inverse();
}

pub fn p750() {
    let a: re::math::mat::Mat4x4<re::math::mat::RealToReal<3, crate::UserTag, re::render::World>> = mk();
    let _ = a.transpose();
}

pub fn p751() {
    let a: re::math::mat::Mat4x4<re::math::mat::RealToReal<3, re::render::View, re::render::Model>> = mk();
    let b: re::math::mat::Mat4x4<re::render::ModelToProj> = mk();
    let _ = a.then(&b);
}

pub fn p752() {
    let a: re::math::mat::Mat4x4<re::math::mat::RealToReal<3, re::render::View, re::render::Model>> = mk();
    let b: re::math::mat::Mat4x4<re::render::ModelToView> = mk();
    let _ = a.then(&b);
}

pub fn p753() {
    let a: re::math::mat::Mat4x4<re::math::mat::RealToReal<3, re::render::View, re::render::Model>> = mk();
    let b: re::math::mat::Mat4x4<re::render::ModelToWorld> = mk();
    let _ = a.then(&b);
}

pub fn p759() {
    let a: re::math::mat::Mat4x4<re::math::mat::RealToReal<3, re::render::View, re::render::Model>> = mk();
    let b: re::math::point::Point3<re::render::View> = mk();
    let _ = a.apply_pt(&b);
}

pub fn p763() {
    let a: re::math::mat::Mat4x4<re::math::mat::RealToReal<3, re::render::View, re::render::Model>> = mk();
    let _ = re::render::cam::Camera::new((8, 8)).mode(a.to());
}

pub fn p767() {
    let a: re::math::mat::Mat4x4<re::math::mat::RealToReal<3, re::render::View, re::render::View>> = mk();
    let b: re::math::mat::Mat4x4<re::render::ViewToProj> = mk();
    let _ = a.then(&b);
}

pub fn p772() {
    let a: re::math::mat::Mat4x4<re::math::mat::RealToReal<3, re::render::View, re::render::View>> = mk();
    let b: re::math::point::Point3<re::render::View> = mk();
    let _ = a.apply_pt(&b);
}

pub fn p776() {
    let a: re::math::mat::Mat4x4<re::math::mat::RealToReal<3, re::render::View, re::render::View>> = mk();
    let _ = re::render::cam::Camera::new((8, 8)).mode(a.to());
}

pub fn p781() {
    let a: re::math::mat::Mat4x4<re::math::mat::RealToReal<3, re::render::View, re::render::World>> = mk();
    let b: re::math::mat::Mat4x4<re::render::WorldToView> = mk();
    let _ = a.then(&b);
}

pub fn p785() {
    let a: re::math::mat::Mat4x4<re::math::mat::RealToReal<3, re::render::View, re::render::World>> = mk();
    let b: re::math::point::Point3<re::render::View> = mk();
    let _ = a.apply_pt(&b);
}

pub fn p789() {
    let a: re::math::mat::Mat4x4<re::math::mat::RealToReal<3, re::render::View, re::render::World>> = mk();
    let _ = re::render::cam::Camera::new((8, 8)).mode(a.to());
}

pub fn p790() {
    let a: re::math::mat::Mat4x4<re::math::mat::RealToReal<3, re::render::World, re::render::Model>> = mk();
    let b: re::math::mat::Mat4x4<re::render::ModelToProj> = mk();
    let _ = a.then(&b);
}

pub fn p791() {
    let a: re::math::mat::Mat4x4<re::math::mat::RealToReal<3, re::render::World, re::render::Model>> = mk();
    let b: re::math::mat::Mat4x4<re::render::ModelToView> = mk();
    let _ = a.then(&b);
}

pub fn p792() {
    let a: re::math::mat::Mat4x4<re::math::mat::RealToReal<3, re::render::World, re::render::Model>> = mk();
    let b: re::math::mat::Mat4x4<re::render::ModelToWorld> = mk();
    let _ = a.then(&b);
}

pub fn p800() {
    let a: re::math::mat::Mat4x4<re::math::mat::RealToReal<3, re::render::World, re::render::Model>> = mk();
    let b: re::math::mat::Mat4x4<re::math::mat::RealToReal<3, re::render::Model, re::render::Model>> = mk();
    let _ = a.then(&b);
}

pub fn p802() {
    let a: re::math::mat::Mat4x4<re::math::mat::RealToReal<3, re::render::World, re::render::Model>> = mk();
    let b: re::math::mat::Mat4x4<re::math::mat::RealToReal<3, re::render::Model, ()>> = mk();
    let _ = a.then(&b);
}

pub fn p803() {
    let a: re::math::mat::Mat4x4<re::math::mat::RealToReal<3, re::render::World, re::render::Model>> = mk();
    let b: re::math::mat::Mat4x4<re::math::mat::RealToReal<3, re::render::Model, re::render::World>> = mk();
    let _r: re::math::mat::Mat4x4<re::math::mat::RealToReal<3, re::render::Model, re::render::Model>> = a.compose(&b);
}

pub fn p807() {
    let a: re::math::mat::Mat4x4<re::math::mat::RealToReal<3, re::render::World, re::render::Model>> = mk();
    let b: re::math::mat::Mat4x4<re::math::mat::RealToReal<3, re::render::Model, re::render::World>> = mk();
    let _ = a.compose(&b);
}

pub fn p808() {
    let a: re::math::mat::Mat4x4<re::math::mat::RealToReal<3, re::render::World, re::render::Model>> = mk();
    let b: re::math::mat::Mat4x4<re::math::mat::RealToReal<3, re::render::Model, re::render::World>> = mk();
    let _ = a.then(&b);
}

pub fn p814() {
    let a: re::math::mat::Mat4x4<re::math::mat::RealToReal<3, re::render::World, re::render::Model>> = mk();
    let b: re::math::mat::Mat4x4<re::math::mat::RealToReal<3, (), re::render::World>> = mk();
    let _ = a.compose(&b);
}

pub fn p825() {
    let a: re::math::mat::Mat4x4<re::math::mat::RealToReal<3, re::render::World, re::render::Model>> = mk();
    let b: re::math::mat::Mat4x4<re::math::mat::RealToReal<3, re::render::World, re::render::World>> = mk();
    let _r: re::math::mat::Mat4x4<re::math::mat::RealToReal<3, re::render::World, re::render::Model>> = a.compose(&b);
}

pub fn p828() {
    let a: re::math::mat::Mat4x4<re::math::mat::RealToReal<3, re::render::World, re::render::Model>> = mk();
    let b: re::math::mat::Mat4x4<re::math::mat::RealToReal<3, re::render::World, re::render::World>> = mk();
    let _ = a.compose(&b);
}

pub fn p830() {
    let a: re::math::mat::Mat4x4<re::math::mat::RealToReal<3, re::render::World, re::render::Model>> = mk();
    let b: re::math::mat::Mat4x4<re::math::mat::RealToProj<re::render::Model>> = mk();
    let _ = a.then(&b);
}

pub fn p849() {
    let a: re::math::mat::Mat4x4<re::math::mat::RealToReal<3, re::render::World, re::render::Model>> = mk();
    let b: re::math::point::Point3<re::render::World> = mk();
    let _r: re::math::point::Point3<re::render::Model> = a.apply_pt(&b);
}

pub fn p853() {
    let a: re::math::mat::Mat4x4<re::math::mat::RealToReal<3, re::render::World, re::render::Model>> = mk();
    let b: re::math::point::Point3<re::render::World> = mk();
    let _ = a.apply_pt(&b);
}

pub fn p865() {
    let a: re::math::mat::Mat4x4<re::math::mat::RealToReal<3, re::render::World, re::render::Model>> = mk();
    let b: re::math::vec::Vec3<re::render::World> = mk();
    let _r: re::math::vec::Vec3<re::render::Model> = a.apply(&b);
}

pub fn p868() {
    let a: re::math::mat::Mat4x4<re::math::mat::RealToReal<3, re::render::World, re::render::Model>> = mk();
    let b: re::math::vec::Vec3<re::render::World> = mk();
    let _ = a.apply(&b);
}

pub fn p870() {
    let a: re::math::mat::Mat4x4<re::math::mat::RealToReal<3, re::render::World, re::render::Model>> = mk();
    let _ = re::render::cam::Camera::new((8, 8)).mode(a.to());
}

pub fn p871() {
    let a: re::math::mat::Mat4x4<re::math::mat::RealToReal<3, re::render::World, re::render::Model>> = mk();
    let _ = a.determinant();
}

pub fn p872() {
    let a: re::math::mat::Mat4x4<re::math::mat::RealToReal<3, re::render::World, re::render::Model>> = mk();
    let _ = a.inverse();
}

pub fn p873() {
    let a: re::math::mat::Mat4x4<re::math::mat::RealToReal<3, re::render::World, re::render::Model>> = mk();
    let _ = a.transpose();
}

pub fn p879() {
    let a: re::math::mat::Mat4x4<re::math::mat::RealToReal<3, re::render::World, ()>> = mk();
    let b: re::math::mat::Mat4x4<re::math::mat::RealToReal<3, re::render::Model, re::render::World>> = mk();
    let _ = a.compose(&b);
}

pub fn p881() {
    let a: re::math::mat::Mat4x4<re::math::mat::RealToReal<3, re::render::World, ()>> = mk();
    let b: re::math::mat::Mat4x4<re::math::mat::RealToReal<3, (), re::render::Model>> = mk();
    let _ = a.then(&b);
}

pub fn p883() {
    let a: re::math::mat::Mat4x4<re::math::mat::RealToReal<3, re::render::World, ()>> = mk();
    let b: re::math::mat::Mat4x4<re::math::mat::RealToReal<3, (), ()>> = mk();
    let _ = a.then(&b);
}

pub fn p884() {
    let a: re::math::mat::Mat4x4<re::math::mat::RealToReal<3, re::render::World, ()>> = mk();
    let b: re::math::mat::Mat4x4<re::math::mat::RealToReal<3, (), re::render::World>> = mk();
    let _ = a.compose(&b);
}

pub fn p885() {
    let a: re::math::mat::Mat4x4<re::math::mat::RealToReal<3, re::render::World, ()>> = mk();
    let b: re::math::mat::Mat4x4<re::math::mat::RealToReal<3, (), re::render::World>> = mk();
    let _ = a.then(&b);
}

pub fn p891() {
    let a: re::math::mat::Mat4x4<re::math::mat::RealToReal<3, re::render::World, ()>> = mk();
    let b: re::math::mat::Mat4x4<re::math::mat::RealToReal<3, re::render::World, re::render::World>> = mk();
    let _ = a.compose(&b);
}

pub fn p895() {
    let a: re::math::mat::Mat4x4<re::math::mat::RealToReal<3, re::render::World, ()>> = mk();
    let b: re::math::mat::Mat4x4<re::math::mat::RealToProj<()>> = mk();
    let _ = a.then(&b);
}

pub fn p910() {
    let a: re::math::mat::Mat4x4<re::math::mat::RealToReal<3, re::render::World, ()>> = mk();
    let b: re::math::point::Point3<re::render::World> = mk();
    let _r: re::math::point::Point3<()> = a.apply_pt(&b);
}

pub fn p912() {
    let a: re::math::mat::Mat4x4<re::math::mat::RealToReal<3, re::render::World, ()>> = mk();
    let b: re::math::point::Point3<re::render::World> = mk();
    let _ = a.apply_pt(&b);
}

pub fn p925() {
    let a: re::math::mat::Mat4x4<re::math::mat::RealToReal<3, re::render::World, ()>> = mk();
    let b: re::math::vec::Vec3<re::render::World> = mk();
    let _r: re::math::vec::Vec3<()> = a.apply(&b);
}

pub fn p927() {
    let a: re::math::mat::Mat4x4<re::math::mat::RealToReal<3, re::render::World, ()>> = mk();
    let b: re::math::vec::Vec3<re::render::World> = mk();
    let _ = a.apply(&b);
}

pub fn p928() {
    let a: re::math::mat::Mat4x4<re::math::mat::RealToReal<3, re::render::World, ()>> = mk();
    let _ = a.determinant();
}

pub fn p929() {
    let a: re::math::mat::Mat4x4<re::math::mat::RealToReal<3, re::render::World, ()>> = mk();
    let _ = a.inverse();
}

pub fn p930() {
    let a: re::math::mat::Mat4x4<re::math::mat::RealToReal<3, re::render::World, ()>> = mk();
    let _ = a.transpose();
}

pub fn p932() {
    let a: re::math::mat::Mat4x4<re::math::mat::RealToReal<3, re::render::World, crate::UserTag>> = mk();
    let b: re::math::mat::Mat4x4<re::math::mat::RealToReal<3, crate::UserTag, crate::UserTag>> = mk();
    let _ = a.then(&b);
}

pub fn p933() {
    let a: re::math::mat::Mat4x4<re::math::mat::RealToReal<3, re::render::World, crate::UserTag>> = mk();
    let b: re::math::mat::Mat4x4<re::math::mat::RealToReal<3, crate::UserTag, re::render::World>> = mk();
    let _ = a.compose(&b);
}

pub fn p934() {
    let a: re::math::mat::Mat4x4<re::math::mat::RealToReal<3, re::render::World, crate::UserTag>> = mk();
    let b: re::math::mat::Mat4x4<re::math::mat::RealToReal<3, crate::UserTag, re::render::World>> = mk();
    let _ = a.then(&b);
}

pub fn p938() {
    let a: re::math::mat::Mat4x4<re::math::mat::RealToReal<3, re::render::World, crate::UserTag>> = mk();
    let b: re::math::point::Point3<re::render::World> = mk();
    let _ = a.apply_pt(&b);
}

pub fn p940() {
    let a: re::math::mat::Mat4x4<re::math::mat::RealToReal<3, re::render::World, crate::UserTag>> = mk();
    let b: re::math::vec::Vec3<re::render::World> = mk();
    let _ = a.apply(&b);
}

pub fn p941() {
    let a: re::math::mat::Mat4x4<re::math::mat::RealToReal<3, re::render::World, crate::UserTag>> = mk();
    let _ = a.determinant();
}

pub fn p942() {
    let a: re::math::mat::Mat4x4<re::math::mat::RealToReal<3, re::render::World, crate::UserTag>> = mk();
    let _ = a.inverse();
}

pub fn p943() {
    let a: re::math::mat::Mat4x4<re::math::mat::RealToReal<3, re::render::World, crate::UserTag>> = mk();
    let _ = a.transpose();
}

pub fn p947() {
    let a: re::math::mat::Mat4x4<re::math::mat::RealToReal<3, re::render::World, re::render::View>> = mk();
    let b: re::math::mat::Mat4x4<re::render::ViewToProj> = mk();
    let _ = a.then(&b);
}

pub fn p954() {
    let a: re::math::mat::Mat4x4<re::math::mat::RealToReal<3, re::render::World, re::render::View>> = mk();
    let b: re::math::point::Point3<re::render::World> = mk();
    let _ = a.apply_pt(&b);
}

pub fn p955() {
    let a: re::math::mat::Mat4x4<re::math::mat::RealToReal<3, re::render::World, re::render::View>> = mk();
    let _ = re::render::cam::Camera::new((8, 8)).mode(a);
}

pub fn p956() {
    let a: re::math::mat::Mat4x4<re::math::mat::RealToReal<3, re::render::World, re::render::View>> = mk();
    let _ = re::render::cam::Camera::new((8, 8)).mode(a.to());
}

pub fn p961() {
    let a: re::math::mat::Mat4x4<re::math::mat::RealToReal<3, re::render::World, re::render::World>> = mk();
    let b: re::math::mat::Mat4x4<re::render::WorldToView> = mk();
    let _ = a.then(&b);
}

pub fn p971() {
    let a: re::math::mat::Mat4x4<re::math::mat::RealToReal<3, re::render::World, re::render::World>> = mk();
    let b: re::math::mat::Mat4x4<re::math::mat::RealToReal<3, re::render::Model, re::render::World>> = mk();
    let _r: re::math::mat::Mat4x4<re::math::mat::RealToReal<3, re::render::Model, re::render::World>> = a.compose(&b);
}

pub fn p975() {
    let a: re::math::mat::Mat4x4<re::math::mat::RealToReal<3, re::render::World, re::render::World>> = mk();
    let b: re::math::mat::Mat4x4<re::math::mat::RealToReal<3, re::render::Model, re::render::World>> = mk();
    let _ = a.compose(&b);
}

pub fn p981() {
    let a: re::math::mat::Mat4x4<re::math::mat::RealToReal<3, re::render::World, re::render::World>> = mk();
    let b: re::math::mat::Mat4x4<re::math::mat::RealToReal<3, (), re::render::World>> = mk();
    let _ = a.compose(&b);
}

pub fn p987() {
    let a: re::math::mat::Mat4x4<re::math::mat::RealToReal<3, re::render::World, re::render::World>> = mk();
    let b: re::math::mat::Mat4x4<re::math::mat::RealToReal<3, re::render::World, re::render::Model>> = mk();
    let _ = a.then(&b);
}

pub fn p989() {
    let a: re::math::mat::Mat4x4<re::math::mat::RealToReal<3, re::render::World, re::render::World>> = mk();
    let b: re::math::mat::Mat4x4<re::math::mat::RealToReal<3, re::render::World, ()>> = mk();
    let _ = a.then(&b);
}

pub fn p993() {
    let a: re::math::mat::Mat4x4<re::math::mat::RealToReal<3, re::render::World, re::render::World>> = mk();
    let b: re::math::mat::Mat4x4<re::math::mat::RealToReal<3, re::render::World, re::render::World>> = mk();
    let _r: re::math::mat::Mat4x4<re::math::mat::RealToReal<3, re::render::World, re::render::World>> = a.compose(&b);
}

pub fn p994() {
    let a: re::math::mat::Mat4x4<re::math::mat::RealToReal<3, re::render::World, re::render::World>> = mk();
    let b: re::math::mat::Mat4x4<re::math::mat::RealToReal<3, re::render::World, re::render::World>> = mk();
    let _ = a.compose(&b);
}

pub fn p995() {
    let a: re::math::mat::Mat4x4<re::math::mat::RealToReal<3, re::render::World, re::render::World>> = mk();
    let b: re::math::mat::Mat4x4<re::math::mat::RealToReal<3, re::render::World, re::render::World>> = mk();
    let _ = a.then(&b);
}

pub fn p1001() {
    let a: re::math::mat::Mat4x4<re::math::mat::RealToReal<3, re::render::World, re::render::World>> = mk();
    let b: re::math::mat::Mat4x4<re::math::mat::RealToProj<re::render::World>> = mk();
    let _ = a.then(&b);
}

pub fn p1018() {
    let a: re::math::mat::Mat4x4<re::math::mat::RealToReal<3, re::render::World, re::render::World>> = mk();
    let b: re::math::point::Point3<re::render::World> = mk();
    let _r: re::math::point::Point3<re::render::World> = a.apply_pt(&b);
}

pub fn p1020() {
    let a: re::math::mat::Mat4x4<re::math::mat::RealToReal<3, re::render::World, re::render::World>> = mk();
    let b: re::math::point::Point3<re::render::World> = mk();
    let _ = a.apply_pt(&b);
}

pub fn p1034() {
    let a: re::math::mat::Mat4x4<re::math::mat::RealToReal<3, re::render::World, re::render::World>> = mk();
    let b: re::math::vec::Vec3<re::render::World> = mk();
    let _r: re::math::vec::Vec3<re::render::World> = a.apply(&b);
}

pub fn p1035() {
    let a: re::math::mat::Mat4x4<re::math::mat::RealToReal<3, re::render::World, re::render::World>> = mk();
    let b: re::math::vec::Vec3<re::render::World> = mk();
    let _ = a.apply(&b);
}

pub fn p1037() {
    let a: re::math::mat::Mat4x4<re::math::mat::RealToReal<3, re::render::World, re::render::World>> = mk();
    let _ = re::render::cam::Camera::new((8, 8)).mode(a.to());
}

pub fn p1038() {
    let a: re::math::mat::Mat4x4<re::math::mat::RealToReal<3, re::render::World, re::render::World>> = mk();
    let _ = a.determinant();
}

pub fn p1039() {
    let a: re::math::mat::Mat4x4<re::math::mat::RealToReal<3, re::render::World, re::render::World>> = mk();
    let _ = a.inverse();
}

pub fn p1040() {
    let a: re::math::mat::Mat4x4<re::math::mat::RealToReal<3, re::render::World, re::render::World>> = mk();
    let _ = a.transpose();
}

pub fn p1047() {
    let a: re::math::mat::Mat4x4<re::math::mat::RealToProj<re::render::Model>> = mk();
    let b: re::math::mat::Mat4x4<re::math::mat::RealToReal<3, re::render::Model, re::render::Model>> = mk();
    let _ = a.compose(&b);
}

pub fn p1053() {
    let a: re::math::mat::Mat4x4<re::math::mat::RealToProj<re::render::Model>> = mk();
    let b: re::math::mat::Mat4x4<re::math::mat::RealToReal<3, (), re::render::Model>> = mk();
    let _ = a.compose(&b);
}

pub fn p1059() {
    let a: re::math::mat::Mat4x4<re::math::mat::RealToProj<re::render::Model>> = mk();
    let b: re::math::mat::Mat4x4<re::math::mat::RealToReal<3, re::render::World, re::render::Model>> = mk();
    let _ = a.compose(&b);
}

pub fn p1064() {
    let a: re::math::mat::Mat4x4<re::math::mat::RealToProj<re::render::Model>> = mk();
    let b: re::math::point::Point3<re::render::Model> = mk();
    let _ = a.apply(&b);
}

pub fn p1076() {
    let a: re::math::mat::Mat4x4<re::math::mat::RealToProj<re::render::Model>> = mk();
    let _ = re::render::cam::Camera::new((8, 8)).mode(a.to());
}

pub fn p1083() {
    let a: re::math::mat::Mat4x4<re::math::mat::RealToProj<()>> = mk();
    let b: re::math::mat::Mat4x4<re::math::mat::RealToReal<3, re::render::Model, ()>> = mk();
    let _ = a.compose(&b);
}

pub fn p1089() {
    let a: re::math::mat::Mat4x4<re::math::mat::RealToProj<()>> = mk();
    let b: re::math::mat::Mat4x4<re::math::mat::RealToReal<3, (), ()>> = mk();
    let _ = a.compose(&b);
}

pub fn p1095() {
    let a: re::math::mat::Mat4x4<re::math::mat::RealToProj<()>> = mk();
    let b: re::math::mat::Mat4x4<re::math::mat::RealToReal<3, re::render::World, ()>> = mk();
    let _ = a.compose(&b);
}

pub fn p1100() {
    let a: re::math::mat::Mat4x4<re::math::mat::RealToProj<()>> = mk();
    let b: re::math::point::Point3<()> = mk();
    let _ = a.apply(&b);
}

pub fn p1117() {
    let a: re::math::mat::Mat4x4<re::math::mat::RealToProj<re::render::View>> = mk();
    let b: re::math::point::Point3<re::render::View> = mk();
    let _ = a.apply(&b);
}

pub fn p1122() {
    let a: re::math::mat::Mat4x4<re::math::mat::RealToProj<re::render::View>> = mk();
    let _ = re::render::cam::Camera::new((8, 8)).mode(a.to());
}

pub fn p1133() {
    let a: re::math::mat::Mat4x4<re::math::mat::RealToProj<re::render::World>> = mk();
    let b: re::math::mat::Mat4x4<re::math::mat::RealToReal<3, re::render::Model, re::render::World>> = mk();
    let _ = a.compose(&b);
}

pub fn p1139() {
    let a: re::math::mat::Mat4x4<re::math::mat::RealToProj<re::render::World>> = mk();
    let b: re::math::mat::Mat4x4<re::math::mat::RealToReal<3, (), re::render::World>> = mk();
    let _ = a.compose(&b);
}

pub fn p1145() {
    let a: re::math::mat::Mat4x4<re::math::mat::RealToProj<re::render::World>> = mk();
    let b: re::math::mat::Mat4x4<re::math::mat::RealToReal<3, re::render::World, re::render::World>> = mk();
    let _ = a.compose(&b);
}

pub fn p1152() {
    let a: re::math::mat::Mat4x4<re::math::mat::RealToProj<re::render::World>> = mk();
    let b: re::math::point::Point3<re::render::World> = mk();
    let _ = a.apply(&b);
}

pub fn p1158() {
    let a: re::math::mat::Mat4x4<re::math::mat::RealToProj<re::render::World>> = mk();
    let _ = re::render::cam::Camera::new((8, 8)).mode(a.to());
}

pub fn p1168() {
    use re::geom::{Tri, Vertex};
    let vs = |_: Vertex<re::math::point::Point3<re::render::Model>, ()>, _: ()| -> Vertex<re::math::vec::ProjVec4, f32> { mk() };
    let fs = |_: re::render::raster::Frag<f32>| -> Option<re::math::color::Color4> { mk() };
    let sh = re::render::shader::Shader::new(vs, fs);
    let mut target: re::util::buf::Buf2<u32> = mk();
    let tris: Vec<Tri<usize>> = mk();
    let verts: Vec<Vertex<re::math::point::Point3<re::render::Model>, ()>> = mk();
    re::render::render(&tris, &verts, &sh, (), mk(), &mut target, &mk::<re::render::Context>());
}

pub fn p1173() {
    let a: re::math::point::Point2<re::render::Model> = mk();
    let b: re::math::point::Point2<re::render::Model> = mk();
    let _ = re::math::Lerp::lerp(&a, &b, 0.5);
}

pub fn p1174() {
    let a: re::math::point::Point2<re::render::Model> = mk();
    let b: re::math::point::Point2<re::render::Model> = mk();
    let _ = a - b;
}

pub fn p1193() {
    let a: re::math::point::Point2<re::render::Model> = mk();
    let b: re::math::vec::Vec2<re::render::Model> = mk();
    let _ = a + b;
}

pub fn p1201() {
    let a: re::math::point::Point2<()> = mk();
    let b: re::math::angle::PolarVec = mk();
    let _ = a + b.to_cart();
}

pub fn p1202() {
    let a: re::math::point::Point2<()> = mk();
    let b: re::math::angle::PolarVec = mk();
    let _ = a + b.into();
}

pub fn p1207() {
    let a: re::math::point::Point2<()> = mk();
    let b: re::math::point::Point2<()> = mk();
    let _ = re::math::Lerp::lerp(&a, &b, 0.5);
}

pub fn p1208() {
    let a: re::math::point::Point2<()> = mk();
    let b: re::math::point::Point2<()> = mk();
    let _ = a - b;
}

pub fn p1225() {
    let a: re::math::point::Point2<()> = mk();
    let b: re::math::vec::Vec2<()> = mk();
    let _ = a + b;
}

pub fn p1238() {
    let a: re::math::point::Point2<re::render::World> = mk();
    let b: re::math::point::Point2<re::render::World> = mk();
    let _ = re::math::Lerp::lerp(&a, &b, 0.5);
}

pub fn p1239() {
    let a: re::math::point::Point2<re::render::World> = mk();
    let b: re::math::point::Point2<re::render::World> = mk();
    let _ = a - b;
}

pub fn p1251() {
    let a: re::math::point::Point2<re::render::World> = mk();
    let b: re::math::vec::Vec2<re::render::World> = mk();
    let _ = a + b;
}

pub fn p1269() {
    let a: re::math::point::Point3<re::render::Model> = mk();
    let b: re::math::point::Point3<re::render::Model> = mk();
    let c: re::math::point::Point3<re::render::Model> = mk();
    let d = re::math::space::Affine::sub(&a, &b);
    let _ = re::math::space::Affine::add(&c, &d);
}

pub fn p1274() {
    let a: re::math::point::Point3<re::render::Model> = mk();
    let b: re::math::point::Point3<re::render::Model> = mk();
    let _r: re::math::vec::Vec3<re::render::Model> = a - b;
}

pub fn p1278() {
    let a: re::math::point::Point3<re::render::Model> = mk();
    let b: re::math::point::Point3<re::render::Model> = mk();
    let _ = re::math::Lerp::lerp(&a, &b, 0.5);
}

pub fn p1279() {
    let a: re::math::point::Point3<re::render::Model> = mk();
    let b: re::math::point::Point3<re::render::Model> = mk();
    let _ = a - b;
}

pub fn p1310() {
    let a: re::math::point::Point3<re::render::Model> = mk();
    let b: re::math::vec::Vec3<re::render::Model> = mk();
    let _ = a + b;
}

pub fn p1342() {
    let a: re::math::point::Point3<()> = mk();
    let b: re::math::point::Point3<()> = mk();
    let c: re::math::point::Point3<()> = mk();
    let d = re::math::space::Affine::sub(&a, &b);
    let _ = re::math::space::Affine::add(&c, &d);
}

pub fn p1346() {
    let a: re::math::point::Point3<()> = mk();
    let b: re::math::point::Point3<()> = mk();
    let _r: re::math::vec::Vec3<()> = a - b;
}

pub fn p1349() {
    let a: re::math::point::Point3<()> = mk();
    let b: re::math::point::Point3<()> = mk();
    let _ = re::math::Lerp::lerp(&a, &b, 0.5);
}

pub fn p1350() {
    let a: re::math::point::Point3<()> = mk();
    let b: re::math::point::Point3<()> = mk();
    let _ = a - b;
}

pub fn p1364() {
    let a: re::math::point::Point3<()> = mk();
    let b: re::math::angle::SphericalVec = mk();
    let _ = a + b.to_cart();
}

pub fn p1365() {
    let a: re::math::point::Point3<()> = mk();
    let b: re::math::angle::SphericalVec = mk();
    let _ = a + b.into();
}

pub fn p1370() {
    let a: re::math::point::Point3<()> = mk();
    let b: re::math::vec::Vec3<()> = mk();
    let _ = a + b;
}

pub fn p1411() {
    let a: re::math::point::Point3<re::render::World> = mk();
    let b: re::math::point::Point3<re::render::World> = mk();
    let c: re::math::point::Point3<re::render::World> = mk();
    let d = re::math::space::Affine::sub(&a, &b);
    let _ = re::math::space::Affine::add(&c, &d);
}

pub fn p1414() {
    let a: re::math::point::Point3<re::render::World> = mk();
    let b: re::math::point::Point3<re::render::World> = mk();
    let _r: re::math::vec::Vec3<re::render::World> = a - b;
}

pub fn p1416() {
    let a: re::math::point::Point3<re::render::World> = mk();
    let b: re::math::point::Point3<re::render::World> = mk();
    let _ = re::math::Lerp::lerp(&a, &b, 0.5);
}

pub fn p1417() {
    let a: re::math::point::Point3<re::render::World> = mk();
    let b: re::math::point::Point3<re::render::World> = mk();
    let _ = a - b;
}

pub fn p1423() {
    let a: re::math::point::Point3<re::render::World> = mk();
    let b: re::math::vec::Vec3<re::render::World> = mk();
    let _ = a + b;
}

pub fn p1437() {
    let a: re::math::vec::Vec2<re::render::Model> = mk();
    let b: re::math::vec::Vec2<re::render::Model> = mk();
    let _ = a + b;
}

pub fn p1438() {
    let a: re::math::vec::Vec2<re::render::Model> = mk();
    let b: re::math::vec::Vec2<re::render::Model> = mk();
    let _ = a.dot(&b);
}

pub fn p1439() {
    let a: re::math::vec::Vec2<re::render::Model> = mk();
    let b: re::math::vec::Vec2<re::render::Model> = mk();
    let _ = re::math::Lerp::lerp(&a, &b, 0.5);
}

pub fn p1440() {
    let a: re::math::vec::Vec2<re::render::Model> = mk();
    let b: re::math::vec::Vec2<re::render::Model> = mk();
    let _ = a - b;
}

pub fn p1461() {
    let a: re::math::vec::Vec2<re::render::Model> = mk();
    let _ = [a.clone(), a].into_iter().sum::<re::math::vec::Vec2<re::render::Model>>();
}

pub fn p1463() {
    let a: re::math::vec::Vec2<()> = mk();
    let b: re::math::angle::PolarVec = mk();
    let _ = a + b.to_cart();
}

pub fn p1464() {
    let a: re::math::vec::Vec2<()> = mk();
    let b: re::math::angle::PolarVec = mk();
    let _ = a + b.into();
}

pub fn p1478() {
    let a: re::math::vec::Vec2<()> = mk();
    let b: re::math::vec::Vec2<()> = mk();
    let _ = a + b;
}

pub fn p1479() {
    let a: re::math::vec::Vec2<()> = mk();
    let b: re::math::vec::Vec2<()> = mk();
    let _ = a.dot(&b);
}

pub fn p1480() {
    let a: re::math::vec::Vec2<()> = mk();
    let b: re::math::vec::Vec2<()> = mk();
    let _ = re::math::Lerp::lerp(&a, &b, 0.5);
}

pub fn p1481() {
    let a: re::math::vec::Vec2<()> = mk();
    let b: re::math::vec::Vec2<()> = mk();
    let _ = a - b;
}

pub fn p1498() {
    let a: re::math::vec::Vec2<()> = mk();
    let _ = [a.clone(), a].into_iter().sum::<re::math::vec::Vec2<()>>();
}

pub fn p1513() {
    let a: re::math::vec::Vec2<re::render::World> = mk();
    let b: re::math::vec::Vec2<re::render::World> = mk();
    let _ = a + b;
}

pub fn p1514() {
    let a: re::math::vec::Vec2<re::render::World> = mk();
    let b: re::math::vec::Vec2<re::render::World> = mk();
    let _ = a.dot(&b);
}

pub fn p1515() {
    let a: re::math::vec::Vec2<re::render::World> = mk();
    let b: re::math::vec::Vec2<re::render::World> = mk();
    let _ = re::math::Lerp::lerp(&a, &b, 0.5);
}

pub fn p1516() {
    let a: re::math::vec::Vec2<re::render::World> = mk();
    let b: re::math::vec::Vec2<re::render::World> = mk();
    let _ = a - b;
}

pub fn p1529() {
    let a: re::math::vec::Vec2<re::render::World> = mk();
    let _ = [a.clone(), a].into_iter().sum::<re::math::vec::Vec2<re::render::World>>();
}

pub fn p1554() {
    let a: re::math::vec::Vec3<re::render::Model> = mk();
    let b: re::math::vec::Vec3<re::render::Model> = mk();
    let _ = a + b;
}

pub fn p1555() {
    let a: re::math::vec::Vec3<re::render::Model> = mk();
    let b: re::math::vec::Vec3<re::render::Model> = mk();
    let _ = a.dot(&b);
}

pub fn p1556() {
    let a: re::math::vec::Vec3<re::render::Model> = mk();
    let b: re::math::vec::Vec3<re::render::Model> = mk();
    let _ = re::math::Lerp::lerp(&a, &b, 0.5);
}

pub fn p1557() {
    let a: re::math::vec::Vec3<re::render::Model> = mk();
    let b: re::math::vec::Vec3<re::render::Model> = mk();
    let _ = a - b;
}

pub fn p1566() {
    let a: re::math::vec::Vec3<re::render::Model> = mk();
    let _ = [a.clone(), a].into_iter().sum::<re::math::vec::Vec3<re::render::Model>>();
}

pub fn p1578() {
    let a: re::math::vec::Vec3<()> = mk();
    let b: re::math::angle::SphericalVec = mk();
    let _ = a + b.to_cart();
}

pub fn p1579() {
    let a: re::math::vec::Vec3<()> = mk();
    let b: re::math::angle::SphericalVec = mk();
    let _ = a + b.into();
}

pub fn p1596() {
    let a: re::math::vec::Vec3<()> = mk();
    let b: re::math::vec::Vec3<()> = mk();
    let _ = a + b;
}

pub fn p1597() {
    let a: re::math::vec::Vec3<()> = mk();
    let b: re::math::vec::Vec3<()> = mk();
    let _ = a.dot(&b);
}

pub fn p1598() {
    let a: re::math::vec::Vec3<()> = mk();
    let b: re::math::vec::Vec3<()> = mk();
    let _ = re::math::Lerp::lerp(&a, &b, 0.5);
}

pub fn p1599() {
    let a: re::math::vec::Vec3<()> = mk();
    let b: re::math::vec::Vec3<()> = mk();
    let _ = a - b;
}

pub fn p1604() {
    let a: re::math::vec::Vec3<()> = mk();
    let _ = [a.clone(), a].into_iter().sum::<re::math::vec::Vec3<()>>();
}

pub fn p1605() {
    let a: re::math::vec::Vec3<crate::UserTag> = mk();
    let b: re::math::vec::Vec3<crate::UserTag> = mk();
    let _ = a + b;
}

pub fn p1606() {
    let a: re::math::vec::Vec3<crate::UserTag> = mk();
    let b: re::math::vec::Vec3<crate::UserTag> = mk();
    let _ = a.dot(&b);
}

pub fn p1607() {
    let a: re::math::vec::Vec3<crate::UserTag> = mk();
    let b: re::math::vec::Vec3<crate::UserTag> = mk();
    let _ = re::math::Lerp::lerp(&a, &b, 0.5);
}

pub fn p1608() {
    let a: re::math::vec::Vec3<crate::UserTag> = mk();
    let b: re::math::vec::Vec3<crate::UserTag> = mk();
    let _ = a - b;
}

pub fn p1643() {
    let a: re::math::vec::Vec3<re::render::World> = mk();
    let b: re::math::vec::Vec3<re::render::World> = mk();
    let _ = a + b;
}

pub fn p1644() {
    let a: re::math::vec::Vec3<re::render::World> = mk();
    let b: re::math::vec::Vec3<re::render::World> = mk();
    let _ = a.dot(&b);
}

pub fn p1645() {
    let a: re::math::vec::Vec3<re::render::World> = mk();
    let b: re::math::vec::Vec3<re::render::World> = mk();
    let _ = re::math::Lerp::lerp(&a, &b, 0.5);
}

pub fn p1646() {
    let a: re::math::vec::Vec3<re::render::World> = mk();
    let b: re::math::vec::Vec3<re::render::World> = mk();
    let _ = a - b;
}

pub fn p1647() {
    let a: re::math::vec::Vec3<re::render::World> = mk();
    let _ = [a.clone(), a].into_iter().sum::<re::math::vec::Vec3<re::render::World>>();
}

